#include "Simbody.h"
#include <cstdio>
using namespace SimTK;
struct Pend { MultibodySystem sys; SimbodyMatterSubsystem m; GeneralForceSubsystem f; Force::UniformGravity g; MobilizedBody::Pin p; State s;
  Pend() : m(sys), f(sys), g(f, m, Vec3(0,-9.8,0)), p(m.Ground(), Transform(), Body::Rigid(MassProperties(1,Vec3(0,-1,0),Inertia(1))), Transform())
  { s = sys.realizeTopology(); sys.realizeModel(s); p.setAngle(s, 1.0); } };
static const char* S(Integrator::SuccessfulStepStatus st) { static String x; x = Integrator::getSuccessfulStepStatusString(st); return x.c_str(); }

// R1: AbstractIntegratorRep: stepping is accepted again after EndOfSimulation
static void r1() { Pend P; RungeKutta3Integrator integ(P.sys); integ.setFinalTime(0.5); integ.initialize(P.s);
  Integrator::SuccessfulStepStatus st; do st = integ.stepTo(1.0); while (st != Integrator::EndOfSimulation);
  // what TimeStepper does when a Termination handler changed the state:
  integ.updAdvancedState().updU()[0] *= 0.5; integ.reinitialize(Stage::Velocity, false);
  printf("isSimulationOver=%d\n", (int)integ.isSimulationOver());
  try { st = integ.stepTo(1.0); printf("stepTo accepted: %s, isSimulationOver=%d\n", S(st), (int)integ.isSimulationOver());
        st = integ.stepTo(1.0); printf("then: %s (second EndOfSimulation)\n", S(st)); }
  catch (const std::exception& e) { printf("refused (expected)\n"); } }

// R2: CPodes, interpolation disallowed: after an event trigger whose handler changes nothing, a report time
//     between the event and CPODES' internal time is refused with StepFailed
class Nop : public TriggeredEventHandler { public: Nop() : TriggeredEventHandler(Stage::Time) {}
  Real getValue(const State& s) const override { return s.getTime() - 0.5; }
  void handleEvent(State&, Real, bool&) const override {} };
static void r2() { Pend P; P.sys.addEventHandler(new Nop); P.s = P.sys.realizeTopology(); P.sys.realizeModel(P.s); P.p.setAngle(P.s, 1.0);
  CPodesIntegrator integ(P.sys); integ.setAllowInterpolation(false);
  TimeStepper ts(P.sys, integ); ts.setReportAllSignificantStates(true); ts.initialize(P.s);
  Integrator::SuccessfulStepStatus st; do { st = ts.stepTo(1.0); printf("%s t=%.17g adv=%.17g\n", S(st), integ.getTime(), integ.getAdvancedTime()); } while (st != Integrator::ReachedEventTrigger);
  try { st = ts.stepTo(integ.getAdvancedTime() + 1e-3); printf("%s t=%.17g\n", S(st), integ.getTime()); }
  catch (const std::exception& e) { printf("THREW: %s\n", e.what()); } }

// R3: CPodes: scheduled event at the final time + handler that changes the state => integrates past the final time
static void r3(bool interp) { Pend P; CPodesIntegrator integ(P.sys); integ.setFinalTime(0.5); integ.setAllowInterpolation(interp); integ.initialize(P.s);
  Integrator::SuccessfulStepStatus st; do { st = integ.stepTo(1.0, 0.5); printf("%s t=%.17g\n", S(st), integ.getTime()); } while (st != Integrator::ReachedScheduledEvent);
  integ.updAdvancedState().updU()[0] *= 0.5; integ.reinitialize(Stage::Velocity, false);
  for (int k = 0; k < 3 && !integ.isSimulationOver(); ++k) { st = integ.stepTo(1.0); printf("%s t=%.17g adv=%.17g (final time 0.5)\n", S(st), integ.getTime(), integ.getAdvancedTime()); } }

// R4: CPodes, return-every-step + final time: EndOfSimulation although the state at the final time was never returned
static void r4() { Pend P; CPodesIntegrator integ(P.sys, CPodes::Adams); integ.setFinalTime(0.5); integ.setReturnEveryInternalStep(true); integ.setAccuracy(1e-2); integ.initialize(P.s);
  Real tR = 0.013, last = -1; Integrator::SuccessfulStepStatus st;
  for (;;) { st = integ.stepTo(tR); printf("%s t=%.17g adv=%.17g interp=%d\n", S(st), integ.getTime(), integ.getAdvancedTime(), (int)integ.isStateInterpolated());
    if (st == Integrator::EndOfSimulation) break; last = integ.getTime(); if (st == Integrator::ReachedReportTime) tR = integ.getTime() + 0.013; }
  printf("last state returned before EndOfSimulation: t=%.17g (final time 0.5)\n", last); }

// R5: CPodes: ReachedStepLimit although no internal step limit was set (documented: unlimited)
static void r5() { Pend P; CPodesIntegrator integ(P.sys); integ.setAccuracy(1e-9); integ.initialize(P.s);
  Integrator::SuccessfulStepStatus st = integ.stepTo(100.0); st = integ.stepTo(100.0);
  printf("%s t=%g steps=%d\n", S(st), integ.getTime(), integ.getNumStepsTaken()); }

// R6: CPodes: returned time decreases (by one ulp) when a witness has its zero exactly at a scheduled time
static void r6() { Pend P; P.sys.addEventHandler(new Nop); P.s = P.sys.realizeTopology(); P.sys.realizeModel(P.s); P.p.setAngle(P.s, 1.0);
  CPodesIntegrator integ(P.sys); integ.setAllowInterpolation(false); integ.initialize(P.s);
  Integrator::SuccessfulStepStatus st; Real prev = 0;
  for (int k = 0; k < 4; ++k) { st = integ.stepTo(1.0, k < 2 ? 0.5 : Infinity); printf("%s t=%.17g%s\n", S(st), integ.getTime(), integ.getTime() < prev ? "   <-- time decreased" : ""); prev = integ.getTime();
    if (st == Integrator::ReachedScheduledEvent) integ.reinitialize(Stage::Report, false); } }

// R7: RungeKuttaFeldberg ("fifth order", getMethodMinOrder()==5) converges with order 4 at fixed step
static void r7() { for (int k = 0; k < 3; ++k) { MultibodySystem sys; SimbodyMatterSubsystem m(sys); GeneralForceSubsystem f(sys);
    MobilizedBody::Slider b(m.Ground(), Transform(), Body::Rigid(MassProperties(1, Vec3(0), Inertia(1))), Transform());
    Force::MobilityLinearSpring(f, b, MobilizerUIndex(0), 4.0, 0.0);   // x'' = -4 x, x(0)=1 => x = cos 2t
    State s = sys.realizeTopology(); sys.realizeModel(s); b.setLength(s, 1.0);
    RungeKuttaFeldbergIntegrator integ(sys); Real h = 0.05 / (1 << k); integ.setFixedStepSize(h); integ.initialize(s);
    while (integ.getTime() < 2.0) integ.stepTo(2.0);
    printf("order declared %d: h=%g  error=%.3e\n", integ.getMethodMinOrder(), h, std::fabs(b.getLength(integ.getState()) - std::cos(4.0))); } }

int main(int argc, char** argv) { int w = argc > 1 ? atoi(argv[1]) : 0;
  if (w == 1) r1(); if (w == 2) r2(); if (w == 3) r3(true); if (w == 33) r3(false); if (w == 4) r4(); if (w == 5) r5(); if (w == 6) r6(); if (w == 7) r7(); return 0; }
