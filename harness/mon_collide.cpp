// mon_collide — C35 "Collision detection reports exactly the overlapping pairs" (DESIGN §5 C35).
//
// One case = one registered shape pair (case index mod 9: hs-sphere, sphere-sphere, hs-ellipsoid, hs-brick,
// ellipsoid-sphere, ellipsoid-ellipsoid, hs-mesh, sphere-mesh, mesh-mesh) with random sizes and frames, taken through
// a path of 5-6 nearby poses (approach: separated -> near-out -> touching -> near-in -> shallow -> deep, or the
// reverse), object B moving and turning a little at every step. At every pose the exact geometry is computed by the
// harness (collide_exact.h: closed forms, support functions, global minimisation of the directional overlap for
// quadric pairs, brute force over triangles; long double) and compared with what the library reports through
//   cda         GeneralContactSubsystem -> CollisionDetectionAlgorithm::processObjects (PointContact/TriangleMeshContact)
//   trk         ContactTrackerSubsystem -> ContactTracker::trackContact (Circular/Elliptical/Brick/Mesh contacts),
//               warm (previous contacts carried along the path by State::autoUpdateDiscreteVariables) and cold
//   cda-direct  processObjects called directly (needed to present a same-type pair in reversed order)
//   implicit    ContactTracker::HalfSpaceConvexImplicit / ConvexImplicitPair called directly on sphere/ellipsoid
// Oracles: contact reported <=> signed distance < -band, none <=> > +band (band = 1e-6*size, either answer inside);
// depth, normal (surface1 -> surface2, mapped to A -> B), contact point (midway between the two extreme points);
// X_S1S2 recorded in the Contact; brick lowest vertex; BrokenContact separation; mesh face sets (faces partly or
// completely inside the other object; faces within the band may go either way). A grossly wrong contact (normal
// off by > 0.5 rad or depth off by > 25% of the size) is reported once as gross@<pair>:<layer>. Metamorphic: the
// same pair registered / presented in the other order gives the same contact with roles swapped and normal
// reversed; a common rigid motion moves point and normal with it and leaves depth unchanged; warm-started tracking
// == cold evaluation. For sphere/mesh and mesh/mesh every fourth case ends with object A wholly inside B (volumes
// overlap, surfaces do not cross): keyed exists@<pair>:<layer>:engulfed-missed.
// Relative curvatures are compared too but only counted (obs extra:curvature-*): they are not in the statement.
// Violation keys: <clause>@<pair>:<layer>[:detail]; the margin classes are <clause>@<pair>.
// Tolerances: 1e-9*scale (closed-form pairs), 1e-7*scale and 1e-6 rad times the conditioning of the minimum
// (iterative pairs); the normal of an iterative PointContact is (p1-p2)/|p1-p2| and is only required to
// 1e-10*scale/depth (point accuracy over depth).
//
// Legal-client preconditions (not judged outside them, rejections are counted as skips):
//   * meshes are closed, oriented, non-self-intersecting manifolds (documented requirement of TriangleMesh);
//   * sphere centres never coincide, quadric pairs never concentric (documented "no sensible way" cases);
//   * for quadric pairs whose directional overlap has several local minima (deep interpenetration of elongated
//     shapes) "the" contact is not unique: only existence and self-consistency (reported points on both surfaces,
//     reported normal = both surface normals, reported depth = overlap along the reported normal) are judged;
//   * normal / point of quadric pairs are judged only when the minimum is well conditioned (cond <= 1e3).
#include "Simbody.h"
#include "vh.h"
#include "collide_exact.h"
using namespace SimTK;
using namespace vh;
using cx::LD;
using cx::V3;

// (model.h is not used: its vh::randUnit collides with gm::randUnit through ADL)
static Vec3 randVec3(Rng& r, double s = 1) { return Vec3(r.sym(s), r.sym(s), r.sym(s)); }
static UnitVec3 randUnit3(Rng& r) { return UnitVec3(gm::randUnit(r)); }
static Rotation randRotation(Rng& r) { return gm::randRotation(r); }
static Transform randFrame(Rng& r, int cls) {
    if (cls == 0) return Transform();
    if (cls == 1) return Transform(randVec3(r, 1.0));
    return Transform(randRotation(r), randVec3(r, 1.0));
}
static Json jV3(const Vec3& v) { return gm::jv(v); }

enum Kind { K_HS = 0, K_SPH, K_ELL, K_BRICK, K_MESH };
struct PairDef { const char* name; Kind a, b; bool cda; int implicit; bool iterative; bool mesh; };
static const PairDef PAIRS[] = {
    {"hs-sphere", K_HS, K_SPH, true, 1, false, false},
    {"sphere-sphere", K_SPH, K_SPH, true, 2, false, false},
    {"hs-ellipsoid", K_HS, K_ELL, true, 1, false, false},
    {"hs-brick", K_HS, K_BRICK, false, 0, false, false},
    {"ellipsoid-sphere", K_ELL, K_SPH, true, 2, true, false},
    {"ellipsoid-ellipsoid", K_ELL, K_ELL, true, 2, true, false},
    {"hs-mesh", K_HS, K_MESH, true, 0, false, true},
    {"sphere-mesh", K_SPH, K_MESH, true, 0, false, true},
    {"mesh-mesh", K_MESH, K_MESH, true, 0, false, true},
};
static const int NPAIRS = 9;

static Json jX(const Transform& X) {
    Json j = Json::arr();
    for (int i = 0; i < 3; ++i) for (int k = 0; k < 3; ++k) j.push(Json((double)X.R().asMat33()(i, k)));
    for (int i = 0; i < 3; ++i) j.push(Json((double)X.p()[i]));
    return j;
}
static Vec3 toV(const V3& v) { return gm::toVec3(v); }

// ------------------------------------------------------------------------------------------------ shapes
struct Shape {
    Kind kind = K_SPH; double r = 0; Vec3 radii = Vec3(0), half = Vec3(0);
    gm::MeshData mesh; ContactGeometry geo;
    double size = 0;       // bounding radius about the centre (0 for the half-space)
    double smin = 0;       // smallest characteristic dimension
    Vec3 center = Vec3(0); // centre in the surface frame
    std::string cls;
    Json toJson() const {
        Json j = Json::obj().set("kind", cls);
        if (kind == K_SPH) j.set("r", r);
        if (kind == K_ELL) j.set("radii", jV3(radii));
        if (kind == K_BRICK) j.set("half", jV3(half));
        if (kind == K_MESH) j.set("faces", mesh.nf()).set("scale", mesh.scale);
        return j;
    }
};
static Vec3 randRadii(Rng& r, double maxAspect) {
    double base = r.logUni(0.08, 1.2), a1 = r.uni(1, maxAspect), a2 = r.uni(1, maxAspect);
    Vec3 v(base, base * a1, base * a2);
    int p = r.integer(0, 2);
    return Vec3(v[p], v[(p + 1) % 3], v[(p + 2) % 3]);
}
static void makeShape(Shape& s, Kind kind, Rng& r, bool thorough, double maxAspect) {
    s.kind = kind;
    switch (kind) {
    case K_HS: s.geo = ContactGeometry::HalfSpace(); s.size = 0; s.smin = 1e300; s.cls = "halfspace"; break;
    case K_SPH: s.r = r.logUni(0.05, 2.0); s.geo = ContactGeometry::Sphere(s.r); s.size = s.smin = s.r; s.cls = "sphere"; break;
    case K_ELL: {
        double asp = r.coin(0.5) ? std::min(2.0, maxAspect) : maxAspect;
        s.radii = randRadii(r, asp); s.geo = ContactGeometry::Ellipsoid(s.radii);
        s.size = std::max(s.radii[0], std::max(s.radii[1], s.radii[2])); s.smin = std::min(s.radii[0], std::min(s.radii[1], s.radii[2]));
        s.cls = s.size / s.smin <= 2 ? "ellipsoid-mild" : "ellipsoid-elongated";
        break;
    }
    case K_BRICK: {
        s.half = randRadii(r, 5.0); s.geo = ContactGeometry::Brick(s.half);
        s.size = s.half.norm(); s.smin = std::min(s.half[0], std::min(s.half[1], s.half[2])); s.cls = "brick";
        break;
    }
    case K_MESH: {
        int gen = r.integer(0, 2);
        if (gen == 0) {
            int level = (thorough && r.coin(0.3)) ? 2 : 1;
            s.mesh = gm::genSphereMesh(r, level, randRadii(r, 2.5), r.coin(0.5) ? 0.0 : 0.12);
        } else if (gen == 1) {
            int n = thorough ? 3 : 2;
            s.mesh = gm::genBoxMesh(r, r.integer(1, n), r.integer(1, n), r.integer(1, n), randRadii(r, 3.0), 0.0);
        } else {
            double R = r.logUni(0.2, 1.0), rt = R * r.uni(0.2, 0.6);
            s.mesh = thorough ? gm::genTorusMesh(r, r.integer(6, 9), r.integer(4, 6), R, rt, 0.05) : gm::genTorusMesh(r, r.integer(5, 6), 4, R, rt, 0.05);
        }
        if (r.coin(0.5)) { gm::meshTransform(s.mesh, Transform(randRotation(r), randVec3(r, 0.3 * s.mesh.scale))); gm::meshFinish(s.mesh); }
        Array_<Vec3> vv(s.mesh.v.begin(), s.mesh.v.end());
        Array_<int> ff(s.mesh.f.begin(), s.mesh.f.end());
        s.geo = ContactGeometry::TriangleMesh(vv, ff);
        s.size = s.mesh.scale; s.smin = 0.4 * s.mesh.scale; s.center = s.mesh.center; s.cls = "mesh-" + s.mesh.cls;
        break;
    }
    }
}
static cx::Ellip asEllip(const Shape& s, const Transform& X) { return cx::Ellip(X, s.kind == K_SPH ? Vec3(s.r) : s.radii); }

// ------------------------------------------------------------------------------------------------ exact geometry
struct Exact {
    bool isMesh = false;
    double sd = 0; bool sdKnown = true;                 // signed distance (negative = penetration depth)
    bool hasGeom = false; Vec3 normal = Vec3(0), point = Vec3(0);   // A -> B
    bool hasCurv = false; double kmax = 0, kmin = 0;
    int numMinima = 1; double cond = 1;
    double vdepth[8]; bool isBrick = false;
    cx::MeshExact me;
};
struct Scene { int pi; const PairDef* pd; const Shape* A; const Shape* B; double band; };

static double signedDistFast(const Scene& sc, const Transform& XA, const Transform& XB) {
    const Shape& A = *sc.A; const Shape& B = *sc.B;
    V3 x(XA.R().x().asVec3()), o(XA.p());
    switch (sc.pi) {
    case 0: return (double)(-(cx::dot(x, V3(XB.p()) - o)) - B.r);
    case 1: return (XB.p() - XA.p()).norm() - A.r - B.r;
    case 2: return (double)-cx::hsEllip(XA, asEllip(B, XB)).depth;
    case 3: { LD m = -1e300L; for (int v = 0; v < 8; ++v) { Vec3 p(v & 4 ? B.half[0] : -B.half[0], v & 2 ? B.half[1] : -B.half[1], v & 1 ? B.half[2] : -B.half[2]); m = std::max(m, cx::dot(x, V3(XB * p) - o)); } return (double)-m; }
    case 4: case 5: return (double)-cx::ellipPair(asEllip(A, XA), asEllip(B, XB), false).g;
    case 6: { LD sd; cx::hsMesh(XA, cx::placeMesh(B.mesh, XB), 0, &sd); return (double)sd; }
    case 7: { LD sd; cx::sphereMesh(V3(XA.p()), A.r, cx::placeMesh(B.mesh, XB), 0, &sd); return (double)sd; }
    default: return (double)cx::meshMeshDist(cx::placeMesh(A.mesh, XA), cx::placeMesh(B.mesh, XB));
    }
}
static Exact computeExact(const Scene& sc, const Transform& XA, const Transform& XB) {
    Exact e; const Shape& A = *sc.A; const Shape& B = *sc.B;
    V3 x(XA.R().x().asVec3()), o(XA.p());
    switch (sc.pi) {
    case 0: {
        V3 c(XB.p()); LD h = cx::dot(x, c - o), depth = h + B.r;
        e.sd = (double)-depth; e.hasGeom = true; e.normal = toV(V3(0, 0, 0) - x);
        e.point = toV(c - h * x + (depth / 2) * x); e.hasCurv = true; e.kmax = e.kmin = 1 / B.r;
        break;
    }
    case 1: {
        V3 d = V3(XB.p()) - V3(XA.p()); LD dist = cx::norm(d), depth = A.r + B.r - dist; V3 n = (1 / dist) * d;
        e.sd = (double)-depth; e.hasGeom = true; e.normal = toV(n); e.point = toV(V3(XA.p()) + (A.r - depth / 2) * n);
        e.hasCurv = true; e.kmax = e.kmin = 1 / A.r + 1 / B.r; e.cond = (A.r + B.r) / (double)dist;
        break;
    }
    case 2: {
        cx::HsExact h = cx::hsEllip(XA, asEllip(B, XB));
        e.sd = (double)-h.depth; e.hasGeom = true; e.normal = toV(h.normal); e.point = toV(h.point);
        e.hasCurv = true; e.kmax = (double)h.kmax; e.kmin = (double)h.kmin;
        break;
    }
    case 3: {
        e.isBrick = true; LD m = -1e300L;
        for (int v = 0; v < 8; ++v) {
            Vec3 p(v & 4 ? B.half[0] : -B.half[0], v & 2 ? B.half[1] : -B.half[1], v & 1 ? B.half[2] : -B.half[2]);
            LD d = cx::dot(x, V3(XB * p) - o); e.vdepth[v] = (double)d; m = std::max(m, d);
        }
        e.sd = (double)-m;
        break;
    }
    case 4: case 5: {
        cx::PairExact p = cx::ellipPair(asEllip(A, XA), asEllip(B, XB), true);
        e.sd = (double)-p.g; e.hasGeom = true; e.normal = toV(p.n); e.point = toV(0.5L * (p.P + p.Q));
        e.hasCurv = true; e.kmax = (double)p.kmax; e.kmin = (double)p.kmin; e.numMinima = p.numMinima;
        e.cond = p.lambdaMin > 0 ? (A.size + B.size) / (double)p.lambdaMin : 1e300;
        break;
    }
    case 6: { e.isMesh = true; LD sd; e.me = cx::hsMesh(XA, cx::placeMesh(B.mesh, XB), sc.band, &sd); e.sd = (double)sd; break; }
    case 7: { e.isMesh = true; LD sd; e.me = cx::sphereMesh(V3(XA.p()), A.r, cx::placeMesh(B.mesh, XB), sc.band, &sd); e.sd = (double)sd; break; }
    default: { e.isMesh = true; e.sdKnown = false; e.me = cx::meshMesh(cx::placeMesh(A.mesh, XA), cx::placeMesh(B.mesh, XB), sc.band); break; }
    }
    return e;
}
static Exact movedExact(const Exact& e, const Transform& XM) {
    Exact m = e;
    if (e.hasGeom) { m.normal = XM.R() * e.normal; m.point = XM * e.point; }
    return m;
}
static std::string poseClass(const Scene& sc, const Exact& e) {
    if (e.isMesh) {
        if (e.me.engulfed) return "engulfed";
        if (!e.me.anyIn) return e.me.anyBand ? "band" : "separated";
        int nf = (int)(e.me.clsA.size() + e.me.clsB.size());
        return e.me.nIn * 5 < nf ? "shallow" : "deep";
    }
    double s = std::min(sc.A->smin, sc.B->smin), b = sc.band;
    if (e.sd > 300 * b) return "separated";
    if (e.sd > b) return "near-out";
    if (e.sd >= -b) return "band";
    if (e.sd >= -300 * b) return "near-in";
    return -e.sd <= 0.03 * s ? "shallow" : "deep";
}

// ------------------------------------------------------------------------------------------------ what the library said
enum LType { T_None = 0, T_Point, T_Circular, T_Elliptical, T_Brick, T_Mesh, T_Broken, T_Other };
struct LibContact {
    bool present = false; int type = T_None; bool s1isA = true; int count = 0;
    double depth = 0; Vec3 normal = Vec3(0), point = Vec3(0); double normLen = 1;   // normal A->B in G, point in G
    double k1 = 0, k2 = 0; bool hasCurv = false;
    std::set<int> facesA, facesB; int lowestVertex = -1; double separation = 0;
    bool hasX = false; Transform X12; int condition = 0; std::string err;
    mutable bool gross = false;   // set by judge(): a grossly wrong answer, reported once under gross@...; not compared further
    Json toJson() const {
        Json j = Json::obj().set("present", present).set("type", type).set("s1isA", s1isA).set("count", count);
        if (present) { j.set("depth", depth).set("normal", jV3(normal)).set("point", jV3(point)).set("k", Json::arr().push(k1).push(k2)); }
        if (type == T_Mesh) j.set("nFacesA", (int)facesA.size()).set("nFacesB", (int)facesB.size());
        if (type == T_Brick) j.set("lowestVertex", lowestVertex);
        if (type == T_Broken) j.set("separation", separation);
        if (!err.empty()) j.set("error", err);
        return j;
    }
};
static LibContact fromOne(const Contact& ct, int surf1Obj, const Transform X[2]) {
    LibContact L; L.count = 1; L.s1isA = surf1Obj == 0; L.condition = (int)ct.getCondition();
    const Transform& X1 = X[surf1Obj];
    Vec3 n(0);
    if (PointContact::isInstance(ct)) {
        const PointContact& p = static_cast<const PointContact&>(ct);
        L.type = T_Point; L.present = true; L.depth = p.getDepth(); n = p.getNormal(); L.point = p.getLocation();
        L.k1 = 1 / p.getRadiusOfCurvature1(); L.k2 = 1 / p.getRadiusOfCurvature2(); L.hasCurv = true;
    } else if (CircularPointContact::isInstance(ct)) {
        const CircularPointContact& p = CircularPointContact::getAs(ct);
        L.type = T_Circular; L.present = true; L.depth = p.getDepth(); n = X1.R() * Vec3(p.getNormal()); L.point = X1 * p.getOrigin();
        L.k1 = L.k2 = 1 / p.getEffectiveRadius(); L.hasCurv = true; L.hasX = true; L.X12 = ct.getTransform();
    } else if (EllipticalPointContact::isInstance(ct)) {
        const EllipticalPointContact& p = EllipticalPointContact::getAs(ct);
        const Transform& XC = p.getContactFrame();
        L.type = T_Elliptical; L.present = true; L.depth = p.getDepth(); n = X1.R() * Vec3(XC.z()); L.point = X1 * XC.p();
        L.k1 = p.getCurvatures()[0]; L.k2 = p.getCurvatures()[1]; L.hasCurv = true; L.hasX = true; L.X12 = ct.getTransform();
    } else if (BrickHalfSpaceContact::isInstance(ct)) {
        const BrickHalfSpaceContact& p = BrickHalfSpaceContact::getAs(ct);
        L.type = T_Brick; L.present = true; L.depth = p.getDepth(); L.lowestVertex = p.getLowestVertex(); L.hasX = true; L.X12 = ct.getTransform();
    } else if (TriangleMeshContact::isInstance(ct)) {
        const TriangleMeshContact& p = TriangleMeshContact::getAs(ct);
        L.type = T_Mesh; L.present = true; L.hasX = true; L.X12 = ct.getTransform();
        L.facesA = L.s1isA ? p.getSurface1Faces() : p.getSurface2Faces();
        L.facesB = L.s1isA ? p.getSurface2Faces() : p.getSurface1Faces();
    } else if (BrokenContact::isInstance(ct)) {
        const BrokenContact& p = static_cast<const BrokenContact&>(ct);
        L.type = T_Broken; L.present = false; L.separation = p.getSeparation(); L.hasX = true; L.X12 = ct.getTransform();
    } else { L.type = T_Other; L.present = true; }
    L.normLen = n.norm();
    if (L.normLen > 0) n = n / L.normLen;
    L.normal = L.s1isA ? n : Vec3(-n);
    if (L.hasCurv && L.k2 > L.k1) std::swap(L.k1, L.k2);
    return L;
}

// ------------------------------------------------------------------------------------------------ the library side
struct Sys {
    MultibodySystem sys; SimbodyMatterSubsystem matter; GeneralContactSubsystem gcs; ContactTrackerSubsystem trk;
    ContactSetIndex set; MobilizedBody mob[2]; Transform X_BS[2]; bool onGround[2] = {false, false};
    int gIdx[2] = {-1, -1}; ContactSurfaceIndex tIdx[2]; bool useCda = true;
    Sys() : matter(sys), gcs(sys), trk(sys) {}
    Sys(const Sys&) = delete;
    void build(const Shape* sh[2], const Transform xbs[2], bool aOnGround, bool swapped, bool cda) {
        useCda = cda; set = gcs.createContactSet();
        ContactMaterial mat(1e6, 0.1, 0.5, 0.3, 0.0);
        int order[2] = {swapped ? 1 : 0, swapped ? 0 : 1};
        for (int k = 0; k < 2; ++k) {
            int ob = order[k];
            X_BS[ob] = xbs[ob]; onGround[ob] = (ob == 0 && aOnGround);
            if (onGround[ob]) {
                matter.updGround().updBody().addContactSurface(X_BS[ob], ContactSurface(sh[ob]->geo, mat, 0.01));
                mob[ob] = matter.updGround();
            } else {
                Body::Rigid body(MassProperties(1.0, Vec3(0), Inertia(1)));
                body.addContactSurface(X_BS[ob], ContactSurface(sh[ob]->geo, mat, 0.01));
                mob[ob] = MobilizedBody::Free(matter.updGround(), Transform(), body, Transform());
            }
            if (cda) { gcs.addBody(set, mob[ob], sh[ob]->geo, X_BS[ob]); gIdx[ob] = k; }
        }
        sys.realizeTopology();
        for (int ob = 0; ob < 2; ++ob) tIdx[ob] = trk.getContactSurfaceIndex(mob[ob].getMobilizedBodyIndex(), 0);
    }
};
struct Eval { LibContact cda, trk; Transform X[2]; };
static Eval evalSys(Sys& S, State& st, const Transform XT[2]) {
    Eval ev;
    for (int ob = 0; ob < 2; ++ob) if (!S.onGround[ob]) S.mob[ob].setQToFitTransform(st, XT[ob] * ~S.X_BS[ob]);
    S.sys.realize(st, Stage::Dynamics);
    for (int ob = 0; ob < 2; ++ob) ev.X[ob] = S.mob[ob].getBodyTransform(st) * S.X_BS[ob];
    if (S.useCda) {
        const Array_<Contact>& arr = S.gcs.getContacts(st, S.set);
        if (arr.size() >= 1) {
            int s1 = (int)arr[0].getSurface1(), s2 = (int)arr[0].getSurface2();
            int o1 = s1 == S.gIdx[0] ? 0 : 1;
            ev.cda = fromOne(arr[0], o1, ev.X);
            if (!((s1 == S.gIdx[0] && s2 == S.gIdx[1]) || (s1 == S.gIdx[1] && s2 == S.gIdx[0]))) ev.cda.err = "surface indices are not the registered pair";
        }
        ev.cda.count = (int)arr.size();
    }
    const ContactSnapshot& snap = S.trk.getActiveContacts(st);
    if (snap.getNumContacts() >= 1) {
        const Contact& ct = snap.getContact(0);
        ContactSurfaceIndex s1 = ct.getSurface1(), s2 = ct.getSurface2();
        int o1 = s1 == S.tIdx[0] ? 0 : 1;
        ev.trk = fromOne(ct, o1, ev.X);
        if (!((s1 == S.tIdx[0] && s2 == S.tIdx[1]) || (s1 == S.tIdx[1] && s2 == S.tIdx[0]))) ev.trk.err = "surface indices are not the registered pair";
    }
    ev.trk.count = snap.getNumContacts();
    return ev;
}
// direct call of the registered CollisionDetectionAlgorithm; 'rev' presents (B,A) (same-type pairs only)
static LibContact directCda(const Shape& A, const Transform& XA, const Shape& B, const Transform& XB, bool rev) {
    const Shape& F = rev ? B : A; const Shape& G = rev ? A : B;
    Transform X[2] = {XA, XB};
    CollisionDetectionAlgorithm* alg = CollisionDetectionAlgorithm::getAlgorithm(F.geo.getTypeId(), G.geo.getTypeId());
    LibContact L;
    if (!alg) { L.err = "no algorithm registered"; return L; }
    Array_<Contact> out;
    alg->processObjects(ContactSurfaceIndex(rev ? 1 : 0), F.geo, rev ? XB : XA, ContactSurfaceIndex(rev ? 0 : 1), G.geo, rev ? XA : XB, out);
    if (out.size() >= 1) L = fromOne(out[0], (int)out[0].getSurface1() == 0 ? 0 : 1, X);
    L.count = (int)out.size();
    return L;
}
static LibContact directImplicit(int which, const Shape& A, const Transform& XA, const Shape& B, const Transform& XB, bool rev) {
    const Shape& F = rev ? B : A; const Shape& G = rev ? A : B;
    Transform X[2] = {XA, XB};
    UntrackedContact prior(ContactSurfaceIndex(rev ? 1 : 0), ContactSurfaceIndex(rev ? 0 : 1));
    Contact out; bool ok;
    if (which == 1) ok = ContactTracker::HalfSpaceConvexImplicit(G.geo.getTypeId()).trackContact(prior, XA, F.geo, XB, G.geo, 0, out);
    else ok = ContactTracker::ConvexImplicitPair(F.geo.getTypeId(), G.geo.getTypeId()).trackContact(prior, rev ? XB : XA, F.geo, rev ? XA : XB, G.geo, 0, out);
    LibContact L;
    if (!out.isEmpty()) L = fromOne(out, rev ? 1 : 0, X);
    if (!ok) L.err = "trackContact returned false";
    return L;
}

// ------------------------------------------------------------------------------------------------ oracles
// d depth, n normal angle, p point, k curvature (relative), x transform; pd: accuracy of the two reported surface
// points of an iterative PointContact, whose normal is (p1-p2)/|p1-p2| and therefore only good to pd/depth
struct Tol { double d, n, p, k, x; bool iterative; double pd; };
static double normalTol(const Tol& tol, double fac, const LibContact& L) {
    double t = tol.n * fac;
    if (tol.iterative && L.type == T_Point && L.depth > 0) t += tol.pd / L.depth;
    return t;
}
static double angleBetween(const Vec3& a, const Vec3& b) { return std::atan2((a % b).norm(), ~a * b); }
static double xformDiff(const Transform& a, const Transform& b, double scale) {
    double m = 0;
    for (int i = 0; i < 3; ++i) for (int j = 0; j < 3; ++j) m = std::max(m, std::fabs(a.R().asMat33()(i, j) - b.R().asMat33()(i, j)));
    return m + (a.p() - b.p()).norm() / scale;
}
static bool g_verbose = false;
// c.check plus, with --verbose, a stderr line for every comparison that uses more than 1% of its tolerance
static bool chk(Ctx& c, const std::string& key, double resid, double tol, const std::function<Json()>& w) {
    if (g_verbose && resid > 1e-2 * tol && resid <= tol) fprintf(stderr, "NEAR %s ratio=%.3g case=%ld %s\n", key.c_str(), resid / tol, c.curCase, w().dump().c_str());
    return c.check(key, resid, tol, w);
}
struct JudgeCtx {
    Ctx& c; const Scene& sc; std::string tag;   // pair/layer (coverage); violation keys use <clause>@<pair>:<layer>[:detail]
    std::function<Json()> wit;
    std::string ktag() const { std::string k = tag; size_t p = k.find('/'); if (p != std::string::npos) k[p] = ':'; return k; }
};
static void faceDiff(const std::set<int>& lib, const std::vector<char>& cls, int& missing, int& extra, int& firstBad) {
    for (size_t f = 0; f < cls.size(); ++f) {
        bool in = lib.count((int)f) > 0;
        if (cls[f] == cx::F_IN && !in) { ++missing; if (firstBad < 0) firstBad = (int)f; }
        if (cls[f] == cx::F_OUT && in) { ++extra; if (firstBad < 0) firstBad = (int)f; }
    }
    for (int f : lib) if (f < 0 || f >= (int)cls.size()) { ++extra; if (firstBad < 0) firstBad = f; }
}
// compare one library answer with the exact geometry
static void judge(JudgeCtx& J, const Exact& ex, const LibContact& L, const Tol& tol, const Transform X[2], double scale) {
    Ctx& c = J.c; const std::string t = J.ktag();
    auto W = [&](const char* what) { return [&J, &L, what]() { Json j = J.wit(); j.set("what", what).set("lib", L.toJson()); return j; }; };
    if (!L.err.empty()) { c.viol("protocol@" + t, W("unexpected outcome")()); return; }
    c.require("count@" + t, L.count <= 1, W("more than one Contact for a single pair of surfaces"));
    if (L.type == T_Other) { c.viol("type@" + t, W("Contact of an unexpected type")()); return; }
    double b = J.sc.band;
    // ---- existence
    bool must = false, mustNot = false;
    if (ex.isMesh) {
        if (ex.me.engulfed) {
            // volumes overlap but the surfaces do not cross: keyed separately (see header / report)
            c.require("exists@" + t + ":engulfed-missed", L.present, W("one object wholly inside the other is not reported"));
            if (!L.present) return;
        }
        must = ex.me.anyIn && !ex.me.engulfed; mustNot = !ex.me.anyIn && !ex.me.anyBand && !ex.me.engulfed;
    } else { must = ex.sd < -b; mustNot = ex.sd > b; }
    if (must) c.require("exists@" + t + ":missed", L.present, W("overlapping shapes but no contact reported"));
    else if (mustNot) c.require("exists@" + t + ":spurious", !L.present, W("separated shapes but a contact is reported"));
    else c.obs("in-band-either-accepted");
    if (L.type == T_Broken) {
        chk(c, "broken@" + t, std::fabs(L.separation - ex.sd), tol.d, W("BrokenContact separation != exact distance"));
        c.require("broken@" + t + ":positive", L.separation > 0 && ex.sd > -b, W("BrokenContact while still overlapping"));
    }
    if (L.hasX) {
        const Transform& X1 = X[L.s1isA ? 0 : 1]; const Transform& X2 = X[L.s1isA ? 1 : 0];
        chk(c, "xform@" + t, xformDiff(L.X12, ~X1 * X2, scale), tol.x, W("Contact::getTransform() != X_S1S2"));
    }
    if (!L.present) return;
    // ---- finite
    if (L.type != T_Mesh) {
        bool fin = std::isfinite(L.depth) && (L.type == T_Brick || (gm::finite3(L.normal) && gm::finite3(L.point)));
        if (!c.require("finite@" + t, fin, W("NaN/Inf in the reported contact"))) return;
    }
    // ---- meshes: face sets
    if (L.type == T_Mesh) {
        if (!ex.isMesh) { c.viol("type@" + t, W("mesh contact for a non-mesh pair")()); return; }
        int missing = 0, extra = 0, bad = -1;
        faceDiff(L.facesA, ex.me.clsA, missing, extra, bad);
        faceDiff(L.facesB, ex.me.clsB, missing, extra, bad);
        auto WF = [&J, &L, missing, extra, bad]() { Json j = J.wit(); j.set("what", "face set differs from brute force").set("missing", missing).set("extra", extra).set("firstBadFace", bad).set("lib", L.toJson()); return j; };
        c.require("faces@" + t + ":missing", missing == 0, WF);
        c.require("faces@" + t + ":extra", extra == 0, WF);
        return;
    }
    if (ex.isMesh) { c.viol("type@" + t, W("non-mesh contact for a mesh pair")()); return; }
    // ---- brick
    if (L.type == T_Brick) {
        if (!ex.isBrick) { c.viol("type@" + t, W("brick contact for a non-brick pair")()); return; }
        chk(c, "depth@" + t, std::fabs(L.depth + ex.sd), tol.d, W("depth != exact penetration of the lowest vertex"));
        bool vok = L.lowestVertex >= 0 && L.lowestVertex < 8;
        chk(c, "vertex@" + t, vok ? std::fabs(ex.vdepth[L.lowestVertex] + ex.sd) : 1e300, tol.d, W("reported lowest vertex is not the deepest one"));
        return;
    }
    if (!ex.hasGeom) { c.viol("type@" + t, W("point contact for a pair without point geometry")()); return; }
    // ---- depth / normal / point
    if (ex.numMinima > 1) {
        // several local minima: judge self-consistency only
        c.obs("multimodal-consistency-only");
        cx::Ellip EA = asEllip(*J.sc.A, X[0]), EB = asEllip(*J.sc.B, X[1]);
        V3 n(L.normal), P = V3(L.point) + (LD)(L.depth / 2) * n, Q = V3(L.point) - (LD)(L.depth / 2) * n;
        auto fval = [](const cx::Ellip& E, const V3& p) { return (double)(cx::dot(p - E.c, E.Minv.mul(p - E.c)) - 1); };
        chk(c, "consistent@" + t + ":on-surface", std::max(std::fabs(fval(EA, P)), std::fabs(fval(EB, Q))), 1e-6, W("reported contact points are not on the two surfaces"));
        V3 nA = cx::unit(EA.Minv.mul(P - EA.c)), nB = cx::unit(EB.Minv.mul(Q - EB.c));
        double an = std::max(angleBetween(toV(nA), L.normal), angleBetween(toV(nB), -L.normal));
        chk(c, "consistent@" + t + ":normals", an, 1e-5, W("reported normal is not the surface normal at the reported points"));
        return;
    }
    {
        // a grossly wrong contact (the far-side solution, an unconverged iterate) is one finding, not three
        double sz = std::min(J.sc.A->smin, J.sc.B->smin);
        if (angleBetween(L.normal, ex.normal) > 0.5 || std::fabs(L.depth + ex.sd) > 0.25 * sz + 100 * tol.d) {
            L.gross = true;
            c.viol("gross@" + t, W("reported contact is not the contact of these shapes (depth/normal far from exact)")());
            return;
        }
    }
    chk(c, "depth@" + t, std::fabs(L.depth + ex.sd), tol.d, W("depth != exact penetration depth"));
    if (ex.cond > 1e3) { c.skip("ill-conditioned-normal"); return; }
    double fac = tol.iterative ? std::max(1.0, ex.cond) : 1.0;
    chk(c, "normal@" + t, std::max(angleBetween(L.normal, ex.normal), std::fabs(L.normLen - 1)), normalTol(tol, fac, L), W("normal != exact contact normal (surface1 -> surface2)"));
    chk(c, "point@" + t, (L.point - ex.point).norm(), tol.p * fac, W("contact point != midpoint of the two extreme points"));
    if (L.hasCurv && ex.hasCurv) {
        // relative curvatures are not part of the statement of C35 (depth / normal / point): observed, not judged
        double kr = std::max(std::fabs(L.k1 - ex.kmax), std::fabs(L.k2 - ex.kmin)) / ex.kmax;
        c.obs(kr <= 1e3 * tol.k * fac ? "extra:curvature-agrees" : "extra:curvature-differs@" + t);
    }
}
// metamorphic comparison of two library answers for the same physical configuration ('other' already mapped back)
static void compare(JudgeCtx& J, const char* clause, const Exact& ex, const LibContact& base, const LibContact& other, const Tol& tol) {
    Ctx& c = J.c; std::string t = std::string(clause) + "@" + J.ktag();
    auto W = [&](const char* what) { return [&J, &base, &other, what]() { Json j = J.wit(); j.set("what", what).set("base", base.toJson()).set("other", other.toJson()); return j; }; };
    if (!base.err.empty() || !other.err.empty() || base.gross || other.gross) return;   // already reported by judge()
    bool borderline = ex.isMesh ? (!ex.me.anyIn && ex.me.anyBand) : std::fabs(ex.sd) <= J.sc.band;
    if (base.present != other.present) {
        if (borderline) c.obs("in-band-either-accepted");
        else c.viol(t + ":exists", W("contact reported in one presentation but not in the other")());
        return;
    }
    c.cover(J.tag + "/" + clause);
    if (!base.present) { c.require(t + ":exists", true, nullptr); return; }
    if (base.type != other.type) { c.viol(t + ":type", W("different Contact types")()); return; }
    if (base.type == T_Mesh) {
        int bad = 0;
        auto diff = [&](const std::set<int>& a, const std::set<int>& b2, const std::vector<char>& cls) {
            for (int f : a) if (!b2.count(f) && !(f >= 0 && f < (int)cls.size() && cls[f] == cx::F_BAND)) ++bad;
            for (int f : b2) if (!a.count(f) && !(f >= 0 && f < (int)cls.size() && cls[f] == cx::F_BAND)) ++bad;
        };
        diff(base.facesA, other.facesA, ex.me.clsA); diff(base.facesB, other.facesB, ex.me.clsB);
        c.require(t + ":faces", bad == 0, W("face sets differ"));
        return;
    }
    chk(c, t + ":depth", std::fabs(base.depth - other.depth), 2 * tol.d, W("depth differs"));
    if (base.type == T_Brick) { c.require(t + ":vertex", base.lowestVertex == other.lowestVertex || std::fabs(ex.vdepth[base.lowestVertex & 7] - ex.vdepth[other.lowestVertex & 7]) <= tol.d, W("lowest vertex differs")); return; }
    if (ex.numMinima > 1 || ex.cond > 1e3) return;
    double fac = tol.iterative ? std::max(1.0, ex.cond) : 1.0;
    chk(c, t + ":normal", angleBetween(base.normal, other.normal), 2 * normalTol(tol, fac, base), W("normal differs (after mapping back)"));
    chk(c, t + ":point", (base.point - other.point).norm(), 2 * tol.p * fac, W("contact point differs (after mapping back)"));
}
static LibContact mapBack(const LibContact& L, const Transform& XM) {
    LibContact m = L;
    if (L.present && L.type != T_Mesh && L.type != T_Brick) { m.normal = ~XM.R() * L.normal; m.point = ~XM * L.point; }
    return m;
}

// ------------------------------------------------------------------------------------------------ placement
// B's frame for parameter t: centre of B at ref + t*u
static Transform poseB(const Shape& B, const Rotation& R, const Vec3& ref, const Vec3& u, double t) {
    return Transform(R, ref + t * u - R * B.center);
}
// outermost t at which f(t) crosses 'target' from below (f < target inside, >= target outside)
static bool solveOutermost(const std::function<double(double)>& f, double tMax, int grid, double target, double& tOut) {
    double hi = tMax, fhi = f(hi);
    if (!(fhi >= target)) return false;
    for (int k = grid - 1; k >= 0; --k) {
        double lo = tMax * k / grid, flo = f(lo);
        if (flo < target) {
            for (int it = 0; it < 40; ++it) { double mid = 0.5 * (lo + hi); if (f(mid) < target) lo = mid; else hi = mid; }
            tOut = 0.5 * (lo + hi); return true;
        }
        hi = lo;
    }
    return false;
}

struct Opts { int pair = -1; double maxAspect = 4; bool thorough = false; bool verbose = false; };

static void runCase(Ctx& c, long idx, Rng& r, const Opts& o) {
    const int pi = o.pair >= 0 ? o.pair : (int)(idx % NPAIRS);
    const long j = o.pair >= 0 ? idx : idx / NPAIRS;
    const PairDef& pd = PAIRS[pi];
    const bool retreat = (j & 1) != 0;
    const bool aOnGround = (j >> 1) % 4 == 3;
    c.setPhase(std::string("build ") + pd.name);
    Shape A, B;
    makeShape(A, pd.a, r, o.thorough, o.maxAspect); makeShape(B, pd.b, r, o.thorough, o.maxAspect);
    // variant for the two pairs with a finite object A against a mesh: A small enough to sit wholly inside B
    const bool engulf = (pi == 7 || pi == 8) && (j % 4 == 2);
    if (engulf && pi == 7) { A.r = B.size * r.uni(0.05, 0.12); A.geo = ContactGeometry::Sphere(A.r); A.size = A.smin = A.r; }
    if (engulf && pi == 8) {
        double f = B.size * r.uni(0.06, 0.12) / A.size;
        for (auto& p : A.mesh.v) p *= f;
        gm::meshFinish(A.mesh);
        Array_<Vec3> vv(A.mesh.v.begin(), A.mesh.v.end()); Array_<int> ff(A.mesh.f.begin(), A.mesh.f.end());
        A.geo = ContactGeometry::TriangleMesh(vv, ff);
        A.size = A.mesh.scale; A.smin = 0.4 * A.mesh.scale; A.center = A.mesh.center;
    }
    const Shape* sh[2] = {&A, &B};
    Transform xbs[2] = {randFrame(r, 2), randFrame(r, r.integer(0, 2))};
    Sys S1, S2;
    S1.build(sh, xbs, aOnGround, false, pd.cda); S2.build(sh, xbs, aOnGround, true, pd.cda);
    State warm = S1.sys.getDefaultState();
    // 'cold' states never receive autoUpdateDiscreteVariables(): their previous-contacts variable stays empty
    State cold = S1.sys.getDefaultState(), st2 = S2.sys.getDefaultState();

    Scene sc; sc.pi = pi; sc.pd = &pd; sc.A = &A; sc.B = &B;
    const double sizeRef = std::max(A.size, B.size);
    sc.band = 1e-6 * sizeRef;
    const double s = std::min(A.smin, B.smin);
    // object A's pose (fixed along the path); B approaches along u
    Transform XA = aOnGround ? xbs[0] : Transform(randRotation(r), randVec3(r, 3.0));
    Vec3 ref, u;
    if (pd.a == K_HS) {
        Vec3 nOut = -Vec3(XA.R().x()); Vec3 t1 = gm::anyPerp(nOut), t2 = nOut % t1;
        ref = XA.p() + r.sym(2.0) * t1 + r.sym(2.0) * t2;
        u = nOut + r.sym(0.5) * t1 + r.sym(0.5) * t2; u = u / u.norm();
    } else { ref = XA * A.center; u = Vec3(randUnit3(r)); }
    Rotation RB = randRotation(r);
    const double tMax = 1.5 * ((pd.a == K_HS ? 0.0 : A.size) + B.size) + 2 * s + 1e-3;

    static const char* APPROACH[6] = {"separated", "near-out", "band", "near-in", "shallow", "deep"};
    int nPoses = pd.mesh ? 5 : 6;
    if (engulf) ++nPoses;
    std::vector<std::string> path;
    for (int k = 0; k < 6; ++k) { if (pd.mesh && k == (int)(j % 2 ? 1 : 3)) continue; path.push_back(APPROACH[k]); }
    if (retreat) std::reverse(path.begin(), path.end());
    if (engulf) path.push_back("engulfed");
    Transform XM(randRotation(r), randVec3(r, 2.0));   // the common rigid motion

    Json desc = Json::obj().set("pair", pd.name).set("A", A.toJson()).set("B", B.toJson()).set("aOnGround", aOnGround).set("retreat", retreat);
    for (int k = 0; k < nPoses; ++k) {
        const std::string& want = path[k];
        c.setPhase(std::string(pd.name) + " place " + want);
        if (k > 0) { RB = Rotation(r.uni(0.02, 0.12), randUnit3(r)) * RB; Vec3 du = randVec3(r, 0.05); u = u + du; u = u / u.norm(); }
        // ---- placement
        double target, t = 0; bool placed;
        double bnd = sc.band;
        if (want == "separated") target = s * r.logUni(1e-3, 0.5);
        else if (want == "near-out") target = bnd * r.logUni(3, 300);
        else if (want == "band") target = bnd * r.sym(0.9);
        else if (want == "near-in") target = -bnd * r.logUni(3, 300);
        else if (want == "shallow") target = -s * r.logUni(1e-4, 0.03);
        else target = -s * r.uni(0.05, 0.5);
        if (want == "engulfed") {
            // put A's centre at a point well inside B: a face centroid of B moved inwards
            int f = r.integer(0, B.mesh.nf() - 1);
            Vec3 a = B.mesh.v[B.mesh.f[3 * f]], b = B.mesh.v[B.mesh.f[3 * f + 1]], cc = B.mesh.v[B.mesh.f[3 * f + 2]];
            Vec3 nrm = (b - a) % (cc - a); nrm = nrm / nrm.norm();
            Vec3 qB = (a + b + cc) / 3 - nrm * (A.size * r.uni(1.5, 2.5));
            Transform XBe(RB, XA * A.center - RB * qB);
            placed = true; t = 0;
            ref = XBe.p() + RB * B.center; u = Vec3(1, 0, 0);   // so that poseB(B, RB, ref, u, 0) == XBe
        } else if (pi == 8) {
            const double eps = 1e-9 * sizeRef;
            cx::WMesh wA = cx::placeMesh(A.mesh, XA);
            auto f = [&](double tt) { return cx::meshesWithin(wA, cx::placeMesh(B.mesh, poseB(B, RB, ref, u, tt)), eps) ? 0.0 : 1.0; };
            double t0 = 0; placed = solveOutermost(f, tMax, 12, 0.5, t0);
            t = t0 + target;
        } else {
            auto f = [&](double tt) { return signedDistFast(sc, XA, poseB(B, RB, ref, u, tt)); };
            placed = solveOutermost(f, tMax, 24, target, t);
        }
        if (!placed) { c.skip("placement-found-no-crossing"); continue; }
        Transform XT[2] = {XA, poseB(B, RB, ref, u, t)};

        // ---- the library, base presentation (warm along the path)
        c.setPhase(std::string(pd.name) + " evaluate " + want);
        Eval e0 = evalSys(S1, warm, XT);
        warm.autoUpdateDiscreteVariables();
        const Exact ex = computeExact(sc, e0.X[0], e0.X[1]);
        const std::string cls = poseClass(sc, ex);
        const double scale = A.size + B.size + e0.X[0].p().norm() + e0.X[1].p().norm() + XM.p().norm() + 1e-3;
        Tol tc = {1e-9 * scale, 1e-9, 1e-9 * scale, 1e-8, 1e-12, false, 0};
        Tol ti = {1e-7 * scale, 1e-6, 1e-7 * scale, 1e-6, 1e-12, true, 1e-10 * scale};
        const Tol& tolReg = pd.iterative ? ti : tc;                       // registered algorithms/trackers
        const Tol& tolImp = (pd.implicit == 2) ? ti : tc;                 // ConvexImplicitPair is iterative for every pair
        auto witFor = [&](const char* layer, const Transform* X, const Exact* exx) {
            return [=, &desc, &cls]() {
                Json w = desc; w.set("layer", layer).set("pose", cls).set("step", k).set("XA", jX(X[0])).set("XB", jX(X[1]));
                Json je = Json::obj().set("sd", exx->sd);
                if (exx->hasGeom) je.set("normal", jV3(exx->normal)).set("point", jV3(exx->point)).set("kmax", exx->kmax).set("kmin", exx->kmin).set("numMinima", exx->numMinima).set("cond", exx->cond);
                if (exx->isMesh) je.set("anyIn", exx->me.anyIn).set("anyBand", exx->me.anyBand).set("engulfed", exx->me.engulfed).set("nIn", exx->me.nIn);
                w.set("exact", je);
                return w;
            };
        };
        if (c.wantSample() && k == nPoses / 2) c.sample(witFor("sample", e0.X, &ex)());
        c.obs("shape:" + A.cls); c.obs("shape:" + B.cls);

        JudgeCtx Jc{c, sc, std::string(pd.name) + "/cda", witFor("cda", e0.X, &ex)};
        JudgeCtx Jt{c, sc, std::string(pd.name) + "/trk", witFor("trk", e0.X, &ex)};
        if (pd.cda) { judge(Jc, ex, e0.cda, tolReg, e0.X, scale); c.cover(Jc.tag + "/" + cls); }
        judge(Jt, ex, e0.trk, tolReg, e0.X, scale); c.cover(Jt.tag + "/" + cls);
        if (e0.trk.present) c.obs(std::string("trk-condition:") + Contact::nameOfCondition((Contact::Condition)e0.trk.condition));
        else if (e0.trk.type == T_Broken) c.obs("trk-condition:Broken");

        // ---- cold evaluation at the same pose == warm-started tracking
        if (k > 0) {
            c.setPhase(std::string(pd.name) + " cold " + want);
            Eval e1 = evalSys(S1, cold, XT);
            judge(Jt, ex, e1.trk, tolReg, e1.X, scale);
            compare(Jt, "warm", ex, e1.trk, e0.trk, tolReg);
        }
        // ---- the other registration order
        Eval e2;
        {
            c.setPhase(std::string(pd.name) + " swapped " + want);
            e2 = evalSys(S2, st2, XT);
            if (pd.cda) { judge(Jc, ex, e2.cda, tolReg, e2.X, scale); compare(Jc, "swap", ex, e0.cda, e2.cda, tolReg); }
            judge(Jt, ex, e2.trk, tolReg, e2.X, scale); compare(Jt, "swap", ex, e0.trk, e2.trk, tolReg);
        }
        // ---- common rigid motion
        Transform XTm[2] = {XM * e0.X[0], XM * e0.X[1]};
        Exact exm = movedExact(ex, XM);
        if (!aOnGround) {
            c.setPhase(std::string(pd.name) + " moved " + want);
            Eval e3 = evalSys(S1, cold, XTm);
            // the exact geometry of the moved configuration is the moved exact geometry (poses agree to rounding)
            JudgeCtx Jcm{c, sc, Jc.tag, witFor("cda(moved)", e3.X, &exm)}, Jtm{c, sc, Jt.tag, witFor("trk(moved)", e3.X, &exm)};
            if (pd.cda) { judge(Jcm, exm, e3.cda, tolReg, e3.X, scale); compare(Jc, "motion", ex, e0.cda, mapBack(e3.cda, XM), tolReg); }
            judge(Jtm, exm, e3.trk, tolReg, e3.X, scale); compare(Jt, "motion", ex, e0.trk, mapBack(e3.trk, XM), tolReg);
        }
        // ---- direct calls
        if (pd.cda) {
            c.setPhase(std::string(pd.name) + " cda-direct " + want);
            JudgeCtx Jd{c, sc, std::string(pd.name) + "/cda-direct", witFor("cda-direct", e0.X, &ex)};
            LibContact d0 = directCda(A, e0.X[0], B, e0.X[1], false);
            judge(Jd, ex, d0, tolReg, e0.X, scale); c.cover(Jd.tag + "/" + cls);
            if (pd.a == pd.b) { LibContact d1 = directCda(A, e0.X[0], B, e0.X[1], true); judge(Jd, ex, d1, tolReg, e0.X, scale); compare(Jd, "swap", ex, d0, d1, tolReg); }
            JudgeCtx Jdm{c, sc, Jd.tag, witFor("cda-direct(moved)", XTm, &exm)};
            LibContact d2 = directCda(A, XTm[0], B, XTm[1], false);
            judge(Jdm, exm, d2, tolReg, XTm, scale); compare(Jd, "motion", ex, d0, mapBack(d2, XM), tolReg);
        }
        if (pd.implicit) {
            c.setPhase(std::string(pd.name) + " implicit " + want);
            JudgeCtx Ji{c, sc, std::string(pd.name) + "/implicit", witFor("implicit", e0.X, &ex)};
            LibContact i0 = directImplicit(pd.implicit, A, e0.X[0], B, e0.X[1], false);
            judge(Ji, ex, i0, tolImp, e0.X, scale); c.cover(Ji.tag + "/" + cls);
            if (pd.implicit == 2) { LibContact i1 = directImplicit(2, A, e0.X[0], B, e0.X[1], true); judge(Ji, ex, i1, tolImp, e0.X, scale); compare(Ji, "swap", ex, i0, i1, tolImp); }
            JudgeCtx Jim{c, sc, Ji.tag, witFor("implicit(moved)", XTm, &exm)};
            LibContact i2 = directImplicit(pd.implicit, A, XTm[0], B, XTm[1], false);
            judge(Jim, exm, i2, tolImp, XTm, scale); compare(Ji, "motion", ex, i0, mapBack(i2, XM), tolImp);
        }
    }
}

int main(int argc, char** argv) {
    Args a = parseArgs(argc, argv);
    Ctx c(a);
    Opts o;
    o.pair = (int)a.getInt("pair", -1);
    o.thorough = a.tier == "thorough";
    o.maxAspect = a.getNum("aspect", o.thorough ? 10.0 : 4.0);
    o.verbose = a.verbose; g_verbose = a.verbose;
    if (a.prop != "C35") { fprintf(stderr, "mon_collide: unknown property %s\n", a.prop.c_str()); return 2; }
    return runCases(c, [&](long i, Rng& r) {
        try { runCase(c, i, r, o); }
        catch (const std::exception& ex) {
            // every library call in a case is legal: an exception is an outcome to be judged, keyed by where it happened
            c.viol("exception:" + c.phase.substr(0, c.phase.rfind(' ')) + ":" + normMsg(ex.what()), Json::obj().set("what", firstLine(ex.what(), 600)).set("phase", c.phase));
        }
    });
}
