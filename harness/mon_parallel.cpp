// mon_parallel — C33: ParallelExecutor / Parallel2DExecutor / ParallelWorkQueue run every
// task exactly once, safely (DESIGN §5 C33, hooks §2 H1).
//
// Monitors sit at the client boundary (the Task callbacks and the calling thread). Their
// own bookkeeping uses relaxed std::atomic counters only, so that they add no
// happens-before edge TSan could credit to the library; the *payload* (per-index slots,
// per-row data, the accumulator written in finish()) is deliberately plain memory: under
// the tsan flavour ThreadSanitizer itself checks the synchronisation the documentation
// promises (finish() calls mutually exclusive; return of execute()/flush() ordered after
// all task effects; 2D invocations sharing an index separated by happens-before).
// Under the asan flavour the atomic owner flags / counters decide.
//
// Delays are injected through the SIMBODY_VERIF scheduling hook (sites between critical
// sections of the three executors) and from inside the tasks.
//
// Legal-client preconditions: one client thread per executor; execute()/addTask()/flush()
// never called from a worker; tasks do not throw.
#include "SimTKcommon.h"
#include "vh.h"
#include <atomic>
#include <thread>
#include <memory>
#include <chrono>

using namespace SimTK;
using namespace vh;

extern "C" {
typedef void (*SimTK_VerifSchedHook)(int site, const void* object);
void SimTK_verifSetSchedHook(SimTK_VerifSchedHook hook);
}

// ------------------------------------------------------------------ hook side
static std::atomic<uint64_t> g_clock{0};
static std::atomic<uint64_t> g_hookSeed{1};
static std::atomic<int> g_delayPermille{0};     // probability of a delay at a site
static std::atomic<int> g_delayMaxUs{0};
static std::atomic<int> g_threadOrdinal{0};
static const int RING = 1 << 12;
static std::atomic<uint32_t> g_ring[RING];
static std::atomic<uint64_t> g_siteCount[64];

struct TLRng { uint64_t x = 0; int ord = -1; };
static thread_local TLRng t_rng;
static inline uint64_t tlNext() {
    if (t_rng.ord < 0) { t_rng.ord = g_threadOrdinal.fetch_add(1, std::memory_order_relaxed); t_rng.x = mix(g_hookSeed.load(std::memory_order_relaxed), (uint64_t)t_rng.ord + 77); }
    return splitmix64(t_rng.x);
}
static void spinFor(int us) {
    auto t0 = std::chrono::steady_clock::now();
    while (std::chrono::duration_cast<std::chrono::microseconds>(std::chrono::steady_clock::now() - t0).count() < us) { }
}
static void maybeDelay() {
    int p = g_delayPermille.load(std::memory_order_relaxed);
    if (p <= 0) return;
    uint64_t r = tlNext();
    if ((int)(r % 1000) >= p) return;
    int mx = g_delayMaxUs.load(std::memory_order_relaxed);
    int kind = (int)((r >> 20) % 3);
    int us = mx > 0 ? (int)((r >> 32) % (uint64_t)(mx + 1)) : 0;
    if (kind == 0) std::this_thread::yield();
    else if (kind == 1) std::this_thread::sleep_for(std::chrono::microseconds(us));
    else spinFor(us / 4);
}
static void schedHook(int site, const void*) {
    tlNext();   // make sure ordinal exists
    uint64_t c = g_clock.fetch_add(1, std::memory_order_relaxed);
    g_ring[c % RING].store((uint32_t)((t_rng.ord & 0xff) << 8 | (site & 0xff)), std::memory_order_relaxed);
    if (site >= 0 && site < 64) g_siteCount[site].fetch_add(1, std::memory_order_relaxed);
    maybeDelay();
}
// hash of the <thread, site> sequence recorded since clock value c0 (bounded by RING)
static uint64_t interleavingHash(uint64_t c0) {
    uint64_t c1 = g_clock.load(std::memory_order_relaxed);
    if (c1 - c0 > (uint64_t)RING) c0 = c1 - RING;
    uint64_t h = 1469598103934665603ULL;
    // thread ordinals are renamed in order of first appearance so that the hash names the
    // *shape* of the interleaving, not the ordinals
    int rename[256]; for (int& x : rename) x = -1; int nextName = 0;
    for (uint64_t c = c0; c < c1; ++c) {
        uint32_t v = g_ring[c % RING].load(std::memory_order_relaxed);
        int t = (v >> 8) & 0xff, s = v & 0xff;
        if (rename[t] < 0) rename[t] = nextName++;
        h = (h ^ (uint64_t)(rename[t] * 256 + s)) * 1099511628211ULL;
    }
    return h;
}

// ------------------------------------------------------------------ in-process watchdog
// A deadlock / lost wake-up *is* a C33 violation. The watchdog is generous (wall clock is
// never used for any other verdict) and the driver re-runs a timed-out worker once.
static std::atomic<uint64_t> g_progress{0};
static std::atomic<bool> g_watchStop{false};
static char g_hangLine[600] = "";
static void setHangScenario(Ctx& c, const std::string& key, const std::string& detail) {
    std::string k, d; Json::esc(key, k); Json::esc(detail, d);
    snprintf(g_hangLine, sizeof g_hangLine,
             "{\"t\":\"viol\",\"prop\":\"C33\",\"key\":%s,\"seed\":%llu,\"case\":%ld,\"resid\":1,\"tol\":0,\"phase\":\"hang\",\"witness\":{\"scenario\":%s}}\n",
             k.c_str(), (unsigned long long)c.args.seed, c.curCase, d.c_str());
    g_progress.fetch_add(1, std::memory_order_relaxed);
}
static void watchdogBody(int limitSec) {
    uint64_t last = g_progress.load(); int idle = 0;
    while (!g_watchStop.load()) {
        std::this_thread::sleep_for(std::chrono::milliseconds(250));
        uint64_t p = g_progress.load();
        if (p != last) { last = p; idle = 0; continue; }
        if (++idle >= limitSec * 4) {
            ssize_t r = write(1, g_hangLine, strlen(g_hangLine)); (void)r;
            static const char ab[] = "{\"t\":\"abort\",\"reason\":\"hang watchdog\"}\n";
            r = write(1, ab, sizeof ab - 1); (void)r;
            _exit(0);   // the printed viol line carries the verdict
        }
    }
}

// ------------------------------------------------------------------ helpers
static inline void taskDwell(uint64_t r, int maxUs) {
    if (maxUs <= 0) return;
    int k = (int)(r % 4);
    int us = (int)((r >> 8) % (uint64_t)(maxUs + 1));
    if (k == 0) std::this_thread::yield();
    else if (k == 1) std::this_thread::sleep_for(std::chrono::microseconds(us));
    else if (k == 2) spinFor(us / 4);
}
struct Profile { int permille, maxUs, taskUs; const char* name; };
static Profile pickProfile(Rng& r) {
    static const Profile P[] = {{0, 0, 0, "none"}, {150, 20, 5, "light"}, {500, 120, 40, "heavy"}, {900, 200, 0, "hooks-only"}, {0, 0, 80, "tasks-only"}};
    return P[r.integer(0, 4)];
}
static const char* cls(int n, int T) { return n == 0 ? "0" : n < T ? "<T" : n == T ? "=T" : n < 4 * T ? "<4T" : ">=4T"; }

// ------------------------------------------------------------------ ParallelExecutor
struct PECall;
static thread_local struct { const PECall* call = nullptr; int phase = 0; double acc = 0; long nexec = 0; } t_pe;

struct PECall : public ParallelExecutor::Task {
    int times; int taskUs; uint64_t salt;
    std::unique_ptr<std::atomic<int>[]> count;     // per index executions
    std::vector<int> slot;                         // PLAIN per-index payload written by execute(i)
    double total = 0;                              // PLAIN, written only inside finish()
    long finishedPlain = 0;                        // PLAIN, written only inside finish()
    std::atomic<int> inFinish{0}, nInit{0}, nFinish{0}, orderErr{0}, overlapErr{0}, rangeErr{0};
    PECall(int times, int taskUs, uint64_t salt) : times(times), taskUs(taskUs), salt(salt), count(new std::atomic<int>[std::max(times, 1)]), slot(std::max(times, 1), 0) {
        for (int i = 0; i < std::max(times, 1); ++i) count[i].store(0, std::memory_order_relaxed);
    }
    static double f(int i) { return (double)(3 * i + 1); }   // exact in double
    void initialize() override {
        if (t_pe.call == this) orderErr.fetch_add(1, std::memory_order_relaxed);   // second initialize in same call
        t_pe.call = this; t_pe.phase = 1; t_pe.acc = 0; t_pe.nexec = 0;
        nInit.fetch_add(1, std::memory_order_relaxed);
        g_progress.fetch_add(1, std::memory_order_relaxed);
    }
    void execute(int i) override {
        if (t_pe.call != this || (t_pe.phase != 1 && t_pe.phase != 2)) orderErr.fetch_add(1, std::memory_order_relaxed);
        t_pe.phase = 2;
        if (i < 0 || i >= times) { rangeErr.fetch_add(1, std::memory_order_relaxed); return; }
        count[i].fetch_add(1, std::memory_order_relaxed);
        slot[i] += i + 1;                    // plain write: two executions of i on different threads race
        t_pe.acc += f(i); ++t_pe.nexec;
        if (taskUs) taskDwell(mix(salt, (uint64_t)i), taskUs);
    }
    void finish() override {
        if (t_pe.call != this || t_pe.phase < 1 || t_pe.phase > 2) orderErr.fetch_add(1, std::memory_order_relaxed);
        t_pe.phase = 3;
        if (inFinish.fetch_add(1, std::memory_order_relaxed) != 0) overlapErr.fetch_add(1, std::memory_order_relaxed);
        total += t_pe.acc;                   // plain: relies on documented mutual exclusion of finish()
        ++finishedPlain;
        if (taskUs) taskDwell(mix(salt, 0xF1F1), std::min(taskUs, 30));
        inFinish.fetch_sub(1, std::memory_order_relaxed);
        nFinish.fetch_add(1, std::memory_order_relaxed);
        t_pe.call = nullptr;
        g_progress.fetch_add(1, std::memory_order_relaxed);
    }
};

static void judgePECall(Ctx& c, const std::string& tag, PECall& k, int T, const std::string& scen) {
    auto wit = [&] { return Json::obj().set("scenario", scen).set("times", k.times).set("threads", T); };
    int expectThreads = T < 2 ? 1 : T;
    long bad = 0, firstBad = -1, firstCount = 0;
    for (int i = 0; i < k.times; ++i) {
        int n = k.count[i].load(std::memory_order_relaxed);
        if (n != 1) { if (!bad) { firstBad = i; firstCount = n; } ++bad; }
    }
    c.require("exactly-once:" + tag, bad == 0, [&] { return wit().set("indices_not_once", bad).set("first_index", firstBad).set("its_count", firstCount); });
    c.require("index-range:" + tag, k.rangeErr.load() == 0, wit);
    // plain reads below are ordered after the tasks only if execute() returned after completion
    long slotBad = 0;
    for (int i = 0; i < k.times; ++i) if (k.slot[i] != i + 1) ++slotBad;
    c.require("payload-visible-at-return:" + tag, slotBad == 0, [&] { return wit().set("bad_slots", slotBad); });
    double want = 0; for (int i = 0; i < k.times; ++i) want += PECall::f(i);
    c.require("finish-accumulation:" + tag, k.total == want, [&] { return wit().set("total", k.total).set("expected", want); });
    c.require("initialize-per-thread:" + tag, k.nInit.load() == expectThreads, [&] { return wit().set("initialize_calls", k.nInit.load()).set("expected", expectThreads); });
    c.require("finish-per-thread:" + tag, k.nFinish.load() == expectThreads && k.finishedPlain == expectThreads, [&] { return wit().set("finish_calls", k.nFinish.load()).set("finished_plain", k.finishedPlain).set("expected", expectThreads); });
    c.require("init-exec-finish-order:" + tag, k.orderErr.load() == 0, [&] { return wit().set("order_errors", k.orderErr.load()); });
    c.require("finish-mutual-exclusion:" + tag, k.overlapErr.load() == 0, [&] { return wit().set("overlaps", k.overlapErr.load()); });
}

static std::set<uint64_t> g_ilvSeen;

static void scenarioPE(Ctx& c, Rng& r, bool thorough) {
    int T = r.coin(0.15) ? 1 : r.integer(2, thorough ? 24 : 12);
    Profile pf = pickProfile(r);
    g_delayPermille = pf.permille; g_delayMaxUs = pf.maxUs;
    int calls = r.coin(0.3) ? 1 : r.integer(2, thorough ? 60 : 25);
    bool destroyQuick = r.coin(0.3);    // destroy immediately after the last return (workers still winding down)
    std::string scen = "PE T=" + std::to_string(T) + " calls=" + std::to_string(calls) + " delays=" + pf.name;
    setHangScenario(c, std::string("hang:ParallelExecutor:") + (calls > 1 ? "reuse" : "single"), scen);
    c.setPhase(scen);
    {
        std::unique_ptr<ParallelExecutor> ex(new ParallelExecutor(T));
        if (ex->getMaxThreads() != T) c.viol("getMaxThreads", Json::obj().set("T", T).set("got", ex->getMaxThreads()));
        for (int k = 0; k < calls; ++k) {
            int times;
            switch (r.integer(0, 6)) {
            case 0: times = 0; break; case 1: times = 1; break; case 2: times = std::max(0, T - 1); break;
            case 3: times = T; break; case 4: times = T + 1; break;
            default: times = r.integer(0, thorough ? 3000 : 400);
            }
            PECall call(times, pf.taskUs, r.next());
            uint64_t c0 = g_clock.load(std::memory_order_relaxed);
            ex->execute(call, times);
            uint64_t h = interleavingHash(c0);
            g_ilvSeen.insert(h);
            judgePECall(c, "ParallelExecutor", call, T, scen + " call#" + std::to_string(k) + " times=" + std::to_string(times));
            c.cover(std::string("PE/T") + (T == 1 ? "1" : T <= 4 ? "2-4" : T <= 8 ? "5-8" : ">8") + "/n" + cls(times, T) + "/" + (k ? "reuse" : "first") + "/" + pf.name);
            c.obs("pe_execute_calls"); c.obs("pe_indices", times);
            g_progress.fetch_add(1, std::memory_order_relaxed);
        }
        if (!destroyQuick) std::this_thread::sleep_for(std::chrono::microseconds(r.integer(0, 300)));
        c.cover(std::string("PE/destroy/") + (destroyQuick ? "immediately" : "after-pause") + "/" + pf.name);
    }   // destructor joins: must not hang
    // executor created and destroyed without ever executing
    if (r.coin(0.2)) { ParallelExecutor idle(r.integer(1, 8)); c.cover("PE/destroy/never-used"); }
    g_progress.fetch_add(1, std::memory_order_relaxed);
}

// ------------------------------------------------------------------ Parallel2DExecutor
struct P2Call;
static thread_local struct { const P2Call* call = nullptr; int phase = 0; } t_p2;
struct P2Call : public Parallel2DExecutor::Task {
    int n; int taskUs; uint64_t salt;
    std::unique_ptr<std::atomic<int>[]> count;     // n*n
    std::unique_ptr<std::atomic<int>[]> owner;     // n: index currently in use
    std::vector<long> rowData;                     // PLAIN: documented use (data indexed by i and j)
    long total = 0; std::atomic<int> inFinish{0}, nInit{0}, nFinish{0}, orderErr{0}, overlapErr{0}, shareErr{0}, rangeErr{0};
    P2Call(int n, int taskUs, uint64_t salt) : n(n), taskUs(taskUs), salt(salt), count(new std::atomic<int>[std::max(1, n * n)]), owner(new std::atomic<int>[std::max(1, n)]), rowData(std::max(1, n), 0) {
        for (int i = 0; i < std::max(1, n * n); ++i) count[i].store(0, std::memory_order_relaxed);
        for (int i = 0; i < std::max(1, n); ++i) owner[i].store(0, std::memory_order_relaxed);
    }
    void initialize() override { if (t_p2.call == this) orderErr.fetch_add(1, std::memory_order_relaxed); t_p2.call = this; t_p2.phase = 1; nInit.fetch_add(1, std::memory_order_relaxed); g_progress.fetch_add(1, std::memory_order_relaxed); }
    void execute(int i, int j) override {
        if (t_p2.call != this || t_p2.phase < 1 || t_p2.phase > 2) orderErr.fetch_add(1, std::memory_order_relaxed);
        t_p2.phase = 2;
        if (i < 0 || j < 0 || i >= n || j >= n) { rangeErr.fetch_add(1, std::memory_order_relaxed); return; }
        count[i * n + j].fetch_add(1, std::memory_order_relaxed);
        if (owner[i].exchange(1, std::memory_order_relaxed) != 0) shareErr.fetch_add(1, std::memory_order_relaxed);
        if (j != i && owner[j].exchange(1, std::memory_order_relaxed) != 0) shareErr.fetch_add(1, std::memory_order_relaxed);
        rowData[i] += (long)j + 1;          // plain read-modify-write on data indexed by i and by j
        rowData[j] += 1000003L * ((long)i + 1);
        if (taskUs) taskDwell(mix(salt, (uint64_t)(i * n + j)), taskUs);
        owner[i].store(0, std::memory_order_relaxed);
        if (j != i) owner[j].store(0, std::memory_order_relaxed);
    }
    void finish() override {
        if (t_p2.call != this || t_p2.phase < 1 || t_p2.phase > 2) orderErr.fetch_add(1, std::memory_order_relaxed);
        t_p2.phase = 3;
        if (inFinish.fetch_add(1, std::memory_order_relaxed) != 0) overlapErr.fetch_add(1, std::memory_order_relaxed);
        ++total;
        inFinish.fetch_sub(1, std::memory_order_relaxed); nFinish.fetch_add(1, std::memory_order_relaxed); t_p2.call = nullptr;
        g_progress.fetch_add(1, std::memory_order_relaxed);
    }
};
static bool inRange(Parallel2DExecutor::RangeType rt, int i, int j) {
    return rt == Parallel2DExecutor::FullMatrix ? true : rt == Parallel2DExecutor::HalfMatrix ? i > j : i >= j;
}
static void scenarioP2D(Ctx& c, Rng& r, bool thorough) {
    int T = r.coin(0.15) ? 1 : r.integer(2, thorough ? 16 : 10);
    int n;
    switch (r.integer(0, 5)) { case 0: n = r.integer(0, 3); break; case 1: n = 2 * T; break; case 2: n = 2 * T + 1; break; case 3: n = r.integer(4, 12); break; default: n = r.integer(0, thorough ? 128 : 64); }
    Profile pf = pickProfile(r);
    if (n > 40 && pf.taskUs > 5) pf.taskUs = 5;     // n^2 task invocations
    g_delayPermille = pf.permille; g_delayMaxUs = pf.maxUs;
    bool shared = r.coin(0.4);
    int calls = r.coin(0.4) ? 1 : r.integer(2, 8);
    std::string scen = "P2D n=" + std::to_string(n) + " T=" + std::to_string(T) + (shared ? " shared-executor" : " own-threads") + " delays=" + pf.name;
    setHangScenario(c, std::string("hang:Parallel2DExecutor:") + (shared ? "shared" : "own"), scen);
    c.setPhase(scen);
    std::unique_ptr<ParallelExecutor> sharedEx;
    std::unique_ptr<Parallel2DExecutor> ex;
    if (shared) { sharedEx.reset(new ParallelExecutor(T)); ex.reset(new Parallel2DExecutor(n, *sharedEx)); }
    else ex.reset(new Parallel2DExecutor(n, T));
    // how many threads really call initialize/finish: serial path when the 2D executor has no pool
    for (int k = 0; k < calls; ++k) {
        Parallel2DExecutor::RangeType rt = (Parallel2DExecutor::RangeType)r.integer(0, 2);
        const char* rtn = rt == Parallel2DExecutor::FullMatrix ? "Full" : rt == Parallel2DExecutor::HalfMatrix ? "Half" : "HalfPlusDiag";
        P2Call call(n, pf.taskUs, r.next());
        uint64_t c0 = g_clock.load(std::memory_order_relaxed);
        ex->execute(call, rt);
        g_ilvSeen.insert(interleavingHash(c0));
        auto wit = [&] { return Json::obj().set("scenario", scen).set("range", rtn).set("call", k); };
        long bad = 0, fi = -1, fj = -1, fc = 0, expected = 0;
        for (int i = 0; i < n; ++i) for (int j = 0; j < n; ++j) {
            int want = inRange(rt, i, j) ? 1 : 0; expected += want;
            int got = call.count[i * n + j].load(std::memory_order_relaxed);
            if (got != want) { if (!bad) { fi = i; fj = j; fc = got; } ++bad; }
        }
        c.require(std::string("exactly-once:Parallel2DExecutor:") + rtn, bad == 0, [&] { return wit().set("pairs_wrong", bad).set("i", fi).set("j", fj).set("count", fc); });
        c.require("index-range:Parallel2DExecutor", call.rangeErr.load() == 0, wit);
        c.require("no-concurrent-shared-index:Parallel2DExecutor", call.shareErr.load() == 0, [&] { return wit().set("overlaps", call.shareErr.load()); });
        // payload: plain per-row data must equal the serial result exactly
        long rowBad = 0;
        { std::vector<long> ref(std::max(1, n), 0);
          for (int i = 0; i < n; ++i) for (int j = 0; j < n; ++j) if (inRange(rt, i, j)) { ref[i] += (long)j + 1; ref[j] += 1000003L * ((long)i + 1); }
          for (int i = 0; i < n; ++i) if (ref[i] != call.rowData[i]) ++rowBad; }
        c.require("row-data-equals-serial:Parallel2DExecutor", rowBad == 0, [&] { return wit().set("rows_wrong", rowBad); });
        int ni = call.nInit.load(), nf = call.nFinish.load();
        c.require("initialize-finish-balanced:Parallel2DExecutor", ni == nf && ni >= 1 && call.total == nf, [&] { return wit().set("initialize", ni).set("finish", nf).set("total", call.total); });
        // every worker thread of the pool in use calls them once: pool size is T when the pool exists
        int pool = shared ? (T < 2 ? 1 : T) : (std::min(T, n / 2) < 2 ? 1 : std::min(T, n / 2));
        c.require("initialize-per-thread:Parallel2DExecutor", ni == pool, [&] { return wit().set("initialize", ni).set("expected", pool); });
        c.require("init-exec-finish-order:Parallel2DExecutor", call.orderErr.load() == 0, [&] { return wit().set("order_errors", call.orderErr.load()); });
        c.require("finish-mutual-exclusion:Parallel2DExecutor", call.overlapErr.load() == 0, wit);
        c.cover(std::string("P2D/") + rtn + "/n" + (n == 0 ? "0" : n < 4 ? "1-3" : n <= 2 * T ? "<=2T" : n <= 32 ? "<=32" : ">32") + "/T" + (T == 1 ? "1" : T <= 4 ? "2-4" : ">4") + (shared ? "/shared" : "/own") + (k ? "/reuse" : "/first") + "/" + pf.name);
        c.obs("p2d_execute_calls"); c.obs("p2d_pairs", expected);
        g_progress.fetch_add(1, std::memory_order_relaxed);
    }
    ex.reset(); sharedEx.reset();
    g_progress.fetch_add(1, std::memory_order_relaxed);
}

// ------------------------------------------------------------------ ParallelWorkQueue
struct QShared {
    int N; int taskUs; uint64_t salt;
    std::unique_ptr<std::atomic<int>[]> executed, deleted;
    std::vector<long> result;                     // PLAIN, written by task id, read by producer after flush/destroy
    std::atomic<long> started{0}, nLive{0};
    QShared(int N, int taskUs, uint64_t salt) : N(N), taskUs(taskUs), salt(salt), executed(new std::atomic<int>[std::max(1, N)]), deleted(new std::atomic<int>[std::max(1, N)]), result(std::max(1, N), 0) {
        for (int i = 0; i < std::max(1, N); ++i) { executed[i].store(0, std::memory_order_relaxed); deleted[i].store(0, std::memory_order_relaxed); }
    }
};
struct QTask : public ParallelWorkQueue::Task {
    QShared& s; int id;
    QTask(QShared& s, int id) : s(s), id(id) { s.nLive.fetch_add(1, std::memory_order_relaxed); }
    ~QTask() override { s.deleted[id].fetch_add(1, std::memory_order_relaxed); s.nLive.fetch_sub(1, std::memory_order_relaxed); g_progress.fetch_add(1, std::memory_order_relaxed); }
    void execute() override {
        s.started.fetch_add(1, std::memory_order_relaxed);
        s.executed[id].fetch_add(1, std::memory_order_relaxed);
        s.result[id] += 7L * id + 3;     // plain
        if (s.taskUs) taskDwell(mix(s.salt, (uint64_t)id), s.taskUs);
    }
};
static void scenarioPWQ(Ctx& c, Rng& r, bool thorough) {
    int T = r.integer(1, thorough ? 16 : 8);
    int Q = r.coin(0.3) ? 1 : r.integer(2, 64);
    int N = r.coin(0.1) ? 0 : r.integer(1, thorough ? 1500 : 300);
    Profile pf = pickProfile(r);
    g_delayPermille = pf.permille; g_delayMaxUs = pf.maxUs;
    int endMode = r.integer(0, 2);     // 0 flush then destroy, 1 destroy with pending work, 2 flush twice
    std::string scen = "PWQ Q=" + std::to_string(Q) + " T=" + std::to_string(T) + " N=" + std::to_string(N) + " end=" + std::to_string(endMode) + " delays=" + pf.name;
    setHangScenario(c, std::string("hang:ParallelWorkQueue:") + (endMode == 1 ? "destroy-pending" : "flush"), scen);
    c.setPhase(scen);
    QShared sh(N, pf.taskUs, r.next());
    auto wit = [&] { return Json::obj().set("scenario", scen); };
    long maxBacklog = 0; int flushes = 0;
    uint64_t c0 = g_clock.load(std::memory_order_relaxed);
    {
        std::unique_ptr<ParallelWorkQueue> q(new ParallelWorkQueue(Q, T));
        int nextFlush = r.coin(0.5) ? r.integer(0, std::max(0, N)) : -1;
        for (int id = 0; id < N; ++id) {
            q->addTask(new QTask(sh, id));
            long backlog = (long)(id + 1) - sh.started.load(std::memory_order_relaxed);
            maxBacklog = std::max(maxBacklog, backlog);
            if (id == nextFlush) {
                q->flush(); ++flushes;
                long notDone = 0, wrong = 0;
                for (int k = 0; k <= id; ++k) {
                    if (sh.executed[k].load(std::memory_order_relaxed) != 1 || sh.deleted[k].load(std::memory_order_relaxed) != 1) ++notDone;
                    if (sh.result[k] != 7L * k + 3) ++wrong;     // plain read: ordered only through flush()
                }
                c.require("flush-waits-for-all-earlier-tasks:ParallelWorkQueue", notDone == 0, [&] { return wit().set("unfinished", notDone).set("added", id + 1); });
                c.require("task-effects-visible-after-flush:ParallelWorkQueue", wrong == 0, [&] { return wit().set("wrong_results", wrong); });
                nextFlush = r.coin(0.5) ? r.integer(id + 1, std::max(id + 1, N)) : -1;
            }
            if (pf.taskUs && r.coin(0.05)) taskDwell(r.next(), pf.taskUs);
        }
        // queue bound: tasks waiting to start <= Q; popped-but-not-yet-counted tasks add at most T
        c.require("queue-bound:ParallelWorkQueue", maxBacklog <= (long)Q + T, [&] { return wit().set("max_added_minus_started", maxBacklog).set("bound", Q + T); });
        if (endMode != 1) { q->flush(); ++flushes; if (endMode == 2) { q->flush(); ++flushes; } }
        if (endMode != 1) {
            long notDone = 0;
            for (int k = 0; k < N; ++k) if (sh.executed[k].load(std::memory_order_relaxed) != 1 || sh.deleted[k].load(std::memory_order_relaxed) != 1) ++notDone;
            c.require("flush-waits-for-all-earlier-tasks:ParallelWorkQueue", notDone == 0, [&] { return wit().set("unfinished", notDone).set("added", N).set("final", true); });
        }
    }   // destructor: completes pending work, joins
    g_ilvSeen.insert(interleavingHash(c0));
    long bad = 0, firstBad = -1, wrong = 0;
    for (int k = 0; k < N; ++k) {
        if (sh.executed[k].load(std::memory_order_relaxed) != 1 || sh.deleted[k].load(std::memory_order_relaxed) != 1) { if (!bad) firstBad = k; ++bad; }
        if (sh.result[k] != 7L * k + 3) ++wrong;
    }
    c.require(std::string("executed-and-deleted-exactly-once:ParallelWorkQueue:") + (endMode == 1 ? "destroy-pending" : "after-flush"), bad == 0,
              [&] { return wit().set("tasks_wrong", bad).set("first", firstBad).set("executed", firstBad >= 0 ? sh.executed[firstBad].load() : 0).set("deleted", firstBad >= 0 ? sh.deleted[firstBad].load() : 0); });
    c.require("task-effects-visible-after-destruction:ParallelWorkQueue", wrong == 0, [&] { return wit().set("wrong_results", wrong); });
    c.require("no-task-leaked:ParallelWorkQueue", sh.nLive.load() == 0, [&] { return wit().set("live_tasks", sh.nLive.load()); });
    c.cover(std::string("PWQ/Q") + (Q == 1 ? "1" : Q <= 8 ? "2-8" : ">8") + "/T" + (T == 1 ? "1" : T <= 4 ? "2-4" : ">4") + "/N" + (N == 0 ? "0" : N <= Q ? "<=Q" : N <= 10 * Q ? "<=10Q" : ">10Q") + "/end" + std::to_string(endMode) + "/" + pf.name + (flushes > 1 ? "/multi-flush" : ""));
    c.obs("pwq_queues"); c.obs("pwq_tasks", N); c.obs("pwq_flushes", flushes);
    g_progress.fetch_add(1, std::memory_order_relaxed);
}

int main(int argc, char** argv) {
    Args a = parseArgs(argc, argv);
    Ctx c(a);
    if (a.prop != "C33") { fprintf(stderr, "mon_parallel: unknown property %s\n", a.prop.c_str()); return 2; }
    bool thorough = a.tier == "thorough";
    bool hooks = a.getInt("hooks", 1) != 0;
    if (hooks) SimTK_verifSetSchedHook(schedHook);
    std::thread wd(watchdogBody, (int)a.getInt("hang-seconds", 240));
    int rc = runCases(c, [&](long i, Rng& r) {
        g_hookSeed.store(r.next(), std::memory_order_relaxed);
        switch (i % 3) {
        case 0: scenarioPE(c, r, thorough); break;
        case 1: scenarioP2D(c, r, thorough); break;
        default: scenarioPWQ(c, r, thorough);
        }
        if (c.wantSample()) c.sample(Json::obj().set("case", i).set("scenario", c.phase));
        // evidence: distinct interleavings and hook-site hits are folded into the summary at the end
        if (i == a.first + a.cases - 1 || a.only >= 0) {
            c.obs("distinct_interleaving_hashes", (long)g_ilvSeen.size());
            c.obs("hook_events", (long)g_clock.load());
            for (int s = 0; s < 64; ++s) if (g_siteCount[s].load()) c.obs("hook_site_" + std::to_string(s), (long)g_siteCount[s].load());
        }
    });
    g_watchStop = true; wd.join();
    SimTK_verifSetSchedHook(nullptr);
    return rc;
}
