// mon_cable — C45: cable paths (CableSpan, CablePath/CableSpring) are geometrically and
// energetically consistent (DESIGN §5 C45).
//
// A case builds a random 2..5 body tree, lays a cable in Ground at a random reference
// configuration (origin, 0..3 obstacles out of sphere/cylinder/ellipsoid/torus, 0..2 via
// points, termination; every element fixed to a random body or Ground), and evaluates the
// path at the reference state and at perturbed states reached by continuation. All oracles
// are harness-side and use only public cable accessors (CableSpan) / the per-obstacle contact
// stations kept in the path's cache entry (CablePath) plus the harness surface model
// (cable_surf.h): no library geometry code decides anything.
//
// Legal-client preconditions (violations of them are skipped with a reason, never judged):
//  * end points and via points outside every obstacle; the library refuses such paths with the
//    documented "... point lies inside the surface" exception: counted and skipped;
//  * contact-point hints on the side of the obstacle where the straight line passes;
//  * judged only when the solver reports convergence (CableSpan: getSmoothness <= tolerance;
//    CablePath: |patherr| <= its 1e-9 tolerance), non-convergence is counted;
//  * finite-difference oracles only if every stencil state converged with the same set of
//    obstacles in contact, and h and h/2 estimates agree (else inconclusive);
//  * states away from coordinate singularities (guarded angles).
#include "model.h"
#include "cable_surf.h"
#include "CablePath_Impl.h"   // internal header: observation of CablePath's per-obstacle contact stations only
#include <iostream>
#include <sstream>
using namespace SimTK;
using namespace vh;
using csurf::Surf;
using csurf::K_Sphere; using csurf::K_Cylinder; using csurf::K_Ellipsoid; using csurf::K_Torus;

static const double EPS = 2.220446049250313e-16;
static const double PI = 3.14159265358979323846;
static bool finite3(const Vec3& v) { return std::isfinite(v[0]) && std::isfinite(v[1]) && std::isfinite(v[2]); }

struct CoutCapture {
    std::ostringstream ss; std::streambuf* old;
    CoutCapture() { old = std::cout.rdbuf(ss.rdbuf()); }
    ~CoutCapture() { std::cout.rdbuf(old); }
    void drop() { ss.str(""); }
};

// ------------------------------------------------------------------ scene
struct Elem {
    bool via = false;
    Surf S;                       // obstacle surface model
    std::shared_ptr<ContactGeometry> geo;
    Transform X_GS;               // obstacle frame (or via point location in p()) in Ground at the reference state
    Vec3 hint_S = Vec3(0);        // contact point hint, surface frame
    bool designedContact = true;
    int body = -1;                // -1 Ground, else index into model bodies
    Transform X_BS;               // pose on its body (via: p() is the station)
    double size = 0;              // bounding radius
};
struct Scene {
    std::vector<Elem> el;         // in path order, between origin and termination
    Vec3 O_G, T_G; int bodyO = -1, bodyT = -1; Vec3 O_B, T_B;
    double scale = 1;
    std::string kinds;            // e.g. "sph+cyl"
    int nObs = 0, nVia = 0;
    Json toJson() const {
        Json a = Json::arr();
        for (auto& e : el) {
            if (e.via) a.push(Json::obj().set("via", jV3(e.X_GS.p())).set("body", e.body));
            else a.push(Json::obj().set("surface", e.S.toJson()).set("center_G", jV3(e.X_GS.p())).set("hint_S", jV3(e.hint_S)).set("body", e.body).set("designedContact", e.designedContact));
        }
        return Json::obj().set("O_G", jV3(O_G)).set("T_G", jV3(T_G)).set("bodyO", bodyO).set("bodyT", bodyT).set("elements", a).set("scale", scale);
    }
};
static const char* kindShort(int k) { static const char* n[] = {"sph", "cyl", "ell", "tor"}; return n[k]; }

static Vec3 perpUnit(const Vec3& d, Rng& r) {
    for (;;) { Vec3 v(r.normal(), r.normal(), r.normal()); v -= d * (~d * v); if (v.norm() > 0.3) return v / v.norm(); }
}

// Lay out the cable in Ground. firstKind cycles the first obstacle's kind.
static Scene makeScene(Rng& r, int nObs, int nVia, int firstKind, bool allowTorus) {
    Scene sc; sc.nObs = nObs; sc.nVia = nVia;
    sc.scale = r.logUni(0.3, 3.0);
    const double s = sc.scale;
    int m = nObs + nVia;
    std::vector<int> slot(m, 0);           // 1 = obstacle, 0 = via
    for (int i = 0; i < nObs; ++i) slot[i] = 1;
    for (int i = m - 1; i > 0; --i) std::swap(slot[i], slot[r.integer(0, i)]);
    Vec3 e = Vec3(randUnit(r));
    Vec3 a = perpUnit(e, r), b = e % a;
    // sizes first
    sc.el.resize(m);
    int ko = 0;
    for (int i = 0; i < m; ++i) {
        Elem& E = sc.el[i];
        E.via = !slot[i];
        if (E.via) { E.size = 0; continue; }
        int kind = (ko == 0) ? firstKind : r.integer(0, allowTorus ? 3 : 2);
        if (!allowTorus && kind == K_Torus) kind = K_Sphere;
        ++ko;
        E.S.kind = kind;
        double rr = s * r.uni(0.4, 1.0);
        switch (kind) {
        case K_Sphere: E.S.r = rr; E.S.charR = E.S.size = rr; E.S.kmax = 1 / rr; E.size = rr; E.geo.reset(new ContactGeometry::Sphere(rr)); break;
        case K_Cylinder: E.S.r = rr; E.S.charR = E.S.size = rr; E.S.kmax = 1 / rr; E.size = rr; E.geo.reset(new ContactGeometry::Cylinder(rr)); break;
        case K_Ellipsoid: {
            Vec3 abc(rr * r.uni(0.6, 1.4), rr * r.uni(0.6, 1.4), rr * r.uni(0.6, 1.4));
            double mx = std::max(abc[0], std::max(abc[1], abc[2])), mn = std::min(abc[0], std::min(abc[1], abc[2]));
            E.S.abc = abc; E.S.charR = (abc[0] + abc[1] + abc[2]) / 3; E.S.size = mx; E.S.kmax = mx / (mn * mn); E.size = mx;
            E.geo.reset(new ContactGeometry::Ellipsoid(abc)); break;
        }
        default: {
            double tube = rr * 0.6, R = tube / r.uni(0.2, 0.55);
            E.S.r = tube; E.S.R = R; E.S.charR = tube; E.S.size = R + tube; E.S.kmax = std::max(1 / tube, 1 / (R - tube)); E.size = tube;   // local size: the tube
            E.geo.reset(new ContactGeometry::Torus(R, tube)); break;
        }
        }
        if (!sc.kinds.empty()) sc.kinds += "+";
        sc.kinds += kindShort(kind);
    }
    if (sc.kinds.empty()) sc.kinds = "none";
    // base points along e
    std::vector<Vec3> base(m + 2);
    std::vector<double> sz(m + 2, 0.0);
    for (int i = 0; i < m; ++i) sz[i + 1] = sc.el[i].size;
    double t = 0;
    for (int i = 0; i < m + 2; ++i) {
        if (i > 0) t += (sz[i - 1] + sz[i]) * r.uni(1.7, 3.0) + s * r.uni(0.6, 1.5);
        Vec3 lat = (i == 0 || i == m + 1 || sc.el[i - 1].via) ? (a * r.sym(0.7 * s) + b * r.sym(0.7 * s)) : Vec3(0);
        base[i] = e * t + lat;
    }
    sc.O_G = base[0]; sc.T_G = base[m + 1];
    // place each element
    for (int i = 0; i < m; ++i) {
        Elem& E = sc.el[i];
        if (E.via) { E.X_GS = Transform(base[i + 1]); continue; }
        const Vec3 A = base[i], B = base[i + 2];
        Vec3 d = B - A; double len = d.norm(); d /= len;
        double u = ~(base[i + 1] - A) * d;
        Vec3 mpt = A + d * u;                    // point of the line abeam the obstacle
        Vec3 w = perpUnit(d, r);                 // side on which the line passes
        E.designedContact = r.coin(0.8);
        double al = r.uni(55.0, 125.0) * PI / 180;
        Vec3 axis = d * std::cos(al) + (d % w) * std::sin(al);   // _|_ w, oblique to the line
        Rotation R;
        Vec3 center; Vec3 hintG;
        auto offset = [&](double reff) { return E.designedContact ? reff * r.uni(0.25, 0.75) : reff * r.uni(1.3, 2.0); };   // distance line <-> centre
        switch (E.S.kind) {
        case K_Sphere: {
            R = randRotation(r); double off = offset(E.S.r);
            center = mpt - w * off; hintG = center + w * E.S.r; break;
        }
        case K_Ellipsoid: {
            R = randRotation(r);
            Vec3 wS = ~R * w; double rad = 1 / std::sqrt(Surf::sq(wS[0] / E.S.abc[0]) + Surf::sq(wS[1] / E.S.abc[1]) + Surf::sq(wS[2] / E.S.abc[2]));
            double off = offset(rad);
            center = mpt - w * off; hintG = center + w * rad; break;
        }
        case K_Cylinder: {
            R = Rotation(UnitVec3(axis), ZAxis, w, XAxis); R = R * Rotation(r.sym(PI), ZAxis);
            double off = offset(E.S.r);
            center = mpt - w * off + axis * (r.sym(1.0) * E.S.r); hintG = (mpt - w * off) + w * E.S.r; break;
        }
        default: {
            // the line crosses the tube near its outer equator; ring centre on the far side
            Vec3 tau = axis;                                         // ring tangent at the crossing
            Vec3 rho = -w + (tau % w) * r.sym(0.3); rho -= tau * (~tau * rho); rho /= rho.norm();   // towards ring centre
            Vec3 zS = tau % rho; zS /= zS.norm();
            double off = offset(E.S.r);
            Vec3 wc = mpt + rho * off * (1.0 / std::max(0.5, -(~rho * w)));   // tube centre: line passes at ~off from it on the outer side
            center = wc + rho * E.S.R;
            R = Rotation(UnitVec3(zS), ZAxis, -rho, XAxis); R = R * Rotation(r.sym(PI), ZAxis);
            hintG = wc - rho * E.S.r; break;
        }
        }
        E.X_GS = Transform(R, center);
        E.hint_S = ~E.X_GS * hintG;
        // hints need not be on the surface: perturb some
        if (r.coin(0.3)) E.hint_S += randVec3(r, 0.1 * E.S.charR);
    }
    return sc;
}

// ------------------------------------------------------------------ CableSpan evaluation
struct SpanObs {
    bool ok = false, converged = false; std::string why;
    double L = NaN, Ldot = NaN, smooth = NaN; int iters = 0;
    std::vector<int> contact;     // per obstacle
    std::string pattern;
};

struct SpanCase {
    Model m;
    std::unique_ptr<CableSubsystem> cables;
    CableSpan cable;
    Scene sc;
    std::vector<int> obsOfEl, viaOfEl;    // element -> obstacle / via index
    double tolSmooth = 1e-8, acc = 1e-11; int alg = 0;
};

static Transform bodyX(const Model& m, const State& s, int body) {
    return body < 0 ? Transform() : m.bodies[body].getBodyTransform(s);
}
static MobilizedBodyIndex bodyIx(const Model& m, int body) {
    return body < 0 ? MobilizedBodyIndex(0) : m.bodies[body].getMobilizedBodyIndex();
}
static SpatialVec bodyV(const Model& m, const State& s, int body) {
    return body < 0 ? SpatialVec(Vec3(0), Vec3(0)) : m.bodies[body].getBodyVelocity(s);
}

static bool isPreconditionMsg(const std::string& w) {
    return w.find("lies inside the surface") != std::string::npos;
}

// Solve (realize) and read the scalar outcomes needed everywhere.
static SpanObs spanEval(SpanCase& k, State& s, bool velocity) {
    SpanObs o;
    try {
        k.m.sys.realize(s, velocity ? Stage::Velocity : Stage::Position);
        o.L = k.cable.calcLength(s);
        o.smooth = k.cable.getSmoothness(s);
        o.iters = k.cable.getNumSolverIterations(s);
        if (velocity) o.Ldot = k.cable.calcLengthDot(s);
        for (CableSpanObstacleIndex ix(0); ix < k.cable.getNumObstacles(); ++ix) {
            bool c = k.cable.isInContactWithObstacle(s, ix);
            o.contact.push_back(c); o.pattern += c ? 'C' : 'L';
        }
        o.ok = true;
        o.converged = std::isfinite(o.smooth) && o.smooth <= k.tolSmooth;
    } catch (const std::exception& ex) { o.why = ex.what(); }
    return o;
}

// Full oracle set on one realized, converged state. Returns number of obstacles in contact.
static bool spanOracles(Ctx& c, SpanCase& k, const State& s, const SpanObs& o, const std::string& A, const Json& desc) {
    const CableSpan& cable = k.cable; const Scene& sc = k.sc; const Model& m = k.m;
    auto W = [&](const char* what, int el = -1) {
        return [&, what, el]() { Json j = desc; j.set("what", what).set("element", el).set("pattern", o.pattern).set("L", o.L).set("smoothness", o.smooth).set("q", jV(s.getQ())); return j; };
    };
    const int n = (int)sc.el.size();
    const Vec3 O = bodyX(m, s, sc.bodyO) * sc.O_B, T = bodyX(m, s, sc.bodyT) * sc.T_B;
    double scale = (T - O).norm() + sc.scale;
    // ---- attribute first: a contact frame whose tangent points against the adjacent straight segment
    // (a cusp) makes the normal/binormal path errors vanish as well; everything downstream (forces,
    // power, length rate) is then a consequence and is not keyed separately.
    {
        Vec3 cur0 = O; bool reversed = false; int where = -1;
        for (int i = 0; i < n && !reversed; ++i) {
            const Elem& E = sc.el[i];
            if (E.via) { cur0 = cable.calcViaPointLocation(s, CableSpanViaPointIndex(k.viaOfEl[i])); continue; }
            if (!o.contact[k.obsOfEl[i]]) continue;
            CableSpanObstacleIndex ox(k.obsOfEl[i]);
            Transform FP = cable.calcCurveSegmentInitialFrenetFrame(s, ox), FQ = cable.calcCurveSegmentFinalFrenetFrame(s, ox);
            if (!(finite3(FP.p()) && finite3(FQ.p()))) continue;
            if (~(FP.p() - cur0) * Vec3(FP.x()) < 0) { reversed = true; where = i; }
            // next point after Q
            Vec3 nxt = T;
            for (int j = i + 1; j < n; ++j) {
                if (sc.el[j].via) { nxt = cable.calcViaPointLocation(s, CableSpanViaPointIndex(k.viaOfEl[j])); break; }
                if (o.contact[k.obsOfEl[j]]) { nxt = cable.calcCurveSegmentInitialFrenetFrame(s, CableSpanObstacleIndex(k.obsOfEl[j])).p(); break; }
            }
            if (~(nxt - FQ.p()) * Vec3(FQ.x()) < 0) { reversed = true; where = i; }
            cur0 = FQ.p();
        }
        if (reversed) {
            c.viol("converged-with-reversed-tangent:" + A, W("solver reports convergence (smoothness <= tolerance) although a straight segment leaves/enters a curve segment against its tangent (180 degree kink)", where)());
            return false;
        }
    }
    // ---- path points in order, with arcs
    struct Pt { Vec3 p; };
    std::vector<Vec3> chain; chain.push_back(O);     // O, [P,Q]..., via..., T  (straight segments are chain[2i] -> chain[2i+1])
    std::vector<Vec3> viaPoly; viaPoly.push_back(O);
    double sumArc = 0; int nContact = 0;
    std::vector<Vec3> segA, segB;                     // straight segments
    std::vector<int> segElA, segElB;                  // elements at their ends (-1 origin, n termination)
    Vec3 cur = O; int curEl = -1;
    for (int i = 0; i < n; ++i) {
        const Elem& E = sc.el[i];
        if (E.via) {
            CableSpanViaPointIndex vx(k.viaOfEl[i]);
            Vec3 pv = cable.calcViaPointLocation(s, vx);
            Vec3 pvRef = bodyX(m, s, E.body) * E.X_BS.p();
            c.check("via-location:" + A, (pv - pvRef).norm(), 64 * EPS * (scale + pvRef.norm()), W("calcViaPointLocation differs from the station's ground location", i));
            segA.push_back(cur); segB.push_back(pv); segElA.push_back(curEl); segElB.push_back(i);
            cur = pv; curEl = i; viaPoly.push_back(pv);
            continue;
        }
        CableSpanObstacleIndex ox(k.obsOfEl[i]);
        const Transform X_GS = bodyX(m, s, E.body) * E.X_BS;
        if (!o.contact[k.obsOfEl[i]]) {
            double al = cable.calcCurveSegmentArcLength(s, ox);
            c.require("lifted-arclength-is-nan:" + A, std::isnan(al), W("arc length of an obstacle not in contact is documented to be NaN", i));
            continue;
        }
        ++nContact;
        const std::string KT = std::string(csurf::kindName(E.S.kind));
        Transform FP = cable.calcCurveSegmentInitialFrenetFrame(s, ox), FQ = cable.calcCurveSegmentFinalFrenetFrame(s, ox);
        double arc = cable.calcCurveSegmentArcLength(s, ox);
        bool fin = std::isfinite(arc) && finite3(FP.p()) && finite3(FQ.p());
        for (int a = 0; a < 3 && fin; ++a) for (int b = 0; b < 3; ++b) fin = fin && std::isfinite(FP.R()[a][b]) && std::isfinite(FQ.R()[a][b]);
        if (!c.require("finite:curve-segment:" + A + ":" + KT, fin, W("NaN in the frames/arc length of an obstacle reported in contact", i))) continue;
        c.require("arclength-nonnegative:" + A + ":" + KT, arc >= 0, W("negative arc length", i));
        sumArc += arc;
        const bool analytic = (E.S.kind == K_Sphere || E.S.kind == K_Cylinder);
        // contact points on the surface, frames: x tangent, y outward normal
        Vec3 PS = ~X_GS * FP.p(), QS = ~X_GS * FQ.p();
        double tolOn = analytic ? 256 * EPS * (E.S.size + std::fabs(PS[2]) + std::fabs(QS[2])) : 2e-9 / std::min(E.S.gLibNorm(PS), E.S.gLibNorm(QS)) + 64 * EPS * E.S.size;
        c.check("contact-point-on-surface:" + A + ":" + KT, std::max(std::fabs(E.S.dist(PS)), std::fabs(E.S.dist(QS))), tolOn, W("curve segment end point off the obstacle surface", i));
        Vec3 nP = X_GS.R() * E.S.normal(PS), nQ = X_GS.R() * E.S.normal(QS);
        double tolN = analytic ? 1e-12 : 1e-8;
        c.check("frenet-normal:" + A + ":" + KT, std::max((Vec3(FP.y()) - nP).norm(), (Vec3(FQ.y()) - nQ).norm()), tolN, W("Frenet frame's Y axis is not the outward surface normal", i));
        // tangent continuity (touchdown / liftoff)
        Vec3 ein = FP.p() - cur; double lin = ein.norm(); ein /= lin;
        // (sine of the angle: acos is useless near 1) the library's smoothness is the largest normal/binormal
        // component of the misalignment, so the full angle can reach sqrt(2) x tolerance
        double angP = (~ein * Vec3(FP.x()) > 0) ? (ein % Vec3(FP.x())).norm() : 2.0;
        c.check("tangent-continuity-touchdown:" + A + ":" + KT, angP, 1.5 * k.tolSmooth + 64 * EPS * scale / lin, W("incoming straight segment not parallel to the curve tangent at touchdown although the solver reports convergence", i));
        segA.push_back(cur); segB.push_back(FP.p()); segElA.push_back(curEl); segElB.push_back(i);
        cur = FQ.p(); curEl = i;
        // resampled points
        const int NS = 33;
        std::vector<Vec3> pts;
        try { cable.calcCurveSegmentResampledPoints(s, ox, NS, [&](Vec3 p) { pts.push_back(p); }); }
        catch (const std::exception& ex) { c.viol("exception:resampled-points:" + A + ":" + KT, Json::obj().set("case", desc).set("what", firstLine(ex.what(), 300))); }
        if ((int)pts.size() == NS) {
            double poly = 0, worst = 0;
            for (int j = 0; j < NS; ++j) {
                if (j) poly += (pts[j] - pts[j - 1]).norm();
                worst = std::max(worst, std::fabs(E.S.dist(~X_GS * pts[j])));
            }
            double h = arc / (NS - 1), hk = h * E.S.kmax;
            double tolI = analytic ? 256 * EPS * (E.S.size + arc + std::fabs(PS[2])) : 1e-6 * E.S.size;
            c.check("resampled-on-surface:" + A + ":" + KT, worst, tolI, W("resampled curve point off the obstacle surface", i));
            c.check("resampled-endpoints:" + A + ":" + KT, (pts[0] - FP.p()).norm() + (pts[NS - 1] - FQ.p()).norm(), analytic ? 256 * EPS * (scale + arc) : 1e-9 * scale, W("first/last resampled point differ from the contact points", i));
            c.check("arclength-ge-polyline:" + A + ":" + KT, poly - arc, NS * tolI + 16 * EPS * arc, W("polyline through the resampled points is longer than the reported arc length", i));
            if (hk <= 1.0) c.check("arclength-vs-polyline:" + A + ":" + KT, arc * (1 - hk * hk / 16) - poly, NS * tolI + 16 * EPS * arc, W("reported arc length exceeds the resampled polyline by more than O(1/n^2)", i));
        } else if (!pts.empty() || NS > 0) c.require("resampled-count:" + A + ":" + KT, (int)pts.size() == NS, W("number of resampled points differs from the request", i));
    }
    segA.push_back(cur); segB.push_back(T); segElA.push_back(curEl); segElB.push_back(n);
    viaPoly.push_back(T);
    // tangent continuity at liftoff and end tangents
    {
        // re-walk to get outgoing directions
        Vec3 prevQ(NaN); int prevEl = -1; bool havePrev = false; Transform prevFQ;
        for (size_t si = 0; si < segA.size(); ++si) {
            Vec3 d = segB[si] - segA[si]; double l = d.norm();
            if (!(l > 0)) continue;
            d /= l;
            int ea = segElA[si], eb = segElB[si];
            if (ea >= 0 && !sc.el[ea].via) {
                CableSpanObstacleIndex ox(k.obsOfEl[ea]);
                Transform FQ = cable.calcCurveSegmentFinalFrenetFrame(s, ox);
                double ang = (~d * Vec3(FQ.x()) > 0) ? (d % Vec3(FQ.x())).norm() : 2.0;
                c.check("tangent-continuity-liftoff:" + A + ":" + csurf::kindName(sc.el[ea].S.kind), ang, 1.5 * k.tolSmooth + 64 * EPS * scale / l, W("outgoing straight segment not parallel to the curve tangent at liftoff although the solver reports convergence", ea));
            }
            if (ea == -1) c.check("origin-tangent:" + A, (Vec3(cable.calcOriginTangentDirection(s)) - d).norm(), 64 * EPS * scale / l, W("calcOriginTangentDirection is not the direction of the first straight segment"));
            if (eb == n) c.check("termination-tangent:" + A, (Vec3(cable.calcTerminationTangentDirection(s)) - d).norm(), 64 * EPS * scale / l, W("calcTerminationTangentDirection is not the direction of the last straight segment"));
            if (eb >= 0 && eb < n && sc.el[eb].via)
                c.check("via-incoming-tangent:" + A, (Vec3(cable.calcViaPointIncomingTangentDirection(s, CableSpanViaPointIndex(k.viaOfEl[eb]))) - d).norm(), 64 * EPS * scale / l, W("via point incoming tangent is not the incoming segment direction", eb));
            if (ea >= 0 && sc.el[ea].via)
                c.check("via-outgoing-tangent:" + A, (Vec3(cable.calcViaPointOutgoingTangentDirection(s, CableSpanViaPointIndex(k.viaOfEl[ea]))) - d).norm(), 64 * EPS * scale / l, W("via point outgoing tangent is not the outgoing segment direction", ea));
        }
        (void)prevQ; (void)prevEl; (void)havePrev;
    }
    // ---- length identities
    double sumStraight = 0; for (size_t si = 0; si < segA.size(); ++si) sumStraight += (segB[si] - segA[si]).norm();
    double Lscale = sumStraight + sumArc + scale;
    c.check("length-is-sum-of-segments:" + A, std::fabs(o.L - (sumStraight + sumArc)), 64 * EPS * Lscale * (segA.size() + 2), W("calcLength != sum of straight segments + sum of curve arc lengths"));
    c.check("length-ge-endpoint-distance:" + A, (T - O).norm() - o.L, 64 * EPS * Lscale, W("cable shorter than the distance between its end points"));
    double vp = 0; for (size_t i = 1; i < viaPoly.size(); ++i) vp += (viaPoly[i] - viaPoly[i - 1]).norm();
    c.check("length-ge-via-polyline:" + A, vp - o.L, 64 * EPS * Lscale * viaPoly.size(), W("cable shorter than the polyline origin - via points - termination"));
    // ---- no penetration
    for (int i = 0; i < n; ++i) {
        const Elem& E = sc.el[i];
        if (E.via) continue;
        const Transform X_GS = bodyX(m, s, E.body) * E.X_BS;
        const std::string KT = csurf::kindName(E.S.kind);
        double tolPen = 1e-6 * E.S.size + 4 * k.tolSmooth * scale;
        if (o.contact[k.obsOfEl[i]]) {
            // the two straight segments adjacent to the curve
            for (size_t si = 0; si < segA.size(); ++si) {
                bool adjIn = segElB[si] == i, adjOut = segElA[si] == i;
                if (!adjIn && !adjOut) continue;
                double worst = 0;
                for (int j = 0; j <= 32; ++j) {
                    double f = j / 32.0;
                    Vec3 p = segA[si] + (segB[si] - segA[si]) * f;
                    // torus is not convex: only the part of the segment near the contact is constrained
                    if (E.S.kind == K_Torus && (p - (adjIn ? segB[si] : segA[si])).norm() > E.S.r) continue;
                    worst = std::max(worst, -E.S.dist(~X_GS * p));
                }
                c.check("adjacent-segment-penetration:" + A + ":" + KT, worst, tolPen, W("straight segment next to a wrapped obstacle penetrates it", i));
            }
        } else {
            // lifted: the straight segment spanning this obstacle's place in the order must clear it (convex shapes)
            size_t si = 0; bool found = false;
            for (; si < segA.size(); ++si) if (segElA[si] < i && segElB[si] > i) { found = true; break; }
            if (found) {
                double worst = 0;
                for (int j = 0; j <= 64; ++j) { Vec3 p = segA[si] + (segB[si] - segA[si]) * (j / 64.0); worst = std::max(worst, -E.S.dist(~X_GS * p)); }
                if (E.S.kind == K_Torus) { if (worst > tolPen) c.obs("lifted-torus-crossed-by-straight-segment"); }
                else c.check("lifted-obstacle-penetrated:" + A, worst, tolPen, W("obstacle reported as not in contact is crossed by the straight segment passing it", i));
            }
        }
    }
    // ---- forces
    const double Tn = 3.7;    // tension
    const int nb = m.matter.getNumBodies();
    Vector_<SpatialVec> F(nb, SpatialVec(Vec3(0), Vec3(0)));
    cable.applyBodyForces(s, Tn, F);
    // per element unit forces, recomputed by the harness from public geometry
    Vector_<SpatialVec> Fh(nb, SpatialVec(Vec3(0), Vec3(0)));
    auto addAt = [&](int body, const Vec3& pG, const Vec3& f) {
        int b = bodyIx(m, body); Vec3 x = bodyX(m, s, body).p();
        Fh[b] += SpatialVec((pG - x) % f, f);
    };
    double armScale = scale;
    {
        SpatialVec u; cable.calcOriginUnitForce(s, u);
        Vec3 d = Vec3(cable.calcOriginTangentDirection(s));
        Vec3 x = bodyX(m, s, sc.bodyO).p();
        c.check("unit-force-origin:" + A, (u[1] - d).norm() + (u[0] - (O - x) % d).norm() / armScale, 256 * EPS * (1 + (O - x).norm() / armScale), W("calcOriginUnitForce != (arm x t, t)"));
        addAt(sc.bodyO, O, d * Tn);
        cable.calcTerminationUnitForce(s, u);
        d = -Vec3(cable.calcTerminationTangentDirection(s)); x = bodyX(m, s, sc.bodyT).p();
        c.check("unit-force-termination:" + A, (u[1] - d).norm() + (u[0] - (T - x) % d).norm() / armScale, 256 * EPS * (1 + (T - x).norm() / armScale), W("calcTerminationUnitForce != (arm x -t, -t)"));
        addAt(sc.bodyT, T, d * Tn);
    }
    for (int i = 0; i < n; ++i) {
        const Elem& E = sc.el[i]; Vec3 x = bodyX(m, s, E.body).p();
        SpatialVec u;
        if (E.via) {
            CableSpanViaPointIndex vx(k.viaOfEl[i]);
            cable.calcViaPointUnitForce(s, vx, u);
            Vec3 pv = cable.calcViaPointLocation(s, vx);
            Vec3 f = Vec3(cable.calcViaPointOutgoingTangentDirection(s, vx)) - Vec3(cable.calcViaPointIncomingTangentDirection(s, vx));
            c.check("unit-force-via:" + A, (u[1] - f).norm() + (u[0] - (pv - x) % f).norm() / armScale, 256 * EPS * (1 + (pv - x).norm() / armScale), W("calcViaPointUnitForce != (arm x (tOut - tIn), tOut - tIn)", i));
            addAt(E.body, pv, f * Tn);
        } else if (o.contact[k.obsOfEl[i]]) {
            CableSpanObstacleIndex ox(k.obsOfEl[i]);
            cable.calcCurveSegmentUnitForce(s, ox, u);
            Transform FP = cable.calcCurveSegmentInitialFrenetFrame(s, ox), FQ = cable.calcCurveSegmentFinalFrenetFrame(s, ox);
            Vec3 f = Vec3(FQ.x()) - Vec3(FP.x()), mo = (FQ.p() - x) % Vec3(FQ.x()) - (FP.p() - x) % Vec3(FP.x());
            c.check("unit-force-curve:" + A, (u[1] - f).norm() + (u[0] - mo).norm() / armScale, 256 * EPS * (1 + ((FP.p() - x).norm() + (FQ.p() - x).norm()) / armScale), W("calcCurveSegmentUnitForce != tQ - tP with moments about the body origin", i));
            int b = bodyIx(m, E.body); Fh[b] += SpatialVec(mo * Tn, f * Tn);
        }
    }
    double fe = 0; for (int b = 0; b < nb; ++b) fe = std::max(fe, (F[b][1] - Fh[b][1]).norm() + (F[b][0] - Fh[b][0]).norm() / armScale);
    c.check("applied-forces-are-tension-times-unit-forces:" + A, fe, 1e-12 * Tn * (nContact + sc.nVia + 2) * (1 + scale / armScale), W("applyBodyForces != tension x sum of the elements' unit forces per body"));
    // Newton's third law over all bodies incl. Ground
    Vec3 sf(0), sm(0);
    for (int b = 0; b < nb; ++b) { Vec3 x = m.matter.getMobilizedBody(MobilizedBodyIndex(b)).getBodyOriginLocation(s); sf += F[b][1]; sm += F[b][0] + x % F[b][1]; }
    double misalign = 2 * (nContact + 1) * std::max(o.smooth, 0.0);
    c.check("net-force-zero:" + A, sf.norm(), (misalign + 1e-12) * Tn * (nContact + sc.nVia + 2), W("applied forces over all bodies incl. Ground do not sum to zero"));
    c.check("net-moment-zero:" + A, sm.norm(), (misalign + 1e-12) * Tn * (nContact + sc.nVia + 2) * (scale + O.norm() + T.norm()), W("applied moments about the Ground origin do not sum to zero"));
    // power
    if (std::isfinite(o.Ldot)) {
        double P = 0, vscale = 0;
        for (int b = 0; b < nb; ++b) { const SpatialVec& V = m.matter.getMobilizedBody(MobilizedBodyIndex(b)).getBodyVelocity(s); P += ~F[b][0] * V[0] + ~F[b][1] * V[1]; vscale = std::max(vscale, V[1].norm() + V[0].norm() * scale); }
        double Plib = cable.calcCablePower(s, Tn);
        c.check("power-getter-vs-applied-forces:" + A, std::fabs(P - Plib), 1e-12 * Tn * (vscale + 1e-300) * (nContact + sc.nVia + 2), W("calcCablePower != sum F.V of applyBodyForces"));
        c.check("power-is-minus-tension-times-lengthdot:" + A, std::fabs(P + Tn * o.Ldot), (misalign + 1e-11) * Tn * (vscale + 1e-300) * (nContact + sc.nVia + 2), W("power of the applied forces != -tension * calcLengthDot"));
    }
    return true;
}

// Continuation protocol of auto-update discrete variables (the cables' warm start), as performed by
// Integrator::initialize(): after the *first* swap the swapped-in update value has never been realized
// to Instance stage, so the Instance-and-above cache must be invalidated and re-realized once.
static void firstAutoUpdate(const MultibodySystem& sys, State& s) {
    s.autoUpdateDiscreteVariables();
    s.invalidateAllCacheAtOrAbove(Stage::Instance);
    sys.realize(s, Stage::Velocity);
}

// 5-point first derivative
static double d5(double fm2, double fm1, double fp1, double fp2, double h) { return (fm2 - 8 * fm1 + 8 * fp1 - fp2) / (12 * h); }

static void spanLengthDotFD(Ctx& c, SpanCase& k, const State& s, const SpanObs& o, const std::string& A, const Json& desc) {
    const Vector qdot = s.getQDot();
    double vq = 0; for (int i = 0; i < qdot.size(); ++i) vq = std::max(vq, std::fabs(qdot[i]));
    if (!(vq > 1e-6)) { c.skip("lengthdot-fd:no-motion"); return; }
    const double h = 2e-3 / vq;      // |dq| ~ 2e-3 per step
    double L[7]; const double tt[7] = {-2, -1, -0.5, 0, 0.5, 1, 2};
    State sj = s;      // one scratch copy: every stencil solve warm-starts from the converged path held in its state variable
    for (int j = 0; j < 7; ++j) {
        if (tt[j] == 0) { L[j] = o.L; continue; }
        sj.updQ() = s.getQ() + (tt[j] * h) * qdot;
        SpanObs oj = spanEval(k, sj, false);
        if (!oj.ok) { c.skip(isPreconditionMsg(oj.why) ? "lengthdot-fd:stencil-state-violates-precondition" : "lengthdot-fd:stencil-state-exception"); return; }
        if (!oj.converged) { c.skip("lengthdot-fd:stencil-state-not-converged"); return; }
        if (oj.pattern != o.pattern) { c.skip("lengthdot-fd:contact-set-changes-in-stencil"); c.obs("contact-change-in-stencil"); return; }
        L[j] = oj.L;
    }
    double dh = d5(L[0], L[1], L[5], L[6], h), dh2 = d5(L[1], L[2], L[4], L[5], h / 2);
    {
        // The stencil states are continuations of the converged path at small distance; if coming back to
        // t=0 does not reproduce the judged state's length, the solver slid to another local solution
        // (the judged path is a stationary but unstable one): the stencil measures a different branch.
        sj.updQ() = s.getQ(); SpanObs ob = spanEval(k, sj, false);
        double sc0 = k.sc.scale + std::fabs(o.L);
        if (!ob.ok || !ob.converged || ob.pattern != o.pattern || std::fabs(ob.L - o.L) > 1e-7 * sc0 + 100 * k.tolSmooth * k.tolSmooth * sc0 + 1000 * k.acc) {
            c.skip("lengthdot-fd:stencil-on-another-solution-branch"); c.obs("unstable-stationary-path-seen");
            if (c.args.verbose) fprintf(stderr, "lengthDot FD: branch switch, L0=%.12g back=%.12g\n", o.L, ob.L);
            return;
        }
    }
    if (c.args.verbose) {
        fprintf(stderr, "lengthDot FD: h=%g L0=%.12g Ldot=%.9g fd=%.9g fd2=%.9g pattern=%s\n", h, o.L, o.Ldot, dh, dh2, o.pattern.c_str());
        for (int j = 0; j < 7; ++j) fprintf(stderr, "   t=%+.1fh  L-L0=%+.9e\n", tt[j], L[j] - o.L);
        // the same state solved from scratch in the scratch copy
        sj.updQ() = s.getQ(); SpanObs o0 = spanEval(k, sj, true);
        fprintf(stderr, "   re-solve at t=0 in the scratch copy: L-L0=%+.9e Ldot=%.9g pattern=%s smooth=%g iters=%d\n", o0.L - o.L, o0.Ldot, o0.pattern.c_str(), o0.smooth, o0.iters);
        for (CableSpanObstacleIndex ix(0); ix < k.cable.getNumObstacles(); ++ix) {
            double a1 = k.cable.calcCurveSegmentArcLength(s, ix), a2 = k.cable.calcCurveSegmentArcLength(sj, ix);
            Vec3 p1 = k.cable.calcCurveSegmentInitialFrenetFrame(s, ix).p(), p2 = k.cable.calcCurveSegmentInitialFrenetFrame(sj, ix).p();
            fprintf(stderr, "   obstacle %d: arc %.9g vs %.9g   |P1-P2|=%g\n", (int)ix, a1, a2, (p1 - p2).norm());
        }
        fprintf(stderr, "   s: smooth=%g iters=%d Ldot=%.9g\n", k.cable.getSmoothness(s), k.cable.getNumSolverIterations(s), k.cable.calcLengthDot(s));
        State s3 = s; s3.invalidateAllCacheAtOrAbove(Stage::Position); SpanObs o3 = spanEval(k, s3, true);
        fprintf(stderr, "   copy of s, Position cache invalidated, re-realized: L-L0=%+.9e Ldot=%.9g iters=%d\n", o3.L - o.L, o3.Ldot, o3.iters);
    }
    // error model: solver noise in L (second order in the path error, plus geodesic accuracy) divided by h
    double scale = k.sc.scale + std::fabs(o.L);
    double noise = (k.tolSmooth * k.tolSmooth * scale * 10 + 100 * k.acc + 256 * EPS * scale) / (h / 2);
    double tol = 1e-6 * (std::fabs(o.Ldot) + vq * scale) + 10 * noise;
    if (std::fabs(dh - dh2) > tol / 10) { c.skip("lengthdot-fd:h-vs-h/2-disagree"); c.obs("lengthdot-fd-inconclusive"); return; }
    c.check("lengthdot-vs-fd:" + A, std::fabs(dh2 - o.Ldot), tol, [&]() { Json j = desc; j.set("what", "calcLengthDot != 5-point finite difference of calcLength along q + t*qdot").set("fd_h", dh).set("fd_h2", dh2).set("lengthDot", o.Ldot).set("pattern", o.pattern).set("q", jV(s.getQ())).set("u", jV(s.getU())); return j; });
    c.cover(A + "/lengthdot-fd/" + k.sc.kinds + "/v" + std::to_string(k.sc.nVia) + "/" + (o.pattern.empty() ? "-" : o.pattern));
}

static const std::vector<int>& cableMobTypes() {
    static const std::vector<int> t = {MT_Pin, MT_Slider, MT_Cylinder, MT_Planar, MT_Ball, MT_Free, MT_Translation, MT_Universal, MT_Gimbal, MT_Weld};
    return t;
}

// assign bodies and express the scene in body frames at the reference state
static void attachScene(Scene& sc, const Model& m, const State& s, Rng& r, bool allOnOneBody) {
    int nb = (int)m.bodies.size();
    auto pick = [&]() { return r.coin(0.25) ? -1 : r.integer(0, nb - 1); };
    int one = pick();
    sc.bodyO = allOnOneBody ? one : pick(); sc.bodyT = allOnOneBody ? one : pick();
    sc.O_B = ~bodyX(m, s, sc.bodyO) * sc.O_G; sc.T_B = ~bodyX(m, s, sc.bodyT) * sc.T_G;
    for (auto& E : sc.el) { E.body = allOnOneBody ? one : pick(); E.X_BS = ~bodyX(m, s, E.body) * E.X_GS; }
}

static void runSpan(Ctx& c, long idx, Rng& r) {
    CoutCapture cap;
    const int nObs = (int)(idx % 4), nVia = (int)((idx / 4) % 3), alg = (int)((idx / 12) % 2), firstKind = (int)((idx / 24) % 4), tolClass = (int)((idx / 96) % 3);
    SpanCase k; k.alg = alg;
    static const double tolS[] = {1e-8, 1e-6, 1e-9}, accS[] = {1e-10, 1e-9, 1e-11};
    k.tolSmooth = tolS[tolClass]; k.acc = accS[tolClass];
    const std::string A = std::string("CableSpan/") + (alg == 0 ? "MinimumLength" : "Scholz2015");
    GenOpts go; go.minBodies = 2; go.maxBodies = 5; go.types = cableMobTypes(); go.forceCycle = false; go.pLoneParticle = 0;
    ModelDesc d = randomDesc(r, go, idx);
    k.m.build(d);
    // reference configuration
    Vector q0, u0;
    {
        State s = k.m.init();
        randomQU(k.m, s, r, false, 1.0);
        k.m.sys.realize(s, Stage::Position);
        q0 = s.getQ(); u0 = s.getU();
        k.sc = makeScene(r, nObs, nVia, firstKind, true);
        attachScene(k.sc, k.m, s, r, r.coin(0.06));
    }
    Scene& sc = k.sc;
    Json desc = Json::obj().set("model", k.m.desc.toJson()).set("scene", sc.toJson()).set("algorithm", alg == 0 ? "MinimumLength" : "Scholz2015").set("smoothnessTolerance", k.tolSmooth).set("accuracy", k.acc).set("q0", jV(q0));
    // build the cable
    c.setPhase("construct CableSpan");
    k.cables.reset(new CableSubsystem(k.m.sys));
    k.cable = CableSpan(*k.cables, bodyIx(k.m, sc.bodyO), sc.O_B, bodyIx(k.m, sc.bodyT), sc.T_B);
    k.obsOfEl.assign(sc.el.size(), -1); k.viaOfEl.assign(sc.el.size(), -1);
    for (size_t i = 0; i < sc.el.size(); ++i) {
        Elem& E = sc.el[i];
        if (E.via) k.viaOfEl[i] = k.cable.addViaPoint(bodyIx(k.m, E.body), E.X_BS.p());
        else k.obsOfEl[i] = k.cable.addObstacle(bodyIx(k.m, E.body), E.X_BS, E.geo, E.hint_S);
    }
    k.cable.setAlgorithm(alg == 0 ? CableSpanAlgorithm::MinimumLength : CableSpanAlgorithm::Scholz2015);
    k.cable.setSmoothnessTolerance(k.tolSmooth);
    k.cable.setCurveSegmentAccuracy(k.acc);
    k.cable.setSolverMaxIterations(r.coin(0.8) ? 50 : 100);
    c.require("counts:CableSpan", k.cable.getNumObstacles() == sc.nObs && k.cable.getNumViaPoints() == sc.nVia, [&]() { return desc; });
    State s = k.m.init();
    s.updQ() = q0; s.updU() = u0;
    const int nStates = 3;
    for (int st = 0; st < nStates; ++st) {
        if (st > 0) {
            // continuation: the converged path becomes the warm start, then the bodies move
            s.autoUpdateDiscreteVariables();
            double amp = r.logUni(0.02, 0.25);
            Vector q = s.getQ();
            for (int i = 0; i < q.size(); ++i) q[i] += amp * r.sym(1.0);
            s.updQ() = q;
            for (int i = 0; i < s.getNU(); ++i) s.updU()[i] = r.sym(1.0);
        }
        c.setPhase("CableSpan realize state " + std::to_string(st));
        SpanObs o = spanEval(k, s, true);
        if (st == 0 && o.ok && o.converged) {
            // make the converged path the warm start of this state and of its copies (Integrator::initialize() protocol)
            const double L1 = o.L; const std::string pat1 = o.pattern;
            try { firstAutoUpdate(k.m.sys, s); o = spanEval(k, s, true); }
            catch (const std::exception& ex) { o.ok = false; o.why = ex.what(); }
            if (o.ok && o.converged && o.pattern != pat1)
                c.viol("contact-set-changes-on-re-solve:" + A, [&]() { Json j = desc; j.set("what", "re-solving the same configuration from its own converged path changes the set of obstacles in contact: the first solution was accepted with a wrong contact status").set("pattern_first", pat1).set("pattern_again", o.pattern).set("L_first", L1).set("L_again", o.L); return j; }());
            else if (o.ok && o.converged)
                c.check("length-reproducible-after-auto-update:" + A, std::fabs(o.L - L1), 10 * k.tolSmooth * k.tolSmooth * (sc.scale + std::fabs(L1)) + 100 * k.acc + 1e-11 * (sc.scale + std::fabs(L1)),
                        [&]() { Json j = desc; j.set("what", "re-solving the same configuration from its own converged path changed the length").set("L_first", L1).set("L_again", o.L); return j; });
        }
        cap.drop();
        if (!o.ok) {
            if (isPreconditionMsg(o.why)) { c.skip("path-point-inside-obstacle"); c.obs("precondition-exception:point-inside-surface"); }
            else c.viol("exception:" + A + ":" + normMsg(o.why).substr(0, 80), Json::obj().set("case", desc).set("what", firstLine(o.why, 500)).set("state", st));
            break;
        }
        c.obs(st == 0 ? "solver-iterations:initial" : "solver-iterations:continuation", o.iters);
        c.obs("states-solved");
        if (!std::isfinite(o.L) || !std::isfinite(o.smooth)) { c.viol("finite:length-or-smoothness:" + A, [&]() { Json j = desc; j.set("L", o.L).set("smoothness", o.smooth).set("state", st); return j; }()); break; }
        if (!o.converged) { c.obs(st == 0 ? "not-converged:initial" : "not-converged:continuation"); c.skip("solver-not-converged"); break; }
        std::string key = A + "/" + sc.kinds + "/v" + std::to_string(sc.nVia) + "/" + (o.pattern.empty() ? "-" : o.pattern) + (st == 0 ? "/init" : "/cont");
        c.cover(key);
        c.setPhase("CableSpan oracles state " + std::to_string(st));
        Json descSt = desc; descSt.set("state", st).set("u", jV(s.getU()));
        bool sane = spanOracles(c, k, s, o, A, descSt);
        c.setPhase("CableSpan lengthDot FD state " + std::to_string(st));
        if (sane && c.args.getInt("nofd", 0) == 0 && st == (idx % 3 == 0 ? 0 : nStates - 1)) spanLengthDotFD(c, k, s, o, A, desc);
        cap.drop();
        if (c.wantSample() && st == 0) c.sample(Json::obj().set("kinds", sc.kinds).set("nVia", sc.nVia).set("alg", alg).set("pattern", o.pattern).set("L", o.L).set("Ldot", o.Ldot).set("smoothness", o.smooth).set("iters", o.iters));
    }
}

// ------------------------------------------------------------------ CablePath / CableSpring
struct PathCase {
    Model m;
    std::unique_ptr<CableTrackerSubsystem> tracker;
    std::unique_ptr<CablePath> path;
    std::unique_ptr<CableSpring> spring;
    Scene sc;
    double k = 50, x0 = 1, cdis = 0.1;
};
struct PathObs { bool ok = false, converged = false; std::string why; double L = NaN, Ldot = NaN, err = NaN; };

static PathObs pathEval(PathCase& k, State& s, bool velocity) {
    PathObs o;
    try {
        k.m.sys.realize(s, velocity ? Stage::Velocity : Stage::Position);
        o.L = k.path->getCableLength(s);
        if (velocity) o.Ldot = k.path->getCableLengthDot(s);
        const PathPosEntry& ppe = k.path->getImpl().getPosEntry(s);
        o.err = ppe.x.size() ? ppe.err.norm() : 0.0;
        o.ok = true;
        o.converged = std::isfinite(o.err) && o.err <= 1e-9 && std::isfinite(o.L);
        for (int i = 0; i < (int)ppe.geodesics.size(); ++i) if (!(ppe.geodesics[ActiveSurfaceIndex(i)].getNumPoints() >= 2)) o.converged = false;
    } catch (const std::exception& ex) { o.why = ex.what(); }
    return o;
}

static void runPath(Ctx& c, long idx, Rng& r) {
    CoutCapture cap;
    const int nObs = (int)(idx % 3), nVia = (int)((idx / 3) % 3), firstKind = (int)((idx / 9) % 4);
    PathCase k;
    const std::string A = "CablePath";
    GenOpts go; go.minBodies = 2; go.maxBodies = 4; go.types = cableMobTypes(); go.forceCycle = false; go.pLoneParticle = 0;
    ModelDesc d = randomDesc(r, go, idx);
    k.m.build(d);
    Vector q0, u0;
    {
        State s = k.m.init();
        randomQU(k.m, s, r, false, 1.0);
        k.m.sys.realize(s, Stage::Position);
        q0 = s.getQ(); u0 = s.getU();
        k.sc = makeScene(r, nObs, nVia, firstKind, true);
        for (auto& E : k.sc.el) E.designedContact = true;
        attachScene(k.sc, k.m, s, r, false);
    }
    Scene& sc = k.sc;
    Json desc = Json::obj().set("model", k.m.desc.toJson()).set("scene", sc.toJson()).set("q0", jV(q0));
    // ---- phase A: the same cable as a CableSpan on an identical model. Its converged path provides
    // (a) contact point hints inside the old Newton solver's small basin of attraction, (b) which
    // obstacles the cable touches (CablePath treats every enabled surface as wrapped: the others are
    // disabled), (c) an independently computed length and length rate to compare with.
    SpanCase ref; ref.alg = 0; ref.tolSmooth = 1e-9; ref.acc = 1e-10;
    ref.m.build(d); ref.sc = sc;
    ref.cables.reset(new CableSubsystem(ref.m.sys));
    ref.cable = CableSpan(*ref.cables, bodyIx(ref.m, sc.bodyO), sc.O_B, bodyIx(ref.m, sc.bodyT), sc.T_B);
    ref.obsOfEl.assign(sc.el.size(), -1); ref.viaOfEl.assign(sc.el.size(), -1);
    for (size_t i = 0; i < sc.el.size(); ++i) {
        Elem& E = sc.el[i];
        if (E.via) ref.viaOfEl[i] = ref.cable.addViaPoint(bodyIx(ref.m, E.body), E.X_BS.p());
        else ref.obsOfEl[i] = ref.cable.addObstacle(bodyIx(ref.m, E.body), E.X_BS, E.geo, E.hint_S);
    }
    ref.cable.setSmoothnessTolerance(ref.tolSmooth); ref.cable.setCurveSegmentAccuracy(ref.acc);
    State sr = ref.m.init(); sr.updQ() = q0; sr.updU() = u0;
    c.setPhase("CablePath: reference CableSpan");
    SpanObs oref = spanEval(ref, sr, true);
    if (!oref.ok) { c.skip(isPreconditionMsg(oref.why) ? "path-point-inside-obstacle" : "reference-CableSpan-exception"); return; }
    if (!oref.converged) { c.skip("reference-CableSpan-not-converged"); return; }
    std::vector<Vec3> hintP(sc.el.size(), Vec3(0)), hintQ(sc.el.size(), Vec3(0)); std::vector<int> wrapped(sc.el.size(), 0);
    std::string kindsActive;
    for (size_t i = 0; i < sc.el.size(); ++i) {
        const Elem& E = sc.el[i]; if (E.via) continue;
        wrapped[i] = oref.contact[ref.obsOfEl[i]];
        if (!wrapped[i]) continue;
        CableSpanObstacleIndex ox(ref.obsOfEl[i]);
        Transform X_GS = bodyX(ref.m, sr, E.body) * E.X_BS;
        hintP[i] = ~X_GS * ref.cable.calcCurveSegmentInitialFrenetFrame(sr, ox).p();
        hintQ[i] = ~X_GS * ref.cable.calcCurveSegmentFinalFrenetFrame(sr, ox).p();
        if (!kindsActive.empty()) kindsActive += "+";
        kindsActive += kindShort(E.S.kind);
    }
    if (kindsActive.empty()) kindsActive = "none";
    // ---- phase B: the CablePath
    c.setPhase("construct CablePath");
    auto mob = [&](int b) -> const MobilizedBody& { return b < 0 ? (const MobilizedBody&)k.m.matter.getGround() : (const MobilizedBody&)k.m.bodies[b]; };
    k.tracker.reset(new CableTrackerSubsystem(k.m.sys));
    k.path.reset(new CablePath(*k.tracker, mob(sc.bodyO), sc.O_B, mob(sc.bodyT), sc.T_B));
    for (size_t i = 0; i < sc.el.size(); ++i) {
        Elem& E = sc.el[i];
        if (E.via) { CableObstacle::ViaPoint v(*k.path, mob(E.body), E.X_BS.p()); (void)v; }
        else {
            CableObstacle::Surface sf(*k.path, mob(E.body), E.X_BS, *E.geo);
            if (!wrapped[i]) { sf.setDisabledByDefault(true); continue; }
            // hints near (not at) the reference solution
            double pert = 0.02 * E.S.charR;
            sf.setContactPointHints(E.S.project(hintP[i] + randVec3(r, pert)), E.S.project(hintQ[i] + randVec3(r, pert)));
            sf.setNearPoint(E.S.project(E.hint_S));
        }
    }
    k.k = r.uni(10, 100); k.cdis = r.uni(0.0, 0.3);
    double straight = (sc.T_G - sc.O_G).norm();
    k.x0 = straight * r.uni(0.6, 1.0);
    k.spring.reset(new CableSpring(k.m.forces, *k.path, k.k, k.x0, k.cdis));
    State s = k.m.init();
    s.updQ() = q0; s.updU() = u0;
    const int nStates = 2;
    for (int st = 0; st < nStates; ++st) {
        if (st > 0) {
            s.autoUpdateDiscreteVariables();
            double amp = r.logUni(0.01, 0.1);
            Vector q = s.getQ(); for (int i = 0; i < q.size(); ++i) q[i] += amp * r.sym(1.0);
            s.updQ() = q;
            for (int i = 0; i < s.getNU(); ++i) s.updU()[i] = r.sym(1.0);
            // the reference CableSpan follows by continuation as well
            bool refOk = true;
            try { firstAutoUpdate(ref.m.sys, sr); sr.autoUpdateDiscreteVariables(); } catch (const std::exception&) { refOk = false; }
            sr.updQ() = s.getQ(); sr.updU() = s.getU();
            std::string pat0 = oref.pattern;
            if (refOk) oref = spanEval(ref, sr, true);
            if (!refOk || !oref.ok || !oref.converged || oref.pattern != pat0) { oref.ok = false; c.obs("reference-CableSpan-lost-in-continuation"); }
        }
        c.setPhase("CablePath realize state " + std::to_string(st));
        PathObs o = pathEval(k, s, true);
        if (st == 0 && o.ok && o.converged) {
            try { firstAutoUpdate(k.m.sys, s); o = pathEval(k, s, true); }
            catch (const std::exception& ex) { o.ok = false; o.why = ex.what(); }
        }
        cap.drop();
        if (!o.ok) { c.obs("CablePath-exception"); c.viol("exception:" + A + ":" + normMsg(o.why).substr(0, 80), Json::obj().set("case", desc).set("what", firstLine(o.why, 500)).set("state", st)); break; }
        c.obs("states-solved");
        if (!o.converged) {
            c.obs(st == 0 ? "not-converged:initial" : "not-converged:continuation"); c.skip("solver-not-converged");
            if (c.args.verbose) fprintf(stderr, "CablePath not converged: case %ld state %d kinds %s nVia %d err %g L %g\n", idx, st, sc.kinds.c_str(), sc.nVia, o.err, o.L);
            break;
        }
        auto W = [&](const char* what) { return [&, what]() { Json j = desc; j.set("what", what).set("L", o.L).set("Ldot", o.Ldot).set("patherr", o.err).set("state", st).set("q", jV(s.getQ())); return j; }; };
        const CablePath::Impl& pi = k.path->getImpl();
        const PathInstanceInfo& ii = pi.getInstanceInfo(s);
        const PathPosEntry& ppe = pi.getPosEntry(s);
        const int no = pi.getNumObstacles();
        // walk the obstacles
        Vec3 prevQ(NaN); double sumStraight = 0, sumArc = 0; bool bad = false; int nAct = 0; double backwards = 0, branchDiff = 0;
        const Vec3 O = bodyX(k.m, s, sc.bodyO) * sc.O_B, T = bodyX(k.m, s, sc.bodyT) * sc.T_B;
        double scale = (T - O).norm() + sc.scale;
        int elIx = 0;
        for (CableObstacleIndex ox(0); ox < no; ++ox) {
            const CableObstacle::Impl& ob = pi.getObstacleImpl(ox);
            if (!ppe.mapToActive[ox].isValid()) { if (ox > 0 && ox < no - 1) ++elIx; continue; }
            Vec3 P_B, Q_B; ob.getContactStationsOnBody(s, ii, ppe, P_B, Q_B);
            const Transform& X_GB = ob.getMobilizedBody().getBodyTransform(s);
            Vec3 P = X_GB * P_B, Q = X_GB * Q_B;
            if (ox > 0) sumStraight += (P - prevQ).norm();
            if (ox > 0 && ox < no - 1) {
                const Elem& E = sc.el[elIx];
                if (!E.via) {
                    ++nAct;
                    const ActiveSurfaceIndex asx = ppe.mapToActiveSurface[ox];
                    const Geodesic& g = ppe.geodesics[asx];
                    double gl = g.getLength();
                    sumArc += gl;
                    const std::string KT = csurf::kindName(E.S.kind);
                    Transform X_GS = X_GB * E.X_BS;
                    Vec3 PS = ~X_GS * P, QS = ~X_GS * Q;
                    c.check("contact-point-on-surface:" + A + ":" + KT, std::max(std::fabs(E.S.dist(PS)), std::fabs(E.S.dist(QS))), 1e-8 * E.S.size, W("contact point off the obstacle surface"));
                    c.check("geodesic-ends-at-contact-points:" + A + ":" + KT, (g.getPointP() - PS).norm() + (g.getPointQ() - QS).norm(), 1e-6 * E.S.size, W("stored geodesic does not connect the contact points"));
                    // tangent continuity: segment directions vs geodesic end tangents (surface frame)
                    Vec3 ein = ~X_GS.R() * (P - prevQ); ein /= ein.norm();
                    double ang = (~ein * Vec3(g.getTangentP()) > 0) ? (ein % Vec3(g.getTangentP())).norm() : 2.0;
                    c.check("tangent-continuity-touchdown:" + A + ":" + KT, ang, 1e-6, W("incoming straight segment not parallel to the geodesic tangent at P although patherr <= tolerance"));
                    if (~ein * Vec3(g.getTangentP()) < 0) backwards += 1;
                    c.require("geodesic-length-positive:" + A + ":" + KT, gl > 0, W("non-positive geodesic length on an active surface"));
                    if (oref.ok) {
                        CableSpanObstacleIndex rx(ref.obsOfEl[elIx]);
                        Transform XR = bodyX(ref.m, sr, E.body) * E.X_BS;
                        Vec3 Pr = ~XR * ref.cable.calcCurveSegmentInitialFrenetFrame(sr, rx).p(), Qr = ~XR * ref.cable.calcCurveSegmentFinalFrenetFrame(sr, rx).p();
                        branchDiff = std::max(branchDiff, ((Pr - PS).norm() + (Qr - QS).norm()) / E.S.size);
                    }
                }
                ++elIx;
            }
            prevQ = Q;
            (void)bad;
        }
        double Lscale = sumStraight + sumArc + scale;
        c.check("length-is-sum-of-segments:" + A, std::fabs(o.L - (sumStraight + sumArc)), 1e-9 * Lscale, W("getCableLength != sum of straight segments + geodesic lengths"));
        c.check("length-ge-endpoint-distance:" + A, (T - O).norm() - o.L, 1e-9 * Lscale, W("cable shorter than the distance between its end points"));
        // two independent implementations of the same cable must agree
        // (only if both sit on the same local solution: Newton on the path error keeps following a
        // stationary branch that the length-minimizing CableSpan algorithm may have left)
        if (oref.ok && branchDiff > 1e-3) { c.obs("CablePath-and-CableSpan-on-different-local-solutions"); oref.ok = false; }
        if (oref.ok) {
            c.check("length-vs-CableSpan:" + A, std::fabs(o.L - oref.L), 1e-6 * Lscale, [&]() { Json j = desc; j.set("what", "CablePath and CableSpan lengths differ for the same cable and configuration").set("L_CablePath", o.L).set("L_CableSpan", oref.L).set("state", st).set("q", jV(s.getQ())); return j; });
            double vs = 0; for (int i = 0; i < s.getNU(); ++i) vs = std::max(vs, std::fabs(s.getU()[i]));
            c.check("lengthdot-vs-CableSpan:" + A, std::fabs(o.Ldot - oref.Ldot), 1e-6 * (vs * Lscale + std::fabs(o.Ldot)), [&]() { Json j = desc; j.set("what", "CablePath and CableSpan length rates differ for the same cable and state").set("Ldot_CablePath", o.Ldot).set("Ldot_CableSpan", oref.Ldot).set("state", st).set("q", jV(s.getQ())).set("u", jV(s.getU())); return j; });
        }
        // forces
        const double Tn = 2.9; const int nb = k.m.matter.getNumBodies();
        Vector_<SpatialVec> F(nb, SpatialVec(Vec3(0), Vec3(0)));
        k.path->applyBodyForces(s, Tn, F);
        Vec3 sf(0), sm(0); double P = 0, vscale = 0;
        for (int b = 0; b < nb; ++b) {
            const MobilizedBody& mb = k.m.matter.getMobilizedBody(MobilizedBodyIndex(b));
            Vec3 x = mb.getBodyOriginLocation(s); const SpatialVec& V = mb.getBodyVelocity(s);
            sf += F[b][1]; sm += F[b][0] + x % F[b][1]; P += ~F[b][0] * V[0] + ~F[b][1] * V[1];
            vscale = std::max(vscale, V[1].norm() + V[0].norm() * scale);
        }
        int ne = nAct + sc.nVia + 2;
        c.check("net-force-zero:" + A, sf.norm(), 1e-7 * Tn * ne, W("applied forces over all bodies incl. Ground do not sum to zero"));
        c.check("net-moment-zero:" + A, sm.norm(), 1e-7 * Tn * ne * (scale + O.norm() + T.norm()), W("applied moments about the Ground origin do not sum to zero"));
        double Plib = k.path->calcCablePower(s, Tn);
        c.check("power-getter-vs-applied-forces:" + A, std::fabs(P - Plib), 1e-10 * Tn * (vscale + 1e-300) * ne, W("calcCablePower != sum F.V of applyBodyForces"));
        c.check("power-is-minus-tension-times-lengthdot:" + A, std::fabs(P + Tn * o.Ldot), 1e-6 * Tn * (vscale + 1e-300) * ne, W("power of the applied forces != -tension * getCableLengthDot"));
        // CableSpring on the same path
        {
            c.setPhase("CableSpring");
            k.m.sys.realize(s, Stage::Dynamics);
            double len = k.spring->getLength(s), rate = k.spring->getLengthDot(s), ten = k.spring->getTension(s);
            c.check("spring-length-is-path-length:CableSpring", std::fabs(len - o.L) + std::fabs(rate - o.Ldot), 1e-13 * (Lscale + std::fabs(o.Ldot)), W("CableSpring length/rate differ from its CablePath's"));
            double stretch = std::max(0.0, o.L - k.x0);
            double tref = stretch > 0 ? std::max(0.0, k.k * stretch * (1 + k.cdis * o.Ldot)) : 0.0;
            c.check("spring-tension-law:CableSpring", std::fabs(ten - tref), 1e-12 * (k.k * Lscale * (1 + k.cdis * std::fabs(o.Ldot))), W("CableSpring tension != max(0, k x (1 + c xdot))"));
            const Vector_<SpatialVec>& FB = k.m.sys.getRigidBodyForces(s, Stage::Dynamics);
            double Pw = 0, fmax = 0;
            for (int b = 0; b < nb; ++b) { const SpatialVec& V = k.m.matter.getMobilizedBody(MobilizedBodyIndex(b)).getBodyVelocity(s); Pw += ~FB[b][0] * V[0] + ~FB[b][1] * V[1]; fmax = std::max(fmax, FB[b][1].norm()); }
            c.check("spring-power-is-minus-tension-times-lengthdot:CableSpring", std::fabs(Pw + ten * o.Ldot), 1e-6 * (ten + 1e-300) * (vscale + 1e-300) * ne + 1e-12, W("power of the CableSpring's body forces != -tension * lengthDot"));
            c.cover(std::string("CableSpring/") + (ten > 0 ? "taut" : "slack") + "/" + kindsActive);
        }
        // lengthDot vs FD (once per case: on the continuation state, or on the initial one for odd cases)
        if (c.args.getInt("nofd", 0) == 0 && st == (idx % 2 == 0 ? nStates - 1 : 0)) {
            c.setPhase("CablePath lengthDot FD");
            const Vector qdot = s.getQDot();
            double vq = 0; for (int i = 0; i < qdot.size(); ++i) vq = std::max(vq, std::fabs(qdot[i]));
            if (vq > 1e-6) {
                const double h = 2e-3 / vq; double L[7]; const double tt[7] = {-2, -1, -0.5, 0, 0.5, 1, 2}; bool okfd = true;
                State sj = s;
                for (int j = 0; j < 7 && okfd; ++j) {
                    if (tt[j] == 0) { L[j] = o.L; continue; }
                    sj.updQ() = s.getQ() + (tt[j] * h) * qdot;
                    PathObs oj = pathEval(k, sj, false); cap.drop();
                    if (!oj.ok || !oj.converged) { c.skip("lengthdot-fd:stencil-state-not-converged"); okfd = false; }
                    L[j] = oj.L;
                }
                if (okfd) {
                    double dh = d5(L[0], L[1], L[5], L[6], h), dh2 = d5(L[1], L[2], L[4], L[5], h / 2);
                    double tol = 1e-5 * (std::fabs(o.Ldot) + vq * Lscale) + 10 * (1e-9 * Lscale) / (h / 2) * 1e-2;
                    if (std::fabs(dh - dh2) > tol / 10) { c.skip("lengthdot-fd:h-vs-h/2-disagree"); c.obs("lengthdot-fd-inconclusive"); }
                    else c.check("lengthdot-vs-fd:" + A, std::fabs(dh2 - o.Ldot), tol, [&]() { Json j = desc; j.set("what", "getCableLengthDot != 5-point finite difference of getCableLength along q + t*qdot").set("fd_h", dh).set("fd_h2", dh2).set("lengthDot", o.Ldot).set("q", jV(s.getQ())).set("u", jV(s.getU())); return j; });
                }
            }
        }
        c.cover(A + "/" + kindsActive + "/v" + std::to_string(sc.nVia) + (st == 0 ? "/init" : "/cont") + (oref.ok ? "/vs-CableSpan" : ""));
        (void)backwards;
    }
}

int main(int argc, char** argv) {
    Args a = parseArgs(argc, argv);
    Ctx c(a);
    if (a.prop != "C45") { fprintf(stderr, "mon_cable: unknown property %s\n", a.prop.c_str()); return 2; }
    const long pathEvery = a.getInt("pathEvery", 4);     // every n-th case exercises CablePath/CableSpring
    return runCases(c, [&](long i, Rng& r) {
        if (pathEvery > 0 && i % pathEvery == pathEvery - 1) runPath(c, i / pathEvery, r);
        else runSpan(c, i - i / (pathEvery > 0 ? pathEvery : 1000000000L), r);
    });
}
