// mon_func — C41 "Functions, splines and smooth steps are self-consistent".
//
// Drives Function_<T>::{Constant,Linear,Polynomial,Sinusoid,Step} (T = Real, Vec3), the smooth-step
// helpers stepUp/stepDown/stepAny and their d/d2/d3 variants (double and float) and Spline_<T> objects
// produced by SplineFitter<T>::fitForSmoothingParameter(degree,x,y,0) (T = Real, Vec3; degree 1,3,5,7).
//
// Oracles (all harness-side, long double; tolerances are scale-aware, see each site):
//   closed   calcValue / calcDerivative(multi-index) == closed form written here;
//   fd       calcDerivative(order k) == 5-point finite difference of order k-1 along the last index
//            (estimates with h and h/2 must agree to tol/10, otherwise the sub-check is inconclusive);
//   iface    Array_<int> and std::vector<int> overloads, Vector and scalar overloads, clone() agree bitwise;
//   step     end values exactly y0/y1 outside the transition, derivatives exactly zero there, monotone on
//            a 10^4-point grid, C2 junction (value, y', y'' tend to the outside values at both ends);
//   spline   interpolation s(x_i)=y_i; all derivative orders 0..degree inside one knot interval are the
//            Taylor coefficients of ONE polynomial (Taylor transport between two points of the interval);
//            derivatives 0..degree-1 continuous across every knot (Taylor transport from the left
//            interval == value reported at the knot, which belongs to the right interval); orders
//            > degree are exactly 0; Vec3 spline == three scalar splines; copies share values and
//            survive destruction of the original (ASan decides use-after-free).
// Legal-client preconditions: spline abscissae strictly increasing, n >= degree+1 points, evaluation
// inside [x_0,x_{n-1}] (GCVSPLUtil::splder asserts it); stepUp/stepDown arguments in [0,1]; stepAny
// arguments inside [x0,x1]; Function::Step orders 1..3; derivative multi-indices non-empty.
#include "SimTKmath.h"
#include "vh.h"

using namespace SimTK;
using vh::Json;
typedef long double LD;

static const double EPS = 2.220446049250313e-16;

template <class T> struct TT;
template <> struct TT<Real> {
    static const int N = 1;
    static double get(const Real& v, int) { return v; }
    static void set(Real& v, int, double x) { v = x; }
    static const char* name() { return "Real"; }
};
template <> struct TT<Vec3> {
    static const int N = 3;
    static double get(const Vec3& v, int i) { return v[i]; }
    static void set(Vec3& v, int i, double x) { v[i] = x; }
    static const char* name() { return "Vec3"; }
};
template <class T> static bool sameBits(const T& a, const T& b) {
    for (int i = 0; i < TT<T>::N; ++i) {
        double x = TT<T>::get(a, i), y = TT<T>::get(b, i);
        if (!(x == y || (x != x && y != y))) return false;
    }
    return true;
}
template <class T> static Json jT(const T& a) { Json j = Json::arr(); for (int i = 0; i < TT<T>::N; ++i) j.push(Json(TT<T>::get(a, i))); return j; }
static Json jmi(const std::vector<int>& mi) { Json j = Json::arr(); for (int v : mi) j.push(Json(v)); return j; }
static Json jV(const Vector& v) { Json j = Json::arr(); for (int i = 0; i < v.size(); ++i) j.push(Json(v[i])); return j; }
template <class T> static T randT(vh::Rng& r, double amp) { T v; for (int i = 0; i < TT<T>::N; ++i) TT<T>::set(v, i, r.sym(amp)); return v; }

// ------------------------------------------------------------------------------------------------
// Generic judge for Function_<T> objects with a closed-form reference.
// ref(mi, x, val[N], scale[N]) : reference derivative (mi may be empty => value) and the sum of absolute
// terms that bounds the rounding error of a straightforward evaluation.
template <class T>
struct FuncJudge {
    vh::Ctx& c; std::string name;
    const Function_<T>& F; int na;
    std::function<void(const std::vector<int>&, const Vector&, LD*, LD*)> ref;
    double epsMult;            // closed-form tolerance = epsMult*EPS*scale
    bool order0ViaDerivative;  // calcDerivative with empty index list is meaningful (Sinusoid)

    T libDeriv(const std::vector<int>& mi, const Vector& x) const {
        if (mi.empty()) return F.calcValue(x);
        Array_<int> a(mi.begin(), mi.end());
        return F.calcDerivative(a, x);
    }
    void closed(const std::vector<int>& mi, const Vector& x, const std::string& cls) {
        T lib = libDeriv(mi, x);
        LD val[3], sc[3];
        ref(mi, x, val, sc);
        for (int k = 0; k < TT<T>::N; ++k) {
            double lv = TT<T>::get(lib, k);
            double resid = (double)fabsl((LD)lv - val[k]);
            double tol = epsMult * EPS * (double)sc[k] + 1e-300;
            c.check("closed:" + name + ":" + TT<T>::name() + ":order" + std::to_string(mi.size() > 6 ? 7 : mi.size()) + ":" + cls, resid, tol, [&] {
                return Json::obj().set("mi", jmi(mi)).set("x", jV(x)).set("lib", lv).set("ref", (double)val[k]).set("comp", k);
            });
        }
        if (!mi.empty()) {
            // std::vector overload (declared in every concrete class and in the base)
            T viaStd = F.calcDerivative(mi, x);
            c.require("iface:" + name + ":" + TT<T>::name() + ":stdvector-overload", sameBits(viaStd, lib), [&] {
                return Json::obj().set("mi", jmi(mi)).set("x", jV(x)).set("array", jT(lib)).set("stdvector", jT(viaStd));
            });
        }
    }
    // 5-point FD of order k-1 along the last index, step h (L = characteristic length at x)
    void fd(const std::vector<int>& mi, const Vector& x, double L, const std::string& cls) {
        if (mi.empty()) return;
        std::vector<int> lower(mi.begin(), mi.end() - 1);
        const int comp = mi.back();
        T lib = libDeriv(mi, x);
        double gmax[3] = {0, 0, 0};
        auto est = [&](double h, double* out) {
            T g[4];
            const double off[4] = {-2, -1, 1, 2};
            for (int s = 0; s < 4; ++s) {
                Vector xx = x; xx[comp] = x[comp] + off[s] * h;
                g[s] = libDeriv(lower, xx);
            }
            for (int k = 0; k < TT<T>::N; ++k) {
                LD a = TT<T>::get(g[0], k), b = TT<T>::get(g[1], k), d = TT<T>::get(g[2], k), e = TT<T>::get(g[3], k);
                out[k] = (double)((a - 8 * b + 8 * d - e) / (12 * (LD)h));
                gmax[k] = std::max({gmax[k], (double)fabsl(a), (double)fabsl(b), (double)fabsl(d), (double)fabsl(e)});
            }
        };
        // make the step exactly representable relative to x[comp]
        volatile double t1 = x[comp] + 2e-3 * L; double h = (t1 - x[comp]);
        if (!(h > 0)) { c.skip("fd-step-underflow"); return; }
        double e1[3], e2[3];
        est(h, e1); est(h / 2, e2);
        for (int k = 0; k < TT<T>::N; ++k) {
            double lv = TT<T>::get(lib, k);
            double tol = 1e-6 * (gmax[k] / L + std::fabs(lv)) + 1e-300;
            std::string key = "fd:" + name + ":" + TT<T>::name() + ":order" + std::to_string(mi.size() > 6 ? 7 : mi.size()) + ":" + cls;
            if (!(std::fabs(e1[k] - e2[k]) <= tol / 10)) { c.skip("fd-h-and-h/2-disagree:" + name); continue; }
            c.check(key, std::fabs(lv - e2[k]), tol, [&] {
                return Json::obj().set("mi", jmi(mi)).set("x", jV(x)).set("lib", lv).set("fd_h", e1[k]).set("fd_h2", e2[k]).set("h", h).set("comp", k);
            });
        }
    }
    void cloneAgrees(const std::vector<int>& mi, const Vector& x) {
        std::unique_ptr<Function_<T>> cl(F.clone());
        T a = libDeriv(mi, x), b;
        if (mi.empty()) b = cl->calcValue(x); else { Array_<int> ar(mi.begin(), mi.end()); b = cl->calcDerivative(ar, x); }
        c.require("iface:" + name + ":" + TT<T>::name() + ":clone", sameBits(a, b) && cl->getArgumentSize() == F.getArgumentSize()
                  && cl->getMaxDerivativeOrder() == F.getMaxDerivativeOrder(), [&] {
            return Json::obj().set("mi", jmi(mi)).set("x", jV(x)).set("orig", jT(a)).set("clone", jT(b));
        });
    }
};

// ------------------------------------------------------------------------------------------------
template <class T> static void caseConstantLinear(vh::Ctx& c, vh::Rng& r, bool linear) {
    const int na = r.integer(1, 6);
    const double amp = r.logUni(1e-3, 1e3);
    Vector x(na); for (int i = 0; i < na; ++i) x[i] = r.coin(0.1) ? 0.0 : r.sym(r.logUni(1e-3, 1e3));
    if (!linear) {
        T value = randT<T>(r, amp);
        typename Function_<T>::Constant F(value, na);
        FuncJudge<T> J{c, "Constant", F, na, [&](const std::vector<int>& mi, const Vector&, LD* v, LD* s) {
            for (int k = 0; k < TT<T>::N; ++k) { v[k] = mi.empty() ? (LD)TT<T>::get(value, k) : 0; s[k] = 0; } }, 0, false};
        c.setPhase("Constant");
        c.require("iface:Constant:" + std::string(TT<T>::name()) + ":argsize", F.getArgumentSize() == na, nullptr);
        J.closed({}, x, "value");
        for (int k = 1; k <= 4; ++k) {
            std::vector<int> mi; for (int q = 0; q < k; ++q) mi.push_back(r.integer(0, na - 1));
            J.closed(mi, x, "any"); J.fd(mi, x, std::max(1.0, std::fabs(x[mi.back()])), "any");
            c.cover(std::string("func:Constant:") + TT<T>::name() + ":order" + std::to_string(k));
        }
        J.cloneAgrees({}, x);
        return;
    }
    Vector_<T> coef(na + 1);
    for (int i = 0; i <= na; ++i) coef[i] = r.coin(0.1) ? T(0) : randT<T>(r, amp);
    typename Function_<T>::Linear F(coef);
    FuncJudge<T> J{c, "Linear", F, na, [&](const std::vector<int>& mi, const Vector& xx, LD* v, LD* s) {
        for (int k = 0; k < TT<T>::N; ++k) {
            if (mi.empty()) {
                LD a = TT<T>::get(coef[na], k), sa = fabsl(a);
                for (int i = 0; i < na; ++i) { LD t = (LD)xx[i] * (LD)TT<T>::get(coef[i], k); a += t; sa += fabsl(t); }
                v[k] = a; s[k] = sa;
            } else if (mi.size() == 1) { v[k] = TT<T>::get(coef[mi[0]], k); s[k] = 0; }
            else { v[k] = 0; s[k] = 0; }
        } }, 4.0 * (na + 2), false};
    c.setPhase("Linear");
    c.require("iface:Linear:" + std::string(TT<T>::name()) + ":argsize", F.getArgumentSize() == na, nullptr);
    J.closed({}, x, "value");
    for (int k = 1; k <= 3; ++k) {
        std::vector<int> mi; for (int q = 0; q < k; ++q) mi.push_back(r.integer(0, na - 1));
        J.closed(mi, x, k == 1 ? "first" : "higher");
        J.fd(mi, x, std::max(1.0, std::fabs(x[mi.back()])), k == 1 ? "first" : "higher");
        c.cover(std::string("func:Linear:") + TT<T>::name() + ":order" + std::to_string(k) + (na == 1 ? ":1arg" : ":multiarg"));
    }
    // every first derivative index
    for (int i = 0; i < na; ++i) J.closed({i}, x, "first");
    J.cloneAgrees({r.integer(0, na - 1)}, x);
}

template <class T> static void casePolynomial(vh::Ctx& c, vh::Rng& r) {
    const int deg = r.integer(0, 8);
    const double amp = r.logUni(1e-2, 1e2);
    Vector_<T> coef(deg + 1);          // decreasing powers
    for (int i = 0; i <= deg; ++i) coef[i] = (i > 0 && r.coin(0.15)) ? T(0) : randT<T>(r, amp);
    typename Function_<T>::Polynomial F(coef);
    FuncJudge<T> J{c, "Polynomial", F, 1, [&](const std::vector<int>& mi, const Vector& xx, LD* v, LD* s) {
        const int k = (int)mi.size();
        for (int q = 0; q < TT<T>::N; ++q) {
            LD a = 0, sa = 0, X = xx[0];
            for (int i = 0; i <= deg - k; ++i) {            // coefficient i has power p=deg-i
                const int p = deg - i;
                LD cf = TT<T>::get(coef[i], q);
                for (int j = 0; j < k; ++j) cf *= (p - j);
                LD term = cf * powl(X, p - k);
                a += term; sa += fabsl(term);
            }
            v[q] = a; s[q] = sa;
        } }, 8.0 * (deg + 3), false};
    c.setPhase("Polynomial");
    for (int pt = 0; pt < 3; ++pt) {
        Vector x(1, pt == 0 && r.coin(0.3) ? 0.0 : r.sym(3.0));
        J.closed({}, x, "value");
        for (int k = 1; k <= deg + 2; ++k) {
            std::vector<int> mi(k, 0);
            const char* cls = k <= deg ? "le-degree" : "gt-degree";
            J.closed(mi, x, cls);
            J.fd(mi, x, std::max(0.3, std::fabs(x[0])) / std::max(1, deg), cls);
            c.cover(std::string("func:Polynomial:") + TT<T>::name() + ":deg" + std::to_string(deg) + ":order" + std::to_string(k));
        }
    }
    J.cloneAgrees(std::vector<int>(std::min(deg, 2) + 1, 0), Vector(1, r.sym(2.0)));
}

static void caseSinusoid(vh::Ctx& c, vh::Rng& r) {
    const double a = r.sym(r.logUni(1e-2, 1e2)), w = (r.coin() ? 1 : -1) * r.logUni(0.05, 30), p = r.coin(0.2) ? 0.0 : r.sym(6.3);
    Function::Sinusoid F(a, w, p);
    if (r.coin(0.3)) {   // setters must have the same effect as the constructor
        Function::Sinusoid G(1, 1, 0); G.setAmplitude(a); G.setFrequency(w); G.setPhase(p);
        Vector x(1, r.sym(5.0));
        c.require("iface:Sinusoid:Real:setters", G.calcValue(x) == F.calcValue(x) && G.getAmplitude() == a && G.getFrequency() == w && G.getPhase() == p, nullptr);
    }
    FuncJudge<Real> J{c, "Sinusoid", F, 1, [&](const std::vector<int>& mi, const Vector& xx, LD* v, LD* s) {
        const int k = (int)mi.size();
        LD arg = (LD)w * (LD)xx[0] + (LD)p;
        LD wk = powl((LD)w, k);
        LD tr; switch (k & 3) { case 0: tr = sinl(arg); break; case 1: tr = cosl(arg); break; case 2: tr = -sinl(arg); break; default: tr = -cosl(arg); }
        v[0] = (LD)a * wk * tr;
        s[0] = fabsl((LD)a * wk) * (2 + fabsl((LD)w * xx[0]) + fabsl((LD)p) + k);
    }, 8.0, true};
    c.setPhase("Sinusoid");
    for (int pt = 0; pt < 3; ++pt) {
        Vector x(1, pt == 0 && r.coin(0.3) ? 0.0 : r.sym(10.0));
        J.closed({}, x, "value");
        for (int k = 1; k <= 9; ++k) {
            std::vector<int> mi(k, 0);
            const char* cls = k <= 3 ? "switch-branch" : "pow-branch";
            J.closed(mi, x, cls);
            J.fd(mi, x, 1.0 / std::fabs(w), cls);
            c.cover("func:Sinusoid:Real:order" + std::to_string(k) + (w < 0 ? ":negfreq" : ":posfreq"));
        }
        // order 0 through calcDerivative is explicitly implemented by Sinusoid
        Array_<int> none;
        c.require("iface:Sinusoid:Real:order0-is-value", F.calcDerivative(none, x) == F.calcValue(x), [&] { return Json::obj().set("x", x[0]); });
    }
    J.cloneAgrees({0, 0}, Vector(1, r.sym(3.0)));
}

// closed forms of the quintic step on s in [0,1]
static LD su(LD s) { return s * s * s * (10 + s * (6 * s - 15)); }
static LD dsu(LD s) { return 30 * s * s * (s - 1) * (s - 1); }
static LD d2su(LD s) { return 60 * s * (1 + s * (2 * s - 3)); }
static LD d3su(LD s) { return 60 + 360 * s * (s - 1); }

template <class T> static void caseStepFunction(vh::Ctx& c, vh::Rng& r) {
    const double amp = r.logUni(1e-2, 1e2);
    T y0 = randT<T>(r, amp), y1 = randT<T>(r, amp);
    if (r.coin(0.1)) y1 = y0;
    const double x0 = r.coin(0.2) ? 0.0 : r.sym(r.logUni(1e-2, 1e3));
    const double xr = (r.coin() ? 1 : -1) * r.logUni(1e-3, 1e2);
    const double x1 = x0 + xr;
    if (x1 == x0) { c.skip("step-zero-interval"); return; }
    const bool rev = x1 < x0;
    typename Function_<T>::Step F(y0, y1, x0, x1);
    if (r.coin(0.3)) { F.setParameters(y1, y0, x1 + 1, x0 - 1); F.setParameters(y0, y1, x0, x1); }
    const LD XR = (LD)x1 - (LD)x0;
    const std::string tn = TT<T>::name();
    const std::string dir = rev ? "reversed" : "forward";
    auto ref = [&](const std::vector<int>& mi, const Vector& xx, LD* v, LD* sc) {
        const int k = (int)mi.size();
        LD s = ((LD)xx[0] - (LD)x0) / XR;
        const bool outside = s <= 0 || s >= 1;
        for (int q = 0; q < TT<T>::N; ++q) {
            LD a = TT<T>::get(y0, q), b = TT<T>::get(y1, q), yr = b - a;
            if (outside) { v[q] = k == 0 ? (s <= 0 ? a : b) : 0; sc[q] = 0; continue; }
            switch (k) {
            case 0: v[q] = a + yr * su(s); sc[q] = fabsl(a) + 31 * fabsl(yr); break;
            case 1: v[q] = yr / XR * dsu(s); sc[q] = 120 * fabsl(yr / XR); break;
            case 2: v[q] = yr / (XR * XR) * d2su(s); sc[q] = 360 * fabsl(yr / (XR * XR)); break;
            default: v[q] = yr / (XR * XR * XR) * d3su(s); sc[q] = 780 * fabsl(yr / (XR * XR * XR)); break;
            }
        }
    };
    FuncJudge<T> J{c, "Step", F, 1, ref, 16.0, false};
    c.setPhase("Function::Step");
    c.require("iface:Step:" + tn + ":maxorder", F.getMaxDerivativeOrder() == 3 && F.getArgumentSize() == 1, nullptr);
    // inside: closed form + FD
    for (int pt = 0; pt < 6; ++pt) {
        double s = pt == 0 ? 0.5 : (pt == 1 ? r.logUni(1e-6, 1e-2) : (pt == 2 ? 1 - r.logUni(1e-6, 1e-2) : r.uni(0.02, 0.98)));
        Vector x(1, x0 + s * xr);
        J.closed({}, x, "inside");
        for (int k = 1; k <= 3; ++k) {
            J.closed(std::vector<int>(k, 0), x, "inside");
            if (pt == 0 || pt >= 3) J.fd(std::vector<int>(k, 0), x, std::fabs(xr) * std::min(s, 1 - s), "inside");
            c.cover("func:Step:" + tn + ":" + dir + ":order" + std::to_string(k) + ":inside");
        }
    }
    // outside and exactly at the ends: bitwise end values, bitwise zero derivatives
    c.setPhase("Function::Step outside");
    for (int pt = 0; pt < 6; ++pt) {
        double xx;
        switch (pt) { case 0: xx = x0; break; case 1: xx = x1; break;
                      case 2: xx = x0 - xr * r.logUni(1e-12, 1e3); break; case 3: xx = x1 + xr * r.logUni(1e-12, 1e3); break;
                      case 4: xx = std::nextafter(x0, x0 - xr); break; default: xx = std::nextafter(x1, x1 + xr); }
        const bool low = ((LD)xx - (LD)x0) / XR <= 0;
        Vector x(1, xx);
        T v = F.calcValue(x);
        c.require("step:Function::Step:" + tn + ":end-value-outside", sameBits(v, low ? y0 : y1), [&] {
            return Json::obj().set("x", xx).set("x0", x0).set("x1", x1).set("lib", jT(v)).set("expected", jT(low ? y0 : y1)); });
        for (int k = 1; k <= 3; ++k) {
            T d = F.calcDerivative(std::vector<int>(k, 0), x);
            bool zero = true; for (int q = 0; q < TT<T>::N; ++q) zero = zero && TT<T>::get(d, q) == 0;
            c.require("step:Function::Step:" + tn + ":zero-derivative-outside", zero, [&] {
                return Json::obj().set("x", xx).set("x0", x0).set("x1", x1).set("order", k).set("lib", jT(d)); });
        }
        c.cover("func:Step:" + tn + ":" + dir + ":outside");
    }
    // C2 junctions: value, y', y'' approach the outside values as s -> 0+ and s -> 1-
    c.setPhase("Function::Step junction");
    for (int end = 0; end < 2; ++end) for (double s : {1e-4, 1e-7, 1e-10}) {
        const double xx = end == 0 ? x0 + s * xr : x1 - s * xr;
        const LD sa = end == 0 ? ((LD)xx - (LD)x0) / XR : ((LD)x1 - (LD)xx) / XR;   // actual distance from the end in s units
        if (!(sa > 0 && sa < 0.5)) continue;
        Vector x(1, xx);
        T v = F.calcValue(x), d1 = F.calcDerivative(std::vector<int>(1, 0), x), d2 = F.calcDerivative(std::vector<int>(2, 0), x);
        for (int q = 0; q < TT<T>::N; ++q) {
            LD a = TT<T>::get(y0, q), b = TT<T>::get(y1, q), yr = fabsl(b - a);
            LD outv = end == 0 ? a : b;
            double rv = (double)fabsl((LD)TT<T>::get(v, q) - outv), tv = (double)(1.01 * 10 * sa * sa * sa * yr + 16 * EPS * (fabsl(a) + fabsl(b)));
            double r1 = std::fabs(TT<T>::get(d1, q)), t1 = (double)(1.01 * 30 * sa * sa * yr / fabsl(XR) + 1e-300);
            double r2 = std::fabs(TT<T>::get(d2, q)), t2 = (double)(1.01 * 60 * sa * yr / (XR * XR) + 1e-300);
            auto w = [&] { return Json::obj().set("x", xx).set("x0", x0).set("x1", x1).set("s_from_end", (double)sa).set("comp", q); };
            c.check("junction:Function::Step:" + tn + ":value", rv, tv, w);
            c.check("junction:Function::Step:" + tn + ":d1", r1, t1, w);
            c.check("junction:Function::Step:" + tn + ":d2", r2, t2, w);
        }
        c.cover("func:Step:" + tn + ":" + dir + ":junction" + (end ? "1" : "0"));
    }
    // monotone on a 10^4-point grid
    c.setPhase("Function::Step monotone grid");
    {
        const int NG = 10000;
        T prev = F.calcValue(Vector(1, x0));
        double worst = 0; int worstI = -1;
        double tolm[3];
        for (int q = 0; q < TT<T>::N; ++q) tolm[q] = 64 * EPS * (std::fabs(TT<T>::get(y0, q)) + std::fabs(TT<T>::get(y1, q)));   // two evaluations, each good to ~31 units of rounding
        Vector x(1);
        for (int i = 1; i <= NG; ++i) {
            x[0] = i == NG ? x1 : x0 + xr * ((double)i / NG);
            T cur = F.calcValue(x);
            for (int q = 0; q < TT<T>::N; ++q) {
                double sgn = TT<T>::get(y1, q) >= TT<T>::get(y0, q) ? 1 : -1;
                double back = -sgn * (TT<T>::get(cur, q) - TT<T>::get(prev, q));     // > 0 means going the wrong way
                double rel = tolm[q] > 0 ? back / tolm[q] : (back > 0 ? 1e300 : 0);
                if (rel > worst) { worst = rel; worstI = i; }
            }
            prev = cur;
        }
        c.check("monotone:Function::Step:" + tn, worst, 1.0, [&] { return Json::obj().set("grid_index", worstI).set("x0", x0).set("x1", x1).set("y0", jT(y0)).set("y1", jT(y1)); });
        c.cover("func:Step:" + tn + ":" + dir + ":grid");
    }
    J.cloneAgrees({0}, Vector(1, x0 + 0.3 * xr));
}

// raw helpers, precision P = double or float
template <class P> static void caseStepHelpers(vh::Ctx& c, vh::Rng& r) {
    const std::string pn = sizeof(P) == 4 ? "float" : "double";
    const double eps = sizeof(P) == 4 ? 5.96e-8 : EPS;
    c.setPhase("stepUp/stepDown " + pn);
    // exact end values
    c.require("step:stepUp:" + pn + ":end-values", stepUp(P(0)) == P(0) && stepUp(P(1)) == P(1) && stepDown(P(0)) == P(1) && stepDown(P(1)) == P(0), nullptr);
    c.require("step:dstepUp:" + pn + ":zero-at-ends", dstepUp(P(0)) == P(0) && dstepUp(P(1)) == P(0) && dstepDown(P(0)) == P(0) && dstepDown(P(1)) == P(0), nullptr);
    c.require("step:d2stepUp:" + pn + ":zero-at-ends", d2stepUp(P(0)) == P(0) && d2stepUp(P(1)) == P(0) && d2stepDown(P(0)) == P(0) && d2stepDown(P(1)) == P(0), nullptr);
    if (sizeof(P) == 8) c.require("step:stepUp:int-overload", stepUp(0) == 0.0 && stepUp(1) == 1.0 && stepDown(0) == 1.0 && stepDown(1) == 0.0, nullptr);
    // closed form at random points incl. near the ends
    for (int pt = 0; pt < 40; ++pt) {
        double sd = pt < 5 ? r.logUni(1e-7, 1e-2) : (pt < 10 ? 1 - r.logUni(1e-7, 1e-2) : r.uni());
        P s = (P)sd; if (!(s >= 0 && s <= 1)) continue;
        LD S = s;
        struct { const char* n; double lib; LD ref; double sc; } tab[8] = {
            {"stepUp", (double)stepUp(s), su(S), 31}, {"stepDown", (double)stepDown(s), 1 - su(S), 32},
            {"dstepUp", (double)dstepUp(s), dsu(S), 120}, {"dstepDown", (double)dstepDown(s), -dsu(S), 120},
            {"d2stepUp", (double)d2stepUp(s), d2su(S), 360}, {"d2stepDown", (double)d2stepDown(s), -d2su(S), 360},
            {"d3stepUp", (double)d3stepUp(s), d3su(S), 780}, {"d3stepDown", (double)d3stepDown(s), -d3su(S), 780}};
        for (auto& t : tab)
            c.check(std::string("closed:") + t.n + ":" + pn, (double)fabsl((LD)t.lib - t.ref), 4 * eps * t.sc, [&] { return Json::obj().set("x", (double)s).set("lib", t.lib).set("ref", (double)t.ref); });
    }
    c.cover("step:helpers:" + pn + ":closed");
    // derivative = FD of the next lower one (interior points, stencil inside [0,1]); double only (float FD is too noisy)
    if (sizeof(P) == 8) {
        for (int pt = 0; pt < 6; ++pt) {
            const double s = r.uni(0.05, 0.95), h = 1e-3;
            auto fd5 = [&](double (*g)(double), double hh) { return (double)(((LD)g(s - 2 * hh) - 8 * (LD)g(s - hh) + 8 * (LD)g(s + hh) - (LD)g(s + 2 * hh)) / (12 * (LD)hh)); };
            struct { const char* n; double (*lo)(double); double (*hi)(double); double sc; } tab[6] = {
                {"dstepUp", (double (*)(double))stepUp, (double (*)(double))dstepUp, 2}, {"d2stepUp", (double (*)(double))dstepUp, (double (*)(double))d2stepUp, 6},
                {"d3stepUp", (double (*)(double))d2stepUp, (double (*)(double))d3stepUp, 60}, {"dstepDown", (double (*)(double))stepDown, (double (*)(double))dstepDown, 2},
                {"d2stepDown", (double (*)(double))dstepDown, (double (*)(double))d2stepDown, 6}, {"d3stepDown", (double (*)(double))d2stepDown, (double (*)(double))d3stepDown, 60}};
            for (auto& t : tab) {
                double e1 = fd5(t.lo, h), e2 = fd5(t.lo, h / 2), lib = t.hi(s), tol = 1e-7 * t.sc;
                if (!(std::fabs(e1 - e2) <= tol / 10)) { c.skip("fd-h-and-h/2-disagree:step-helper"); continue; }
                c.check(std::string("fd:") + t.n + ":double", std::fabs(lib - e2), tol, [&] { return Json::obj().set("x", s).set("lib", lib).set("fd", e2); });
            }
        }
        c.cover("step:helpers:double:fd");
    }
    // monotone, inside [0,1] on a 10^4 grid
    {
        const int NG = 10000; double worst = 0; int wi = -1; P prev = stepUp(P(0)), prevD = stepDown(P(0));
        double worstRange = 0;
        for (int i = 1; i <= NG; ++i) {
            P s = i == NG ? P(1) : (P)((double)i / NG);
            P v = stepUp(s), d = stepDown(s);
            double back = std::max((double)prev - (double)v, (double)d - (double)prevD) / (64 * eps);   // rounding of two evaluations (coefficient sum 31)
            if (back > worst) { worst = back; wi = i; }
            double out = std::max({-(double)v, (double)v - 1, -(double)d, (double)d - 1}) / (64 * eps);
            worstRange = std::max(worstRange, out);
            prev = v; prevD = d;
        }
        c.check("monotone:stepUp/stepDown:" + pn, worst, 1.0, [&] { return Json::obj().set("grid_index", wi); });
        c.check("range:stepUp/stepDown:" + pn, worstRange, 1.0, nullptr);
        c.cover("step:helpers:" + pn + ":grid");
    }
    // stepAny family
    c.setPhase("stepAny " + pn);
    for (int rep = 0; rep < 4; ++rep) {
        const P y0 = (P)(r.coin(0.2) ? 0.0 : r.sym(r.logUni(1e-2, 1e2))), yr = (P)r.sym(r.logUni(1e-2, 1e2));
        const P x0 = (P)(r.coin(0.3) ? 0.0 : r.sym(r.logUni(1e-2, 1e2)));
        const P xr = (P)((r.coin() ? 1 : -1) * r.logUni(1e-2, 1e2));
        const P oo = P(1) / xr;
        const P x1 = x0 + xr;
        const LD XR = (LD)x1 - (LD)x0;          // the interval the caller actually has
        if (XR == 0) { c.skip("stepany-zero-interval"); continue; }
        // oo was computed from xr, not from x1-x0: use the interval implied by oo for the reference
        const LD OO = oo;
        c.require("step:stepAny:" + pn + ":value-at-x0", stepAny(y0, yr, x0, oo, x0) == y0 && dstepAny(yr, x0, oo, x0) == P(0) && d2stepAny(yr, x0, oo, x0) == P(0),
                  [&] { return Json::obj().set("y0", (double)y0).set("x0", (double)x0).set("lib", (double)stepAny(y0, yr, x0, oo, x0)); });
        for (int pt = 0; pt < 10; ++pt) {
            double sd = pt == 0 ? r.logUni(1e-6, 1e-2) : (pt == 1 ? 1 - r.logUni(1e-6, 1e-2) : r.uni());
            P x = (P)((double)x0 + sd * (double)xr);
            LD s = ((LD)x - (LD)x0) * OO;
            if (!(s >= 0 && s <= 1)) continue;              // legal-client precondition of stepAny
            // rounding of (x-x0) in precision P: relative eps; sensitivity covered by the coefficient sums
            struct { const char* n; double lib; LD ref; LD sc; } tab[4] = {
                {"stepAny", (double)stepAny(y0, yr, x0, oo, x), (LD)y0 + (LD)yr * su(s), fabsl((LD)y0) + 31 * fabsl((LD)yr)},
                {"dstepAny", (double)dstepAny(yr, x0, oo, x), (LD)yr * OO * dsu(s), 120 * fabsl((LD)yr * OO)},
                {"d2stepAny", (double)d2stepAny(yr, x0, oo, x), (LD)yr * OO * OO * d2su(s), 360 * fabsl((LD)yr * OO * OO)},
                {"d3stepAny", (double)d3stepAny(yr, x0, oo, x), (LD)yr * OO * OO * OO * d3su(s), 780 * fabsl((LD)yr * OO * OO * OO)}};
            for (auto& t : tab)
                c.check(std::string("closed:") + t.n + ":" + pn, (double)fabsl((LD)t.lib - t.ref), 8 * eps * (double)t.sc + 1e-300, [&] {
                    return Json::obj().set("y0", (double)y0).set("yr", (double)yr).set("x0", (double)x0).set("oo", (double)oo).set("x", (double)x).set("lib", t.lib).set("ref", (double)t.ref); });
        }
        c.cover("step:stepAny:" + pn + (xr < 0 ? ":reversed" : ":forward"));
    }
}

// ------------------------------------------------------------------------------------------------
// Splines
struct SplineSpec {
    int degree, n; std::string spacing, data;
    std::vector<double> x;
};
static SplineSpec genKnots(vh::Rng& r, long idx) {
    SplineSpec S;
    static const int DEG[4] = {1, 3, 5, 7};
    S.degree = DEG[(idx / 3) % 4];
    const int nmin = std::max(S.degree + 1, 4);
    switch ((idx / 12) % 3) { case 0: S.n = r.integer(nmin, nmin + 2); break; case 1: S.n = r.integer(nmin + 3, 20); break; default: S.n = r.integer(21, 60); }
    static const char* SP[3] = {"uniform", "random", "clustered"};
    const int sp = (int)((idx / 36) % 3);
    S.spacing = SP[sp];
    const double base = r.logUni(1e-2, 10);
    const double start = r.coin(0.3) ? 0.0 : r.sym(r.logUni(0.1, 100));
    S.x.resize(S.n);
    S.x[0] = start;
    for (int i = 1; i < S.n; ++i) {
        double d = sp == 0 ? base : (sp == 1 ? base * r.uni(0.2, 1.0) : base * r.logUni(S.n > 20 ? 3e-2 : 1e-2, 1.0));
        S.x[i] = S.x[i - 1] + d;
    }
    return S;
}

template <class T>
struct SplineJudge {
    vh::Ctx& c; const SplineSpec& S; const Spline_<T>& sp; const Vector_<T>& y; std::string cell;
    int m, d, n;
    const Vector& cx; const Vector_<T>& cc;   // control point locations / values kept by the spline

    SplineJudge(vh::Ctx& c, const SplineSpec& S, const Spline_<T>& sp, const Vector_<T>& y, const std::string& cell)
        : c(c), S(S), sp(sp), y(y), cell(cell), m((S.degree + 1) / 2), d(S.degree), n(S.n),
          cx(sp.getControlPointLocations()), cc(sp.getControlPointValues()) {}

    // rounding scale of the k-th derivative near interval l (0-based: [x_l, x_{l+1}]): max|c| * (2/hmin)^k over the
    // knots that can influence the interval
    void localScale(int l, double& cmax, double& hmin) const {
        const int lo = std::max(0, l - 2 * m), hi = std::min(n - 1, l + 2 * m + 1);
        cmax = 0; hmin = std::numeric_limits<double>::infinity();
        for (int j = lo; j <= hi; ++j) {
            for (int q = 0; q < TT<T>::N; ++q) cmax = std::max({cmax, std::fabs(TT<T>::get(cc[j], q)), std::fabs(TT<T>::get(y[j], q))});
            if (j < hi) hmin = std::min(hmin, S.x[j + 1] - S.x[j]);
        }
    }
    double Sk(int l, int k) const { double cm, hm; localScale(l, cm, hm); return (cm + 1e-300) * std::pow(2.0 / hm, k); }
    T D(int k, double t) const { return k == 0 ? sp.calcValue(t) : sp.calcDerivative(k, t); }
    Json wit(int l, double t) const { return Json::obj().set("degree", d).set("n", n).set("interval", l).set("t", t).set("x", vh::jvec(S.x)); }

    void interpolation() {
        c.setPhase("spline interpolation " + cell);
        double cmax = 0;
        for (int j = 0; j < n; ++j) for (int q = 0; q < TT<T>::N; ++q) cmax = std::max({cmax, std::fabs(TT<T>::get(cc[j], q)), std::fabs(TT<T>::get(y[j], q))});
        for (int i = 0; i < n; ++i) {
            T v = sp.calcValue(S.x[i]);
            for (int q = 0; q < TT<T>::N; ++q)
                c.check("interp:spline:deg" + std::to_string(d) + ":" + TT<T>::name() + ":" + (i == 0 ? "first" : (i == n - 1 ? "last" : "interior")) + "-knot",
                        std::fabs(TT<T>::get(v, q) - TT<T>::get(y[i], q)), 1e-8 * (cmax + 1e-300),   // cmax includes the B-spline coefficients, i.e. it grows with the conditioning of the knot set
                        [&] { return wit(i, S.x[i]).set("lib", TT<T>::get(v, q)).set("y", TT<T>::get(y[i], q)).set("comp", q); });
        }
    }
    // Taylor transport inside interval l from t1 to t2 for all orders 0..d; orders > d exactly zero
    void taylor(int l, double t1, double t2, const std::string& where, int maxOrderChecked) {
        std::vector<T> D1(d + 1);
        for (int j = 0; j <= d; ++j) D1[j] = D(j, t1);
        const LD dl = (LD)t2 - (LD)t1;
        for (int k = 0; k <= maxOrderChecked; ++k) {
            T lib = D(k, t2);
            for (int q = 0; q < TT<T>::N; ++q) {
                LD pred = 0, scale = 0, fac = 1, pw = 1;
                for (int j = k; j <= d; ++j) {
                    if (j > k) { fac *= (j - k); pw *= dl; }
                    pred += (LD)TT<T>::get(D1[j], q) * pw / fac;
                    scale += (LD)Sk(l, j) * fabsl(pw) / fac;
                }
                double resid = (double)fabsl((LD)TT<T>::get(lib, q) - pred);
                c.check(where + ":spline:deg" + std::to_string(d) + ":" + TT<T>::name() + ":order" + std::to_string(k), resid, 1e-12 * (double)scale,
                        [&] { return wit(l, t2).set("t1", t1).set("order", k).set("lib", TT<T>::get(lib, q)).set("predicted", (double)pred).set("comp", q); });
            }
        }
    }
    void highOrdersZero(double t) {
        for (int k = d + 1; k <= d + 3; ++k) {
            T v = sp.calcDerivative(k, t);
            bool z = true; for (int q = 0; q < TT<T>::N; ++q) z = z && TT<T>::get(v, q) == 0;
            c.require("closed:spline:deg" + std::to_string(d) + ":" + TT<T>::name() + ":order-gt-degree-is-zero", z, [&] { return wit(-1, t).set("order", k).set("lib", jT(v)); });
        }
    }
    void fd(int l, double t) {
        double cm, hm; localScale(l, cm, hm);
        const double hint = S.x[l + 1] - S.x[l];
        const double room = std::min(t - S.x[l], S.x[l + 1] - t);
        volatile double tt = t + std::min({hint, hm}) / 64; double h = tt - t;
        if (!(h > 0) || 2 * h >= room) { c.skip("spline-fd-no-room"); return; }
        for (int k = 1; k <= d; ++k) {
            auto est = [&](double hh, double* out) {
                T a = D(k - 1, t - 2 * hh), b = D(k - 1, t - hh), e = D(k - 1, t + hh), f = D(k - 1, t + 2 * hh);
                for (int q = 0; q < TT<T>::N; ++q) out[q] = (double)(((LD)TT<T>::get(a, q) - 8 * (LD)TT<T>::get(b, q) + 8 * (LD)TT<T>::get(e, q) - (LD)TT<T>::get(f, q)) / (12 * (LD)hh));
            };
            double e1[3], e2[3]; est(h, e1); est(h / 2, e2);
            T lib = D(k, t);
            for (int q = 0; q < TT<T>::N; ++q) {
                double tol = 1e-6 * (std::fabs(TT<T>::get(lib, q)) + Sk(l, k));
                if (!(std::fabs(e1[q] - e2[q]) <= tol / 10)) { c.skip("fd-h-and-h/2-disagree:spline"); continue; }
                c.check("fd:spline:deg" + std::to_string(d) + ":" + TT<T>::name() + ":order" + std::to_string(k), std::fabs(TT<T>::get(lib, q) - e2[q]), tol,
                        [&] { return wit(l, t).set("order", k).set("lib", TT<T>::get(lib, q)).set("fd", e2[q]).set("h", h).set("comp", q); });
            }
        }
    }
    void run(vh::Rng& r) {
        interpolation();
        // choose up to 12 intervals incl. first and last
        std::vector<int> ivs;
        ivs.push_back(0); if (n > 2) ivs.push_back(n - 2);
        for (int q = 0; q < 10 && n > 3; ++q) ivs.push_back(r.integer(0, n - 2));
        std::sort(ivs.begin(), ivs.end()); ivs.erase(std::unique(ivs.begin(), ivs.end()), ivs.end());
        for (int l : ivs) {
            const double a = S.x[l], b = S.x[l + 1], mid = 0.5 * (a + b);
            if (!(mid > a && mid < b)) { c.skip("spline-interval-too-short"); continue; }
            c.setPhase("spline taylor " + cell);
            const double t2 = a + (b - a) * r.uni(0.02, 0.98);
            taylor(l, mid, t2, "taylor", d);                                   // inside the interval, all orders
            taylor(l, mid, a, "taylor", d);                                    // left knot belongs to this interval
            // right knot belongs to the NEXT interval (or to the right extrapolation branch for the last knot):
            // continuity of orders 0..d-1 across the knot
            taylor(l, mid, b, l == n - 2 ? "continuity-last-knot" : "continuity", d - 1);
            c.setPhase("spline fd " + cell);
            fd(l, mid);
            highOrdersZero(t2);
        }
        highOrdersZero(S.x[0]); highOrdersZero(S.x[n - 1]);
        // interface equivalences
        c.setPhase("spline iface " + cell);
        {
            const double t = S.x[0] + (S.x[n - 1] - S.x[0]) * r.uni();
            Vector tv(1, t);
            const Function_<T>& F = sp;
            bool ok = sameBits(F.calcValue(tv), sp.calcValue(t));
            for (int k = 1; k <= d; ++k) {
                Array_<int> ai(k, 0); std::vector<int> si(k, 0);
                ok = ok && sameBits(F.calcDerivative(ai, tv), sp.calcDerivative(k, t)) && sameBits(sp.calcDerivative(si, tv), sp.calcDerivative(k, t));
            }
            ok = ok && sp.getSplineDegree() == d && sp.getArgumentSize() == 1 && cx.size() == n && cc.size() == n;
            for (int i = 0; i < n && ok; ++i) ok = cx[i] == S.x[i];
            c.require(std::string("iface:spline:") + TT<T>::name() + ":function-interface", ok, [&] { return wit(-1, t); });
        }
    }
};

template <class T> static void caseSpline(vh::Ctx& c, vh::Rng& r, long idx) {
    SplineSpec S = genKnots(r, idx);
    const int n = S.n;
    const bool smooth = r.coin(0.6);
    S.data = smooth ? "smooth" : "rough";
    const double amp = r.logUni(1e-2, 1e2), off = r.coin(0.5) ? 0.0 : r.sym(10 * amp);
    const double span = S.x[n - 1] - S.x[0];
    Vector x(n); Vector_<T> y(n);
    double w[3], ph[3]; for (int q = 0; q < 3; ++q) { w[q] = r.uni(0.5, 6) / span; ph[q] = r.sym(3.0); }
    for (int i = 0; i < n; ++i) {
        x[i] = S.x[i];
        for (int q = 0; q < TT<T>::N; ++q)
            TT<T>::set(y[i], q, off + (smooth ? amp * std::sin(w[q] * (S.x[i] - S.x[0]) + ph[q]) + 0.3 * amp * (S.x[i] - S.x[0]) / span : r.sym(amp)));
    }
    const std::string cell = "deg" + std::to_string(S.degree) + ":" + S.spacing + ":" + TT<T>::name() + ":" + (n <= S.degree + 3 ? "n-min" : (n <= 20 ? "n-mid" : "n-large")) + ":" + S.data;
    c.setPhase("spline fit " + cell);
    std::unique_ptr<Spline_<T>> keep;
    {
        SplineFitter<T> fitter = SplineFitter<T>::fitForSmoothingParameter(S.degree, x, y, 0);
        c.require(std::string("iface:splinefitter:") + TT<T>::name() + ":smoothing-parameter-reported", fitter.getSmoothingParameter() == 0, [&] { return Json::obj().set("p", fitter.getSmoothingParameter()); });
        SplineFitter<T> copy(fitter);                     // reference-counted handle
        keep.reset(new Spline_<T>(copy.getSpline()));     // shallow, reference counted
    }                                                     // fitter and its copy are gone; *keep must stay valid
    const Spline_<T>& sp = *keep;
    for (int i = 0; i < n; ++i) for (int q = 0; q < TT<T>::N; ++q) {
        double v = TT<T>::get(sp.getControlPointValues()[i], q);
        if (!std::isfinite(v)) { c.viol(std::string("nonfinite:spline-coefficient:") + TT<T>::name(), Json::obj().set("i", i).set("x", vh::jvec(S.x))); return; }
    }
    SplineJudge<T> J(c, S, sp, y, cell);
    J.run(r);
    c.cover("spline:" + cell);
    // copy semantics: a copy, a clone and a spline rebuilt from the control points agree bitwise
    c.setPhase("spline copies " + cell);
    {
        Spline_<T> a(sp), b; b = sp;
        std::unique_ptr<Spline_<T>> cl(sp.clone());
        Spline_<T> rebuilt(S.degree, sp.getControlPointLocations(), sp.getControlPointValues());
        bool ok = true;
        for (int pt = 0; pt < 5; ++pt) {
            const double t = S.x[0] + span * r.uni();
            for (int k = 0; k <= std::min(S.degree, 2); ++k) {
                T v = k ? sp.calcDerivative(k, t) : sp.calcValue(t);
                ok = ok && sameBits(v, k ? a.calcDerivative(k, t) : a.calcValue(t)) && sameBits(v, k ? b.calcDerivative(k, t) : b.calcValue(t))
                        && sameBits(v, k ? cl->calcDerivative(k, t) : cl->calcValue(t)) && sameBits(v, k ? rebuilt.calcDerivative(k, t) : rebuilt.calcValue(t));
            }
        }
        c.require(std::string("iface:spline:") + TT<T>::name() + ":copy-clone-rebuild-agree", ok, [&] { return Json::obj().set("degree", S.degree).set("x", vh::jvec(S.x)); });
    }
    // Vec3 spline == three scalar splines
    if (TT<T>::N == 3) {
        c.setPhase("spline Vec3 vs scalar " + cell);
        for (int q = 0; q < 3; ++q) {
            Vector yq(n); for (int i = 0; i < n; ++i) yq[i] = TT<T>::get(y[i], q);
            Spline s1 = SplineFitter<Real>::fitForSmoothingParameter(S.degree, x, yq, 0).getSpline();
            for (int pt = 0; pt < 6; ++pt) {
                const double t = pt == 0 ? S.x[0] : (pt == 1 ? S.x[n - 1] : S.x[0] + span * r.uni());
                int l = 0; while (l < n - 2 && S.x[l + 1] <= t) ++l;
                for (int k = 0; k <= S.degree; ++k) {
                    double a = k ? s1.calcDerivative(k, t) : s1.calcValue(t);
                    T vb = k ? sp.calcDerivative(k, t) : sp.calcValue(t);
                    c.check("vec3-vs-scalar:spline:deg" + std::to_string(S.degree) + ":order" + std::to_string(k), std::fabs(a - TT<T>::get(vb, q)), 1e-12 * J.Sk(l, k),
                            [&] { return J.wit(l, t).set("scalar", a).set("vec3comp", TT<T>::get(vb, q)).set("comp", q); });
                }
            }
        }
    }
}

int main(int argc, char** argv) {
    vh::Args args = vh::parseArgs(argc, argv);
    vh::Ctx c(args);
    if (args.prop != "C41") { fprintf(stderr, "mon_func handles C41 only\n"); return 2; }
    return vh::runCases(c, [&](long i, vh::Rng& r) {
        // half of the cases are splines (the large input space), the rest cycles through the closed-form families
        const int kind = (int)(i % 16);
        try {
            switch (kind) {
            case 0: caseConstantLinear<Real>(c, r, false); break;
            case 2: caseConstantLinear<Real>(c, r, true); break;
            case 4: caseConstantLinear<Vec3>(c, r, (i / 16) % 2 == 0); break;
            case 6: casePolynomial<Real>(c, r); break;
            case 8: casePolynomial<Vec3>(c, r); break;
            case 10: caseSinusoid(c, r); break;
            case 12: if ((i / 16) % 2) caseStepFunction<Vec3>(c, r); else caseStepFunction<Real>(c, r); break;
            case 14: if ((i / 16) % 2) caseStepHelpers<float>(c, r); else caseStepHelpers<double>(c, r); break;
            default: {
                const long s = i / 2;      // spline counter
                if (s % 3 == 2) caseSpline<Vec3>(c, r, s); else caseSpline<Real>(c, r, s);
            }
            }
        } catch (const std::exception& e) {
            // no documented exception can occur for legal inputs: report with a stable key
            c.viol("exception:" + c.phase.substr(0, c.phase.find(' ')) + ":" + vh::normMsg(e.what()).substr(0, 100), Json::obj().set("what", vh::firstLine(e.what(), 600)).set("phase", c.phase));
        }
    });
}
