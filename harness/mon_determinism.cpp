// mon_determinism — C46: simulation is deterministic and isolated (DESIGN §5 C46).
//
// Scenario S (determ_scen.h) = seeded model (tree + forces + optional constraints / prescribed motion / contact /
// cable / event handlers+reporters / measures) + integrator + options + report schedule; force evaluation is
// single-threaded (GeneralForceSubsystem::setNumberOfThreads(1); OPENBLAS_NUM_THREADS=1 is set by the driver).
// Oracle: the *bitwise* record of everything a client gets back at every returned step — t, q, u, z, qdot, udot,
// zdot, multipliers, constraint errors, returned status, step sizes and integrator statistics, event windows /
// triggered events / estimated event times, the handler and reporter call log, measure values, energy, contact
// forces in the order reported — must be identical for
//   solo                  the reference: S built and run once in this process,
//   fresh-process         S run alone in a freshly exec'ed copy of this program (hashes come back over a pipe); one
//   / other-process       exec serves a batch of consecutive cases: the first is the first thing that process does,
//                         the others run after other scenarios there (a history this process does not have),
//   twice                 S built and run a second time (heap and stack scribbled in between),
//   state-copy            S's System re-used with a new integrator, started from a copy of the initial State
//                         (copy of a State realized to Acceleration / assignment over a State of another System),
//   after-noise           S built and run after a batch of unrelated activity (determ_noise.h: other models with
//                         other integrators incl. CPodes, LBFGS/LBFGSB/IPOPT/CMAES, collision algorithm registry,
//                         seeded and unseeded Random objects, geodesics, LAPACK factorizations, splines, roots),
//   interleaved-noise     one slot of that activity before every single step of S,
//   twin-interleaved      two separately built instances of S stepping alternately,
//   cousin-interleaved    S stepping alternately with a "cousin": the same tree (same nq/nu/nb) with other forces,
//                         constraints, prescribed motion and handlers (always constrained) under another integrator --
//                         same shape, different content, the worst neighbour for a hidden nu-sized workspace; both
//                         must reproduce their solo records,
//   shared-system         two integrators on ONE System object stepping alternately (all run state is in State).
// A mismatch witness names the first returned step that differs, which components differ there, and (interleaved
// schedules) which activity ran immediately before that step. The unrelated activities are deterministic functions
// of their own seeds, so their results are hashed as well: "noise-perturbed:<activity>" fires when an activity
// computes something else next to S than alone.
// --mode threaded (tsan flavour): two independent systems are built and simulated concurrently on two threads
// (different scenarios / the same scenario twice / scenario next to the noise set); each must reproduce its solo
// record; ThreadSanitizer reports with a simbody frame are violations (counted by the driver from the logs).
//
// Legal-client preconditions: valid mass properties and states from model.h; constraints are satisfied at the
// initial configuration by construction; handlers only modify the State they are given; callbacks keep all per-run
// data in a control block owned by the run (so one System can serve several runs); every run is bounded by a count
// of returned steps and by a count of force evaluations (no wall clock anywhere). Integrator exceptions
// (initialization / step failure) are outcomes: their text is part of the record. A scenario whose reference run
// fails to initialize is skipped (nothing to compare). CPodes is not started on a System without continuous state
// variables (the library segfaults there; reported separately), such a scenario is skipped with that reason.
// Not observable here: bit-identity across machines, compilers or library builds.
#include "determ_noise.h"
#include <thread>
#include <atomic>
#include <sys/wait.h>
#include <unistd.h>

using namespace SimTK;
using namespace vh;
using namespace det;

static std::vector<std::string> g_argv;

struct CaseSpec { uint64_t scenSeed = 0, noiseSeed = 0, scrSeed = 0; long cyc = 0; ScenKnobs kn; bool geod = true; int forceInteg = -1; };
static CaseSpec makeCase(const Args& a, long idx, Rng& r) {
    CaseSpec cs;
    cs.scenSeed = r.next(); cs.noiseSeed = r.next(); cs.scrSeed = r.next();
    cs.cyc = idx + (long)(a.seed % 9973);
    bool thorough = a.tier == "thorough";
    cs.kn.maxBodies = (int)a.getInt("maxbodies", thorough ? 6 : 4);
    cs.kn.maxStates = (int)a.getInt("maxstates", thorough ? 48 : 24);
    cs.kn.budget = a.getInt("budget", thorough ? 8000 : 3000);
    cs.geod = a.getInt("geodesics", 1) != 0;      // investigation aid: 0 replaces the geodesic activity
    cs.kn.cableSurfaceWithHandlers = a.getInt("cable-surface-with-handlers", 1) != 0;
    if (a.getInt("combo", -1) >= 0) cs.cyc = cs.cyc - cs.cyc % N_FEAT_COMBOS + a.getInt("combo", 0);   // investigation aid
    // investigation aids: replay a scenario named in a witness (e.g. one run by the noise) as the case's own scenario
    if (!a.get("scen-seed").empty()) cs.scenSeed = strtoull(a.get("scen-seed").c_str(), 0, 10);
    if (!a.get("scen-cyc").empty()) cs.cyc = a.getInt("scen-cyc", 0);
    cs.forceInteg = (int)a.getInt("scen-integ", -1);
    g_dumpStep = a.getInt("dumpstep", -1);
    return cs;
}
static std::unique_ptr<Scen> buildScen(const CaseSpec& cs) { std::unique_ptr<Scen> sc(new Scen()); sc->build(cs.scenSeed, cs.cyc, cs.kn, cs.forceInteg); return sc; }

// ------------------------------------------------------------------------------------------------ fresh process
static void emitTraj(long idx, const Traj& t) {
    printf("DET1 %ld %zu %llx\n", idx, t.steps.size(), (unsigned long long)t.hOutcome);
    for (auto& s : t.steps) {
        uint64_t tb; memcpy(&tb, &s.t, 8);
        printf("%llx %d %llx %llx %llx %llx %llx %llx %llx %llx\n", (unsigned long long)tb, s.status, (unsigned long long)s.hState, (unsigned long long)s.hDeriv, (unsigned long long)s.hMult,
               (unsigned long long)s.hStats, (unsigned long long)s.hEvents, (unsigned long long)s.hMeas, (unsigned long long)s.hContact, (unsigned long long)s.cum);
    }
    printf("END %s\n", t.outcome.c_str());
    fflush(stdout);
}
// Records computed by another process: a freshly exec'ed copy of this program runs the solo reference of 'count'
// consecutive cases starting at 'first' (process start-up dominates the cost of a case, hence the batch). The first
// case of a batch is the first thing that process does ("fresh-process"); the others have other scenarios before
// them in that process, which is again a history the parent does not have ("other-process").
struct ChildRecs { std::map<long, Traj> recs; std::map<long, std::string> errs; long batchFirst = -1; };
static void runChild(long first, long count, ChildRecs& out) {
    out.recs.clear(); out.errs.clear(); out.batchFirst = first;
    auto failAll = [&](const std::string& e) { for (long i = first; i < first + count; ++i) if (!out.recs.count(i)) out.errs[i] = e; };
    int fds[2];
    if (pipe(fds) != 0) { failAll("pipe failed"); return; }
    fflush(stdout); fflush(stderr);
    std::vector<std::string> av = g_argv; av.push_back("--only"); av.push_back(std::to_string(first)); av.push_back("--emit"); av.push_back(std::to_string(count));
    std::vector<char*> argv; for (auto& s : av) argv.push_back(const_cast<char*>(s.c_str())); argv.push_back(nullptr);
    pid_t pid = fork();
    if (pid < 0) { close(fds[0]); close(fds[1]); failAll("fork failed"); return; }
    if (pid == 0) { dup2(fds[1], 1); close(fds[0]); close(fds[1]); execv("/proc/self/exe", argv.data()); _exit(127); }
    close(fds[1]);
    std::string txt; char buf[4096]; ssize_t n;
    while ((n = read(fds[0], buf, sizeof buf)) > 0 || (n < 0 && errno == EINTR)) if (n > 0) txt.append(buf, (size_t)n);
    close(fds[0]);
    int status = 0; while (waitpid(pid, &status, 0) < 0 && errno == EINTR) {}
    std::istringstream in(txt); std::string line; long cur = -1; size_t ns = 0; Traj t;
    while (std::getline(in, line)) {
        if (cur < 0) { unsigned long long ho; long ci; if (sscanf(line.c_str(), "DET1 %ld %zu %llx", &ci, &ns, &ho) == 3) { cur = ci; t = Traj(); t.hOutcome = ho; } continue; }
        if (line.rfind("END", 0) == 0) {
            t.outcome = line.size() > 4 ? line.substr(4) : "";
            if (t.steps.size() == ns) out.recs[cur] = t; else out.errs[cur] = "truncated record from the other process";
            cur = -1; continue;
        }
        unsigned long long tb, a, b, c, d, e, f, g, cu; int st;
        if (sscanf(line.c_str(), "%llx %d %llx %llx %llx %llx %llx %llx %llx %llx", &tb, &st, &a, &b, &c, &d, &e, &f, &g, &cu) != 10) { out.errs[cur] = "unparsable line from the other process: " + line; cur = -1; continue; }
        StepRec s; uint64_t t64 = tb; memcpy(&s.t, &t64, 8); s.status = st; s.hState = a; s.hDeriv = b; s.hMult = c; s.hStats = d; s.hEvents = e; s.hMeas = f; s.hContact = g; s.cum = cu;
        t.steps.push_back(s);
    }
    char b2[200]; snprintf(b2, sizeof b2, "the other process ended with wait status 0x%x (signal %d) before delivering this case's record", status, WIFSIGNALED(status) ? WTERMSIG(status) : 0);
    failAll(b2);
}

// ------------------------------------------------------------------------------------------------ comparison
static std::string statusName(int s) { return s < 0 ? std::string("-") : std::string(Integrator::getSuccessfulStepStatusString((Integrator::SuccessfulStepStatus)s)); }
static bool compareTraj(Ctx& c, const std::string& sched, const Scen& sc, const Traj& ref, const Traj& x, const std::vector<std::string>* before, const char* role = "") {
    std::string what; long k = firstDiff(ref, x, what);
    if (k < 0) { c.require("mismatch:" + sched, true, nullptr); return true; }
    std::string first = what.substr(0, what.find(';'));
    // key = <what differs first> : <schedule>; the integrator is part of the key only when the integrator's own
    // decisions (time reached, status, step sizes, statistics) are the first thing that differs
    const bool integSpecific = first == COMP_NAMES[0] || first == COMP_NAMES[1] || first == COMP_NAMES[5];
    std::string key = "mismatch:" + first + ":" + sched + (integSpecific ? std::string(":") + ikName(sc.io.kind) : std::string());
    Json w = Json::obj().set("schedule", sched).set("integrator", ikName(sc.io.kind)).set("role", role).set("first_differing_step", k).set("differs_in", what).set("steps_ref", (long)ref.steps.size()).set("steps_this", (long)x.steps.size())
        .set("outcome_ref", ref.outcome).set("outcome_this", x.outcome).set("scenario", sc.toJson());
    if (k < (long)ref.steps.size()) w.set("t_ref", ref.steps[k].t).set("status_ref", statusName(ref.steps[k].status));
    if (k < (long)x.steps.size()) w.set("t_this", x.steps[k].t).set("status_this", statusName(x.steps[k].status));
    if (before && k < (long)before->size()) w.set("activity_before_that_step", (*before)[k]);
    if (before && k > 0 && k - 1 < (long)before->size()) w.set("activity_before_previous_step", (*before)[k - 1]);
    c.viol(key, w);
    return false;
}

static void tally(Ctx& c, const Run& r) {
    c.obs("runs"); c.obs("returned_steps", (long)r.traj.steps.size()); c.obs("force_evaluations", r.ctl.evals); c.obs("handler+reporter_calls", r.ctl.logEntries);
}

// ------------------------------------------------------------------------------------------------ the sequential case
static void checkCase(Ctx& c, long idx, Rng& r) {
    const Args& a = c.args;
    CaseSpec cs = makeCase(a, idx, r);
    const bool useChild = a.getInt("child", 1) != 0;
    const std::string only = a.get("sched", "");           // investigation aid: run one schedule only
    // every schedule runs in every case; --allsched 0 (cost knob) keeps solo, the other process, twice and
    // interleaved-noise and rotates two of the four remaining schedules per case
    const bool all = a.getInt("allsched", 1) != 0;
    auto rot = [&](int k) { return all || (idx % 4) == k || ((idx + 2) % 4) == k; };
    auto want = [&](const char* s) {
        if (!only.empty()) return only == s;
        std::string n = s;
        if (n == "fresh-process") return true;
        if (n == "state-copy") return rot(0);
        if (n == "after-noise") return rot(1);
        if (n == "twin-interleaved") return rot(2);
        if (n == "shared-system") return rot(3);
        if (n == "cousin-interleaved") return rot(1) || rot(3);
        return true;
    };

    // ---- solo: the reference
    c.setPhase("solo: build");
    std::unique_ptr<Scen> sc0 = buildScen(cs);
    c.setPhase("solo: run " + sc0->descr);
    Traj ref; std::string outcome0; long evals0 = 0;
    { Run r0(*sc0, sc0->s0); r0.runToEnd(); ref = r0.traj; tally(c, r0); evals0 = r0.ctl.evals; }
    std::string oc = ref.outcome.substr(0, ref.outcome.find(':'));
    c.obs("outcome:" + oc);
    if (a.verbose) fprintf(stderr, "case %ld: %s | steps=%zu outcome=%s evals=%ld hash=%llx\n", idx, sc0->descr.c_str(), ref.steps.size(), ref.outcome.c_str(), evals0, (unsigned long long)ref.finalHash());
    if (ref.steps.empty()) { c.skip("reference-run-returned-no-step:" + oc); return; }
    const std::string cell = sc0->featKey + "/" + ikName(sc0->io.kind) + "/";
    if (c.wantSample()) c.sample(Json::obj().set("case", idx).set("scenario", sc0->toJson()).set("returned_steps", (long)ref.steps.size()).set("outcome", ref.outcome));
    c.cover(cell + "solo");

    // ---- another process
    if (useChild && want("fresh-process")) {
        static ChildRecs child;
        if (!child.recs.count(idx) && !child.errs.count(idx)) {
            long last = a.only >= 0 ? a.only + 1 : a.first + a.cases;
            long cnt = std::max(1L, std::min((long)a.getInt("childbatch", 6), last - idx));
            c.setPhase("other process: solo runs of cases " + std::to_string(idx) + ".." + std::to_string(idx + cnt - 1));
            runChild(idx, cnt, child); c.obs("processes-started");
        }
        const char* sn = child.batchFirst == idx ? "fresh-process" : "other-process";
        c.setPhase(std::string(sn) + " " + sc0->descr);
        if (child.errs.count(idx)) c.viol(std::string(sn) + ":no-record-delivered", Json::obj().set("error", child.errs[idx]).set("scenario", sc0->toJson()));
        else { compareTraj(c, sn, *sc0, ref, child.recs[idx], nullptr); c.cover(cell + sn); }
    }

    // ---- twice (heap and stack scribbled first)
    std::unique_ptr<Scen> sc1;
    if (true) {
        c.setPhase("twice " + sc0->descr);
        scribble(cs.scrSeed);
        sc1 = buildScen(cs);
        Run r1(*sc1, sc1->s0); r1.runToEnd(); tally(c, r1);
        compareTraj(c, "twice", *sc1, ref, r1.traj, nullptr); c.cover(cell + "twice");
    }
    // ---- same System, new integrator, copy of the initial State
    if (want("state-copy")) {
        int var = (int)(idx % 3);
        const char* vn = var == 0 ? "state-copy:of-realized-state" : var == 1 ? "state-copy:assigned-over-foreign-state" : "state-copy:plain";
        c.setPhase(std::string(vn) + " " + sc0->descr);
        scribble(cs.scrSeed + 1);
        State cp;
        if (var == 0) { State t = sc1->s0; try { sc1->m.sys.realize(t, Stage::Acceleration); } catch (const std::exception&) { c.obs("state-copy:source-not-realizable"); } cp = t; }
        else if (var == 1) { cp = sc0->s0; try { sc0->m.sys.realize(cp, Stage::Velocity); } catch (const std::exception&) {} cp = sc1->s0; }
        else cp = State(sc1->s0);
        Run r2(*sc1, cp); r2.runToEnd(); tally(c, r2);
        compareTraj(c, vn, *sc1, ref, r2.traj, nullptr); c.cover(cell + vn);
    }

    // ---- noise alone (reference for the noise's own results), then S after it
    const size_t nSlots = ref.steps.size() + 3;
    std::vector<uint64_t> noiseRef; std::vector<std::string> noiseNames; std::unique_ptr<Noise> nzAlone;
    if (want("after-noise") || want("interleaved-noise")) {
        c.setPhase("noise alone");
        nzAlone.reset(new Noise(cs.noiseSeed, cs.kn, (sc0->io.kind + 1 + (int)(idx % 7)) % IK_Count, cs.geod));
        Noise& nz = *nzAlone;
        for (size_t k = 0; k < nSlots; ++k) nz.slot();
        for (auto& ac : nz.acts) { noiseRef.push_back(ac->h.h); noiseNames.push_back(ac->nm); c.obs("noise-slices:" + ac->nm, ac->slices); }
        if (nz.geod) c.require("geodesic:length-terminated-shot-depends-on-earlier-queries-on-the-same-geometry", nz.geod->anomaly.empty(), [&] { return Json::obj().set("what", nz.geod->anomaly); });
        if (want("after-noise")) {
            c.setPhase("after-noise " + sc0->descr);
            std::unique_ptr<Scen> sc2 = buildScen(cs);
            Run r2(*sc2, sc2->s0); r2.runToEnd(); tally(c, r2);
            compareTraj(c, "after-noise", *sc2, ref, r2.traj, nullptr); c.cover(cell + "after-noise");
        }
    }
    // ---- S interleaved step by step with the same noise
    if (want("interleaved-noise")) {
        c.setPhase("interleaved-noise " + sc0->descr);
        Noise nz(cs.noiseSeed, cs.kn, (sc0->io.kind + 1 + (int)(idx % 7)) % IK_Count, cs.geod);
        std::vector<std::string> before; size_t used = 0;
        std::unique_ptr<Scen> sc3 = buildScen(cs);
        nz.slot(); ++used; std::string pre = nz.last;
        Run r3(*sc3, sc3->s0);
        for (;;) {
            if (used < nSlots) { nz.slot(); ++used; pre = nz.last; } else pre = "(none)";
            size_t n0 = r3.traj.steps.size();
            c.setPhase("interleaved-noise step " + std::to_string(n0) + " after [" + pre + "] " + sc0->descr);
            bool more = r3.step();
            if (r3.traj.steps.size() > n0) before.push_back(pre);
            if (!more) break;
        }
        tally(c, r3);
        bool same = compareTraj(c, "interleaved-noise", *sc3, ref, r3.traj, &before); c.cover(cell + "interleaved-noise");
        if (same) {
            while (used < nSlots) { nz.slot(); ++used; }
            for (size_t k = 0; k < nz.acts.size(); ++k)
                c.require("noise-perturbed:" + noiseNames[k], nz.acts[k]->h.h == noiseRef[k], [&] {
                    Json w = Json::obj().set("activity", noiseNames[k]).set("slices", nz.acts[k]->slices).set("interleaved_with", sc0->toJson());
                    ActSim *x = dynamic_cast<ActSim*>(nz.acts[k].get()), *y = dynamic_cast<ActSim*>(nzAlone->acts[k].get());
                    if (x && y) for (size_t i = 0; i < std::min(x->history.size(), y->history.size()); ++i) {
                        std::string what; long d = firstDiff(y->history[i].second, x->history[i].second, what);
                        if (d >= 0) { w.set("which_simulation_of_the_activity", (long)i).set("scenario", y->history[i].first).set("first_differing_step", d).set("differs_in", what)
                                       .set("outcome_alone", y->history[i].second.outcome).set("outcome_interleaved", x->history[i].second.outcome); break; }
                    }
                    return w; });
        }
    }
    // ---- two separately built instances stepping alternately
    if (want("twin-interleaved")) {
        c.setPhase("twin-interleaved " + sc0->descr);
        std::unique_ptr<Scen> sa = buildScen(cs), sb = buildScen(cs);
        Run ra(*sa, sa->s0); Run rb(*sb, sb->s0);
        std::vector<std::string> ba, bb; bool ma = true, mb = true; uint64_t x = cs.scrSeed;
        while (ma || mb) {
            if (ma) { size_t n0 = ra.traj.steps.size(); ma = ra.step(); if (ra.traj.steps.size() > n0) ba.push_back("a step of the twin instance"); }
            if (splitmix64(x) & 1) scribble(x);
            if (mb) { size_t n0 = rb.traj.steps.size(); mb = rb.step(); if (rb.traj.steps.size() > n0) bb.push_back("a step of the twin instance"); }
        }
        tally(c, ra); tally(c, rb);
        compareTraj(c, "twin-interleaved", *sa, ref, ra.traj, &ba, "first twin"); compareTraj(c, "twin-interleaved", *sb, ref, rb.traj, &bb, "second twin"); c.cover(cell + "twin-interleaved");
    }
    // ---- neighbours of the same shape and different content stepping alternately with S: two cousins, one
    // constrained without prescribed motion (or with handlers), one constrained *and* prescribed, so that whatever S
    // is, each kind of projection / prescribed-motion bookkeeping has a same-size neighbour of the other kind
    if (want("cousin-interleaved")) {
        const int cz[2] = {(idx % 2) ? 1 : 3, 2};
        auto mkCousin = [&](int k) { std::unique_ptr<Scen> x(new Scen()); x->build(cs.scenSeed, cs.cyc, cs.kn, (sc0->io.kind + 1 + k + (int)(idx % 3)) % IK_Count, cz[k]); return x; };
        Traj refC[2]; bool haveC[2];
        for (int k = 0; k < 2; ++k) {
            c.setPhase("cousin-interleaved: cousin " + std::to_string(k) + " alone " + sc0->descr);
            std::unique_ptr<Scen> sx = mkCousin(k); Run rx(*sx, sx->s0); rx.runToEnd(); refC[k] = rx.traj; tally(c, rx);
            haveC[k] = !refC[k].steps.empty(); if (!haveC[k]) c.obs("cousin-interleaved:cousin-returned-no-step");
        }
        c.setPhase("cousin-interleaved " + sc0->descr);
        std::unique_ptr<Scen> sa = buildScen(cs); std::unique_ptr<Scen> sx[2]; std::unique_ptr<Run> rx[2];
        for (int k = 0; k < 2; ++k) if (haveC[k]) { sx[k] = mkCousin(k); rx[k].reset(new Run(*sx[k], sx[k]->s0)); }
        Run ra(*sa, sa->s0);
        std::vector<std::string> ba, bx[2]; bool ma = true, mx[2] = {haveC[0], haveC[1]};
        while (ma || mx[0] || mx[1]) {
            for (int k = 0; k < 2; ++k) if (mx[k]) { size_t n0 = rx[k]->traj.steps.size(); mx[k] = rx[k]->step(); if (rx[k]->traj.steps.size() > n0) bx[k].push_back(k == 0 ? "a step of the scenario under test" : "a step of the other cousin"); }
            if (ma) { size_t n0 = ra.traj.steps.size(); ma = ra.step(); if (ra.traj.steps.size() > n0) ba.push_back("steps of the same-shape cousins"); }
        }
        tally(c, ra);
        compareTraj(c, "cousin-interleaved", *sa, ref, ra.traj, &ba, "scenario under test");
        for (int k = 0; k < 2; ++k) if (haveC[k]) { tally(c, *rx[k]); compareTraj(c, "cousin-interleaved", *sx[k], refC[k], rx[k]->traj, &bx[k], k == 0 ? "first cousin" : "second cousin (constrained and prescribed)"); }
        c.cover(cell + "cousin-interleaved"); if (haveC[0] && haveC[1]) c.obs("cousin-interleaved:both-cousins-ran");
    }
    // ---- two integrators on one System object stepping alternately
    if (want("shared-system")) {
        c.setPhase("shared-system " + sc0->descr);
        Run ra(*sc1, sc1->s0); Run rb(*sc1, sc1->s0);
        std::vector<std::string> ba, bb; bool ma = true, mb = true;
        while (ma || mb) {
            if (ma) { size_t n0 = ra.traj.steps.size(); ma = ra.step(); if (ra.traj.steps.size() > n0) ba.push_back("a step of the other integrator on the same System"); }
            if (mb) { size_t n0 = rb.traj.steps.size(); mb = rb.step(); if (rb.traj.steps.size() > n0) bb.push_back("a step of the other integrator on the same System"); }
        }
        tally(c, ra); tally(c, rb);
        compareTraj(c, "shared-system", *sc1, ref, ra.traj, &ba, "first integrator"); compareTraj(c, "shared-system", *sc1, ref, rb.traj, &bb, "second integrator"); c.cover(cell + "shared-system");
    }
}

// ------------------------------------------------------------------------------------------------ the threaded case
struct Gate { std::atomic<int> n{0}; void arrive(int want) { n.fetch_add(1); while (n.load() < want) std::this_thread::yield(); } };

static void checkThreaded(Ctx& c, long idx, Rng& r) {
    const Args& a = c.args;
    CaseSpec A = makeCase(a, idx, r);
    CaseSpec Bc = A; Bc.scenSeed = r.next(); Bc.cyc = A.cyc + 3 + (long)(r.next() % 5);
    int variant = (int)(idx % 3);    // 0: two different scenarios; 1: the same scenario twice; 2: scenario next to the noise set
    if (variant == 1) Bc = A;
    c.setPhase("threaded: solo references");
    std::unique_ptr<Scen> sa = buildScen(A), sb = buildScen(Bc);
    Traj refA, refB;
    { Run ra(*sa, sa->s0); ra.runToEnd(); refA = ra.traj; tally(c, ra); }
    { Run rb(*sb, sb->s0); rb.runToEnd(); refB = rb.traj; tally(c, rb); }
    if (refA.steps.empty() || (variant != 2 && refB.steps.empty())) { c.skip("reference-run-returned-no-step"); return; }
    if (c.wantSample()) c.sample(Json::obj().set("case", idx).set("variant", variant).set("A", sa->toJson()).set("B", sb->toJson()));
    static const char* VN[] = {"threaded:different-scenarios", "threaded:same-scenario-twice", "threaded:scenario-next-to-noise"};
    std::vector<uint64_t> noiseRef; size_t nSlots = refA.steps.size() + 3;
    if (variant == 2) { Noise nz(A.noiseSeed, A.kn, (sa->io.kind + 4) % IK_Count, A.geod); for (size_t k = 0; k < nSlots; ++k) nz.slot(); for (auto& ac : nz.acts) noiseRef.push_back(ac->h.h); }
    c.setPhase(std::string(VN[variant]) + " A=" + sa->descr + " B=" + sb->descr);
    Traj tA, tB; std::vector<uint64_t> noiseGot; std::vector<std::string> noiseNames; std::string errA, errB; Gate gate;
    std::thread th1([&] { try { gate.arrive(2); std::unique_ptr<Scen> s = buildScen(A); Run rr(*s, s->s0); rr.runToEnd(); tA = rr.traj; } catch (const std::exception& e) { errA = e.what(); } });
    std::thread th2([&] {
        try {
            gate.arrive(2);
            if (variant == 2) { Noise nz(A.noiseSeed, A.kn, (sa->io.kind + 4) % IK_Count, A.geod); for (size_t k = 0; k < nSlots; ++k) nz.slot(); for (auto& ac : nz.acts) { noiseGot.push_back(ac->h.h); noiseNames.push_back(ac->nm); } }
            else { std::unique_ptr<Scen> s = buildScen(Bc); Run rr(*s, s->s0); rr.runToEnd(); tB = rr.traj; }
        } catch (const std::exception& e) { errB = e.what(); }
    });
    th1.join(); th2.join();
    if (!errA.empty() || !errB.empty()) { c.viol(std::string(VN[variant]) + ":exception-only-when-concurrent", Json::obj().set("A", errA).set("B", errB).set("scenarioA", sa->toJson())); return; }
    compareTraj(c, VN[variant], *sa, refA, tA, nullptr, "thread 1");
    c.cover(sa->featKey + "/" + ikName(sa->io.kind) + "/" + VN[variant]);
    if (variant != 2) { compareTraj(c, VN[variant], *sb, refB, tB, nullptr, "thread 2"); c.cover(sb->featKey + "/" + ikName(sb->io.kind) + "/" + VN[variant]); }
    else for (size_t k = 0; k < noiseGot.size(); ++k) c.require("noise-perturbed:threaded:" + noiseNames[k], noiseGot[k] == noiseRef[k], [&] { return Json::obj().set("activity", noiseNames[k]).set("concurrent_with", sa->toJson()); });
}

int main(int argc, char** argv) {
    for (int i = 0; i < argc; ++i) g_argv.push_back(argv[i]);
    Args a = parseArgs(argc, argv);
    if (a.prop != "C46") { fprintf(stderr, "mon_determinism: unknown property %s\n", a.prop.c_str()); return 2; }
    // CablePath::Impl::realizeTopology() writes debugging text to std::cout; the protocol uses stdio
    std::cout.setstate(std::ios_base::failbit);
    if (a.getInt("emit", 0) > 0) {
        // the other process of the fresh-process schedule: run the scenarios of cases only..only+emit-1 alone, print their records, leave
        for (long idx = a.only; idx < a.only + a.getInt("emit", 0); ++idx) {
            Rng r(mix(a.seed, (uint64_t)idx));
            CaseSpec cs = makeCase(a, idx, r);
            std::unique_ptr<Scen> sc = buildScen(cs);
            Run run(*sc, sc->s0); run.runToEnd();
            emitTraj(idx, run.traj);
        }
        return 0;
    }
    Ctx c(a);
    const bool threaded = a.get("mode", "sequential") == "threaded";
    return runCases(c, [&](long i, Rng& r) { if (threaded) checkThreaded(c, i, r); else checkCase(c, i, r); });
}
