// mon_geom — C34 "Contact surface queries are geometrically correct" and
//            C36 "Mesh queries match brute force and bounding volumes contain" (DESIGN §5).
//
// C34: every case builds one ContactGeometry (shape kind = case index mod 8: HalfSpace, Sphere, Ellipsoid,
//   Cylinder, Torus, Brick, SmoothHeightMap, TriangleMesh) with random parameters (size 0.05..20, aspect <= 20:1)
//   and runs all public query kinds on it; query region classes are cycled deterministically
//   (outside / inside / on / far / degenerate / near). Oracles are harness-side closed forms (long double),
//   a robust point-to-ellipsoid solver, dense surface sampling with local refinement, brute force over triangles,
//   finite differences with two step sizes, and the shape operator computed from gradient and Hessian.
// C36: case kind cycles over 12 consecutive indices (2 meshes, 3 clouds, 2 Geo, 3 round trips, 2 hostile): (0,1) closed triangle mesh: topology, OBB tree walk, nearest/ray/inside against
//   brute force; (2) OrientedBoundingBox(points); (3) Geo bounding spheres/boxes; (4) file round trips;
//   (5) malformed files and invalid meshes.
//
// Legal-client preconditions (never judged outside them):
//   * shape parameters positive and finite; torus with torusRadius > tubeRadius (ring torus);
//   * implicit-function derivatives are judged away from the function's singular set (centre / axis) and, for the
//     height map, only where the finite-difference stencil stays inside the surface's rectangle;
//   * curvature queries only at points on the surface with unit tangent directions (documented requirement);
//   * TriangleMesh is given closed, oriented, non-self-intersecting manifolds (documented requirement); invalid
//     meshes are only used to observe that the constructor rejects them;
//   * rays grazing a surface tangentially / passing within 1e-7 of a mesh edge, and inside flags of points within
//     1e-9 of the surface are not judged (either answer is right);
//   * STL round trips only for meshes whose distinct vertices are farther apart than the documented merge tolerance.
// Documented exceptions of unimplemented virtuals (Torus ray/curvature/support, Brick nearest/ray, base class
// UnimplementedVirtualMethod) are counted as unobservable, not judged. NaN returned without an exception is a violation.
#include "SimTKmath.h"
#include "vh.h"
#include "geom_c34_implicit.h"
#include "geom_c36_mesh.h"
#include "geom_c36_bounds.h"
#include "geom_c36_files.h"

using namespace SimTK;
using vh::Json;

static void checkC34(vh::Ctx& c, long i, vh::Rng& r, int nq, int forceKind) {
    c34::Kind kind = (c34::Kind)(i % c34::NKIND);
    if (forceKind >= 0) { kind = (c34::Kind)forceKind; i = i * c34::NKIND + forceKind; }   // investigation aid: --kind k
    c.setPhase(std::string("construct ") + c34::NAME[kind]);
    c34::Shape s = c34::makeShape(kind, r);
    c34::nearestChecks(c, s, r, i, nq);
    c34::implicitChecks(c, s, r, i, std::max(2, nq / 2));
    c34::curvatureChecks(c, s, r, i, std::max(2, nq / 2));
    c34::supportChecks(c, s, r, i, 3);
    c34::boundingChecks(c, s, r);
    c34::rayChecks(c, s, r, i, nq + 1);
}

static void checkC36(vh::Ctx& c, long i, vh::Rng& r, const vh::Args& a) {
    // kinds per 12 consecutive cases: 2 meshes, 3 point-cloud OBBs, 2 Geo bounds, 3 round trips, 2 malformed/invalid
    static const int KIND[12] = {0, 2, 4, 3, 5, 2, 1, 4, 3, 2, 4, 5};
    static const int ORD[12] = {0, 0, 0, 0, 0, 1, 0, 1, 1, 2, 2, 1};
    static const int PER[6] = {1, 1, 3, 2, 3, 2};
    int kind = KIND[i % 12];
    long j = (i / 12) * PER[kind] + ORD[i % 12];
    if (a.getInt("ckind", -1) >= 0) { kind = (int)a.getInt("ckind", -1); j = i; }   // investigation aid: --ckind k
    switch (kind) {
    case 0: case 1: {
        const bool thorough = a.tier == "thorough";
        int cls = (int)((2 * j + kind) % (c36::NMESHCLS - 1));
        int sizeClass = (int)((j / 4) % 3);
        if ((2 * j + kind) % (thorough ? 9 : 40) == 8) cls = c36::NMESHCLS - 1;      // the ~2000-face class, rarely in the quick tier
        c36::BuiltMesh b = c36::buildMesh(c, cls, r, sizeClass);
        c.obs("mesh-faces", b.m.nf());
        c36::topologyChecks(c, b);
        c36::obbChecks(c, b);
        c36::meshQueryChecks(c, b, r, (int)a.getInt("nearq", 21), (int)a.getInt("rayq", 15));
        if (c.wantSample()) c.sample(Json::obj().set("mesh", b.cls).set("faces", b.m.nf()).set("vertices", b.m.nv()).set("via_polygonal_mesh", b.viaPolygonal));
    } break;
    case 2: c36::obbPointsChecks(c, r, j); break;
    case 3: c36::geoBoundsChecks(c, r, j); break;
    case 4: c36::roundTripChecks(c, r, j); break;
    default: if (j % 4 == 3) c36::invalidMeshChecks(c, r, j / 4); else c36::malformedChecks(c, r, j - j / 4); break;
    }
}

int main(int argc, char** argv) {
    vh::Args a = vh::parseArgs(argc, argv);
    vh::Ctx c(a);
    c36::TmpCleaner cleaner;
    const std::string p = a.prop;
    const int nq = (int)a.getInt("queries", 6);
    // The class cycles (shape kind, region, mesh class, file format ...) are entered at a phase derived from the seed, so
    // that the workers of one run (same case indices, different seeds) cover different cells; the random content of a
    // case still comes from <seed, case index> alone.
    const long phase = (long)(a.seed % 100003ULL);
    return vh::runCases(c, [&](long i, vh::Rng& r) {
        if (p == "C34") checkC34(c, i + phase, r, nq, (int)a.getInt("kind", -1));
        else if (p == "C36") checkC36(c, i + phase, r, a);
        else { fprintf(stderr, "mon_geom: unknown property %s\n", p.c_str()); exit(2); }
    });
}
