// mon_cache — C16 "realization results depend only on current state values" (DESIGN §5 C16).
//
// Shape: history + executable model, the model being the library itself on a *fresh* State.
// A random history of operations is applied to State A. After every mutating operation a
// State B is built from the prototype (default) State and given A's *current values* through
// the public setters (modelling options, locks, enable flags, every state-level parameter,
// t, q, u, z); both are realized to the same stage and every observable is compared
// (NaN==NaN; tolerance rel 1e-12 of the group's magnitude, bitwise equality is counted).
// On a mismatch the history is shrunk greedily (replayed from the prototype State) and the
// violation is keyed from the *minimal* history's operation classes, never from the last op.
//
// Legal-client preconditions (each op checks them itself, so that every sub-history produced
// by the shrinker is legal too; an op whose precondition does not hold is a no-op):
//  * State A is always kept realized to Stage::Model (a Model-stage change is followed by
//    realizeModel); getters are only called at the stage the documentation requires;
//  * lazy realizations are called only when their documented prerequisites are realized;
//  * setter arguments respect the documented ranges (k,c >= 0, qLow <= qHigh, T > 0 ...).
//  * exceptions from realize()/getters are outcomes: A and B must agree on them.
// History dependence that is *documented* is replicated, not judged: lock() records the
// current q/u (B uses lockAt with the recorded value), Model-stage changes reset later-stage
// variables (B copies whatever A holds now).
#include "model.h"
using namespace SimTK;
using namespace vh;

static const double RTOL = 1e-12;

enum FK { FK_Gravity, FK_Bushing, FK_MobConst, FK_MobDiscrete, FK_MobDamper, FK_MobSpring, FK_MobStop,
          FK_Thermostat, FK_Discrete, FK_TPSpring, FK_TPDamper, FK_TPConst, FK_ConstForce, FK_ConstTorque,
          FK_GlobalDamper, FK_UniformGravity, FK_Count };
static const char* fkName(int k) {
    static const char* n[] = {"Gravity", "LinearBushing", "MobilityConstantForce", "MobilityDiscreteForce",
        "MobilityLinearDamper", "MobilityLinearSpring", "MobilityLinearStop", "Thermostat", "DiscreteForces",
        "TwoPointLinearSpring", "TwoPointLinearDamper", "TwoPointConstantForce", "ConstantForce", "ConstantTorque",
        "GlobalDamper", "UniformGravity"};
    return n[k];
}
enum CK { CK_Rod, CK_Ball, CK_ConstCoord, CK_ConstSpeed, CK_ConstAccel, CK_NoSlip, CK_Count };
static const char* ckName(int k) {
    static const char* n[] = {"Rod", "Ball", "ConstantCoordinate", "ConstantSpeed", "ConstantAcceleration", "NoSlip1D"};
    return n[k];
}
static const char* stName(int g) {
    static const char* n[] = {"Empty", "Topology", "Model", "Instance", "Time", "Position", "Velocity", "Dynamics", "Acceleration", "Report"};
    return (g >= 0 && g <= 9) ? n[g] : "?";
}
enum { ST_Model = 2, ST_Instance = 3, ST_Time = 4, ST_Position = 5, ST_Velocity = 6, ST_Dynamics = 7, ST_Acceleration = 8, ST_Report = 9 };

// event witness functions (statement: "event witnesses")
class Wit : public TriggeredEventReporter {
public:
    Wit(Stage g, int kind) : TriggeredEventReporter(g), kind(kind) {}
    Real getValue(const State& s) const override {
        const Vector& q = s.getQ(); const Vector& u = s.getU();
        Real v = s.getTime() - 0.3;
        if (q.size()) v += 0.7 * q[0] + (q.size() > 1 ? q[q.size() - 1] : 0);
        if (kind == 1 && u.size()) v += 0.5 * u[0] - 0.2 * u[u.size() - 1];
        return v;
    }
    void handleEvent(const State&) const override {}
private:
    int kind;
};

struct Sys {
    Model m;
    std::vector<int> fkind, fbody;            // fbody: index into m.bodies of the (first) body, or -1
    std::vector<ForceIndex> fix;
    std::vector<int> ckind, cbody;
    std::vector<ConstraintIndex> cix;
    std::vector<int> nuOf;                    // per moving body
    std::vector<int> movable;                 // bodies with nu>0
    int nb = 0;                               // number of mobilized bodies incl. Ground
    State proto;
    const Force& F(int i) const { return m.forces.getForce(fix[i]); }
    const Constraint& C(int i) const { return m.matter.getConstraint(cix[i]); }
    Json toJson() const {
        Json f = Json::arr(); for (int k : fkind) f.push(fkName(k));
        Json c = Json::arr(); for (int k : ckind) c.push(ckName(k));
        return Json::obj().set("model", m.desc.toJson()).set("forces", f).set("constraints", c);
    }
};

static Vec6 absVec6(Rng& r, double s) { Vec6 v; for (int i = 0; i < 6; ++i) v[i] = r.coin(0.15) ? 0.0 : r.uni(0, s); return v; }

static MobilizedBody& bodyOrGround(Sys& S, int k) { return k < 0 ? (MobilizedBody&)S.m.matter.updGround() : S.m.bodies[k]; }

static void buildSys(Sys& S, Rng& r, long idx) {
    GenOpts o; o.minBodies = 2; o.maxBodies = 5; o.pLoneParticle = 0.0;
    ModelDesc d = randomDesc(r, o, idx);
    S.m.build(d);
    int nmov = (int)S.m.bodies.size();
    {   // first topology pass: learn the number of mobilities of each body
        State s0 = S.m.sys.realizeTopology();
        S.m.sys.realizeModel(s0);
        for (int k = 0; k < nmov; ++k) { S.nuOf.push_back(S.m.bodies[k].getNumU(s0)); if (S.nuOf.back() > 0) S.movable.push_back(k); }
    }
    S.nb = nmov + 1;
    GeneralForceSubsystem& forces = S.m.forces; SimbodyMatterSubsystem& matter = S.m.matter;
    auto anyBody = [&](bool ground) { return ground ? r.integer(-1, nmov - 1) : r.integer(0, nmov - 1); };
    auto twoBodies = [&](int& a, int& b) { a = anyBody(true); do { b = anyBody(true); } while (b == a); };
    // 5..10 force elements of different kinds (sampled without replacement, then repeats allowed for mobility kinds)
    int nf = r.integer(5, 10);
    std::vector<int> kinds; for (int k = 0; k < FK_Count; ++k) kinds.push_back(k);
    for (int i = (int)kinds.size() - 1; i > 0; --i) std::swap(kinds[i], kinds[r.integer(0, i)]);
    // make the stateful elements frequent: put Gravity first with p=.7
    if (r.coin(0.7)) { auto it = std::find(kinds.begin(), kinds.end(), (int)FK_Gravity); std::swap(*it, kinds[0]); }
    for (int i = 0; i < nf; ++i) {
        int k = kinds[i];
        bool needsMob = (k == FK_MobConst || k == FK_MobDiscrete || k == FK_MobDamper || k == FK_MobSpring || k == FK_MobStop);
        if (needsMob && S.movable.empty()) k = FK_ConstForce;
        int b = -1; Force f;
        switch (k) {
        case FK_Gravity:
            if (r.coin(0.5)) f = Force::Gravity(forces, matter, randUnit(r), r.coin(0.15) ? 0.0 : r.uni(1, 12), r.sym(1));
            else f = Force::Gravity(forces, matter, r.coin(0.1) ? Vec3(0) : randVec3(r, 9));
            if (r.coin(0.25)) Force::Gravity::updDowncast(f).setDefaultBodyIsExcluded(MobilizedBodyIndex(r.integer(1, nmov)), true);
            break;
        case FK_Bushing: { int a, c; twoBodies(a, c); b = a;
            f = Force::LinearBushing(forces, bodyOrGround(S, a), randFrame(r, r.integer(0, 2)), bodyOrGround(S, c), randFrame(r, r.integer(0, 2)), absVec6(r, 20), absVec6(r, 3)); break; }
        case FK_MobConst: b = r.pick(S.movable); f = Force::MobilityConstantForce(forces, S.m.bodies[b], MobilizerUIndex(r.integer(0, S.nuOf[b] - 1)), r.sym(5)); break;
        case FK_MobDiscrete: b = r.pick(S.movable); f = Force::MobilityDiscreteForce(forces, S.m.bodies[b], MobilizerUIndex(r.integer(0, S.nuOf[b] - 1)), r.sym(5)); break;
        case FK_MobDamper: b = r.pick(S.movable); f = Force::MobilityLinearDamper(forces, S.m.bodies[b], MobilizerUIndex(r.integer(0, S.nuOf[b] - 1)), r.uni(0, 3)); break;
        case FK_MobSpring: b = r.pick(S.movable); f = Force::MobilityLinearSpring(forces, S.m.bodies[b], MobilizerQIndex(r.integer(0, S.nuOf[b] - 1)), r.uni(0, 30), r.sym(1)); break;
        case FK_MobStop: { b = r.pick(S.movable); double lo = r.sym(1);
            f = Force::MobilityLinearStop(forces, S.m.bodies[b], MobilizerQIndex(r.integer(0, S.nuOf[b] - 1)), r.uni(0, 100), r.coin(0.3) ? 0.0 : r.uni(0, 1), lo, lo + r.uni(0, 1)); break; }
        case FK_Thermostat: f = Force::Thermostat(forces, matter, r.uni(0.5, 2), r.uni(1, 400), r.uni(0.05, 2), r.integer(0, 6));
            if (r.coin(0.5)) Force::Thermostat::updDowncast(f).setDefaultNumChains(r.integer(1, 4));
            break;
        case FK_Discrete: f = Force::DiscreteForces(forces, matter); break;
        case FK_TPSpring: { int a, c; twoBodies(a, c); b = a; f = Force::TwoPointLinearSpring(forces, bodyOrGround(S, a), randVec3(r), bodyOrGround(S, c), randVec3(r), r.uni(0, 40), r.uni(0, 1)); break; }
        case FK_TPDamper: { int a, c; twoBodies(a, c); b = a; f = Force::TwoPointLinearDamper(forces, bodyOrGround(S, a), randVec3(r), bodyOrGround(S, c), randVec3(r), r.uni(0, 3)); break; }
        case FK_TPConst: { int a, c; twoBodies(a, c); b = a; f = Force::TwoPointConstantForce(forces, bodyOrGround(S, a), randVec3(r), bodyOrGround(S, c), randVec3(r), r.sym(5)); break; }
        case FK_ConstForce: b = anyBody(false); f = Force::ConstantForce(forces, S.m.bodies[b], randVec3(r), randVec3(r, 5)); break;
        case FK_ConstTorque: b = anyBody(false); f = Force::ConstantTorque(forces, S.m.bodies[b], randVec3(r, 5)); break;
        case FK_GlobalDamper: f = Force::GlobalDamper(forces, matter, r.uni(0, 2)); break;
        case FK_UniformGravity: f = Force::UniformGravity(forces, matter, randVec3(r, 9), r.sym(1)); break;
        }
        if (r.coin(0.12)) forces.updForce(f.getForceIndex()).setDisabledByDefault(true);
        S.fkind.push_back(k); S.fbody.push_back(b); S.fix.push_back(f.getForceIndex());
    }
    // 0..2 constraints
    int nc = r.integer(0, 2);
    for (int i = 0; i < nc; ++i) {
        int k = r.integer(0, CK_Count - 1);
        bool needsMob = (k == CK_ConstCoord || k == CK_ConstSpeed || k == CK_ConstAccel);
        std::vector<int> plain; // movable bodies without quaternion (ConstantCoordinate needs nq==nu)
        for (int b : S.movable) if (!mobHasQuat(S.m.desc.nodes[b].type)) plain.push_back(b);
        if (needsMob && S.movable.empty()) k = CK_Ball;
        if (k == CK_ConstCoord && plain.empty()) k = CK_ConstSpeed;
        int b = -1; Constraint c;
        switch (k) {
        case CK_Rod: { int a, e; twoBodies(a, e); b = a; c = Constraint::Rod(bodyOrGround(S, a), randVec3(r), bodyOrGround(S, e), randVec3(r), r.uni(0.3, 2)); break; }
        case CK_Ball: { int a, e; twoBodies(a, e); b = a; c = Constraint::Ball(bodyOrGround(S, a), randVec3(r), bodyOrGround(S, e), randVec3(r)); break; }
        case CK_ConstCoord: b = r.pick(plain); c = Constraint::ConstantCoordinate(S.m.bodies[b], MobilizerQIndex(r.integer(0, S.nuOf[b] - 1)), r.sym(1)); break;
        case CK_ConstSpeed: b = r.pick(S.movable); c = Constraint::ConstantSpeed(S.m.bodies[b], MobilizerUIndex(r.integer(0, S.nuOf[b] - 1)), r.sym(1)); break;
        case CK_ConstAccel: b = r.pick(S.movable); c = Constraint::ConstantAcceleration(S.m.bodies[b], MobilizerUIndex(r.integer(0, S.nuOf[b] - 1)), r.sym(1)); break;
        case CK_NoSlip: { int a, e; twoBodies(a, e); b = a; c = Constraint::NoSlip1D(bodyOrGround(S, anyBody(true)), randVec3(r), randUnit(r), bodyOrGround(S, a), bodyOrGround(S, e)); break; }
        }
        if (r.coin(0.3)) matter.updConstraint(c.getConstraintIndex()).setDisabledByDefault(true);
        S.ckind.push_back(k); S.cbody.push_back(b); S.cix.push_back(c.getConstraintIndex());
    }
    S.m.sys.addEventReporter(new Wit(Stage::Position, 0));
    S.m.sys.addEventReporter(new Wit(Stage::Velocity, 1));
    S.proto = S.m.sys.realizeTopology();
    S.m.sys.realizeModel(S.proto);
}

// ------------------------------------------------------------------ operations
enum OK { OK_Realize, OK_Query, OK_Lazy, OK_Compare,
          // mutating from here on
          OK_SetTime, OK_SetQ, OK_SetOneQ, OK_SetQVec, OK_SetQFit, OK_SetU, OK_SetOneU, OK_SetUVec, OK_SetUFit, OK_SetZ, OK_SetOneZ, OK_SetY,
          OK_ForceParam, OK_ForceEnable, OK_ConsParam, OK_ConsEnable, OK_Lock, OK_LockAt, OK_Unlock, OK_Euler, OK_Copy, OK_Invalidate };
enum { CM_None, CM_Direct, CM_ViaCopy };

struct Op {
    int kind = OK_Realize, a = 0, b = 0, c = 0;
    std::vector<double> v;
    int mode = CM_Direct, stage = ST_Acceleration; unsigned lazy = 0;  // Compare / Query / Realize use stage, lazy
};
static bool isMutating(const Op& o) { return o.kind >= OK_SetTime; }

static const char* forceSetterName(int fk, int w) {
    switch (fk) {
    case FK_Gravity: { static const char* n[] = {"setMagnitude", "setDownDirection", "setGravityVector", "setZeroHeight", "setBodyIsExcluded", "setDownDirection"}; return n[w]; }
    case FK_Bushing: { static const char* n[] = {"setFrameOnBody1", "setFrameOnBody2", "setStiffness", "setDamping", "setDissipatedEnergy"}; return n[w]; }
    case FK_MobConst: return "setForce";
    case FK_MobDiscrete: return "setMobilityForce";
    case FK_MobDamper: return "setDamping";
    case FK_MobSpring: return w == 0 ? "setStiffness" : "setQZero";
    case FK_MobStop: return w == 0 ? "setBounds" : "setMaterialProperties";
    case FK_Thermostat: { static const char* n[] = {"setBathTemperature", "setRelaxationTime", "setNumChains", "setNumExcludedDofs", "setChainState", "setExternalWork", "initializeChainState"}; return n[w]; }
    case FK_Discrete: { static const char* n[] = {"setOneMobilityForce", "setOneBodyForce", "addForceToBodyPoint", "setAllMobilityForces", "setAllBodyForces", "clearAllForces", "clearAllMobilityForces", "clearAllBodyForces"}; return n[w]; }
    }
    return "?";
}
static int numForceSetters(int fk) {
    switch (fk) { case FK_Gravity: return 6; case FK_Bushing: return 5; case FK_MobConst: case FK_MobDiscrete: case FK_MobDamper: return 1;
        case FK_MobSpring: case FK_MobStop: return 2; case FK_Thermostat: return 7; case FK_Discrete: return 8; }
    return 0;
}
static const char* consSetterName(int ck, int w) {
    switch (ck) {
    case CK_Rod: { static const char* n[] = {"setPointOnBody1", "setPointOnBody2", "setRodLength"}; return n[w]; }
    case CK_Ball: return w == 0 ? "setPointOnBody1" : "setPointOnBody2";
    case CK_ConstCoord: return "setPosition";
    case CK_ConstSpeed: return "setSpeed";
    case CK_ConstAccel: return "setAcceleration";
    case CK_NoSlip: return w == 0 ? "setContactPoint" : "setDirection";
    }
    return "?";
}
static int numConsSetters(int ck) { switch (ck) { case CK_Rod: return 3; case CK_Ball: case CK_NoSlip: return 2; } return 1; }

// class name of an op for violation keys (variants of one API family share a class)
static std::string opClass(const Sys& S, const Op& o) {
    switch (o.kind) {
    case OK_Realize: return "realize";
    case OK_Query: return "query";
    case OK_Lazy: { static const char* n[] = {"realizePositionKinematics", "realizeVelocityKinematics", "realizeCompositeBodyInertias", "realizeArticulatedBodyInertias", "realizeArticulatedBodyVelocity", "multiplyByMInv", "calcPotentialEnergy"}; return n[o.a]; }
    case OK_Compare: return o.mode == CM_ViaCopy ? "copy" : "realize";
    case OK_SetTime: return "setTime";
    case OK_SetQ: case OK_SetOneQ: case OK_SetQVec: case OK_SetQFit: return "setQ";
    case OK_SetU: case OK_SetOneU: case OK_SetUVec: case OK_SetUFit: return "setU";
    case OK_SetZ: case OK_SetOneZ: return "setZ";
    case OK_SetY: return "setY";
    case OK_ForceParam: return std::string(fkName(S.fkind[o.a])) + "." + forceSetterName(S.fkind[o.a], o.b);
    case OK_ForceEnable: return std::string(fkName(S.fkind[o.a])) + (o.b ? ".disable" : ".enable");
    case OK_ConsParam: return std::string(ckName(S.ckind[o.a])) + "." + consSetterName(S.ckind[o.a], o.b);
    case OK_ConsEnable: return std::string(ckName(S.ckind[o.a])) + (o.b ? ".disable" : ".enable");
    case OK_Lock: { static const char* n[] = {"lock(Acceleration)", "lock(Velocity)", "lock(Position)"}; return n[o.b]; }
    case OK_LockAt: { static const char* n[] = {"lockAt(Acceleration)", "lockAt(Velocity)", "lockAt(Position)"}; return n[o.b]; }
    case OK_Unlock: return "unlock";
    case OK_Euler: return "setUseEulerAngles";
    case OK_Copy: return "copy";
    case OK_Invalidate: { static const char* n[] = {"invalidatePositionKinematics", "invalidateVelocityKinematics", "invalidateCompositeBodyInertias", "invalidateArticulatedBodyInertias",
                                                     "invalidateArticulatedBodyVelocity", "invalidateAllCacheAtOrAbove", "invalidateAll", "Gravity.invalidateForceCache"}; return n[o.a]; }
    }
    return "?";
}
// finer name for coverage keys (distinguishes the API variants)
static std::string opName(const Sys& S, const Op& o) {
    switch (o.kind) {
    case OK_SetQ: return o.a == 0 ? "State.setQ" : "State.updQ";
    case OK_SetOneQ: return "setOneQ";
    case OK_SetQVec: return "setQFromVector";
    case OK_SetQFit: return "setQToFitTransform";
    case OK_SetU: return o.a == 0 ? "State.setU" : "State.updU";
    case OK_SetOneU: return "setOneU";
    case OK_SetUVec: return "setUFromVector";
    case OK_SetUFit: return "setUToFitVelocity";
    case OK_SetZ: return o.a == 0 ? "State.setZ" : "State.updZ";
    case OK_SetOneZ: return "updZ[i]";
    case OK_Copy: { static const char* n[] = {"copy-construct", "assign-to-empty", "assign-to-realized", "move"}; return n[o.a]; }
    case OK_Invalidate: if (o.a == 5 || o.a == 6) return opClass(S, o) + "(" + stName(o.b) + ")"; break;
    case OK_ForceEnable: return opClass(S, o) + (o.c ? "[subsystem]" : "[handle]");
    case OK_ConsEnable: return opClass(S, o) + (o.c ? "[subsystem]" : "[handle]");
    }
    return opClass(S, o);
}
static Json opJson(const Sys& S, const Op& o) {
    Json j = Json::obj().set("op", opName(S, o));
    if (o.kind == OK_Realize || o.kind == OK_Query || o.kind == OK_Compare) j.set("stage", stName(o.stage));
    if (o.kind == OK_Compare) j.set("cmp", o.mode == CM_None ? "none" : o.mode == CM_Direct ? "direct" : "via-copy").set("lazy", (int)o.lazy);
    if (o.kind == OK_Query) j.set("lazy", (int)o.lazy);
    if (isMutating(o)) { j.set("a", o.a).set("b", o.b).set("c", o.c); if (!o.v.empty()) j.set("v", jvec(o.v)); }
    return j;
}

// ------------------------------------------------------------------ observables
struct Group { std::string name; std::vector<double> v; std::string exc; };
typedef std::vector<Group> Obs;
template <class F> static void grab(Obs& o, const std::string& name, F f) {
    Group g; g.name = name;
    try { f(g.v); } catch (const std::exception& e) { g.v.clear(); g.exc = normMsg(e.what()); if (g.exc.empty()) g.exc = "?"; }
    o.push_back(std::move(g));
}
static void put(std::vector<double>& v, const Vector& x) { for (int i = 0; i < x.size(); ++i) v.push_back(x[i]); }
static void put(std::vector<double>& v, const Vec3& x) { for (int i = 0; i < 3; ++i) v.push_back(x[i]); }
static void put(std::vector<double>& v, const Vec6& x) { for (int i = 0; i < 6; ++i) v.push_back(x[i]); }
static void put(std::vector<double>& v, const SpatialVec& x) { put(v, x[0]); put(v, x[1]); }
static void put(std::vector<double>& v, const Vector_<SpatialVec>& x) { for (int i = 0; i < x.size(); ++i) put(v, x[i]); }
static void put(std::vector<double>& v, const Transform& X) { for (int i = 0; i < 3; ++i) for (int j = 0; j < 3; ++j) v.push_back(X.R()[i][j]); put(v, X.p()); }
static void put(std::vector<double>& v, const SpatialMat& M) { for (int a = 0; a < 2; ++a) for (int b = 0; b < 2; ++b) for (int i = 0; i < 3; ++i) for (int j = 0; j < 3; ++j) v.push_back(M(a, b)(i, j)); }

enum { LZ_Gravity = 1, LZ_Bushing = 2, LZ_PE = 4, LZ_CBI = 8, LZ_ABI = 16, LZ_Cons = 32, LZ_ABV = 64, LZ_Reaction = 128 };

// Read every observable that is documented to be available at stage g (s is realized to >= g).
static Obs gather(const Sys& S, const State& s, int g, unsigned lazy, const std::vector<int>* zOwner = nullptr) {
    Obs o;
    const SimbodyMatterSubsystem& matter = S.m.matter; const MultibodySystem& sys = S.m.sys;
    int nf = (int)S.fkind.size(), nc = (int)S.ckind.size();
    if (g >= ST_Instance) {
        grab(o, "sizes", [&](std::vector<double>& v) {
            v.push_back(s.getNQ()); v.push_back(s.getNU()); v.push_back(s.getNZ()); v.push_back(s.getNQErr()); v.push_back(s.getNUErr());
            v.push_back(s.getNUDotErr()); v.push_back(s.getNMultipliers()); v.push_back(s.getNEventTriggers());
            for (int i = 0; i < nf; ++i) if (S.fkind[i] == FK_Thermostat) v.push_back(Force::Thermostat::downcast(S.F(i)).getNumThermalDofs(s));
        });
    }
    if (g >= ST_Position) {
        grab(o, "X_GB", [&](std::vector<double>& v) { for (MobilizedBodyIndex b(0); b < S.nb; ++b) put(v, matter.getMobilizedBody(b).getBodyTransform(s)); });
        grab(o, "X_FM", [&](std::vector<double>& v) { for (MobilizedBodyIndex b(1); b < S.nb; ++b) put(v, matter.getMobilizedBody(b).getMobilizerTransform(s)); });
        grab(o, "qerr", [&](std::vector<double>& v) { put(v, s.getQErr()); });
        grab(o, "trig.Position", [&](std::vector<double>& v) { put(v, s.getEventTriggersByStage(Stage::Position)); });
        for (int i = 0; i < nf; ++i) {
            if (S.F(i).isDisabled(s)) continue;
            if (S.fkind[i] == FK_Gravity && (lazy & LZ_Gravity)) {
                const Force::Gravity& gr = Force::Gravity::downcast(S.F(i));
                grab(o, "Gravity.getBodyForces", [&](std::vector<double>& v) { put(v, gr.getBodyForces(s)); });
                grab(o, "Gravity.getPotentialEnergy", [&](std::vector<double>& v) { v.push_back(gr.getPotentialEnergy(s)); });
            }
            if (S.fkind[i] == FK_Bushing && (lazy & LZ_Bushing)) {
                const Force::LinearBushing& bu = Force::LinearBushing::downcast(S.F(i));
                grab(o, "LinearBushing.position", [&](std::vector<double>& v) { put(v, bu.getQ(s)); put(v, bu.getX_GF(s)); put(v, bu.getX_GM(s)); put(v, bu.getX_FM(s)); v.push_back(bu.getPotentialEnergy(s)); });
            }
        }
        if (lazy & LZ_PE) {
            grab(o, "PE", [&](std::vector<double>& v) { v.push_back(sys.calcPotentialEnergy(s)); });
            grab(o, "PE.elements", [&](std::vector<double>& v) { for (int i = 0; i < nf; ++i) v.push_back(S.F(i).calcPotentialEnergyContribution(s)); });
        }
        if (lazy & LZ_CBI)
            grab(o, "CBI", [&](std::vector<double>& v) { matter.realizeCompositeBodyInertias(s); for (MobilizedBodyIndex b(1); b < S.nb; ++b) put(v, matter.getCompositeBodyInertia(s, b).toSpatialMat()); });
        if (lazy & LZ_ABI)
            grab(o, "ABI", [&](std::vector<double>& v) { matter.realizeArticulatedBodyInertias(s); for (MobilizedBodyIndex b(1); b < S.nb; ++b) put(v, matter.getArticulatedBodyInertia(s, b).toSpatialMat()); });
        if (lazy & LZ_Cons)
            for (int i = 0; i < nc; ++i) {
                if (S.C(i).isDisabled(s)) continue;
                if (S.ckind[i] == CK_Rod) grab(o, "Rod.position", [&](std::vector<double>& v) { const Constraint::Rod& rd = Constraint::Rod::downcast(S.C(i)); v.push_back(rd.getPositionError(s)); put(v, Vec3(rd.findRodOrientationInG(s))); v.push_back(rd.findLengthViolation(s)); });
                if (S.ckind[i] == CK_Ball) grab(o, "Ball.position", [&](std::vector<double>& v) { put(v, Constraint::Ball::downcast(S.C(i)).getPositionErrors(s)); });
                if (S.ckind[i] == CK_ConstCoord) grab(o, "ConstantCoordinate.position", [&](std::vector<double>& v) { v.push_back(Constraint::ConstantCoordinate::downcast(S.C(i)).getPositionError(s)); });
            }
    }
    if (g >= ST_Velocity) {
        grab(o, "V_GB", [&](std::vector<double>& v) { for (MobilizedBodyIndex b(0); b < S.nb; ++b) put(v, matter.getMobilizedBody(b).getBodyVelocity(s)); });
        grab(o, "qdot", [&](std::vector<double>& v) { put(v, s.getQDot()); });
        grab(o, "uerr", [&](std::vector<double>& v) { put(v, s.getUErr()); });
        grab(o, "KE", [&](std::vector<double>& v) { v.push_back(sys.calcKineticEnergy(s)); });
        grab(o, "trig.Velocity", [&](std::vector<double>& v) { put(v, s.getEventTriggersByStage(Stage::Velocity)); });
        for (int i = 0; i < nf; ++i) {
            if (S.F(i).isDisabled(s)) continue;
            if (S.fkind[i] == FK_Bushing && (lazy & LZ_Bushing)) {
                const Force::LinearBushing& bu = Force::LinearBushing::downcast(S.F(i));
                grab(o, "LinearBushing.velocity", [&](std::vector<double>& v) { put(v, bu.getQDot(s)); put(v, bu.getV_GF(s)); put(v, bu.getV_GM(s)); put(v, bu.getV_FM(s)); });
                grab(o, "LinearBushing.force", [&](std::vector<double>& v) { put(v, bu.getF(s)); put(v, bu.getF_GM(s)); put(v, bu.getF_GF(s)); v.push_back(bu.getPowerDissipation(s)); });
            }
            if (S.fkind[i] == FK_Thermostat) grab(o, "Thermostat.temperature", [&](std::vector<double>& v) { v.push_back(Force::Thermostat::downcast(S.F(i)).getCurrentTemperature(s)); });
        }
        if (lazy & LZ_Cons)
            for (int i = 0; i < nc; ++i) {
                if (S.C(i).isDisabled(s)) continue;
                if (S.ckind[i] == CK_Rod) grab(o, "Rod.velocity", [&](std::vector<double>& v) { v.push_back(Constraint::Rod::downcast(S.C(i)).getVelocityError(s)); });
                if (S.ckind[i] == CK_Ball) grab(o, "Ball.velocity", [&](std::vector<double>& v) { put(v, Constraint::Ball::downcast(S.C(i)).getVelocityErrors(s)); });
                if (S.ckind[i] == CK_ConstSpeed) grab(o, "ConstantSpeed.velocity", [&](std::vector<double>& v) { v.push_back(Constraint::ConstantSpeed::downcast(S.C(i)).getVelocityError(s)); });
            }
        if ((lazy & LZ_ABV) && (lazy & LZ_ABI))   // ABIs were realized just above, velocity kinematics by the stage
            grab(o, "ABV", [&](std::vector<double>& v) { matter.realizeArticulatedBodyVelocity(s); v.push_back(matter.isArticulatedBodyVelocityRealized(s)); });
    }
    if (g >= ST_Dynamics) {
        grab(o, "rigidBodyForces", [&](std::vector<double>& v) { put(v, sys.getRigidBodyForces(s, Stage::Dynamics)); });
        grab(o, "mobilityForces", [&](std::vector<double>& v) { put(v, sys.getMobilityForces(s, Stage::Dynamics)); });
        for (int i = 0; i < nf; ++i)
            grab(o, std::string(fkName(S.fkind[i])) + ".calcForceContribution", [&](std::vector<double>& v) {
                Vector_<SpatialVec> bf; Vector_<Vec3> pf; Vector mf; S.F(i).calcForceContribution(s, bf, pf, mf); put(v, bf); put(v, mf); });
        for (int i = 0; i < nf; ++i)
            if (S.fkind[i] == FK_Thermostat && !S.F(i).isDisabled(s)) grab(o, "Thermostat.power", [&](std::vector<double>& v) { const Force::Thermostat& th = Force::Thermostat::downcast(S.F(i)); v.push_back(th.getExternalPower(s)); v.push_back(th.calcBathEnergy(s)); });
        if (!(lazy & LZ_PE)) grab(o, "PE", [&](std::vector<double>& v) { v.push_back(sys.calcPotentialEnergy(s)); });
    }
    if (g >= ST_Acceleration) {
        grab(o, "udot", [&](std::vector<double>& v) { put(v, s.getUDot()); });
        grab(o, "qdotdot", [&](std::vector<double>& v) { put(v, s.getQDotDot()); });
        // zdot entries owned by a *disabled* force element are reported separately (see checkC16)
        grab(o, "zdot", [&](std::vector<double>& v) { const Vector& zd = s.getZDot(); for (int i = 0; i < zd.size(); ++i) if (!zOwner || (*zOwner)[i] < 0 || !S.F((*zOwner)[i]).isDisabled(s)) v.push_back(zd[i]); });
        if (zOwner) for (int e = 0; e < nf; ++e) if ((S.fkind[e] == FK_Bushing || S.fkind[e] == FK_Thermostat) && S.F(e).isDisabled(s))
            grab(o, std::string("zdot.of-disabled:") + fkName(S.fkind[e]), [&](std::vector<double>& v) { const Vector& zd = s.getZDot(); for (int i = 0; i < zd.size(); ++i) if ((*zOwner)[i] == e) v.push_back(zd[i]); });
        grab(o, "multipliers", [&](std::vector<double>& v) { put(v, s.getMultipliers()); });
        grab(o, "udoterr", [&](std::vector<double>& v) { put(v, s.getUDotErr()); });
        grab(o, "A_GB", [&](std::vector<double>& v) { for (MobilizedBodyIndex b(0); b < S.nb; ++b) put(v, matter.getMobilizedBody(b).getBodyAcceleration(s)); });
        grab(o, "motionMultipliers", [&](std::vector<double>& v) { put(v, matter.getMotionMultipliers(s)); });
        if (lazy & LZ_Reaction) {
            grab(o, "reactions", [&](std::vector<double>& v) { Vector_<SpatialVec> F; matter.calcMobilizerReactionForces(s, F); put(v, F); });
            grab(o, "constraintForces", [&](std::vector<double>& v) { Vector_<SpatialVec> F; Vector f; matter.findConstraintForces(s, F, f); put(v, F); put(v, f); });
            grab(o, "motionForces", [&](std::vector<double>& v) { Vector f; matter.findMotionForces(s, f); put(v, f); });
        }
        if (lazy & LZ_Cons)
            for (int i = 0; i < nc; ++i) {
                if (S.C(i).isDisabled(s)) continue;
                if (S.ckind[i] == CK_Rod) grab(o, "Rod.acceleration", [&](std::vector<double>& v) { const Constraint::Rod& rd = Constraint::Rod::downcast(S.C(i)); v.push_back(rd.getAccelerationError(s)); v.push_back(rd.getMultiplier(s)); v.push_back(rd.getRodTension(s)); });
                if (S.ckind[i] == CK_Ball) grab(o, "Ball.acceleration", [&](std::vector<double>& v) { const Constraint::Ball& bl = Constraint::Ball::downcast(S.C(i)); put(v, bl.getAccelerationErrors(s)); put(v, bl.getMultipliers(s)); put(v, bl.getBallReactionForceOnBody1(s)); });
            }
    }
    return o;
}

struct Mismatch { bool any = false; std::string group, what; double a = 0, b = 0, ratio = 0; int index = -1; };

static bool sameDouble(double a, double b) { return a == b || (a != a && b != b); }

// returns worst ratio resid/tol over groups (0 if all bitwise equal); fills mm for the first group beyond tolerance
static double compareObs(const Obs& A, const Obs& B, Mismatch& mm, bool& bitwise, std::vector<std::pair<std::string, Json>>* undefinedGroups = nullptr) {
    bitwise = true; double worst = 0;
    if (A.size() != B.size()) { mm.any = true; mm.group = "group-list"; mm.what = "different set of observables"; return std::numeric_limits<double>::infinity(); }
    for (size_t i = 0; i < A.size(); ++i) {
        const Group& a = A[i]; const Group& b = B[i];
        if (a.name != b.name) { if (!mm.any) { mm.any = true; mm.group = a.name + "/" + b.name; mm.what = "different observable"; } return std::numeric_limits<double>::infinity(); }
        if (a.name.compare(0, 17, "zdot.of-disabled:") == 0) {
            // never written by the library: judged by a separate oracle with its own key, not by the stale-cache oracle
            bool same = a.v.size() == b.v.size() && a.exc == b.exc;
            for (size_t k = 0; same && k < a.v.size(); ++k) same = sameDouble(a.v[k], b.v[k]);
            if (!same && undefinedGroups) undefinedGroups->push_back({a.name.substr(17), Json::obj().set("history_state", jvec(a.v)).set("fresh_state", jvec(b.v))});
            continue;
        }
        if (a.exc != b.exc) { if (!mm.any) { mm.any = true; mm.group = a.name; mm.what = "exception differs: A='" + a.exc + "' B='" + b.exc + "'"; } worst = std::numeric_limits<double>::infinity(); continue; }
        if (a.v.size() != b.v.size()) { if (!mm.any) { mm.any = true; mm.group = a.name; mm.what = "size differs"; mm.a = (double)a.v.size(); mm.b = (double)b.v.size(); } worst = std::numeric_limits<double>::infinity(); continue; }
        double scale = 0, resid = 0; int at = -1; bool bad = false;
        for (size_t k = 0; k < a.v.size(); ++k) {
            double x = a.v[k], y = b.v[k];
            if (sameDouble(x, y)) { if (std::isfinite(x)) scale = std::max(scale, std::fabs(x)); continue; }
            bitwise = false;
            if (!std::isfinite(x) || !std::isfinite(y)) { bad = true; if (at < 0 || !bad) at = (int)k; resid = std::numeric_limits<double>::infinity(); continue; }
            scale = std::max(scale, std::max(std::fabs(x), std::fabs(y)));
            if (std::fabs(x - y) > resid) { resid = std::fabs(x - y); at = (int)k; }
        }
        if (resid == 0) continue;
        double tol = RTOL * scale;
        double ratio = (tol > 0 && std::isfinite(resid)) ? resid / tol : std::numeric_limits<double>::infinity();
        worst = std::max(worst, ratio);
        if (ratio > 1 && !mm.any) { mm.any = true; mm.group = a.name; mm.what = bad ? "finite vs non-finite" : "value differs"; mm.index = at; mm.a = a.v[at]; mm.b = b.v[at]; mm.ratio = ratio; }
    }
    return worst;
}

// ------------------------------------------------------------------ fresh State with A's current values
static State buildFresh(const Sys& S, const State& A, std::vector<int>* zOwner = nullptr) {
    const SimbodyMatterSubsystem& matter = S.m.matter;
    State B = S.proto;
    int nf = (int)S.fkind.size(), nc = (int)S.ckind.size();
    // Model-stage options
    matter.setUseEulerAngles(B, matter.getUseEulerAngles(A));
    for (int i = 0; i < nf; ++i) if (S.fkind[i] == FK_Thermostat) {
        const Force::Thermostat& th = Force::Thermostat::downcast(S.F(i));
        th.setNumChains(B, th.getNumChains(A)); th.setNumExcludedDofs(B, th.getNumExcludedDofs(A));
    }
    S.m.sys.realizeModel(B);
    // locks
    for (size_t k = 0; k < S.m.bodies.size(); ++k) {
        const MobilizedBody& mb = S.m.bodies[k];
        Motion::Level lv = mb.getLockLevel(A);
        if (lv != Motion::NoLevel) {
            Vector val = mb.getLockValueAsVector(A);
            if (val.size()) mb.lockAt(B, val, lv); else mb.lock(B, lv);   // zero-dof mobilizer: nothing to record (and lockAt() takes &value[0])
        }
        else if (mb.getLockLevel(B) != Motion::NoLevel) mb.unlock(B);
    }
    // constraints
    for (int i = 0; i < nc; ++i) {
        const Constraint& c = S.C(i);
        switch (S.ckind[i]) {
        case CK_Rod: { const Constraint::Rod& x = Constraint::Rod::downcast(c); x.setPointOnBody1(B, x.getPointOnBody1(A)); x.setPointOnBody2(B, x.getPointOnBody2(A)); x.setRodLength(B, x.getRodLength(A)); break; }
        case CK_Ball: { const Constraint::Ball& x = Constraint::Ball::downcast(c); x.setPointOnBody1(B, x.getPointOnBody1(A)); x.setPointOnBody2(B, x.getPointOnBody2(A)); break; }
        case CK_ConstCoord: { const Constraint::ConstantCoordinate& x = Constraint::ConstantCoordinate::downcast(c); x.setPosition(B, x.getPosition(A)); break; }
        case CK_ConstSpeed: { const Constraint::ConstantSpeed& x = Constraint::ConstantSpeed::downcast(c); x.setSpeed(B, x.getSpeed(A)); break; }
        case CK_ConstAccel: { const Constraint::ConstantAcceleration& x = Constraint::ConstantAcceleration::downcast(c); x.setAcceleration(B, x.getAcceleration(A)); break; }
        case CK_NoSlip: { const Constraint::NoSlip1D& x = Constraint::NoSlip1D::downcast(c); x.setContactPoint(B, x.getContactPoint(A)); x.setDirection(B, x.getDirection(A)); break; }
        }
        bool dis = c.isDisabled(A);
        if (dis != c.isDisabled(B)) { if (dis) c.disable(B); else c.enable(B); }
    }
    // force elements
    for (int i = 0; i < nf; ++i) {
        const Force& f = S.F(i);
        switch (S.fkind[i]) {
        case FK_Gravity: { const Force::Gravity& x = Force::Gravity::downcast(f);
            x.setDownDirection(B, x.getDownDirection(A)); x.setMagnitude(B, x.getMagnitude(A)); x.setZeroHeight(B, x.getZeroHeight(A));
            for (MobilizedBodyIndex b(1); b < S.nb; ++b) x.setBodyIsExcluded(B, b, x.getBodyIsExcluded(A, b));
            break; }
        case FK_Bushing: { const Force::LinearBushing& x = Force::LinearBushing::downcast(f);
            x.setFrameOnBody1(B, x.getFrameOnBody1(A)); x.setFrameOnBody2(B, x.getFrameOnBody2(A)); x.setStiffness(B, x.getStiffness(A)); x.setDamping(B, x.getDamping(A)); break; }
        case FK_MobConst: { const Force::MobilityConstantForce& x = Force::MobilityConstantForce::downcast(f); x.setForce(B, x.getForce(A)); break; }
        case FK_MobDiscrete: { const Force::MobilityDiscreteForce& x = Force::MobilityDiscreteForce::downcast(f); x.setMobilityForce(B, x.getMobilityForce(A)); break; }
        case FK_MobDamper: { const Force::MobilityLinearDamper& x = Force::MobilityLinearDamper::downcast(f); x.setDamping(B, x.getDamping(A)); break; }
        case FK_MobSpring: { const Force::MobilityLinearSpring& x = Force::MobilityLinearSpring::downcast(f); x.setStiffness(B, x.getStiffness(A)); x.setQZero(B, x.getQZero(A)); break; }
        case FK_MobStop: { const Force::MobilityLinearStop& x = Force::MobilityLinearStop::downcast(f);
            x.setBounds(B, x.getLowerBound(A), x.getUpperBound(A)); x.setMaterialProperties(B, x.getStiffness(A), x.getDissipation(A)); break; }
        case FK_Thermostat: { const Force::Thermostat& x = Force::Thermostat::downcast(f); x.setBathTemperature(B, x.getBathTemperature(A)); x.setRelaxationTime(B, x.getRelaxationTime(A)); break; }
        case FK_Discrete: { const Force::DiscreteForces& x = Force::DiscreteForces::downcast(f);
            x.setAllMobilityForces(B, x.getAllMobilityForces(A)); x.setAllBodyForces(B, x.getAllBodyForces(A)); break; }
        default: break;
        }
        bool dis = f.isDisabled(A);
        if (dis != f.isDisabled(B)) S.m.forces.setForceIsDisabled(B, S.fix[i], dis);
    }
    if (zOwner) {   // which force element owns each z (probed through the public getters)
        int nz = B.getNZ(); zOwner->assign(nz, -1);
        Vector probe(nz); for (int i = 0; i < nz; ++i) probe[i] = 1000 + i;
        B.setZ(probe);
        auto own = [&](double val, int e) { int i = (int)std::lround(val) - 1000; if (i >= 0 && i < nz && probe[i] == val) (*zOwner)[i] = e; };
        for (int e = 0; e < nf; ++e) {
            if (S.fkind[e] == FK_Bushing) own(Force::LinearBushing::downcast(S.F(e)).getDissipatedEnergy(B), e);
            if (S.fkind[e] == FK_Thermostat) { const Force::Thermostat& th = Force::Thermostat::downcast(S.F(e)); own(th.getExternalWork(B), e); Vector cs = th.getChainState(B); for (int i = 0; i < cs.size(); ++i) own(cs[i], e); }
        }
    }
    // continuous variables and time last (lockAt above writes q and u)
    B.setTime(A.getTime());
    B.setQ(A.getQ()); B.setU(A.getU()); B.setZ(A.getZ());
    return B;
}

// ------------------------------------------------------------------ applying operations
static double arg(const Op& o, size_t i) { return i < o.v.size() ? o.v[i] : 0.0; }
static Vec3 arg3(const Op& o, size_t i) { return Vec3(arg(o, i), arg(o, i + 1), arg(o, i + 2)); }
static UnitVec3 argUnit(const Op& o, size_t i) { Vec3 v = arg3(o, i); if (!(v.norm() > 1e-6)) v = Vec3(0, -1, 0); return UnitVec3(v); }
static Transform argFrame(const Op& o, size_t i) {
    Vec4 q(arg(o, i), arg(o, i + 1), arg(o, i + 2), arg(o, i + 3)); if (!(q.norm() > 1e-3)) q = Vec4(1, 0, 0, 0);
    return Transform(Rotation(Quaternion(q)), arg3(o, i + 4));
}

static int sysStage(const State& s) { return (int)s.getSystemStage(); }

struct Runner {
    Sys& S; Ctx* c; State A;
    long opExceptions = 0;
    explicit Runner(Sys& S, Ctx* c = nullptr) : S(S), c(c), A(S.proto) {}

    bool realizeTo(State& s, int g, std::string& exc) {
        try { S.m.sys.realize(s, Stage(g)); return true; }
        catch (const std::exception& e) { exc = normMsg(e.what()); if (exc.empty()) exc = "?"; return false; }
    }
    void keepModel() { if (sysStage(A) < ST_Model) S.m.sys.realizeModel(A); }

    void applyForceParam(const Op& o) {
        const Force& f = S.F(o.a); const SimbodyMatterSubsystem& matter = S.m.matter;
        switch (S.fkind[o.a]) {
        case FK_Gravity: { const Force::Gravity& x = Force::Gravity::downcast(f);
            switch (o.b) {
            case 0: x.setMagnitude(A, std::fabs(arg(o, 0))); break;
            case 1: x.setDownDirection(A, argUnit(o, 0)); break;
            case 2: {   // full vector; partially unchanged values are where "nothing changed" shortcuts live
                Vec3 v = arg3(o, 0);
                if (o.c % 3 == 1) {          // exactly the same magnitude, other direction: flip signs of components
                    v = x.getGravityVector(A); int m = 1 + (o.c / 3) % 7;
                    for (int i = 0; i < 3; ++i) if (m & (1 << i)) v[i] = -v[i];
                } else if (o.c % 3 == 2) {   // same direction, other magnitude
                    v = x.getGravityVector(A) * (0.25 + std::fabs(arg(o, 0)));
                }
                x.setGravityVector(A, v); break; }
            case 3: x.setZeroHeight(A, arg(o, 0)); break;
            case 4: x.setBodyIsExcluded(A, MobilizedBodyIndex(1 + o.c % (S.nb - 1)), arg(o, 0) > 0); break;
            case 5: { Vec3 v = arg3(o, 0); if (!(v.norm() > 1e-6)) v = Vec3(1, 0, 0); x.setDownDirection(A, v); break; }
            } break; }
        case FK_Bushing: { const Force::LinearBushing& x = Force::LinearBushing::downcast(f);
            switch (o.b) {
            case 0: x.setFrameOnBody1(A, argFrame(o, 0)); break;
            case 1: x.setFrameOnBody2(A, argFrame(o, 0)); break;
            case 2: { Vec6 k; for (int i = 0; i < 6; ++i) k[i] = std::fabs(arg(o, i)) * 10; x.setStiffness(A, k); break; }
            case 3: { Vec6 k; for (int i = 0; i < 6; ++i) k[i] = std::fabs(arg(o, i)); x.setDamping(A, k); break; }
            case 4: x.setDissipatedEnergy(A, std::fabs(arg(o, 0))); break;   // documented: must be nonnegative
            } break; }
        case FK_MobConst: Force::MobilityConstantForce::downcast(f).setForce(A, arg(o, 0) * 3); break;
        case FK_MobDiscrete: Force::MobilityDiscreteForce::downcast(f).setMobilityForce(A, arg(o, 0) * 3); break;
        case FK_MobDamper: Force::MobilityLinearDamper::downcast(f).setDamping(A, std::fabs(arg(o, 0))); break;
        case FK_MobSpring: { const Force::MobilityLinearSpring& x = Force::MobilityLinearSpring::downcast(f);
            if (o.b == 0) x.setStiffness(A, std::fabs(arg(o, 0)) * 20); else x.setQZero(A, arg(o, 0)); break; }
        case FK_MobStop: { const Force::MobilityLinearStop& x = Force::MobilityLinearStop::downcast(f);
            if (o.b == 0) x.setBounds(A, arg(o, 0), arg(o, 0) + std::fabs(arg(o, 1)));
            else x.setMaterialProperties(A, std::fabs(arg(o, 0)) * 50, std::fabs(arg(o, 1))); break; }
        case FK_Thermostat: { const Force::Thermostat& x = Force::Thermostat::downcast(f);
            switch (o.b) {
            case 0: x.setBathTemperature(A, 1 + std::fabs(arg(o, 0)) * 300); break;
            case 1: x.setRelaxationTime(A, 0.05 + std::fabs(arg(o, 0))); break;
            case 2: x.setNumChains(A, 1 + o.c % 4); keepModel(); break;
            case 3: x.setNumExcludedDofs(A, o.c % 7); keepModel(); break;
            case 4: { int n = 2 * x.getNumChains(A); Vector z(n); for (int i = 0; i < n; ++i) z[i] = arg(o, i % 8) * (1 + i / 8); x.setChainState(A, z); break; }
            case 5: x.setExternalWork(A, arg(o, 0)); break;
            case 6: x.initializeChainState(A); break;
            } break; }
        case FK_Discrete: { const Force::DiscreteForces& x = Force::DiscreteForces::downcast(f);
            int nmov = (int)S.m.bodies.size();
            switch (o.b) {
            case 0: { if (S.movable.empty()) break; int b = S.movable[o.c % S.movable.size()]; x.setOneMobilityForce(A, S.m.bodies[b], MobilizerUIndex((o.c / 7) % S.nuOf[b]), arg(o, 0) * 3); break; }
            case 1: x.setOneBodyForce(A, S.m.bodies[o.c % nmov], SpatialVec(arg3(o, 0), arg3(o, 3))); break;
            case 2: if (sysStage(A) >= ST_Position) x.addForceToBodyPoint(A, S.m.bodies[o.c % nmov], arg3(o, 0), arg3(o, 3));
                    else x.setOneBodyForce(A, S.m.bodies[o.c % nmov], SpatialVec(arg3(o, 0), arg3(o, 3)));
                    break;
            case 3: { Vector fv(A.getNU()); for (int i = 0; i < fv.size(); ++i) fv[i] = arg(o, i % 8) * (1 + i / 8); x.setAllMobilityForces(A, fv); break; }
            case 4: { Vector_<SpatialVec> F(matter.getNumBodies()); for (int i = 0; i < F.size(); ++i) F[i] = SpatialVec(arg3(o, i % 3) * (1 + i), arg3(o, 3 + i % 3)); x.setAllBodyForces(A, F); break; }
            case 5: x.clearAllForces(A); break;
            case 6: x.clearAllMobilityForces(A); break;
            case 7: x.clearAllBodyForces(A); break;
            } break; }
        default: break;
        }
    }
    void applyConsParam(const Op& o) {
        const Constraint& cn = S.C(o.a);
        switch (S.ckind[o.a]) {
        case CK_Rod: { const Constraint::Rod& x = Constraint::Rod::downcast(cn);
            if (o.b == 0) x.setPointOnBody1(A, arg3(o, 0)); else if (o.b == 1) x.setPointOnBody2(A, arg3(o, 0)); else x.setRodLength(A, 0.2 + std::fabs(arg(o, 0))); break; }
        case CK_Ball: { const Constraint::Ball& x = Constraint::Ball::downcast(cn); if (o.b == 0) x.setPointOnBody1(A, arg3(o, 0)); else x.setPointOnBody2(A, arg3(o, 0)); break; }
        case CK_ConstCoord: Constraint::ConstantCoordinate::downcast(cn).setPosition(A, arg(o, 0)); break;
        case CK_ConstSpeed: Constraint::ConstantSpeed::downcast(cn).setSpeed(A, arg(o, 0)); break;
        case CK_ConstAccel: Constraint::ConstantAcceleration::downcast(cn).setAcceleration(A, arg(o, 0)); break;
        case CK_NoSlip: { const Constraint::NoSlip1D& x = Constraint::NoSlip1D::downcast(cn); if (o.b == 0) x.setContactPoint(A, arg3(o, 0)); else x.setDirection(A, argUnit(o, 0)); break; }
        }
    }

    // applies one op (not Compare); every precondition is checked here
    void applyRaw(const Op& o) {
        const SimbodyMatterSubsystem& matter = S.m.matter; const MultibodySystem& sys = S.m.sys;
        int nmov = (int)S.m.bodies.size();
        switch (o.kind) {
        case OK_Realize: { std::string e; realizeTo(A, o.stage, e); break; }
        case OK_Query: (void)gather(S, A, sysStage(A), o.lazy); break;
        case OK_Lazy:
            switch (o.a) {
            case 0: if (sysStage(A) >= ST_Instance) matter.realizePositionKinematics(A); break;
            case 1: if (sysStage(A) >= ST_Instance && matter.isPositionKinematicsRealized(A)) matter.realizeVelocityKinematics(A); break;
            case 2: if (sysStage(A) >= ST_Instance && matter.isPositionKinematicsRealized(A)) matter.realizeCompositeBodyInertias(A); break;
            case 3: if (sysStage(A) >= ST_Instance && matter.isPositionKinematicsRealized(A)) matter.realizeArticulatedBodyInertias(A); break;
            case 4: if (sysStage(A) >= ST_Instance && matter.isVelocityKinematicsRealized(A) && matter.isArticulatedBodyInertiasRealized(A)) matter.realizeArticulatedBodyVelocity(A); break;
            case 5: if (sysStage(A) >= ST_Position) { Vector f(A.getNU()), out; for (int i = 0; i < f.size(); ++i) f[i] = arg(o, i % 8); matter.multiplyByMInv(A, f, out); } break;
            case 6: if (sysStage(A) >= ST_Position) (void)sys.calcPotentialEnergy(A); break;
            } break;
        case OK_SetTime: A.setTime(arg(o, 0)); break;
        case OK_SetQ: { int n = A.getNQ(); Vector q(n); for (int i = 0; i < n; ++i) q[i] = arg(o, i % o.v.size()) * (1 + 0.1 * (i / (int)o.v.size())); if (o.a == 0) A.setQ(q); else A.updQ() = q; break; }
        case OK_SetU: { int n = A.getNU(); Vector u(n); for (int i = 0; i < n; ++i) u[i] = arg(o, i % o.v.size()) * (1 + 0.1 * (i / (int)o.v.size())); if (o.a == 0) A.setU(u); else A.updU() = u; break; }
        case OK_SetZ: { int n = A.getNZ(); Vector z(n); for (int i = 0; i < n; ++i) z[i] = arg(o, i % o.v.size()) * (1 + 0.1 * (i / (int)o.v.size())); if (o.a == 0) A.setZ(z); else A.updZ() = z; break; }
        case OK_SetY: { Vector y = A.getY(); if (y.size()) { y[o.c % y.size()] = arg(o, 0); A.updY() = y; } break; }
        case OK_SetOneZ: if (A.getNZ()) A.updZ()[o.c % A.getNZ()] = arg(o, 0); break;
        case OK_SetOneQ: { const MobilizedBody& mb = S.m.bodies[o.a % nmov]; int n = mb.getNumQ(A); if (n) mb.setOneQ(A, o.b % n, arg(o, 0)); break; }
        case OK_SetOneU: { const MobilizedBody& mb = S.m.bodies[o.a % nmov]; int n = mb.getNumU(A); if (n) mb.setOneU(A, o.b % n, arg(o, 0)); break; }
        case OK_SetQVec: { const MobilizedBody& mb = S.m.bodies[o.a % nmov]; int n = mb.getNumQ(A); if (n) { Vector q(n); for (int i = 0; i < n; ++i) q[i] = arg(o, i); mb.setQFromVector(A, q); } break; }
        case OK_SetUVec: { const MobilizedBody& mb = S.m.bodies[o.a % nmov]; int n = mb.getNumU(A); if (n) { Vector u(n); for (int i = 0; i < n; ++i) u[i] = arg(o, i); mb.setUFromVector(A, u); } break; }
        case OK_SetQFit: if (sysStage(A) >= ST_Instance) S.m.bodies[o.a % nmov].setQToFitTransform(A, argFrame(o, 0)); break;
        case OK_SetUFit: if (sysStage(A) >= ST_Position) S.m.bodies[o.a % nmov].setUToFitVelocity(A, SpatialVec(arg3(o, 0), arg3(o, 3))); break;
        case OK_ForceParam: applyForceParam(o); break;
        case OK_ForceEnable: if (o.c) S.m.forces.setForceIsDisabled(A, S.fix[o.a], o.b != 0); else if (o.b) S.F(o.a).disable(A); else S.F(o.a).enable(A); break;
        case OK_ConsParam: applyConsParam(o); break;
        case OK_ConsEnable: if (o.c) matter.setConstraintIsDisabled(A, S.cix[o.a], o.b != 0); else if (o.b) S.C(o.a).disable(A); else S.C(o.a).enable(A); break;
        case OK_Lock: S.m.bodies[o.a % nmov].lock(A, Motion::Level(o.b)); break;
        case OK_LockAt: { const MobilizedBody& mb = S.m.bodies[o.a % nmov]; int n = (o.b == Motion::Position) ? mb.getNumQ(A) : mb.getNumU(A);
            if (n == 0) { mb.lock(A, Motion::Level(o.b)); break; }     // lockAt() forms &value[0]: not for zero-dof mobilizers
            Vector val(n); for (int i = 0; i < n; ++i) val[i] = arg(o, i); mb.lockAt(A, val, Motion::Level(o.b)); break; }
        case OK_Unlock: S.m.bodies[o.a % nmov].unlock(A); break;
        case OK_Euler: matter.setUseEulerAngles(A, o.b != 0); keepModel(); break;
        case OK_Copy:
            switch (o.a) {
            case 0: { State C(A); A = std::move(C); break; }
            case 1: { State C; C = A; A = std::move(C); break; }
            case 2: { State C(S.proto); std::string e; realizeTo(C, ST_Velocity, e); (void)gather(S, C, sysStage(C), 0xff); C = A; A = std::move(C); break; }
            case 3: { State C(std::move(A)); A = std::move(C); break; }
            } break;
        case OK_Invalidate:
            switch (o.a) {
            case 0: matter.invalidatePositionKinematics(A); break;
            case 1: matter.invalidateVelocityKinematics(A); break;
            case 2: matter.invalidateCompositeBodyInertias(A); break;
            case 3: matter.invalidateArticulatedBodyInertias(A); break;
            case 4: matter.invalidateArticulatedBodyVelocity(A); break;
            case 5: A.invalidateAllCacheAtOrAbove(Stage(o.b)); break;
            case 6: A.invalidateAll(Stage(o.b)); break;
            case 7: for (size_t i = 0; i < S.fkind.size(); ++i) if (S.fkind[i] == FK_Gravity) Force::Gravity::downcast(S.F((int)i)).invalidateForceCache(A); break;
            } break;
        default: break;
        }
    }
    void apply(const Op& o) {
        try { applyRaw(o); }
        catch (const std::exception& e) { ++opExceptions; if (c) c->obs("op-exception:" + opClass(S, o) + ":" + normMsg(e.what()).substr(0, 80)); }
        keepModel();
    }
    // side effects of a comparison on A (used for intermediate Compare ops during replay)
    void compareSideEffects(const Op& o) {
        if (o.mode != CM_Direct) return;
        std::string e;
        if (realizeTo(A, o.stage, e)) (void)gather(S, A, std::min(o.stage, (int)ST_Acceleration), o.lazy);
    }
    // the real comparison; returns worst ratio, fills mm
    double compare(const Op& o, Mismatch& mm, bool& bitwise, std::vector<std::pair<std::string, Json>>* undefinedGroups = nullptr) {
        std::vector<int> zOwner;
        State B = buildFresh(S, A, &zOwner);
        bitwise = true;
        if (B.getNQ() != A.getNQ() || B.getNU() != A.getNU() || B.getNZ() != A.getNZ()) { mm.any = true; mm.group = "y-size"; mm.what = "fresh State has different nq/nu/nz"; return std::numeric_limits<double>::infinity(); }
        std::string ea, eb; bool oka, okb;
        Obs oa, ob;
        int g = std::min(o.stage, (int)ST_Acceleration);
        if (o.mode == CM_ViaCopy) {
            State C(A);
            oka = realizeTo(C, o.stage, ea);
            if (oka) oa = gather(S, C, g, o.lazy, &zOwner);
        } else {
            oka = realizeTo(A, o.stage, ea);
            if (oka) oa = gather(S, A, g, o.lazy, &zOwner);
        }
        okb = realizeTo(B, o.stage, eb);
        if (okb) ob = gather(S, B, g, o.lazy, &zOwner);
        if (!oka || !okb) {
            if (c) c->obs(std::string("realize-exception:") + (oka ? "" : ea.substr(0, 70)));
            if (ea != eb) { mm.any = true; mm.group = "realize"; mm.what = "exception differs: A='" + ea + "' B='" + eb + "'"; return std::numeric_limits<double>::infinity(); }
            return 0;
        }
        return compareObs(oa, ob, mm, bitwise, undefinedGroups);
    }
};

// replays ops (the last one must be a Compare) from the prototype State; true if the final comparison mismatches
static bool replayFails(Sys& S, const std::vector<Op>& ops, Mismatch* out = nullptr) {
    Runner R(S);
    for (size_t i = 0; i + 1 < ops.size(); ++i) {
        if (ops[i].kind == OK_Compare) R.compareSideEffects(ops[i]); else R.apply(ops[i]);
    }
    Mismatch mm; bool bw;
    double w = R.compare(ops.back(), mm, bw);
    if (out) *out = mm;
    return mm.any || w > 1;
}

static std::vector<Op> shrink(Sys& S, std::vector<Op> ops, long& replays) {
    const long maxReplays = 600;
    bool changed = true;
    while (changed && replays < maxReplays) {
        changed = false;
        for (int pass = 0; pass < 2 && replays < maxReplays; ++pass) {
            for (size_t i = 0; i + 1 < ops.size() && replays < maxReplays;) {
                int k = ops[i].kind;
                bool cheap = (k == OK_Query || k == OK_Lazy || (k == OK_Compare && ops[i].mode != CM_Direct));
                if ((pass == 0) != cheap) { ++i; continue; }
                std::vector<Op> cand = ops; cand.erase(cand.begin() + i);
                ++replays;
                if (replayFails(S, cand)) { ops.swap(cand); changed = true; } else ++i;
            }
        }
    }
    // simplify the final comparison: fewer lazy observables, lower stage (keeps the key canonical)
    Op& last = ops.back();
    for (unsigned bit = 1; bit < 256 && replays < maxReplays; bit <<= 1) {
        if (!(last.lazy & bit)) continue;
        unsigned keep = last.lazy; last.lazy &= ~bit; ++replays;
        if (!replayFails(S, ops)) last.lazy = keep;
    }
    return ops;
}

static std::string keyOf(const Sys& S, const std::vector<Op>& ops) {
    bool copy = false; std::string list, prev;
    for (size_t i = 0; i < ops.size(); ++i) {
        const Op& o = ops[i];
        bool last = (i + 1 == ops.size());
        std::string cl = opClass(S, o);
        if (o.kind == OK_Compare) {
            if (o.mode == CM_ViaCopy) { if (!last) continue; cl = "copy"; }
            else if (o.mode == CM_None) continue;
            else if (last) continue;      // the final realization is implied
        }
        if (cl == "copy") copy = true;
        if (cl == prev) continue;
        if (!list.empty()) list += ","; list += cl; prev = cl;
    }
    return std::string(copy ? "stale-after-copy:" : "stale:") + list;
}

// ------------------------------------------------------------------ history generation
static std::vector<double> randArgs(Rng& r, int n = 8, double s = 1.5) { std::vector<double> v(n); for (auto& x : v) x = r.sym(s); return v; }

static Op genCompare(Rng& r) {
    Op o; o.kind = OK_Compare;
    double p = r.uni(); o.mode = p < 0.62 ? CM_Direct : p < 0.87 ? CM_ViaCopy : CM_None;
    static const int st[] = {ST_Position, ST_Velocity, ST_Dynamics, ST_Acceleration, ST_Acceleration, ST_Acceleration, ST_Report};
    o.stage = st[r.integer(0, 6)];
    o.lazy = r.coin(0.5) ? 0xffu : (unsigned)r.integer(0, 255);
    return o;
}
static Op genRealize(Rng& r, bool high) {
    Op o; o.kind = OK_Realize;
    o.stage = high ? r.integer(ST_Dynamics, ST_Report) : r.integer(ST_Instance, ST_Report);
    return o;
}
static Op genQuery(Rng& r) { Op o; o.kind = OK_Query; o.lazy = r.coin(0.6) ? 0xffu : (unsigned)r.integer(1, 255); return o; }
static Op genLazy(Rng& r) { Op o; o.kind = OK_Lazy; o.a = r.integer(0, 6); o.v = randArgs(r); return o; }

// late: only mutators whose documented invalidation is Velocity stage or later (adversarial pattern)
static Op genMutator(const Sys& S, Rng& r, bool late) {
    Op o; o.v = randArgs(r);
    int nmov = (int)S.m.bodies.size(), nf = (int)S.fkind.size(), nc = (int)S.ckind.size();
    for (int attempt = 0; attempt < 50; ++attempt) {
        double p = r.uni();
        if (late) {
            if (p < 0.18) { o.kind = r.coin() ? OK_SetU : (r.coin() ? OK_SetOneU : OK_SetUVec); o.a = r.integer(0, 7); o.b = r.integer(0, 5); return o; }
            if (p < 0.30) { o.kind = r.coin() ? OK_SetZ : OK_SetOneZ; o.a = r.integer(0, 1); o.c = r.integer(0, 63); return o; }
            if (p < 0.80) {
                int i = r.integer(0, nf - 1), fk = S.fkind[i], n = numForceSetters(fk);
                if (!n || fk == FK_Thermostat || fk == FK_Bushing) continue;       // those invalidate Instance/Model
                o.kind = OK_ForceParam; o.a = i; o.b = r.integer(0, n - 1); o.c = r.integer(0, 1000);
                if (fk == FK_Gravity && (o.b == 0 || o.b == 2) && r.coin(0.2)) o.v[0] = o.v[1] = o.v[2] = 0;
                return o;
            }
            if (p < 0.88) { if (!nc) continue; int i = r.integer(0, nc - 1); if (S.ckind[i] != CK_ConstSpeed && S.ckind[i] != CK_ConstAccel) continue; o.kind = OK_ConsParam; o.a = i; o.b = 0; return o; }
            o.kind = OK_Invalidate; o.a = r.integer(1, 7); o.b = r.integer(ST_Velocity, ST_Report); return o;
        }
        if (p < 0.03) { o.kind = OK_SetTime; return o; }
        if (p < 0.15) { int w = r.integer(0, 4); o.kind = w == 0 ? OK_SetQ : w == 1 ? OK_SetOneQ : w == 2 ? OK_SetQVec : w == 3 ? OK_SetQFit : OK_SetQ; o.a = (o.kind == OK_SetQ) ? r.integer(0, 1) : r.integer(0, nmov - 1); o.b = r.integer(0, 6); return o; }
        if (p < 0.25) { int w = r.integer(0, 4); o.kind = w == 0 ? OK_SetU : w == 1 ? OK_SetOneU : w == 2 ? OK_SetUVec : w == 3 ? OK_SetUFit : OK_SetU; o.a = (o.kind == OK_SetU) ? r.integer(0, 1) : r.integer(0, nmov - 1); o.b = r.integer(0, 5); return o; }
        if (p < 0.31) { o.kind = r.coin() ? OK_SetZ : OK_SetOneZ; o.a = r.integer(0, 1); o.c = r.integer(0, 63); return o; }
        if (p < 0.33) { o.kind = OK_SetY; o.c = r.integer(0, 63); return o; }
        if (p < 0.55) {
            int i = r.integer(0, nf - 1), fk = S.fkind[i], n = numForceSetters(fk);
            if (!n) continue;
            o.kind = OK_ForceParam; o.a = i; o.b = r.integer(0, n - 1); o.c = r.integer(0, 1000);
            if (fk == FK_Thermostat && (o.b == 2 || o.b == 3) && r.coin(0.6)) continue;     // Model-stage changes: keep them rarer
            if (fk == FK_Gravity && (o.b == 0 || o.b == 2) && r.coin(0.2)) o.v[0] = o.v[1] = o.v[2] = 0;
            if (fk == FK_MobStop && o.b == 1 && r.coin(0.2)) o.v[r.integer(0, 1)] = 0;
            return o;
        }
        if (p < 0.63) { o.kind = OK_ForceEnable; o.a = r.integer(0, nf - 1); o.b = r.integer(0, 1); o.c = r.integer(0, 1); return o; }
        if (p < 0.69) { if (!nc) continue; o.kind = OK_ConsEnable; o.a = r.integer(0, nc - 1); o.b = r.integer(0, 1); o.c = r.integer(0, 1); return o; }
        if (p < 0.75) { if (!nc) continue; o.kind = OK_ConsParam; o.a = r.integer(0, nc - 1); o.b = r.integer(0, numConsSetters(S.ckind[o.a]) - 1); return o; }
        if (p < 0.82) { int w = r.integer(0, 3); o.kind = w == 0 ? OK_Lock : w == 1 ? OK_LockAt : w == 2 ? OK_Unlock : OK_Lock; o.a = r.integer(0, nmov - 1); o.b = r.integer(0, 2); return o; }
        if (p < 0.84) { o.kind = OK_Euler; o.b = r.integer(0, 1); return o; }
        if (p < 0.93) { o.kind = OK_Copy; o.a = r.integer(0, 3); return o; }
        o.kind = OK_Invalidate; o.a = r.integer(0, 7); o.b = r.integer(ST_Instance, ST_Report); return o;
    }
    o.kind = OK_SetTime; return o;
}

static void checkC16(Ctx& c, long idx, Rng& r) {
    Sys S;
    c.setPhase("build model");
    buildSys(S, r, idx);
    // the history: user operations; a Compare follows every mutating one
    std::vector<Op> ops;
    int n = r.integer(5, 40);
    {   // start from random values (ordinary ops, so the shrinker may drop them)
        Op q; q.kind = OK_SetQ; q.a = 0; q.v = randArgs(r, 8, 1.2); ops.push_back(q); ops.push_back(genCompare(r));
        Op u; u.kind = OK_SetU; u.a = 0; u.v = randArgs(r); ops.push_back(u); ops.push_back(genCompare(r));
    }
    int user = 2;
    auto pushMut = [&](const Op& o) { ops.push_back(o); ops.push_back(genCompare(r)); ++user; };
    while (user < n) {
        if (r.coin(0.5)) {
            // adversarial pattern: realize high -> change something that invalidates only a late stage -> re-realize
            ops.push_back(genRealize(r, true)); ++user;
            if (r.coin(0.35)) { ops.push_back(genQuery(r)); ++user; }
            pushMut(genMutator(S, r, r.coin(0.8)));
            ops.push_back(genRealize(r, false)); ++user;
        } else {
            double p = r.uni();
            if (p < 0.20) { ops.push_back(genRealize(r, false)); ++user; }
            else if (p < 0.30) { ops.push_back(genQuery(r)); ++user; }
            else if (p < 0.40) { ops.push_back(genLazy(r)); ++user; }
            else pushMut(genMutator(S, r, false));
        }
    }
    // run
    Runner R(S, &c);
    int lastMut = -1, stageBefore = ST_Model;
    long nCmp = 0; std::set<std::string> undefSeen;
    for (size_t i = 0; i < ops.size(); ++i) {
        const Op& o = ops[i];
        if (o.kind != OK_Compare) {
            c.setPhase("op " + opName(S, o));
            if (isMutating(o)) { lastMut = (int)i; stageBefore = sysStage(R.A); }
            R.apply(o);
            continue;
        }
        if (o.mode == CM_None || lastMut < 0) { c.obs("compare-skipped-by-design"); continue; }
        c.setPhase("compare after " + opName(S, ops[lastMut]));
        Mismatch mm; bool bitwise = true; std::vector<std::pair<std::string, Json>> undef;
        double worst = R.compare(o, mm, bitwise, &undef);
        ++nCmp;
        for (auto& t : undef) {
            c.obs("zdot-of-disabled-element-differs");
            if (undefSeen.insert(t.first).second)
                c.viol("uninitialized-zdot:disabled-" + t.first, Json::obj().set("zdot", t.second).set("system", S.toJson()).set("after", opName(S, ops[lastMut])).set("stage", stName(o.stage))
                       .set("what", "zdot entries owned by a disabled force element differ between the history State and a fresh State with the same values (never written by realize)"));
        }
        c.cover(opName(S, ops[lastMut]) + "/" + stName(stageBefore) + ">" + stName(o.stage));
        c.obs(bitwise ? "compare-bitwise-equal" : "compare-not-bitwise");
        c.obs(o.mode == CM_ViaCopy ? "compare-via-copy" : "compare-direct");
        if (!mm.any && worst <= 1) { c.check(std::string("match:") + stName(o.stage), worst, 1.0, nullptr); continue; }
        // mismatch: shrink the history, key from the minimal one
        c.setPhase("shrink");
        std::vector<Op> hist(ops.begin(), ops.begin() + i + 1);
        Mismatch m0; long replays = 1;
        std::string key; Json w = Json::obj();
        if (!replayFails(S, hist, &m0)) {
            key = "nonreproducible-mismatch:" + opClass(S, ops[lastMut]);
            m0 = mm;
        } else {
            hist = shrink(S, hist, replays);
            replayFails(S, hist, &m0);
            key = keyOf(S, hist);
        }
        Json h = Json::arr(); for (auto& x : hist) h.push(opJson(S, x));
        w.set("system", S.toJson()).set("minimal_history", h).set("original_length", (long)(i + 1)).set("replays", replays)
         .set("first_difference", Json::obj().set("group", m0.group).set("what", m0.what).set("index", m0.index).set("A", m0.a).set("fresh", m0.b).set("ratio", m0.ratio))
         .set("last_op", opName(S, ops[lastMut]));
        c.viol(key, w);
        c.obs("histories-with-mismatch");
        break;   // a stale value poisons everything after it: one violation per history
    }
    c.obs("comparisons", nCmp);
    c.obs("ops", (long)ops.size());
    if (R.opExceptions) c.obs("op-exceptions", R.opExceptions);
    if (c.wantSample()) {
        Json h = Json::arr(); for (size_t i = 0; i < ops.size() && i < 60; ++i) h.push(opJson(S, ops[i]));
        c.sample(Json::obj().set("case", idx).set("system", S.toJson()).set("history", h));
    }
}

int main(int argc, char** argv) {
    Args a = parseArgs(argc, argv);
    Ctx c(a);
    if (a.prop != "C16") { fprintf(stderr, "mon_cache: unknown property %s\n", a.prop.c_str()); return 2; }
    return runCases(c, [&](long i, Rng& r) { checkC16(c, i, r); });
}
