// mon_random — C31 "Random generators are deterministic and in range".
//
// Sub-checks (one per case, cycled by case index so that every kind is reached by every worker):
//   det-uniform / det-gaussian   same seed => bitwise identical sequence across two objects, after setSeed() re-seeding
//                                (Gaussian: also after an odd number of draws, i.e. with a cached second deviate pending),
//                                when interleaved with draws from / construction+destruction of other Random objects;
//                                different seeds => different first 4 values; fillArray == repeated getValue and the
//                                stream continues correctly after fillArray;
//   range-real / range-int       Uniform real values in [min,max] (closed: min+r*range may round up to max), getIntValue in
//                                [min,max) for integer bounds with |bound| <= 1e6; ranges: unit, positive, negative,
//                                straddling zero, tiny relative width, re-configured with setMin/setMax;
//   stats-uniform / stats-gaussian   n = 1e5 values: sample mean and variance within 5 standard errors of the configured values
//                                (standard errors computed analytically), all values finite; 10-bin histogram within 5 sigma;
//   sfmt                         the library's SFMT (init_gen_rand / init_by_array / gen_rand32 / gen_rand64 / fill_array32 /
//                                fill_array64) against RefSfmt below, an independent implementation of the published SFMT-19937
//                                definition (128-bit linear recurrence, parameters 122-18-1-11-1, masks dfffffef-ddfecb7f-
//                                bffaffff-bffffff6, parity 00000001-00000000-00000000-13c9e684) that is itself anchored to the
//                                first five outputs of the published SFMT.19937.out.txt for seed 1234; sequential == block
//                                generation; Random::Uniform(0,1) values == 53-bit conversion of the reference 64-bit stream;
//   threads                      two generators driven concurrently from two threads (one object per thread, as documented)
//                                reproduce their single-threaded sequences.
// Legal-client preconditions: one Random object is used by one thread at a time; max > min (max >= min for real mode), finite
// bounds whose difference is finite; fill_array* only directly after seeding or after another fill_array* / a whole number of
// state blocks (the reference library's documented restriction), sizes multiple of 4 (2) and >= 624 (312).
#include "SimTKcommon.h"
#include "vh.h"
#include <thread>
#include <climits>

using namespace SimTK;
using vh::Json;

// ---- the library's SFMT entry points (exported from libSimTKcommon; header SFMT.h lives in the library's src directory)
namespace SimTK_SFMT {
class SFMTData;
uint32_t gen_rand32(SFMTData& data);
uint64_t gen_rand64(SFMTData& data);
void fill_array32(uint32_t* array, int size, SFMTData& data);
void fill_array64(uint64_t* array, int size, SFMTData& data);
void init_gen_rand(uint32_t seed, SFMTData& data);
void init_by_array(uint32_t* init_key, int key_length, SFMTData& data);
const char* get_idstring(void);
int get_min_array_size32(void);
int get_min_array_size64(void);
SFMTData* createSFMTData(void);
void deleteSFMTData(SFMTData* data);
}

// ---- reference SFMT-19937, written from the definition in Saito & Matsumoto (2008), "SIMD-oriented Fast Mersenne Twister"
// The generator is a linear recurrence over 128-bit words w_n:
//   w_{n+N} = w_n  ^ (w_n <<128 8)  ^ ((w_{n+M} >>32 11) & MASK)  ^ (w_{n+N-2} >>128 8)  ^ (w_{n+N-1} <<32 18),   N=156, M=122
// where <<128 / >>128 shift the whole 128-bit integer and <<32 / >>32 shift each of its four 32-bit lanes; lane 0 is the least
// significant. The output stream is the lanes of w_N, w_{N+1}, ... in order (32-bit), pairs of lanes low|high<<32 (64-bit).
class RefSfmt {
public:
    typedef unsigned __int128 u128;
    static const int N = 156, M = 122, N32 = 624;
    void seed(uint32_t s) {
        std::vector<uint32_t> st(N32);
        st[0] = s;
        for (int i = 1; i < N32; ++i) st[i] = 1812433253U * (st[i - 1] ^ (st[i - 1] >> 30)) + (uint32_t)i;
        certifyAndLoad(st);
    }
    void seedByArray(const std::vector<uint32_t>& key) {
        const int size = N32, lag = 11, mid = (size - lag) / 2;
        std::vector<uint32_t> st(N32, 0x8b8b8b8bU);
        auto f1 = [](uint32_t x) { return (x ^ (x >> 27)) * 1664525U; };
        auto f2 = [](uint32_t x) { return (x ^ (x >> 27)) * 1566083941U; };
        const int klen = (int)key.size();
        int count = (klen + 1 > N32) ? klen + 1 : N32;
        uint32_t r = f1(st[0] ^ st[mid] ^ st[N32 - 1]);
        st[mid] += r; r += (uint32_t)klen; st[mid + lag] += r; st[0] = r;
        --count;
        int i = 1, j = 0;
        for (; j < count && j < klen; ++j) {
            r = f1(st[i] ^ st[(i + mid) % N32] ^ st[(i + N32 - 1) % N32]);
            st[(i + mid) % N32] += r; r += key[j] + (uint32_t)i; st[(i + mid + lag) % N32] += r; st[i] = r;
            i = (i + 1) % N32;
        }
        for (; j < count; ++j) {
            r = f1(st[i] ^ st[(i + mid) % N32] ^ st[(i + N32 - 1) % N32]);
            st[(i + mid) % N32] += r; r += (uint32_t)i; st[(i + mid + lag) % N32] += r; st[i] = r;
            i = (i + 1) % N32;
        }
        for (j = 0; j < N32; ++j) {
            r = f2(st[i] + st[(i + mid) % N32] + st[(i + N32 - 1) % N32]);
            st[(i + mid) % N32] ^= r; r -= (uint32_t)i; st[(i + mid + lag) % N32] ^= r; st[i] = r;
            i = (i + 1) % N32;
        }
        certifyAndLoad(st);
    }
    uint32_t next32() { if (lane == 4) { advance(); lane = 0; } return (uint32_t)(cur >> (32 * lane++)); }
    uint64_t next64() { uint64_t lo = next32(); uint64_t hi = next32(); return lo | (hi << 32); }
private:
    std::vector<u128> w;   // sliding window of the last N words, w[pos] is the oldest
    size_t pos = 0;
    u128 cur = 0; int lane = 4;
    static u128 lanes(uint32_t a, uint32_t b, uint32_t c, uint32_t d) { return (u128)a | ((u128)b << 32) | ((u128)c << 64) | ((u128)d << 96); }
    static u128 shl32(u128 x, int k) { return lanes((uint32_t)x << k, (uint32_t)(x >> 32) << k, (uint32_t)(x >> 64) << k, (uint32_t)(x >> 96) << k); }
    static u128 shr32(u128 x, int k) { return lanes((uint32_t)x >> k, (uint32_t)(x >> 32) >> k, (uint32_t)(x >> 64) >> k, (uint32_t)(x >> 96) >> k); }
    void certifyAndLoad(std::vector<uint32_t>& st) {
        // period certification: if the parity check fails flip the lowest set bit of the parity vector in the state
        const uint32_t parity[4] = {0x00000001U, 0x00000000U, 0x00000000U, 0x13c9e684U};
        uint32_t inner = 0;
        for (int k = 0; k < 4; ++k) inner ^= st[k] & parity[k];
        for (int sh = 16; sh > 0; sh >>= 1) inner ^= inner >> sh;
        if ((inner & 1) == 0) {
            bool done = false;
            for (int k = 0; k < 4 && !done; ++k)
                for (int b = 0; b < 32 && !done; ++b)
                    if (parity[k] & (1U << b)) { st[k] ^= (1U << b); done = true; }
        }
        w.resize(N);
        for (int k = 0; k < N; ++k) w[k] = lanes(st[4 * k], st[4 * k + 1], st[4 * k + 2], st[4 * k + 3]);
        pos = 0; lane = 4;
    }
    void advance() {
        const u128 MASK = lanes(0xdfffffefU, 0xddfecb7fU, 0xbffaffffU, 0xbffffff6U);
        const u128 a = w[pos], b = w[(pos + M) % N], c = w[(pos + N - 2) % N], d = w[(pos + N - 1) % N];
        cur = a ^ (a << 8) ^ (shr32(b, 11) & MASK) ^ (c >> 8) ^ shl32(d, 18);
        w[pos] = cur; pos = (pos + 1) % N;
    }
};
static double res53(uint64_t v) { return (double)((long double)v * (1.0L / 18446744073709551616.0L)); }

static int randSeed(vh::Rng& r) {
    switch (r.integer(0, 9)) {
    case 0: return 0; case 1: return 1; case 2: return -1; case 3: return INT_MAX; case 4: return INT_MIN; case 5: return 1234;
    default: return (int)(uint32_t)r.next();
    }
}
static int addSeed(int s, int k) { return (int)((unsigned)s + (unsigned)k); }   // wrap-around, no signed overflow
static bool sameBits(double a, double b) { return std::memcmp(&a, &b, sizeof a) == 0; }

struct Range { double lo, hi; const char* cls; };
static Range randRange(vh::Rng& r, bool integerBounds) {
    int k = r.integer(0, 6);
    if (integerBounds) {
        switch (k) {
        case 0: return {0, (double)r.integer(1, 10), "int-from-zero"};
        case 1: { int a = r.integer(1, 1000), b = a + r.integer(1, 1000); return {(double)a, (double)b, "int-positive"}; }
        case 2: { int b = -r.integer(0, 1000), a = b - r.integer(1, 1000); return {(double)a, (double)b, "int-negative"}; }
        case 3: { int a = -r.integer(1, 1000), b = r.integer(1, 1000); return {(double)a, (double)b, "int-straddle"}; }
        case 4: { int a = r.integer(-1000000, 999999); return {(double)a, (double)a + 1, "int-width-one"}; }
        case 5: { int a = r.integer(-1000000, 0), b = r.integer(1, 1000000); return {(double)a, (double)b, "int-wide"}; }
        default: { int a = -r.integer(1, 5); return {(double)a, (double)(a + r.integer(1, 4)), "int-small-negative"}; }
        }
    }
    switch (k) {
    case 0: return {0.0, 1.0, "unit"};
    case 1: { double a = r.logUni(1e-6, 1e6), w = r.logUni(1e-6, 1e6); return {a, a + w, "positive"}; }
    case 2: { double b = -r.logUni(1e-6, 1e6), w = r.logUni(1e-6, 1e6); return {b - w, b, "negative"}; }
    case 3: { double a = -r.logUni(1e-6, 1e6), b = r.logUni(1e-6, 1e6); return {a, b, "straddle"}; }
    case 4: { double a = r.sym(1e3), w = std::fabs(a) * r.logUni(1e-14, 1e-9) + 1e-300; return {a, a + w, "tiny-relative-width"}; }
    case 5: { double a = r.logUni(1e-300, 1e-290); return {a, a * r.uni(1.5, 4), "tiny-absolute"}; }
    default: { double a = -r.logUni(1e9, 1e15), b = r.logUni(1e9, 1e15); return {a, b, "huge"}; }
    }
}
static Json jrange(const Range& g) { return Json::obj().set("min", g.lo).set("max", g.hi).set("class", g.cls); }

// ------------------------------------------------------------------------------------------------ determinism
template <class G> static void construct(std::unique_ptr<G>& p, vh::Rng& r, double& p1, double& p2);
template <> void construct<Random::Uniform>(std::unique_ptr<Random::Uniform>& p, vh::Rng& r, double& p1, double& p2) {
    Range g = randRange(r, false); p1 = g.lo; p2 = g.hi; p.reset(new Random::Uniform(p1, p2));
}
template <> void construct<Random::Gaussian>(std::unique_ptr<Random::Gaussian>& p, vh::Rng& r, double& p1, double& p2) {
    p1 = r.sym(100); p2 = r.logUni(1e-3, 1e3); p.reset(new Random::Gaussian(p1, p2));
}
template <class G> static G* makeLike(double p1, double p2) { return new G(p1, p2); }

template <class G> static void checkDeterminism(vh::Ctx& c, vh::Rng& r, const char* kind) {
    const std::string K = kind;
    const int seed = randSeed(r);
    const int n = r.integer(3, 2500);           // crosses the library's 1024-value buffer for larger n
    double p1, p2;
    std::unique_ptr<G> A; construct<G>(A, r, p1, p2);
    std::unique_ptr<G> B(makeLike<G>(p1, p2));
    auto W = [&](const char* what, int i, double a, double b) {
        return [=]() { return Json::obj().set("what", what).set("kind", kind).set("seed", seed).set("param1", p1).set("param2", p2).set("index", i).set("n", n).set("a", a).set("b", b); };
    };
    c.setPhase("determinism two objects " + K);
    A->setSeed(seed); B->setSeed(seed);
    std::vector<double> ref(n);
    bool ok = true; int bad = -1; double va = 0, vb = 0, last = 0;
    for (int i = 0; i < n; ++i) { ref[i] = A->getValue(); double b = B->getValue(); if (!sameBits(ref[i], b) && ok) { ok = false; bad = i; va = ref[i]; vb = b; } }
    c.require("determinism:" + K + ":two-objects-same-seed", ok, W("two objects seeded alike produced different sequences", bad, va, vb));

    c.setPhase("determinism reseed " + K);
    // A has now drawn n values (odd or even: a Gaussian may hold a cached second deviate); reseeding must restart the sequence
    if (r.coin()) (void)A->getValue();
    A->setSeed(seed);
    ok = true;
    for (int i = 0; i < n; ++i) { double a = A->getValue(); if (!sameBits(ref[i], a) && ok) { ok = false; bad = i; va = ref[i]; vb = a; } }
    c.require("determinism:" + K + ":reseed-restarts-sequence", ok, W("setSeed(s) after use did not reproduce the sequence of seed s", bad, va, vb));
    c.cover("det:" + K + ":" + ((n % 2) ? "odd" : "even") + (n > 1024 ? ":crosses-buffer" : ":within-buffer"));

    c.setPhase("determinism interleave " + K);
    // interleave with other generators (other seed, same seed, default seed), create and destroy objects meanwhile
    B->setSeed(seed);
    Random::Uniform other1(-3, 7); other1.setSeed(addSeed(seed, 1));
    Random::Gaussian other2(1, 2); other2.setSeed(seed);
    ok = true;
    for (int i = 0; i < n; ++i) {
        if (i % 3 == 0) (void)other1.getValue();
        if (i % 5 == 0) (void)other2.getValue();
        if (i % 97 == 0) { Random::Uniform tmp; (void)tmp.getValue(); Random::Gaussian tmp2; tmp2.setSeed(seed); (void)tmp2.getValue(); }
        double b = B->getValue();
        if (!sameBits(ref[i], b) && ok) { ok = false; bad = i; va = ref[i]; vb = b; }
    }
    c.require("determinism:" + K + ":interleaved-with-other-objects", ok, W("sequence changed when other Random objects were used in between", bad, va, vb));

    c.setPhase("seed sensitivity " + K);
    int seed2 = seed ^ (1 << r.integer(0, 30));
    B->setSeed(seed2);
    bool differs = false;
    for (int i = 0; i < 4 && i < n; ++i) if (!sameBits(B->getValue(), ref[i])) differs = true;
    c.require("seed-sensitivity:" + K, differs || p1 == p2, W("two different seeds gave the same first values", seed2, ref[0], ref[1]));

    c.setPhase("fillArray " + K);
    std::vector<double> arr(n + 1, -12345.678);
    int m = r.integer(0, n);
    B->setSeed(seed);
    for (int i = 0; i < m; ++i) arr[i] = B->getValue();       // some single draws first
    B->fillArray(arr.data() + m, n - m);
    last = B->getValue();                                     // and the stream goes on afterwards
    ok = true;
    for (int i = 0; i < n; ++i) if (!sameBits(ref[i], arr[i]) && ok) { ok = false; bad = i; va = ref[i]; vb = arr[i]; }
    c.require("fillArray:" + K + ":equals-repeated-getValue", ok, W("fillArray differs from repeated getValue", bad, va, vb));
    c.require("fillArray:" + K + ":no-write-past-length", arr[n] == -12345.678, W("fillArray wrote past the requested length", n, arr[n], 0));
    A->setSeed(seed); for (int i = 0; i < n; ++i) (void)A->getValue();
    double nextRef = A->getValue();
    c.require("fillArray:" + K + ":stream-continues", sameBits(nextRef, last), W("value after fillArray is not the next value of the sequence", n, nextRef, last));
    for (int i = 0; i < n; ++i) if (!std::isfinite(ref[i])) { c.viol("non-finite-value:" + K, W("generator returned NaN/Inf", i, ref[i], 0)()); break; }
}

// ------------------------------------------------------------------------------------------------ ranges
static void checkRangeReal(vh::Ctx& c, vh::Rng& r) {
    const int seed = randSeed(r);
    for (int rep = 0; rep < 10; ++rep) {
        Range g = randRange(r, false);
        const bool viaSetters = r.coin(0.4);
        c.setPhase(std::string("range real ") + g.cls);
        Random::Uniform u(viaSetters ? 0.25 : g.lo, viaSetters ? 0.75 : g.hi);
        u.setSeed(addSeed(seed, rep));
        if (viaSetters) { if (r.coin()) { u.setMin(g.lo); u.setMax(g.hi); } else { u.setMax(g.hi); u.setMin(g.lo); } }
        bool okCfg = u.getMin() == g.lo && u.getMax() == g.hi;
        c.require("range:uniform-real:getMin-getMax-report-configuration", okCfg, [&] { return jrange(g).set("getMin", u.getMin()).set("getMax", u.getMax()); });
        const int n = 3000;
        double worst = 0, bad = 0; long hitMax = 0; bool fin = true;
        for (int i = 0; i < n; ++i) {
            double v = u.getValue();
            if (!std::isfinite(v)) { fin = false; bad = v; }
            double out = v < g.lo ? g.lo - v : (v > g.hi ? v - g.hi : 0);
            if (out > worst) { worst = out; bad = v; }
            if (v == g.hi && g.hi > g.lo) ++hitMax;
        }
        c.cover(std::string("range-real:") + g.cls + (viaSetters ? ":setters" : ":ctor"));
        c.require(std::string("range:uniform-real:") + g.cls, fin && worst == 0, [&] { return jrange(g).set("what", "value outside [min,max] or non-finite").set("value", bad).set("seed", addSeed(seed, rep)).set("viaSetters", viaSetters); });
        if (hitMax) c.obs(std::string("real-value-equals-max:") + g.cls, hitMax);
    }
}
static void checkRangeInt(vh::Ctx& c, vh::Rng& r) {
    const int seed = randSeed(r);
    for (int rep = 0; rep < 10; ++rep) {
        Range g = randRange(r, true);
        const bool viaSetters = r.coin(0.4);
        c.setPhase(std::string("range int ") + g.cls);
        Random::Uniform u(viaSetters ? 0.0 : g.lo, viaSetters ? 1.0 : g.hi);
        u.setSeed(addSeed(seed, rep));
        if (viaSetters) { u.setMax(g.hi); u.setMin(g.lo); }
        const int n = 3000;
        const long lo = (long)g.lo, hi = (long)g.hi;
        long bad = 0; bool ok = true; std::set<int> seen;
        for (int i = 0; i < n; ++i) { int v = u.getIntValue(); if (v < lo || v >= hi) { ok = false; bad = v; } if (seen.size() < 64) seen.insert(v); }
        c.cover(std::string("range-int:") + g.cls + (viaSetters ? ":setters" : ":ctor"));
        c.require(std::string("range:uniform-int:") + g.cls, ok, [&] { return jrange(g).set("what", "getIntValue outside [min,max)").set("value", bad).set("seed", addSeed(seed, rep)); });
        // every value of a small range must be reachable (3000 draws, <= 10 values: miss probability < 1e-130)
        if (hi - lo <= 10)
            c.require(std::string("range:uniform-int:all-values-reached:") + g.cls, (long)seen.size() == hi - lo, [&] { return jrange(g).set("what", "not every integer of [min,max) was produced in 3000 draws").set("distinct", (long)seen.size()).set("seed", addSeed(seed, rep)); });
    }
}

// ------------------------------------------------------------------------------------------------ statistics
static void checkStatsUniform(vh::Ctx& c, vh::Rng& r) {
    const int seed = randSeed(r);
    const bool intMode = r.coin(0.4);
    Range g = randRange(r, intMode);
    const int n = 100000;
    c.setPhase(std::string("stats uniform ") + g.cls);
    const long double w = (long double)g.hi - (long double)g.lo;
    if (!intMode) {
        // resolution guard: with fewer than ~1e4 representable values in the range the rounding of min+r*range is the statistic
        double ulp = std::nextafter(std::max(std::fabs(g.lo), std::fabs(g.hi)), INFINITY) - std::max(std::fabs(g.lo), std::fabs(g.hi));
        if (!(w > 1e4L * ulp)) { c.skip("range-below-floating-point-resolution"); return; }
    }
    Random::Uniform u(g.lo, g.hi);
    u.setSeed(seed);
    long double s1 = 0, s2 = 0; bool fin = true; long hist[10] = {0};
    const long double m = intMode ? (long double)((long)g.hi - (long)g.lo) : 0;   // number of integer values
    for (int i = 0; i < n; ++i) {
        long double x = intMode ? (long double)u.getIntValue() : (long double)u.getValue();
        if (!std::isfinite((double)x)) fin = false;
        long double t = (x - (long double)g.lo) / w;       // in [0,1]
        s1 += t; s2 += t * t;
        int b = (int)(t * 10); if (b < 0) b = 0; if (b > 9) b = 9; hist[b]++;
    }
    long double mean = s1 / n, var = s2 / n - mean * mean;
    long double mu, sig2, mu4;
    if (intMode) { mu = (m - 1) / (2 * m); sig2 = (m * m - 1) / (12 * m * m); mu4 = (m * m - 1) * (3 * m * m - 7) / (240 * m * m * m * m); }
    else { mu = 0.5L; sig2 = 1.0L / 12; mu4 = 1.0L / 80; }
    const std::string K = intMode ? "uniform-int" : "uniform-real";
    auto W = [&](const char* what) { return [&, what]() { return jrange(g).set("what", what).set("seed", seed).set("n", n).set("mean_unit", (double)mean).set("var_unit", (double)var).set("expected_mean_unit", (double)mu).set("expected_var_unit", (double)sig2); }; };
    c.cover("stats:" + K + ":" + g.cls);
    c.require("stats:" + K + ":finite", fin, W("non-finite value"));
    c.check("stats-mean:" + K, (double)std::fabs(mean - mu), (double)(5 * std::sqrt(sig2 / n) + 1e-12L), W("sample mean further than 5 standard errors from (min+max)/2"));
    if (sig2 > 0)
        c.check("stats-variance:" + K, (double)std::fabs(var - sig2), (double)(5 * std::sqrt(std::max(0.0L, mu4 - sig2 * sig2) / n) + 30 * sig2 / n + 1e-12L), W("sample variance further than 5 standard errors from range^2/12"));
    if (!intMode || m >= 1000) {      // 10 equal bins (for small integer ranges the bins are not equally populated by construction)
        for (int b = 0; b < 10; ++b) {
            long double pb = 0.1L, sd = std::sqrt(n * pb * (1 - pb));
            c.check("stats-histogram:" + K, (double)std::fabs(hist[b] - n * pb), (double)(5 * sd + (intMode ? n * 1.0L / m : 0)), W("10-bin histogram count further than 5 sigma from n/10"));
        }
    }
}
static void checkStatsGaussian(vh::Ctx& c, vh::Rng& r) {
    const int seed = randSeed(r);
    const int n = 100000;
    double mean0 = r.coin(0.3) ? 0.0 : r.sym(1e3), sd0 = r.coin(0.3) ? 1.0 : r.logUni(1e-6, 1e6);
    const bool viaSetters = r.coin(0.4);
    c.setPhase("stats gaussian");
    Random::Gaussian g(viaSetters ? 5.0 : mean0, viaSetters ? 0.5 : sd0);
    if (viaSetters) { g.setMean(mean0); g.setStdDev(sd0); }
    g.setSeed(seed);
    bool okCfg = g.getMean() == mean0 && g.getStdDev() == sd0;
    long double s1 = 0, s2 = 0; bool fin = true; long within1 = 0, beyond3 = 0;
    std::vector<double> v(n);
    if (r.coin()) g.fillArray(v.data(), n); else for (int i = 0; i < n; ++i) v[i] = g.getValue();
    for (int i = 0; i < n; ++i) {
        if (!std::isfinite(v[i])) fin = false;
        long double t = ((long double)v[i] - mean0) / sd0;
        s1 += t; s2 += t * t; if (std::fabs((double)t) < 1) ++within1; if (std::fabs((double)t) > 3) ++beyond3;
    }
    long double mean = s1 / n, var = s2 / n - mean * mean;
    auto W = [&](const char* what) { return [&, what]() { return Json::obj().set("what", what).set("seed", seed).set("mean", mean0).set("stddev", sd0).set("n", n).set("sample_mean_std_units", (double)mean).set("sample_var_std_units", (double)var).set("within1sigma", within1).set("beyond3sigma", beyond3); }; };
    c.cover(std::string("stats:gaussian:") + (viaSetters ? "setters" : "ctor") + (mean0 == 0 && sd0 == 1 ? ":standard" : ":general"));
    c.require("stats:gaussian:getMean-getStdDev-report-configuration", okCfg, W("getters disagree with configuration"));
    c.require("stats:gaussian:finite", fin, W("non-finite value"));
    c.check("stats-mean:gaussian", (double)std::fabs(mean), (double)(5 / std::sqrt((long double)n) + 1e-15L * std::fabs(mean0) / sd0), W("sample mean further than 5 standard errors from the configured mean"));
    c.check("stats-variance:gaussian", (double)std::fabs(var - 1), (double)(5 * std::sqrt(2.0L / n) + 1e-9L), W("sample variance further than 5 standard errors from stddev^2"));
    const long double p1 = 0.682689492137086L, p3 = 0.002699796063260L;
    c.check("stats-histogram:gaussian", (double)std::fabs(within1 - n * p1), (double)(5 * std::sqrt(n * p1 * (1 - p1))), W("fraction within one sigma further than 5 sigma from 68.27%"));
    c.check("stats-histogram:gaussian", (double)std::fabs(beyond3 - n * p3), (double)(5 * std::sqrt(n * p3 * (1 - p3))), W("fraction beyond three sigma further than 5 sigma from 0.27%"));
}

// ------------------------------------------------------------------------------------------------ SFMT vs reference
static void checkSfmt(vh::Ctx& c, long idx, vh::Rng& r) {
    using namespace SimTK_SFMT;
    struct Holder { SFMTData* d; Holder() : d(createSFMTData()) {} ~Holder() { deleteSFMTData(d); } } h1, h2;
    const bool byArray = r.coin(0.3);
    uint32_t seed = (idx % 16) < 2 ? 1234u : (uint32_t)randSeed(r);
    std::vector<uint32_t> key;
    if (byArray) { int kl = r.coin(0.1) ? r.integer(625, 700) : r.integer(1, 8); for (int i = 0; i < kl; ++i) key.push_back((uint32_t)r.next()); if (r.coin(0.2)) key = {0x1234, 0x5678, 0x9abc, 0xdef0}; }
    auto seedLib = [&](SFMTData* d) { if (byArray) { std::vector<uint32_t> k = key; init_by_array(k.data(), (int)k.size(), *d); } else init_gen_rand(seed, *d); };
    auto seedRef = [&](RefSfmt& q) { if (byArray) q.seedByArray(key); else q.seed(seed); };
    const std::string how = byArray ? "init_by_array" : "init_gen_rand";
    auto W = [&](const char* what, long i, unsigned long long a, unsigned long long b) {
        return [=]() { return Json::obj().set("what", what).set("seeding", how).set("seed", (long long)seed).set("key_length", (long long)key.size()).set("index", (long long)i).set("library", (long long)a).set("reference", (long long)b); };
    };
    c.cover("sfmt:" + how + (byArray && key.size() > 624 ? ":long-key" : ""));
    c.setPhase("sfmt constants");
    c.require("sfmt:idstring", std::string(get_idstring()) == "SFMT-19937:122-18-1-11-1:dfffffef-ddfecb7f-bffaffff-bffffff6", [&] { return Json::obj().set("idstring", get_idstring()); });
    c.require("sfmt:min-array-size", get_min_array_size32() == 624 && get_min_array_size64() == 312, [&] { return Json::obj().set("min32", get_min_array_size32()).set("min64", get_min_array_size64()); });

    // anchor of the reference itself: first outputs of the published SFMT.19937.out.txt (init_gen_rand(1234))
    {   RefSfmt q; q.seed(1234);
        static const uint32_t pub[5] = {3440181298u, 1564997079u, 1510669302u, 2930277156u, 1452439940u};
        for (int i = 0; i < 5; ++i) if (q.next32() != pub[i]) { fprintf(stderr, "mon_random: reference SFMT does not reproduce the published vector\n"); exit(2); }
    }
    // (1) sequential 32-bit stream vs reference, across several state regenerations
    c.setPhase("sfmt gen_rand32 vs reference");
    {   RefSfmt q; seedRef(q); seedLib(h1.d);
        const int n = r.integer(1000, 3000);
        bool ok = true; long bad = -1; uint32_t a = 0, b = 0;
        for (int i = 0; i < n; ++i) { uint32_t x = gen_rand32(*h1.d), y = q.next32(); if (x != y && ok) { ok = false; bad = i; a = x; b = y; } }
        c.require("sfmt:gen_rand32-vs-reference:" + how, ok, W("gen_rand32 stream differs from the reference SFMT-19937", bad, a, b));
    }
    // (2) sequential 64-bit stream vs reference
    c.setPhase("sfmt gen_rand64 vs reference");
    {   RefSfmt q; seedRef(q); seedLib(h1.d);
        const int n = r.integer(500, 1500);
        bool ok = true; long bad = -1; uint64_t a = 0, b = 0;
        for (int i = 0; i < n; ++i) { uint64_t x = gen_rand64(*h1.d), y = q.next64(); if (x != y && ok) { ok = false; bad = i; a = x; b = y; } }
        c.require("sfmt:gen_rand64-vs-reference:" + how, ok, W("gen_rand64 stream differs from the reference", bad, a, b));
    }
    // (3) block generation == sequential generation (32 and 64 bit), repeated blocks continue the stream,
    //     block generation after exactly one state block of sequential calls
    c.setPhase("sfmt fill_array32");
    {   RefSfmt q; seedRef(q); seedLib(h1.d); seedLib(h2.d);
        const bool prefix = r.coin(0.3);
        if (prefix) for (int i = 0; i < 624; ++i) { (void)gen_rand32(*h1.d); (void)gen_rand32(*h2.d); (void)q.next32(); }
        bool okRef = true, okSeq = true; long bad = -1; uint32_t a = 0, b = 0;
        for (int blk = 0; blk < 3; ++blk) {
            const int size = 624 + 4 * r.integer(0, 200);
            std::vector<uint32_t> arr(size + 4, 0xdeadbeefu);
            fill_array32(arr.data(), size, *h1.d);
            for (int i = 0; i < size; ++i) {
                uint32_t y = q.next32(), s = gen_rand32(*h2.d);
                if (arr[i] != y && okRef) { okRef = false; bad = i; a = arr[i]; b = y; }
                if (arr[i] != s && okSeq) { okSeq = false; bad = i; a = arr[i]; b = s; }
            }
            c.require("sfmt:fill_array32-no-write-past-size", arr[size] == 0xdeadbeefu, W("fill_array32 wrote past size", size, arr[size], 0));
        }
        c.cover(std::string("sfmt:fill_array32") + (prefix ? ":after-one-block" : ":after-seeding"));
        c.require("sfmt:fill_array32-vs-reference:" + how, okRef, W("fill_array32 differs from the reference stream", bad, a, b));
        c.require("sfmt:fill_array32-vs-sequential:" + how, okSeq, W("fill_array32 differs from sequential gen_rand32", bad, a, b));
    }
    c.setPhase("sfmt fill_array64");
    {   RefSfmt q; seedRef(q); seedLib(h1.d); seedLib(h2.d);
        bool okRef = true, okSeq = true; long bad = -1; uint64_t a = 0, b = 0;
        for (int blk = 0; blk < 3; ++blk) {
            const int size = r.coin(0.3) ? 1024 : 312 + 2 * r.integer(0, 400);
            std::vector<uint64_t> arr(size + 2, 0xdeadbeefdeadbeefULL);
            fill_array64(arr.data(), size, *h1.d);
            for (int i = 0; i < size; ++i) {
                uint64_t y = q.next64(), s = gen_rand64(*h2.d);
                if (arr[i] != y && okRef) { okRef = false; bad = i; a = arr[i]; b = y; }
                if (arr[i] != s && okSeq) { okSeq = false; bad = i; a = arr[i]; b = s; }
            }
            c.require("sfmt:fill_array64-no-write-past-size", arr[size] == 0xdeadbeefdeadbeefULL, W("fill_array64 wrote past size", size, arr[size], 0));
        }
        c.require("sfmt:fill_array64-vs-reference:" + how, okRef, W("fill_array64 differs from the reference stream", bad, a, b));
        c.require("sfmt:fill_array64-vs-sequential:" + how, okSeq, W("fill_array64 differs from sequential gen_rand64", bad, a, b));
    }
    // (4) Random::Uniform(0,1) is the 53-bit conversion of the reference 64-bit stream seeded with init_gen_rand(seed)
    c.setPhase("Random::Uniform vs reference stream");
    {   int iseed = randSeed(r);
        RefSfmt q; q.seed((uint32_t)iseed);
        Random::Uniform u; u.setSeed(iseed);
        const int n = r.integer(1100, 2600);
        bool ok = true; long bad = -1; double a = 0, b = 0;
        for (int i = 0; i < n; ++i) { double x = u.getValue(), y = res53(q.next64()); if (!sameBits(x, y) && ok) { ok = false; bad = i; a = x; b = y; } }
        c.require("sfmt:Random-Uniform01-vs-reference", ok, [&] { return Json::obj().set("what", "Uniform(0,1).getValue() is not res53 of the reference SFMT stream").set("seed", iseed).set("index", (long long)bad).set("library", a).set("reference", b); });
        // and a Gaussian consumes the same uniform stream through the polar Box-Muller transform
        RefSfmt q2; q2.seed((uint32_t)iseed);
        Random::Gaussian g; g.setSeed(iseed);
        ok = true;
        for (int i = 0; i < 200 && ok; i += 2) {
            double x, y, r2;
            do { x = 2 * res53(q2.next64()) - 1; y = 2 * res53(q2.next64()) - 1; r2 = x * x + y * y; } while (r2 >= 1.0 || r2 == 0.0);
            double mlt = std::sqrt((-2 * std::log(r2)) / r2);
            double g1 = g.getValue(), g2 = g.getValue();
            double e1 = std::fabs(g1 - x * mlt), e2 = std::fabs(g2 - y * mlt);
            if (e1 > 1e-12 * (1 + std::fabs(g1)) || e2 > 1e-12 * (1 + std::fabs(g2))) { ok = false; bad = i; a = g1; b = x * mlt; }
        }
        c.require("sfmt:Random-Gaussian-vs-reference-polar-transform", ok, [&] { return Json::obj().set("what", "Gaussian(0,1) is not the polar Box-Muller transform of the reference stream").set("seed", iseed).set("index", (long long)bad).set("library", a).set("reference", b); });
    }
}

// ------------------------------------------------------------------------------------------------ threads
static void checkThreads(vh::Ctx& c, vh::Rng& r) {
    const int s1 = randSeed(r), s2 = r.coin(0.3) ? s1 : randSeed(r), n = r.integer(1500, 4000);
    c.setPhase("threads");
    std::vector<double> ref1(n), ref2(n), got1(n), got2(n), got3(n);
    { Random::Uniform u(-2, 5); u.setSeed(s1); for (int i = 0; i < n; ++i) ref1[i] = u.getValue(); }
    { Random::Gaussian g(3, 0.5); g.setSeed(s2); for (int i = 0; i < n; ++i) ref2[i] = g.getValue(); }
    std::thread t1([&] { Random::Uniform u(-2, 5); u.setSeed(s1); for (int i = 0; i < n; ++i) { got1[i] = u.getValue(); if (i % 64 == 0) std::this_thread::yield(); } });
    std::thread t2([&] { Random::Gaussian g(3, 0.5); g.setSeed(s2); for (int i = 0; i < n; ++i) { got2[i] = g.getValue(); if (i % 61 == 0) std::this_thread::yield(); } });
    { Random::Uniform u(-2, 5); u.setSeed(s1); for (int i = 0; i < n; ++i) got3[i] = u.getValue(); }
    t1.join(); t2.join();
    bool ok = true; int bad = -1;
    for (int i = 0; i < n; ++i) if ((!sameBits(ref1[i], got1[i]) || !sameBits(ref2[i], got2[i]) || !sameBits(ref1[i], got3[i])) && ok) { ok = false; bad = i; }
    c.cover(std::string("threads:") + (s1 == s2 ? "same-seed" : "different-seeds"));
    c.require("determinism:threads:per-object-state", ok, [&] { return Json::obj().set("what", "generators used concurrently from different threads (one object each) did not reproduce their sequences").set("seed1", s1).set("seed2", s2).set("index", bad); });
    // default-constructed generators get different seeds (documented): first values differ
    Random::Uniform d1, d2;
    c.require("default-seed:distinct-objects-differ", !sameBits(d1.getValue(), d2.getValue()), [&] { return Json::obj().set("what", "two default-seeded generators produced the same first value"); });
}

int main(int argc, char** argv) {
    vh::Args a = vh::parseArgs(argc, argv);
    vh::Ctx c(a);
    if (a.prop != "C31") { fprintf(stderr, "mon_random: unknown property %s\n", a.prop.c_str()); return 2; }
    return vh::runCases(c, [&](long i, vh::Rng& r) {
        switch (i % 8) {
        case 0: checkDeterminism<Random::Uniform>(c, r, "uniform"); break;
        case 1: checkDeterminism<Random::Gaussian>(c, r, "gaussian"); break;
        case 2: checkRangeReal(c, r); break;
        case 3: checkRangeInt(c, r); break;
        case 4: checkStatsUniform(c, r); break;
        case 5: checkStatsGaussian(c, r); break;
        case 6: checkSfmt(c, i, r); break;
        case 7: checkThreads(c, r); break;
        }
    });
}
