// mon_optim — C39 "Optimizers return truthful, feasible, improving results".
//
// The harness OptimizerSystem (RecSys) is a recording proxy: every objectiveFunc / gradientFunc / constraintFunc /
// constraintJacobian call is logged with a copy of its argument and of what it returned. Problems are generated
// (strictly convex quadratics with known conditioning, chained Rosenbrock), optionally with a box (two-sided,
// one-sided, partly absent; some bounds active at the minimiser) and, for the interior-point method, random linear
// equality / inequality constraints that are consistent by construction. Algorithms: LBFGS, LBFGSB, InteriorPoint,
// CMAES, BestAvailable (and the CFSQP fall-back), analytic and numerical (forward/central) derivatives.
//
// Oracles
//   truthful-f      returned f == objective(returned x) recomputed by the harness (tolerance: rounding of one evaluation);
//   returned-point-was-evaluated   (LBFGS, LBFGSB, CMAES) the pair <x,f> returned is one of the logged evaluations;
//   improving       LBFGS / LBFGSB / InteriorPoint(feasible start): f_ret <= f(x0) (+ rounding);
//   eval-outside-bounds / result-outside-bounds   bounded algorithms: every logged argument and the result lie in
//                   [lb,ub]; InteriorPoint may use its documented relaxation bound_relax_factor*max(1,|bound|)
//                   (1e-8, the option's default; the option cannot be changed through Optimizer) for evaluations;
//   constraint-violation   InteriorPoint result: |c_eq| <= ctol, c_ineq >= -ctol (+ relaxation, rounding);
//   minimiser       strictly convex quadratics: ||x - x*|| <= bound implied by the algorithm's documented stopping rule
//                   and the tolerance given (see tolMinimiser()); x* from a long-double active-set / enumeration solver
//                   whose KKT conditions are verified (certificate) before use, otherwise the clause is skipped;
//   cmaes-reproducible     same seed + maxTimeFractionForEigendecomposition=1 => identical evaluation log and result;
//   best-available  getAlgorithm() follows the selection in Optimizer.cpp (constraints > limits > none), the result
//                   obeys the clauses of the selected algorithm;
//   numerical mode  the analytic gradient/Jacobian are never called; all clauses above apply unchanged.
// Non-convergence (SimTK::Exception::OptimizerFailed and other documented exceptions) is counted, not judged.
// Legal-client preconditions: lb<=ub, x0 finite, x0 inside the box for CMAES (documented exception otherwise, counted)
// and for the other bounded algorithms (so that "never worse than the start" is meaningful); constraints consistent with
// a strictly feasible point for the inactive ones, equality rows linearly independent on the non-fixed variables and fewer
// than those; tolerances in (0,1); CMAES needs >= 2 parameters.
//
// Keys that fire on the tree as of 2026-09-22 (reported to the lead; each is one root cause):
//   eval-outside-bounds/<LBFGSB|InteriorPoint>:numerical-differentiation-step   OptimizerRep.cpp gradientFuncWrapper /
//       constraintJacobianWrapper hand the iterate to a Differentiator, which steps x_i +/- h regardless of the limits;
//   truthful-f:InteriorPoint:objective-is-that-of-the-unprojected-point(bound-relaxation)   IpOrigIpoptNLP.cpp FinalizeSolution
//       projects x into the user's bounds but reports f of the unprojected point (InteriorPointOptimizer.cpp returns it);
//   constraint-violation:InteriorPoint:<equality|inequality>:within-ctol-only-before-projection-into-bounds(bound-relaxation)
//       same mechanism, visible only for constraint tolerances ~1e-8;
//   outside-bounds-by-rounding(<=8ulp-of-bound)/LBFGSB:<evaluation|result>   lbfgsb.cpp lnsrlb_: x = stp*d + t with
//       stp = stpmx = (bound-t)/d can round one ulp past the bound.
#include "SimTKmath.h"
#include "vh.h"
#include <iostream>

using namespace SimTK;
using vh::Json;
typedef long double LD;
static const double U = 1.1102230246251565e-16;
static const double INF = std::numeric_limits<double>::infinity();

// ------------------------------------------------------------------------------------------------ problem
struct Problem {
    int n = 1;
    int family = 0;                       // 0 quadratic, 1 Rosenbrock
    std::vector<double> A, b; double c0 = 0; double mu = 1, L = 1;   // quadratic: f = 1/2 x'Ax - b'x + c0
    std::vector<double> ra;               // Rosenbrock coefficients
    bool hasBounds = false; std::vector<double> lb, ub;
    int me = 0, mi = 0; std::vector<double> C, d;                     // g(x) = C x - d ; first me rows == 0, others >= 0
    std::vector<double> x0;
    bool x0Feasible = true;

    double obj(const double* x) const {
        if (family == 0) {
            double s = c0;
            for (int i = 0; i < n; ++i) { double ax = 0; for (int j = 0; j < n; ++j) ax += A[i * n + j] * x[j]; s += x[i] * (0.5 * ax - b[i]); }
            return s;
        }
        double s = 0;
        for (int i = 0; i + 1 < n; ++i) { double t = x[i + 1] - x[i] * x[i], u = 1 - x[i]; s += ra[i] * t * t + u * u; }
        if (n == 1) s = (1 - x[0]) * (1 - x[0]);
        return s;
    }
    double absSum(const double* x) const {       // sum of absolute terms: rounding scale of obj()
        if (family == 0) {
            double s = std::fabs(c0);
            for (int i = 0; i < n; ++i) { double ax = 0; for (int j = 0; j < n; ++j) ax += std::fabs(A[i * n + j] * x[j]); s += std::fabs(x[i]) * (0.5 * ax + std::fabs(b[i])); }
            return s;
        }
        double s = 0;
        for (int i = 0; i + 1 < n; ++i) { double t = std::fabs(x[i + 1]) + x[i] * x[i], u = 1 + std::fabs(x[i]); s += ra[i] * t * t + u * u; }
        if (n == 1) s = (1 + std::fabs(x[0])) * (1 + std::fabs(x[0]));
        return s;
    }
    void grad(const double* x, double* g) const {
        if (family == 0) { for (int i = 0; i < n; ++i) { double ax = 0; for (int j = 0; j < n; ++j) ax += A[i * n + j] * x[j]; g[i] = ax - b[i]; } return; }
        for (int i = 0; i < n; ++i) g[i] = 0;
        if (n == 1) { g[0] = -2 * (1 - x[0]); return; }
        for (int i = 0; i + 1 < n; ++i) { double t = x[i + 1] - x[i] * x[i]; g[i] += -4 * ra[i] * t * x[i] - 2 * (1 - x[i]); g[i + 1] += 2 * ra[i] * t; }
    }
    double con(int k, const double* x) const { double s = -d[k]; for (int j = 0; j < n; ++j) s += C[k * n + j] * x[j]; return s; }
    double conAbs(int k, const double* x) const { double s = std::fabs(d[k]); for (int j = 0; j < n; ++j) s += std::fabs(C[k * n + j] * x[j]); return s; }
};

struct Rec { char kind; std::vector<double> x; double f; };     // kind: 'F' objective, 'G' gradient, 'C' constraints, 'J' Jacobian

class RecSys : public OptimizerSystem {
public:
    explicit RecSys(const Problem& P) : OptimizerSystem(P.n), P(P) {
        setNumEqualityConstraints(P.me); setNumInequalityConstraints(P.mi);
        setNumLinearEqualityConstraints(P.me); setNumLinearInequalityConstraints(P.mi);
        if (P.hasBounds) { Vector lo(P.n), hi(P.n); for (int i = 0; i < P.n; ++i) { lo[i] = P.lb[i]; hi[i] = P.ub[i]; } setParameterLimits(lo, hi); }
    }
    int objectiveFunc(const Vector& x, bool, Real& f) const override {
        Rec r; r.kind = 'F'; r.x.resize(P.n); for (int i = 0; i < P.n; ++i) r.x[i] = x[i];
        f = P.obj(r.x.data()); r.f = f; log.push_back(std::move(r)); return 0;
    }
    int gradientFunc(const Vector& x, bool, Vector& g) const override {
        Rec r; r.kind = 'G'; r.x.resize(P.n); for (int i = 0; i < P.n; ++i) r.x[i] = x[i];
        std::vector<double> gg(P.n); P.grad(r.x.data(), gg.data()); for (int i = 0; i < P.n; ++i) g[i] = gg[i];
        r.f = 0; log.push_back(std::move(r)); return 0;
    }
    int constraintFunc(const Vector& x, bool, Vector& cons) const override {
        Rec r; r.kind = 'C'; r.x.resize(P.n); for (int i = 0; i < P.n; ++i) r.x[i] = x[i];
        for (int k = 0; k < P.me + P.mi; ++k) cons[k] = P.con(k, r.x.data());
        r.f = 0; log.push_back(std::move(r)); return 0;
    }
    int constraintJacobian(const Vector& x, bool, Matrix& jac) const override {
        Rec r; r.kind = 'J'; r.x.resize(P.n); for (int i = 0; i < P.n; ++i) r.x[i] = x[i];
        for (int k = 0; k < P.me + P.mi; ++k) for (int j = 0; j < P.n; ++j) jac(k, j) = P.C[k * P.n + j];
        r.f = 0; log.push_back(std::move(r)); return 0;
    }
    const Problem& P;
    mutable std::vector<Rec> log;
};

// ------------------------------------------------------------------------------------------------ reference solvers (long double)
static bool solveLD(std::vector<LD> M, std::vector<LD> rhs, int n, std::vector<LD>& x) {
    LD scale = 0; for (LD v : M) scale = std::max(scale, fabsl(v));
    if (!(scale > 0)) return false;
    for (int k = 0; k < n; ++k) {
        int p = k; for (int i = k + 1; i < n; ++i) if (fabsl(M[i * n + k]) > fabsl(M[p * n + k])) p = i;
        if (fabsl(M[p * n + k]) < 1e-13L * scale) return false;
        if (p != k) { for (int j = 0; j < n; ++j) std::swap(M[k * n + j], M[p * n + j]); std::swap(rhs[k], rhs[p]); }
        for (int i = k + 1; i < n; ++i) { LD f = M[i * n + k] / M[k * n + k]; if (f == 0) continue; for (int j = k; j < n; ++j) M[i * n + j] -= f * M[k * n + j]; rhs[i] -= f * rhs[k]; }
    }
    x.assign(n, 0);
    for (int i = n - 1; i >= 0; --i) { LD s = rhs[i]; for (int j = i + 1; j < n; ++j) s -= M[i * n + j] * x[j]; x[i] = s / M[i * n + i]; }
    return true;
}
struct RefSol { bool ok = false; std::vector<LD> x; LD fstar = 0; LD lambdaSum = 0; int nActive = 0; };

static LD objLD(const Problem& P, const std::vector<LD>& x) {
    LD s = P.c0; for (int i = 0; i < P.n; ++i) { LD ax = 0; for (int j = 0; j < P.n; ++j) ax += (LD)P.A[i * P.n + j] * x[j]; s += x[i] * (0.5L * ax - (LD)P.b[i]); } return s;
}
// Strictly convex QP with rows  R x >= r (inequality-type: constraints and finite bounds) and equality rows: enumeration
// of active sets; the accepted candidate satisfies the KKT conditions to 1e-13*scale (certificate).
static RefSol solveQPEnum(const Problem& P) {
    RefSol S; const int n = P.n;
    std::vector<std::vector<LD>> R; std::vector<LD> rr; std::vector<int> var;   // var: bound rows carry the variable index (+1 lower, -1-i upper)
    for (int k = 0; k < P.mi; ++k) { std::vector<LD> row(n); for (int j = 0; j < n; ++j) row[j] = P.C[(P.me + k) * n + j]; R.push_back(row); rr.push_back(P.d[P.me + k]); var.push_back(0); }
    if (P.hasBounds) for (int i = 0; i < n; ++i) {
        if (P.lb[i] > -INF) { std::vector<LD> row(n, 0); row[i] = 1; R.push_back(row); rr.push_back(P.lb[i]); var.push_back(i + 1); }
        if (P.ub[i] < INF) { std::vector<LD> row(n, 0); row[i] = -1; R.push_back(row); rr.push_back(-(LD)P.ub[i]); var.push_back(-(i + 1)); }
    }
    const int m = (int)R.size();
    if (m > 14) return S;
    LD sc = 1; for (int i = 0; i < n; ++i) sc = std::max(sc, fabsl((LD)P.b[i]));
    for (unsigned mask = 0; mask < (1u << m); ++mask) {
        int nw = __builtin_popcount(mask);
        if (nw + P.me > n) continue;
        bool clash = false;
        for (int a = 0; a < m && !clash; ++a) if ((mask >> a & 1) && var[a] > 0) for (int bq = 0; bq < m; ++bq) if ((mask >> bq & 1) && var[bq] == -var[a]) clash = true;
        if (clash) continue;
        const int N = n + P.me + nw;
        std::vector<LD> K((size_t)N * N, 0), rhs(N, 0), sol;
        for (int i = 0; i < n; ++i) { for (int j = 0; j < n; ++j) K[i * N + j] = P.A[i * n + j]; rhs[i] = P.b[i]; }
        int row = n;
        for (int k = 0; k < P.me; ++k, ++row) { for (int j = 0; j < n; ++j) { K[row * N + j] = P.C[k * n + j]; K[j * N + row] = -(LD)P.C[k * n + j]; } rhs[row] = P.d[k]; }
        std::vector<int> wrows;
        for (int a = 0; a < m; ++a) if (mask >> a & 1) { for (int j = 0; j < n; ++j) { K[row * N + j] = R[a][j]; K[j * N + row] = -R[a][j]; } rhs[row] = rr[a]; wrows.push_back(a); ++row; }
        if (!solveLD(K, rhs, N, sol)) continue;
        bool ok = true; LD xs = 1; for (int j = 0; j < n; ++j) xs = std::max(xs, fabsl(sol[j]));
        for (int a = 0; a < m && ok; ++a) { LD v = -rr[a]; for (int j = 0; j < n; ++j) v += R[a][j] * sol[j]; if (v < -1e-13L * xs) ok = false; }
        for (int q = 0; q < nw && ok; ++q) if (sol[n + P.me + q] < -1e-13L * sc) ok = false;
        if (!ok) continue;
        S.ok = true; S.x.assign(sol.begin(), sol.begin() + n); S.fstar = objLD(P, S.x);
        S.lambdaSum = 0; for (int q = n; q < N; ++q) S.lambdaSum += fabsl(sol[q]);
        S.nActive = nw + P.me;
        return S;
    }
    return S;
}
// Box-constrained strictly convex QP of any dimension: primal active-set iteration, then KKT certificate.
static RefSol solveQPBox(const Problem& P) {
    RefSol S; const int n = P.n;
    std::vector<LD> x(n); std::vector<int> st(n, 0);      // 0 free, -1 at lower, +1 at upper
    auto lo = [&](int i) { return P.hasBounds ? (LD)P.lb[i] : -(LD)INF; };
    auto hi = [&](int i) { return P.hasBounds ? (LD)P.ub[i] : (LD)INF; };
    for (int i = 0; i < n; ++i) { x[i] = std::min(std::max((LD)P.x0[i], lo(i)), hi(i)); if (x[i] == lo(i)) st[i] = -1; else if (x[i] == hi(i)) st[i] = 1; }
    LD sc = 1; for (int i = 0; i < n; ++i) sc = std::max(sc, fabsl((LD)P.b[i]));
    for (int it = 0; it < 20 * n + 50; ++it) {
        std::vector<int> fr; for (int i = 0; i < n; ++i) if (st[i] == 0) fr.push_back(i);
        const int nf = (int)fr.size();
        std::vector<LD> xn = x;
        if (nf > 0) {
            std::vector<LD> K((size_t)nf * nf), rhs(nf), sol;
            for (int a = 0; a < nf; ++a) { LD r = P.b[fr[a]]; for (int j = 0; j < n; ++j) if (st[j] != 0) r -= (LD)P.A[fr[a] * n + j] * x[j]; rhs[a] = r; for (int bq = 0; bq < nf; ++bq) K[a * nf + bq] = P.A[fr[a] * n + fr[bq]]; }
            if (!solveLD(K, rhs, nf, sol)) return S;
            for (int a = 0; a < nf; ++a) xn[fr[a]] = sol[a];
        }
        // step towards xn, stop at the first blocking bound
        LD alpha = 1; int block = -1, bs = 0;
        for (int i : fr) { LD p = xn[i] - x[i]; if (p < 0 && xn[i] < lo(i)) { LD a = (lo(i) - x[i]) / p; if (a < alpha) { alpha = a; block = i; bs = -1; } } if (p > 0 && xn[i] > hi(i)) { LD a = (hi(i) - x[i]) / p; if (a < alpha) { alpha = a; block = i; bs = 1; } } }
        for (int i : fr) x[i] += alpha * (xn[i] - x[i]);
        if (block >= 0) { x[block] = bs < 0 ? lo(block) : hi(block); st[block] = bs; continue; }
        // at the minimiser of the current face: check multipliers
        int worst = -1; LD wv = -1e-15L * sc;
        for (int i = 0; i < n; ++i) if (st[i] != 0) { LD g = -(LD)P.b[i]; for (int j = 0; j < n; ++j) g += (LD)P.A[i * n + j] * x[j]; LD lam = st[i] < 0 ? g : -g; if (lam < wv) { wv = lam; worst = i; } }
        if (worst < 0) break;
        st[worst] = 0;
    }
    // certificate
    LD lamSum = 0; int na = 0;
    for (int i = 0; i < n; ++i) {
        LD g = -(LD)P.b[i]; for (int j = 0; j < n; ++j) g += (LD)P.A[i * n + j] * x[j];
        if (x[i] < lo(i) || x[i] > hi(i)) return S;
        if (st[i] == 0) { if (fabsl(g) > 1e-14L * sc) return S; }
        else { LD lam = st[i] < 0 ? g : -g; if (lam < -1e-14L * sc) return S; lamSum += fabsl(lam); ++na; }
    }
    S.ok = true; S.x = x; S.fstar = objLD(P, x); S.lambdaSum = lamSum; S.nActive = na;
    return S;
}
static RefSol referenceMinimiser(const Problem& P) {
    if (P.family != 0) return RefSol();
    if (P.me + P.mi == 0) return solveQPBox(P);
    return solveQPEnum(P);
}

// ------------------------------------------------------------------------------------------------ generators
static void genQuadratic(vh::Rng& r, Problem& P, int n, double condMax) {
    P.family = 0; P.n = n;
    // random orthogonal basis by Gram-Schmidt
    std::vector<std::vector<double>> Q(n, std::vector<double>(n));
    for (int k = 0; k < n; ++k) {
        for (int tries = 0; tries < 20; ++tries) {
            for (int i = 0; i < n; ++i) Q[k][i] = r.normal();
            for (int p = 0; p < k; ++p) { double dp = 0; for (int i = 0; i < n; ++i) dp += Q[k][i] * Q[p][i]; for (int i = 0; i < n; ++i) Q[k][i] -= dp * Q[p][i]; }
            double nn = 0; for (int i = 0; i < n; ++i) nn += Q[k][i] * Q[k][i]; nn = std::sqrt(nn);
            if (nn > 1e-3) { for (int i = 0; i < n; ++i) Q[k][i] /= nn; break; }
        }
    }
    const double s = r.logUni(0.1, 10), cond = n == 1 ? 1.0 : r.logUni(1, condMax);
    std::vector<double> lam(n);
    for (int k = 0; k < n; ++k) lam[k] = s * std::pow(cond, k == 0 ? 0.0 : (k == 1 ? 1.0 : r.uni()));
    P.mu = s; P.L = s * cond;
    P.A.assign((size_t)n * n, 0.0);
    for (int i = 0; i < n; ++i) for (int j = 0; j <= i; ++j) { double v = 0; for (int k = 0; k < n; ++k) v += lam[k] * Q[k][i] * Q[k][j]; P.A[i * n + j] = P.A[j * n + i] = v; }
    std::vector<double> xu(n); const double R = r.logUni(0.1, 10);
    for (int i = 0; i < n; ++i) xu[i] = r.sym(R);
    P.b.assign(n, 0.0); for (int i = 0; i < n; ++i) for (int j = 0; j < n; ++j) P.b[i] += P.A[i * n + j] * xu[j];
    P.c0 = r.coin(0.3) ? 0.0 : r.sym(10.0);
    P.x0.resize(n); for (int i = 0; i < n; ++i) P.x0[i] = xu[i] + r.sym(2 * R);
}
static void genRosenbrock(vh::Rng& r, Problem& P, int n) {
    P.family = 1; P.n = n; P.ra.resize(std::max(1, n - 1));
    for (auto& a : P.ra) a = r.coin(0.3) ? 100.0 : r.logUni(1, 100);
    P.x0.resize(n); for (int i = 0; i < n; ++i) P.x0[i] = r.sym(2.0);
    P.mu = P.L = 1;
}
// center: a point around which the box is built (the unconstrained minimiser for quadratics)
static std::string genBounds(vh::Rng& r, Problem& P, const std::vector<double>& center, double R, double pActive, bool allowFixed = true) {
    const int n = P.n; P.hasBounds = true; P.lb.assign(n, -INF); P.ub.assign(n, INF);
    bool anyOne = false, anyTwo = false, anyCut = false;
    for (int i = 0; i < n; ++i) {
        const double u = r.uni();
        const int shape = u < 0.5 ? 2 : (u < 0.7 ? -1 : (u < 0.9 ? 1 : 0));   // 2 both, -1 lower only, 1 upper only, 0 none
        const bool cut = r.coin(pActive);
        const double w = r.logUni(0.05, 2) * R;
        if (shape == 2) { anyTwo = true; if (cut) { if (r.coin()) { P.lb[i] = center[i] + 0.3 * w; P.ub[i] = P.lb[i] + w; } else { P.ub[i] = center[i] - 0.3 * w; P.lb[i] = P.ub[i] - w; } }
                          else { P.lb[i] = center[i] - w * r.uni(0.2, 1); P.ub[i] = center[i] + w * r.uni(0.2, 1); } }
        else if (shape == -1) { anyOne = true; P.lb[i] = cut ? center[i] + 0.3 * w : center[i] - w; }
        else if (shape == 1) { anyOne = true; P.ub[i] = cut ? center[i] - 0.3 * w : center[i] + w; }
        anyCut = anyCut || (cut && shape != 0);
    }
    if (allowFixed && r.coin(0.08)) { int i = r.integer(0, n - 1); if (P.lb[i] > -INF) P.ub[i] = P.lb[i]; }    // a fixed variable (lb==ub)
    // x0 inside the box
    for (int i = 0; i < n; ++i) {
        double lo = P.lb[i] > -INF ? P.lb[i] : std::min(center[i], P.ub[i] < INF ? P.ub[i] : center[i]) - 2 * R;
        double hi = P.ub[i] < INF ? P.ub[i] : std::max(center[i], lo) + 2 * R;
        P.x0[i] = r.coin(0.1) ? (r.coin() ? lo : hi) : r.uni(lo, hi);
        P.x0[i] = std::min(std::max(P.x0[i], P.lb[i]), P.ub[i]);
    }
    return std::string(anyTwo ? (anyOne ? "mixed" : "two-sided") : (anyOne ? "one-sided" : "none")) + (anyCut ? "+active" : "+inactive");
}
// linear constraints consistent at xf; x0 := xf (feasible start) or left as is
static void genConstraints(vh::Rng& r, Problem& P, int me, int mi, const std::vector<double>& xf) {
    const int n = P.n; P.me = me; P.mi = mi; P.C.assign((size_t)(me + mi) * n, 0.0); P.d.assign(me + mi, 0.0);
    for (int k = 0; k < me + mi; ++k) {
        double nn = 0; for (int j = 0; j < n; ++j) { P.C[k * n + j] = r.coin(0.25) ? 0.0 : r.normal(); nn += P.C[k * n + j] * P.C[k * n + j]; }
        if (nn == 0) { P.C[k * n + r.integer(0, n - 1)] = 1; }
        double v = 0; for (int j = 0; j < n; ++j) v += P.C[k * n + j] * xf[j];
        P.d[k] = k < me ? v : v - (r.coin(0.3) ? 0.0 : r.uni(0.0, 2.0));    // inequality: C xf - d = slack >= 0
    }
}
// Legal-client precondition for the constrained problems (LICQ for the equalities): the equality rows, restricted to the
// variables that are not fixed by lb==ub, are linearly independent and fewer than those variables. (Otherwise the problem is
// degenerate; Ipopt then treats "as many equalities as free variables" as a square system and ignores the objective.)
static bool equalitiesRegular(const Problem& P) {
    if (P.me == 0) return true;
    std::vector<int> fr; for (int i = 0; i < P.n; ++i) if (!(P.hasBounds && P.lb[i] == P.ub[i])) fr.push_back(i);
    const int nf = (int)fr.size();
    if (P.me > nf - 1) return false;
    std::vector<std::vector<LD>> M(P.me, std::vector<LD>(nf));
    for (int k = 0; k < P.me; ++k) for (int a = 0; a < nf; ++a) M[k][a] = P.C[k * P.n + fr[a]];
    int rank = 0;
    for (int col = 0; col < nf && rank < P.me; ++col) {
        int piv = rank; for (int k = rank + 1; k < P.me; ++k) if (fabsl(M[k][col]) > fabsl(M[piv][col])) piv = k;
        if (fabsl(M[piv][col]) < 1e-3L) continue;                       // well away from rank deficiency (rows have O(1) entries)
        std::swap(M[piv], M[rank]);
        for (int k = rank + 1; k < P.me; ++k) { LD f = M[k][col] / M[rank][col]; for (int a = col; a < nf; ++a) M[k][a] -= f * M[rank][a]; }
        ++rank;
    }
    return rank == P.me;
}
static void genRegularConstraints(vh::Ctx& c, vh::Rng& r, Problem& P, int me, int mi, const std::vector<double>& xf) {
    for (int tries = 0; tries < 6; ++tries) { genConstraints(r, P, me, mi, xf); if (equalitiesRegular(P)) return; }
    c.obs("generator:degenerate-equalities-dropped");
    if (mi == 0) mi = 1;
    genConstraints(r, P, 0, mi, xf);
}
static bool insideBox(const Problem& P, const std::vector<double>& x) { if (!P.hasBounds) return true; for (int i = 0; i < P.n; ++i) if (x[i] < P.lb[i] || x[i] > P.ub[i]) return false; return true; }

// ------------------------------------------------------------------------------------------------ one optimisation run
struct RunCfg {
    OptimizerAlgorithm alg = LBFGS; std::string algName = "LBFGS";
    int construct = 0;                 // 0 Optimizer(sys,alg), 1 Optimizer(sys) [BestAvailable], 2 default ctor + setOptimizerSystem(sys), 3 Optimizer(sys,BestAvailable), 4 setOptimizerSystem(sys,alg)
    double tol = 1e-6, ctol = 1e-6;
    int gradMode = 0;                  // 0 analytic, 1 numerical forward, 2 numerical central
    double numAcc = 0;                 // 0: default accuracy
    int history = 0, maxIter = 0;
    double factr = 0;                  // LBFGSB advanced option (0: default 1e7)
    int seed = 0, popsize = 0; double sigma = 0; bool sigmaVec = false;   // CMAES
};
struct RunOut { bool ok = false; std::string exc; Vector x; double f = NaN; OptimizerAlgorithm chosen = UnknownOptimizerAlgorithm; std::vector<Rec> log; };

static std::string excClass(const std::string& w) {
    // stable class of a documented failure text
    static const char* pats[] = {"LBFGS ERROR", "LINE SEARCH FAILED", "ABNORMAL_TERMINATION_IN_LNSRCH", "Ipopt: Maximum iterations", "Ipopt: Restoration failed", "Ipopt: Infeasible problem",
                                 "Ipopt: Search direction", "Ipopt: Error in step", "Ipopt: Not enough degrees", "Ipopt:", "ERROR:", "STOP:", "is not within limits", "nParameters", "NOT A DESCENT DIRECTION", 0};
    for (int i = 0; pats[i]; ++i) if (w.find(pats[i]) != std::string::npos) return pats[i];
    return vh::normMsg(w).substr(0, 60);
}

static RunOut runOnce(vh::Ctx& c, const Problem& P, const RunCfg& cfg) {
    RunOut out;
    RecSys sys(P);
    try {
        std::unique_ptr<Optimizer> opt;
        switch (cfg.construct) {
        case 0: opt.reset(new Optimizer(sys, cfg.alg)); break;
        case 1: opt.reset(new Optimizer(sys)); break;
        case 2: opt.reset(new Optimizer()); opt->setOptimizerSystem(sys); break;
        case 3: opt.reset(new Optimizer(sys, BestAvailable)); break;
        default: opt.reset(new Optimizer()); opt->setOptimizerSystem(sys, cfg.alg); break;
        }
        out.chosen = opt->getAlgorithm();
        opt->setConvergenceTolerance(cfg.tol);
        opt->setConstraintTolerance(cfg.ctol);
        opt->setDiagnosticsLevel((int)c.args.getInt("diag", 0));     // --diag N: replay aid only
        if (cfg.history > 0) opt->setLimitedMemoryHistory(cfg.history);
        if (cfg.maxIter > 0) opt->setMaxIterations(cfg.maxIter);
        if (cfg.factr > 0) opt->setAdvancedRealOption("factr", cfg.factr);
        if (cfg.gradMode != 0) {
            opt->setDifferentiatorMethod(cfg.gradMode == 1 ? Differentiator::ForwardDifference : Differentiator::CentralDifference);
            if (cfg.numAcc > 0) { opt->useNumericalGradient(true, cfg.numAcc); opt->useNumericalJacobian(true, cfg.numAcc); }
            else { opt->useNumericalGradient(true); opt->useNumericalJacobian(true); }
        }
        if (out.chosen == CMAES) {
            opt->setAdvancedIntOption("seed", cfg.seed);
            opt->setAdvancedRealOption("maxTimeFractionForEigendecomposition", 1);
            if (cfg.sigmaVec) opt->setAdvancedVectorOption("init_stepsize", Vector(P.n, cfg.sigma)); else opt->setAdvancedRealOption("init_stepsize", cfg.sigma);
            if (cfg.popsize > 0) opt->setAdvancedIntOption("popsize", cfg.popsize);
        }
        out.x.resize(P.n); for (int i = 0; i < P.n; ++i) out.x[i] = P.x0[i];
        out.f = opt->optimize(out.x);
        out.ok = true;
    } catch (const std::exception& e) {
        out.exc = e.what();
    }
    std::cout.flush(); fflush(stdout);
    out.log = std::move(sys.log);
    return out;
}

// documented step of the Differentiator used by the numerical-gradient wrapper
static double diffStep(double x, double acc, int order) { return (order == 1 ? std::sqrt(acc) : std::pow(acc, 1.0 / 3.0)) * std::max(std::fabs(x), 0.1); }

// Euclidean norm of the error of a numerical gradient of the quadratic at x (first-order truncation for forward differences,
// rounding of the objective for both)
static double numGradErr(const Problem& P, const RunCfg& cfg, const double* x) {
    if (cfg.gradMode == 0) return 0;
    const double acc = cfg.numAcc > 0 ? cfg.numAcc : (double)SignificantReal;
    const double e = (P.n + 3) * 2 * U * P.absSum(x);
    double s = 0;
    for (int i = 0; i < P.n; ++i) {
        const double h = diffStep(x[i], acc, cfg.gradMode);
        double gi = cfg.gradMode == 1 ? 2 * e / h + 0.5 * h * std::fabs(P.A[i * P.n + i]) : e / h;
        gi += 4 * U * std::fabs(x[i]) / h * (P.L * (std::fabs(x[i]) + 1) + std::fabs(P.b[i]));      // x-h not exactly representable
        s += gi * gi;
    }
    return std::sqrt(s);
}

// Bound on ||x_ret - x*|| implied by the algorithm's stopping rule with the tolerance given (strictly convex quadratic,
// smallest/largest eigenvalue mu/L):
//  LBFGS (lbfgs.cpp, "sherm 100303"): max_i |g_i| max(1,|x_i|)/max(0.1,|f|) <= tol  =>  ||g|| <= sqrt(n) tol max(0.1,|f|),  ||x-x*|| <= ||g||/mu.
//  LBFGSB (lbfgsb.cpp projgr_, "sherm 100303"): max_i |x-P(x-g)|_i max(1,|x_i|)/max(0.1,|f|) <= pgtol (=tol)
//          =>  ||x-x*|| <= (1+L)/mu * sqrt(n) pgtol max(0.1,|f|)   [error bound for strongly convex problems],
//          or (f_k-f_{k+1}) <= factr*epsmch*max(|f_k|,|f_{k+1}|,1): remaining gap <~ cond * that decrease, ||x-x*|| <= sqrt(2 gap/mu).
//  InteriorPoint: unscaled dual infeasibility, complementarity <= tol, constraint violation <= ctol. With multipliers ~ those of x*:
//          mu ||d||^2 <= sqrt(n) tol ||d|| + Nc*tol + Lambda*(ctol+relax)   =>  ||d|| <= sqrt(n) tol/mu + sqrt((Nc tol + Lambda (ctol+relax))/mu); factor 3 for the approximations.
static double tolMinimiser(const Problem& P, const RunCfg& cfg, OptimizerAlgorithm alg, const RunOut& o, const RefSol& ref) {
    const int n = P.n; const double sq = std::sqrt((double)n);
    const double gerr = numGradErr(P, cfg, &o.x[0]);
    const double fabsRet = std::fabs(o.f);
    const double xs = [&] { double m = 1; for (int i = 0; i < n; ++i) m = std::max(m, std::fabs(o.x[i])); return m; }();
    const double roundoff = 64 * U * xs * (P.L / P.mu) * sq;
    switch (alg) {
    case LBFGS: return 1.01 * (sq * cfg.tol * std::max(0.1, fabsRet) + gerr) / P.mu + roundoff;
    case LBFGSB: {
        const double factr = cfg.factr > 0 ? cfg.factr : 1e7;
        const double gap = (P.L / P.mu) * factr * 2.220446049250313e-16 * std::max(1.0, fabsRet) + 64 * U * P.absSum(&o.x[0]) * (P.L / P.mu);
        return 1.01 * (1 + P.L) / P.mu * (sq * cfg.tol * std::max(0.1, fabsRet) + gerr) + 3 * std::sqrt(2 * gap / P.mu) + roundoff;
    }
    case InteriorPoint: {
        int nc = P.mi; double relax = 0;
        if (P.hasBounds) for (int i = 0; i < n; ++i) { if (P.lb[i] > -INF) { ++nc; relax = std::max(relax, 1e-8 * std::max(1.0, std::fabs(P.lb[i]))); } if (P.ub[i] < INF) { ++nc; relax = std::max(relax, 1e-8 * std::max(1.0, std::fabs(P.ub[i]))); } }
        if (P.mi > 0) relax = std::max(relax, 1e-8);
        const double lam = (double)ref.lambdaSum;
        return 3 * (sq * (cfg.tol + gerr) / P.mu + std::sqrt((nc * cfg.tol + lam * (cfg.ctol + relax) + gerr * gerr / P.mu) / P.mu)) + roundoff;
    }
    default: return INF;
    }
}

static const char* gmName(int g) { return g == 0 ? "analytic" : (g == 1 ? "numfwd" : "numctr"); }
static const char* algStr(OptimizerAlgorithm a) { switch (a) { case LBFGS: return "LBFGS"; case LBFGSB: return "LBFGSB"; case InteriorPoint: return "InteriorPoint"; case CMAES: return "CMAES"; case CFSQP: return "CFSQP"; default: return "other"; } }

static Json jprob(const Problem& P, const RunCfg& cfg) {
    Json j = Json::obj();
    j.set("n", P.n).set("family", P.family == 0 ? "quadratic" : "rosenbrock").set("x0", vh::jvec(P.x0));
    if (P.n <= 6) { if (P.family == 0) j.set("A", vh::jvec(P.A)).set("b", vh::jvec(P.b)).set("c0", P.c0); else j.set("ra", vh::jvec(P.ra)); }
    if (P.hasBounds) j.set("lb", vh::jvec(P.lb)).set("ub", vh::jvec(P.ub));
    if (P.me + P.mi > 0 && P.n <= 6) j.set("me", P.me).set("mi", P.mi).set("C", vh::jvec(P.C)).set("d", vh::jvec(P.d));
    j.set("tol", cfg.tol).set("ctol", cfg.ctol).set("gradMode", gmName(cfg.gradMode)).set("numAcc", cfg.numAcc).set("history", cfg.history).set("factr", cfg.factr).set("mu", P.mu).set("L", P.L);
    return j;
}

// Apply every clause that the selected algorithm promises. `tag` prefixes the cell (e.g. "BestAvailable->").
static void judge(vh::Ctx& c, const Problem& P, const RunCfg& cfg, const RunOut& o, const std::string& tag, const std::string& boundCls) {
    const OptimizerAlgorithm alg = o.chosen;
    const std::string an = tag + algStr(alg), gm = gmName(cfg.gradMode);
    const int n = P.n;
    if (!o.ok) { c.obs("exception:" + an + ":" + excClass(o.exc)); c.obs("runs-not-converged"); return; }
    c.obs("runs-returned");
    std::vector<double> xr(n); bool finite = std::isfinite(o.f);
    for (int i = 0; i < n; ++i) { xr[i] = o.x[i]; finite = finite && std::isfinite(xr[i]); }
    if (!c.require("finite-result/" + an, finite, [&] { return Json::obj().set("f", o.f).set("x", vh::jvec(xr)).set("problem", jprob(P, cfg)); })) return;
    const bool bounded = P.hasBounds && (alg == LBFGSB || alg == InteriorPoint || alg == CMAES);
    bool atBound = false;
    if (bounded) for (int i = 0; i < n; ++i) atBound = atBound || xr[i] <= P.lb[i] || xr[i] >= P.ub[i];

    // truthful f
    const double fre = P.obj(xr.data()), fscale = P.absSum(xr.data());
    {
        const double tolF = 4 * (n + 3) * U * fscale + 1e-300, gapF = std::fabs(o.f - fre);
        // Root cause known from IpOrigIpoptNLP.cpp (FinalizeSolution): with honor_original_bounds the final x is projected into the
        // user's bounds but the objective reported is the one of the unprojected point, which may lie up to
        // bound_relax_factor*max(1,|bound|) outside. A discrepancy explained by that gets its own key.
        double explained = 0;
        if (alg == InteriorPoint && atBound) {
            std::vector<double> g(n); P.grad(xr.data(), g.data());
            for (int i = 0; i < n; ++i) if (xr[i] <= P.lb[i] || xr[i] >= P.ub[i]) { const double rl = 1e-8 * std::max(1.0, std::fabs(xr[i])); explained += 1.05 * std::fabs(g[i]) * rl + (P.family == 0 ? P.L : 1e3) * rl * rl; }
        }
        if (gapF > tolF && gapF <= tolF + explained)
            c.viol("truthful-f:InteriorPoint:objective-is-that-of-the-unprojected-point(bound-relaxation)", Json::obj().set("f_returned", o.f).set("f_at_returned_x", fre).set("difference", o.f - fre)
                   .set("explained_by_relaxation_up_to", explained).set("x", vh::jvec(xr)).set("problem", jprob(P, cfg)));
        else
            c.check("truthful-f/" + an + ":" + gm, gapF, tolF, [&] { return Json::obj().set("f_returned", o.f).set("f_at_returned_x", fre).set("x", vh::jvec(xr)).set("problem", jprob(P, cfg)); });
    }
    if (alg == LBFGS || alg == LBFGSB || alg == CMAES) {
        bool found = false;
        for (const Rec& r : o.log) if (r.kind == 'F' && r.f == o.f && r.x == xr) { found = true; break; }
        c.require("returned-point-was-evaluated/" + an + ":" + gm, found, [&] { return Json::obj().set("f_returned", o.f).set("x", vh::jvec(xr)).set("evaluations", (long)o.log.size()).set("problem", jprob(P, cfg)); });
    }
    // reference minimiser of strictly convex quadratics (certified), used by "improving" (interior point) and "minimiser"
    RefSol ref;
    if (P.family == 0 && (alg == LBFGS || alg == LBFGSB || alg == InteriorPoint || alg == CMAES)) {
        Problem Q = P; if (!(alg == LBFGSB || alg == InteriorPoint || alg == CMAES)) Q.hasBounds = false;
        if (alg != InteriorPoint) { Q.me = Q.mi = 0; }
        ref = referenceMinimiser(Q);
    }
    // improving. The line-search methods are monotone: no tolerance beyond rounding. The interior-point method is not a
    // monotone method; what its stopping rule promises is a duality gap <= Nc*tol + Lambda*(ctol+relaxation) (see tolMinimiser),
    // so a start that is already (nearly) optimal may be left by that much: f_ret <= f(x0) + 2*gap.
    if (alg == LBFGS || alg == LBFGSB || (alg == InteriorPoint && P.x0Feasible)) {
        const double f0 = P.obj(P.x0.data());
        double extra = 0; bool judgeIt = true;
        if (alg == InteriorPoint) {
            int nc = P.mi; double relax = P.mi + P.me > 0 ? 1e-8 : 0.0, lam = NaN;
            if (P.hasBounds) for (int i = 0; i < n; ++i) { if (P.lb[i] > -INF) { ++nc; relax = std::max(relax, 1e-8 * std::max(1.0, std::fabs(P.lb[i]))); } if (P.ub[i] < INF) { ++nc; relax = std::max(relax, 1e-8 * std::max(1.0, std::fabs(P.ub[i]))); } }
            if (ref.ok) lam = (double)ref.lambdaSum;
            else if (P.me + P.mi == 0) { std::vector<double> g(n); P.grad(xr.data(), g.data()); lam = 0; for (int i = 0; i < n; ++i) lam += std::fabs(g[i]); }   // bound multipliers balance the gradient
            if (lam == lam) extra = 2 * (nc * cfg.tol + lam * (cfg.ctol + relax) + std::sqrt((double)n) * cfg.tol); else judgeIt = false;
        }
        if (judgeIt)
            c.check("improving/" + an + ":" + gm, std::max(0.0, fre - f0), extra + 4 * (n + 3) * U * (fscale + P.absSum(P.x0.data())) + 1e-300, [&] {
                return Json::obj().set("f_x0", f0).set("f_returned_x", fre).set("allowed_gap", extra).set("problem", jprob(P, cfg)); });
        else c.obs("improving-not-judged:no-multiplier-estimate");
    } else if (alg == InteriorPoint) c.obs("improving-not-judged:infeasible-start");
    // numerical mode never calls the analytic derivatives
    if (cfg.gradMode != 0 && alg != CMAES) {
        long ng = 0, nj = 0; for (const Rec& r : o.log) { ng += r.kind == 'G'; nj += r.kind == 'J'; }
        c.require("analytic-derivative-called-in-numerical-mode/" + an, ng == 0 && nj == 0, [&] { return Json::obj().set("gradient_calls", ng).set("jacobian_calls", nj); });
    }
    // bounds
    if (bounded) {
        auto excess = [&](const std::vector<double>& x, int* where) { double w = 0; for (int i = 0; i < n; ++i) { double e = std::max(P.lb[i] - x[i], x[i] - P.ub[i]); if (e > w) { w = e; if (where) *where = i; } } return w; };
        auto slackOf = [&](const std::vector<double>& x) { if (alg != InteriorPoint) return 0.0; double s = 0; for (int i = 0; i < n; ++i) { double e = std::max(P.lb[i] - x[i], x[i] - P.ub[i]); if (e > 0) s = std::max(s, 1.000001e-8 * std::max(1.0, std::fabs(x[i] < P.lb[i] ? P.lb[i] : P.ub[i]))); } return s; };
        // In numerical-derivative mode the wrappers (OptimizerRep.cpp) first evaluate at the iterate ("base") and then let a
        // Differentiator perturb one coordinate at a time by its documented step: classify every logged argument so that an
        // iterate outside the box and a difference step outside the box get different keys.
        const double acc = cfg.numAcc > 0 ? cfg.numAcc : (double)SignificantReal;
        std::map<char, const Rec*> base;
        struct Worst { double over = -INF; size_t k = 0; };
        std::map<std::string, Worst> worst;
        for (size_t k = 0; k < o.log.size(); ++k) {
            const Rec& r = o.log[k];
            bool perturbation = false;
            if (cfg.gradMode != 0 && alg != CMAES && (r.kind == 'F' || r.kind == 'C') && base.count(r.kind)) {
                const Rec& b0 = *base[r.kind]; int nd = 0, di = -1;
                for (int i = 0; i < n; ++i) if (r.x[i] != b0.x[i]) { ++nd; di = i; }
                if (nd == 1) { const double h = diffStep(b0.x[di], acc, cfg.gradMode), got = std::fabs(r.x[di] - b0.x[di]); perturbation = std::fabs(got - h) <= 1e-6 * h + 8 * U * std::fabs(b0.x[di]); }
            }
            if (!perturbation) base[r.kind] = &r;
            const char* kn = r.kind == 'F' ? "objective" : (r.kind == 'G' ? "gradient" : (r.kind == 'C' ? "constraints" : "jacobian"));
            // key of a difference step does not depend on how the algorithm was selected nor on forward/central
            const std::string key = perturbation ? std::string("eval-outside-bounds/") + algStr(alg) + ":numerical-differentiation-step"
                                                 : "eval-outside-bounds/" + an + ":" + kn + ":" + gm;
            const double over = excess(r.x, nullptr) - slackOf(r.x);
            Worst& w = worst[key]; if (over > w.over) { w.over = over; w.k = k; }
        }
        for (auto& kv : worst) {
            const Rec& r = o.log[kv.second.k];
            int wi = 0; double e = excess(r.x, &wi), sl = slackOf(r.x);
            // an excursion of a few ulp of the bound (x_k + step*d rounded past the bound) is keyed apart from a gross one
            const bool ulpLevel = e > sl && e <= 8 * U * std::max(std::fabs(P.lb[wi]) < INF ? std::fabs(P.lb[wi]) : 0.0, std::fabs(P.ub[wi]) < INF ? std::fabs(P.ub[wi]) : 0.0) + 1e-300;
            c.check(ulpLevel ? std::string("outside-bounds-by-rounding(<=8ulp-of-bound)/") + algStr(alg) + ":evaluation" : kv.first, e, sl, [&] {
                return Json::obj().set("argument", vh::jvec(r.x)).set("component", wi).set("excess", e).set("allowed_relaxation", sl).set("evaluation_index", (long)kv.second.k)
                    .set("lb_i", P.lb[wi]).set("ub_i", P.ub[wi]).set("problem", jprob(P, cfg)); });
        }
        int wi = 0; double e = excess(xr, &wi);
        const bool ulpLevel = e > 0 && e <= 8 * U * std::max(std::fabs(P.lb[wi]) < INF ? std::fabs(P.lb[wi]) : 0.0, std::fabs(P.ub[wi]) < INF ? std::fabs(P.ub[wi]) : 0.0) + 1e-300;
        c.check(ulpLevel ? std::string("outside-bounds-by-rounding(<=8ulp-of-bound)/") + algStr(alg) + ":result" : "result-outside-bounds/" + an + ":" + gm, e, 0.0, [&] { return Json::obj().set("x", vh::jvec(xr)).set("component", wi).set("excess", e).set("problem", jprob(P, cfg)); });
    }
    // constraints (interior point only)
    if (alg == InteriorPoint && P.me + P.mi > 0) {
        // Ipopt's stopping rule bounds the violation at the point it converged to; the point returned has afterwards been
        // projected into the user's bounds (it may have been up to 1e-8*max(1,|bound|) outside: bound relaxation), which moves
        // linear constraint values by at most sum_j |C_kj| * that shift; inequality bounds are themselves relaxed by 1e-8.
        // A violation above ctol that this explains gets its own key (same root cause as the truthful-f finding).
        double worst[2] = {0, 0}, worstExplained[2] = {0, 0}; int wk[2] = {-1, -1}, wke[2] = {-1, -1};
        for (int k = 0; k < P.me + P.mi; ++k) {
            const int t = k < P.me ? 0 : 1;
            const double v = P.con(k, xr.data()), rnd = 4 * (n + 2) * U * P.conAbs(k, xr.data());
            const double viol = (t == 0 ? std::fabs(v) : -v) - rnd - cfg.ctol * 1.000001;
            if (viol <= 0) { if (wk[t] < 0) wk[t] = k; continue; }
            double allow = t == 1 ? 1.05e-8 : 0.0;
            if (P.hasBounds) for (int j = 0; j < n; ++j) if (xr[j] <= P.lb[j] || xr[j] >= P.ub[j]) allow += 1.05e-8 * std::max(1.0, std::fabs(xr[j])) * std::fabs(P.C[k * n + j]);
            if (viol <= allow) { if (viol > worstExplained[t]) { worstExplained[t] = viol; wke[t] = k; } }
            else if (viol > worst[t]) { worst[t] = viol; wk[t] = k; }
        }
        for (int t = 0; t < 2; ++t) {
            if ((t == 0 ? P.me : P.mi) == 0) continue;
            const char* tn = t == 0 ? "equality" : "inequality";
            c.check("constraint-violation/" + an + ":" + tn + ":" + gm, worst[t] + cfg.ctol, cfg.ctol, [&] {
                return Json::obj().set("row", wk[t]).set("violation_beyond_ctol", worst[t]).set("ctol", cfg.ctol).set("x", vh::jvec(xr)).set("problem", jprob(P, cfg)); });
            if (wke[t] >= 0)
                c.viol(std::string("constraint-violation:InteriorPoint:") + tn + ":within-ctol-only-before-projection-into-bounds(bound-relaxation)",
                       Json::obj().set("row", wke[t]).set("violation_beyond_ctol", worstExplained[t]).set("ctol", cfg.ctol).set("x", vh::jvec(xr)).set("problem", jprob(P, cfg)));
        }
    }
    if (c.args.verbose) {
        std::vector<double> g(n); P.grad(xr.data(), g.data());
        double pg = 0, gn = 0;
        for (int i = 0; i < n; ++i) { double gi = g[i]; if (bounded) { if (gi < 0) gi = std::max(xr[i] - P.ub[i], gi); else gi = std::min(xr[i] - P.lb[i], gi); } pg = std::max(pg, std::fabs(gi)); gn = std::max(gn, std::fabs(g[i])); }
        fprintf(stderr, "[verbose] %s %s: f=%.17g evals=%zu |g|inf=%.3e |projected g|inf=%.3e tol=%.3e ctol=%.3e\n", an.c_str(), gm.c_str(), o.f, o.log.size(), gn, pg, cfg.tol, cfg.ctol);
    }
    // unique minimiser of strictly convex quadratics
    if (P.family == 0 && (alg == LBFGS || alg == LBFGSB || alg == InteriorPoint || alg == CMAES)) {
        if (!ref.ok) { c.skip("minimiser-reference-not-certified"); }
        else {
            double dist = 0; for (int i = 0; i < n; ++i) dist += (double)((xr[i] - ref.x[i]) * (xr[i] - ref.x[i])); dist = std::sqrt(dist);
            if (alg == CMAES) {
                // the stop reason of CMA-ES is not observable through Optimizer: recorded, not judged
                const double gapf = fre - (double)ref.fstar;
                c.obs(gapf <= 10 * cfg.tol * std::max(1.0, std::fabs((double)ref.fstar)) ? "cmaes-gap<=10tol" : (gapf <= 1e3 * cfg.tol * std::max(1.0, std::fabs((double)ref.fstar)) ? "cmaes-gap<=1e3tol" : "cmaes-gap>1e3tol"));
            } else {
                const double tolm = tolMinimiser(P, cfg, alg, o, ref);
                c.check("minimiser/" + an + ":" + gm + ":" + (ref.nActive > 0 ? "active-set-nonempty" : "interior") + (alg == LBFGSB ? (cfg.factr > 0 ? ":factr-small" : ":factr-default") : ""), dist, tolm, [&] {
                    std::vector<double> xs(n); for (int i = 0; i < n; ++i) xs[i] = (double)ref.x[i];
                    return Json::obj().set("x", vh::jvec(xr)).set("xstar", vh::jvec(xs)).set("distance", dist).set("bound", tolm).set("f", fre).set("fstar", (double)ref.fstar).set("problem", jprob(P, cfg)); });
            }
        }
    }
    c.cover(an + ":" + (P.family == 0 ? "quadratic" : "rosenbrock") + ":" + boundCls + ":" + (P.me + P.mi == 0 ? "nocons" : (P.me > 0 ? (P.mi > 0 ? "eq+ineq" : "eq") : "ineq")) + ":" + gm + ":" + (n == 1 ? "n1" : (n <= 4 ? "n2-4" : (n <= 10 ? "n5-10" : "n11-20"))));
}

// ------------------------------------------------------------------------------------------------ cases
static void setCommon(vh::Rng& r, RunCfg& cfg) {
    cfg.tol = r.logUni(1e-8, 1e-3); cfg.ctol = r.logUni(1e-8, 1e-4);
    cfg.history = r.coin(0.5) ? 0 : r.integer(3, 40);
}
static void setGradMode(vh::Rng& r, RunCfg& cfg, bool numerical) {
    if (!numerical) { cfg.gradMode = 0; return; }
    cfg.gradMode = r.coin() ? 1 : 2;
    cfg.numAcc = r.coin(0.5) ? 0.0 : r.logUni(1e-13, 1e-9);
    // a numerical gradient limits the attainable accuracy: do not ask for more than it can deliver
    if (cfg.gradMode == 1) cfg.tol = std::max(cfg.tol, 1e-5);
    else cfg.tol = std::max(cfg.tol, 1e-7);
}
static std::vector<double> unconstrainedMin(const Problem& P) {
    std::vector<LD> M(P.A.begin(), P.A.end()), rhs(P.b.begin(), P.b.end()), x;
    std::vector<double> out(P.n, 0.0);
    if (solveLD(M, rhs, P.n, x)) for (int i = 0; i < P.n; ++i) out[i] = (double)x[i];
    return out;
}
static int pickDim(vh::Rng& r, long idx, int lo, int hi) {
    // cycle through dimension classes so that n=1 and n=20 are not rare
    switch ((idx / 10) % 4) { case 0: return std::max(lo, std::min(hi, r.integer(1, 2))); case 1: return std::max(lo, std::min(hi, r.integer(3, 6))); case 2: return std::max(lo, std::min(hi, r.integer(7, 12))); default: return std::max(lo, std::min(hi, r.integer(13, 20))); }
}

static void runCase(vh::Ctx& c, long idx, vh::Rng& r) {
    const int slot = (int)(idx % 10);
    Problem P; RunCfg cfg; setCommon(r, cfg);
    std::string boundCls = "nobounds";
    switch (slot) {
    case 0: case 1: {   // LBFGS
        genQuadratic(r, P, pickDim(r, idx, 1, 20), 1e4);
        cfg.alg = LBFGS; setGradMode(r, cfg, slot == 1); cfg.construct = (idx / 10) % 3 == 2 ? 4 : 0;
        c.setPhase("LBFGS quadratic");
        RunOut o = runOnce(c, P, cfg);
        judge(c, P, cfg, o, "", boundCls);
    } break;
    case 2: case 3: case 9: {   // LBFGSB (slot 9: also on problems without limits)
        genQuadratic(r, P, pickDim(r, idx, 1, 20), 1e4);
        if (!(slot == 9 && (idx / 10) % 2 == 0)) boundCls = genBounds(r, P, unconstrainedMin(P), 1 + std::fabs(P.x0[0]), 0.4);
        cfg.alg = LBFGSB; setGradMode(r, cfg, slot == 3); cfg.factr = (idx / 10) % 2 ? 10.0 : 0.0;
        c.setPhase("LBFGSB quadratic " + boundCls);
        RunOut o = runOnce(c, P, cfg);
        judge(c, P, cfg, o, "", boundCls);
    } break;
    case 4: case 5: {   // InteriorPoint: bounds and/or linear constraints
        const int variant = (int)((idx / 10) % 4);     // 0 bounds only, 1 constraints only, 2 both (small, minimiser judged), 3 unconstrained/large with constraints
        int n = variant == 2 ? r.integer(2, 4) : pickDim(r, idx / 4, 1, 20);
        genQuadratic(r, P, n, 1e3);
        std::vector<double> xu = unconstrainedMin(P);
        if (variant == 0 || variant == 2) boundCls = genBounds(r, P, xu, 1 + std::fabs(P.x0[0]), 0.4);
        if (variant != 0 && !(variant == 3 && r.coin(0.3))) {
            int me = n > 1 ? r.integer(0, std::min(n - 1, 3)) : 0, mi = r.integer(me == 0 ? 1 : 0, variant == 2 ? 3 : 5);
            // a feasible point: inside the box
            std::vector<double> xf = P.x0;
            genRegularConstraints(c, r, P, me, mi, xf);
            if (r.coin(0.3)) { for (int i = 0; i < n; ++i) P.x0[i] = xf[i] + r.sym(1.0); if (P.hasBounds) for (int i = 0; i < n; ++i) P.x0[i] = std::min(std::max(P.x0[i], P.lb[i]), P.ub[i]); P.x0Feasible = false; }
        }
        cfg.alg = InteriorPoint; setGradMode(r, cfg, slot == 5);
        cfg.tol = std::max(cfg.tol, 1e-7); cfg.maxIter = 150;      // bounds the cost under ASan; hitting it is counted, not judged
        c.setPhase("InteriorPoint quadratic " + boundCls);
        RunOut o = runOnce(c, P, cfg);
        judge(c, P, cfg, o, "", boundCls);
    } break;
    case 6: {   // CMAES, twice with the same seed
        const int n = r.integer(2, 8);
        genQuadratic(r, P, n, 1e2);
        const bool bnd = (idx / 10) % 2 == 0;
        // no fixed variables (lb==ub can never be sampled: documented resampling would not terminate)
        if (bnd) boundCls = genBounds(r, P, unconstrainedMin(P), 1 + std::fabs(P.x0[0]), 0.25, false);
        cfg.alg = CMAES; cfg.seed = r.integer(1, 1000000); cfg.sigma = r.logUni(0.05, 1.0); cfg.sigmaVec = r.coin(0.3); cfg.popsize = r.coin(0.3) ? r.integer(6, 20) : 0;
        if (bnd) {   // Optimizer.h: choose the initial step size appropriately for the bounds (avoid excessive resampling)
            double wmin = INF; for (int i = 0; i < n; ++i) if (P.lb[i] > -INF && P.ub[i] < INF) wmin = std::min(wmin, P.ub[i] - P.lb[i]);
            if (wmin < INF) cfg.sigma = r.uni(0.1, 0.4) * wmin;
        }
        cfg.tol = r.logUni(1e-10, 1e-4); cfg.maxIter = 300;
        if ((idx / 10) % 10 == 9 && bnd) {   // documented: infeasible start is rejected
            int i = r.integer(0, n - 1); if (P.ub[i] < INF) P.x0[i] = P.ub[i] + 0.5; else if (P.lb[i] > -INF) P.x0[i] = P.lb[i] - 0.5;
            if (!insideBox(P, P.x0)) {
                c.setPhase("CMAES infeasible start");
                RunOut o = runOnce(c, P, cfg);
                c.require("documented-exception:CMAES:start-outside-limits", !o.ok && o.log.empty(), [&] { return Json::obj().set("returned", o.ok).set("evaluations", (long)o.log.size()).set("problem", jprob(P, cfg)); });
                c.cover("CMAES:infeasible-start-rejected");
                break;
            }
        }
        c.setPhase("CMAES quadratic " + boundCls);
        RunOut o1 = runOnce(c, P, cfg);
        judge(c, P, cfg, o1, "", boundCls);
        if (o1.ok) {
            c.setPhase("CMAES repeat with the same seed");
            RunOut o2 = runOnce(c, P, cfg);
            bool same = o2.ok && o2.log.size() == o1.log.size() && o2.f == o1.f;
            for (int i = 0; same && i < n; ++i) same = o1.x[i] == o2.x[i];
            size_t firstDiff = 0;
            for (size_t k = 0; same && k < o1.log.size(); ++k) if (!(o1.log[k].x == o2.log[k].x && o1.log[k].f == o2.log[k].f)) { same = false; firstDiff = k; }
            c.require(std::string("cmaes-reproducible:same-seed-same-log-and-result:") + (bnd ? "bounded" : "unbounded"), same, [&] {
                return Json::obj().set("evals1", (long)o1.log.size()).set("evals2", (long)o2.log.size()).set("f1", o1.f).set("f2", o2.f).set("first_differing_evaluation", (long)firstDiff).set("problem", jprob(P, cfg)); });
            // a different seed must give a different sample sequence (otherwise the seed is not used): observation only
            RunCfg cfg3 = cfg; cfg3.seed = cfg.seed + 1;
            RunOut o3 = runOnce(c, P, cfg3);
            bool differs = !o3.ok || o3.log.size() != o1.log.size();
            for (size_t k = 0; !differs && k < o1.log.size(); ++k) differs = !(o1.log[k].x == o3.log[k].x);
            c.obs(differs ? "cmaes-other-seed-other-sequence" : "cmaes-other-seed-SAME-sequence");
        }
    } break;
    case 7: {   // BestAvailable and the selection table
        const int kind = (int)((idx / 10) % 3);          // 0 nothing -> LBFGS, 1 limits -> LBFGSB, 2 constraints -> InteriorPoint
        genQuadratic(r, P, kind == 2 ? r.integer(2, 6) : pickDim(r, idx / 3, 1, 20), 1e3);
        if (kind >= 1 && (kind == 1 || r.coin())) boundCls = genBounds(r, P, unconstrainedMin(P), 1 + std::fabs(P.x0[0]), 0.4);
        if (kind == 2) genRegularConstraints(c, r, P, r.integer(0, 1), r.integer(1, 3), P.x0);
        cfg.construct = 1 + (int)((idx / 30) % 4);       // 1,2,3: BestAvailable spellings; 4 -> CFSQP request falls back when the library is absent
        if (cfg.construct == 4) { cfg.construct = 0; cfg.alg = CFSQP; }
        cfg.tol = std::max(cfg.tol, 1e-7); cfg.maxIter = 150;
        const OptimizerAlgorithm expect = P.me + P.mi > 0 ? InteriorPoint : (P.hasBounds ? LBFGSB : LBFGS);
        c.setPhase("BestAvailable");
        if (cfg.alg == CFSQP && Optimizer::isAlgorithmAvailable(CFSQP)) { c.skip("cfsqp-library-present"); break; }
        RunOut o = runOnce(c, P, cfg);
        if (o.chosen != UnknownOptimizerAlgorithm || o.ok)
            c.require(std::string("best-available:selection:") + (cfg.alg == CFSQP ? "cfsqp-fallback" : "default") + ":expects-" + algStr(expect), o.chosen == expect, [&] {
                return Json::obj().set("chosen", (int)o.chosen).set("expected", (int)expect).set("constraints", P.me + P.mi).set("limits", P.hasBounds); });
        judge(c, P, cfg, o, cfg.alg == CFSQP ? "CFSQP-fallback->" : "BestAvailable->", boundCls);
    } break;
    default: {  // 8: Rosenbrock with the three descent algorithms
        const int which = (int)((idx / 10) % 3);
        genRosenbrock(r, P, which == 2 ? r.integer(2, 5) : r.integer(2, 10));     // interior point under ASan is slow on Rosenbrock: keep it small
        if (which >= 1) boundCls = genBounds(r, P, std::vector<double>(P.n, 1.0), 2.0, 0.3);
        cfg.alg = which == 0 ? LBFGS : (which == 1 ? LBFGSB : InteriorPoint);
        setGradMode(r, cfg, (idx / 30) % 2 == 1);
        cfg.tol = std::max(cfg.tol, 1e-6); if (cfg.alg == InteriorPoint) cfg.maxIter = 60;
        c.setPhase(std::string("Rosenbrock ") + algStr(cfg.alg));
        RunOut o = runOnce(c, P, cfg);
        judge(c, P, cfg, o, "", boundCls);
    } break;
    }
    if (c.wantSample() && idx % 11 == 0) c.sample(Json::obj().set("slot", slot).set("problem", jprob(P, cfg)).set("bounds", boundCls));
}

int main(int argc, char** argv) {
    vh::Args args = vh::parseArgs(argc, argv);
    vh::Ctx c(args);
    if (args.prop != "C39") { fprintf(stderr, "mon_optim handles C39 only\n"); return 2; }
    return vh::runCases(c, [&](long i, vh::Rng& r) { runCase(c, i, r); });
}
