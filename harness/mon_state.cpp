// mon_state — C18: SimTK::State stage and cache semantics vs. an executable reference
// model run in lock-step (DESIGN §5 C18). Only SimTKcommon is exercised.
//
// A case = one random operation history (10..200 ops) over up to 3 State objects with
// 1..4 dummy subsystems. After every operation every observable of every live object is
// compared with the model (sm:: in common/state_model.h).
//
// Legal-client preconditions (the generator never leaves them; they are documented or are
// unchecked-in-release requirements of the API):
//  P1 stages advance one at a time; the system only after all subsystems; subsystems are
//     added only to a State whose system stage is Empty.
//  P2 operations whose stage requirement is only checked in debug builds (updQ.. before
//     Model, updTime before Topology, error weights before Instance, marking a cache entry
//     realized below dependsOn-1, update-value access for a non-auto-update variable) are
//     generated as *illegal* operations only in the dbg flavour (they must throw there);
//     in the release flavour they are never generated.
//  P3 markCacheValueRealized is issued at stage >= dependsOn (State.h), or at dependsOn-1
//     only immediately before advancing that subsystem to dependsOn (the realize() idiom).
//  P4 prerequisites outlive their dependents: an operation (invalidate / copy) after which
//     a surviving cache entry would name a vanished prerequisite is skipped
//     (skip reason "prerequisite-would-dangle"); the library does not check this.
//  P5 auto-update variables use invalidates > Time (State.h); a moved-from State is only
//     assigned to or destroyed.
#include "vh.h"
#include "state_model.h"
#include "SimTKcommon.h"
#include <memory>
using namespace SimTK;
using namespace vh;
using namespace sm;

#ifdef NDEBUG
static const bool DBG = false;
#else
static const bool DBG = true;
#endif

static Stage st(int g) { return Stage(g); }
static std::string tokStr(long t) { std::string s = "t" + std::to_string(t); if (t & 1) s += std::string(40, 'x'); return s; }
static AbstractValue* newVal(long t) { return new Value<std::string>(tokStr(t)); }
static bool sameReal(double a, double b) { return (std::isnan(a) && std::isnan(b)) || a == b; }

enum Kind {
    K_AllocQ, K_AllocU, K_AllocZ, K_AllocDV, K_AllocAuto, K_AllocCE, K_AllocCEPre, K_AllocQErr, K_AllocUErr, K_AllocUDotErr,
    K_AdvSub, K_AdvSys, K_InvAll, K_InvCache,
    K_UpdQ, K_UpdU, K_UpdZ, K_UpdY, K_UpdTime, K_UpdQSub, K_UpdUSub, K_UpdZSub,
    K_UpdUW, K_UpdZW, K_UpdUWSub, K_UpdZWSub, K_UpdQEW, K_UpdUEW, K_UpdQEWSub, K_UpdUEWSub,
    K_UpdDV, K_Mark, K_Unmark, K_UpdCE, K_UpdDVUpd, K_AutoUpdate, K_Snap, K_Diff,
    K_CopyCtor, K_CopyAssign, K_SelfAssign, K_MoveCtor, K_MoveAssign, K_AssignFromEmpty, K_Destroy, K_Clear, K_ToString, K_IsConsistent,
    K_N
};
static const char* const KN[K_N] = {
    "allocateQ", "allocateU", "allocateZ", "allocateDiscreteVariable", "allocateAutoUpdateDiscreteVariable", "allocateCacheEntry",
    "allocateCacheEntryWithPrerequisites", "allocateQErr", "allocateUErr", "allocateUDotErr",
    "advanceSubsystemToStage", "advanceSystemToStage", "invalidateAll", "invalidateAllCacheAtOrAbove",
    "updQ", "updU", "updZ", "updY", "updTime", "updQ(sub)", "updU(sub)", "updZ(sub)",
    "updUWeights", "updZWeights", "updUWeights(sub)", "updZWeights(sub)", "updQErrWeights", "updUErrWeights", "updQErrWeights(sub)", "updUErrWeights(sub)",
    "updDiscreteVariable", "markCacheValueRealized", "markCacheValueNotRealized", "updCacheEntry", "updDiscreteVarUpdateValue",
    "autoUpdateDiscreteVariables", "getSystemStageVersions", "getLowestSystemStageDifference",
    "copy", "copy", "self-assign", "move-construct", "move-assign", "assign-from-moved", "destroy", "clear", "toString", "isConsistent"
};

struct Op {
    int kind = 0, obj = 0, obj2 = -1, sub = 0, idx = 0, g = 0, g2 = 0, n = 0;
    bool bq = false, bu = false, bz = false, mark = false;
    std::vector<Key> pdv, pce;
    std::vector<double> vals;
    std::vector<int> early;       // cache entries marked just before advanceSubsystemToStage (P3)
    long tok = 0;
    std::string str() const {
        std::ostringstream o;
        o << "S" << obj << "." << KN[kind] << "(";
        switch (kind) {
        case K_AllocQ: case K_AllocU: case K_AllocZ: o << "sub" << sub << ",n=" << vals.size(); break;
        case K_AllocDV: o << "sub" << sub << ",invalidates=" << SN[g]; break;
        case K_AllocAuto: o << "sub" << sub << ",invalidates=" << SN[g] << ",updateDependsOn=" << SN[g2]; break;
        case K_AllocCE: o << "sub" << sub << "," << SN[g] << "," << SN[g2]; break;
        case K_AllocCEPre:
            o << "sub" << sub << "," << SN[g] << "," << SN[g2] << ",q=" << bq << ",u=" << bu << ",z=" << bz << ",dv={";
            for (auto& k : pdv) o << "(" << k.first << "," << k.second << ")";
            o << "},ce={"; for (auto& k : pce) o << "(" << k.first << "," << k.second << ")"; o << "}"; break;
        case K_AllocQErr: case K_AllocUErr: case K_AllocUDotErr: o << "sub" << sub << ",n=" << n; break;
        case K_AdvSub: o << "sub" << sub << "," << SN[g]; if (!early.empty()) { o << ",after marking ce"; for (int e : early) o << " " << e; } break;
        case K_AdvSys: case K_InvAll: case K_InvCache: o << SN[g]; break;
        case K_UpdQSub: case K_UpdUSub: case K_UpdZSub: case K_UpdUWSub: case K_UpdZWSub: case K_UpdQEWSub: case K_UpdUEWSub: o << "sub" << sub; break;
        case K_UpdDV: o << "sub" << sub << ",dv" << idx << ")=" << tok; return o.str();
        case K_Mark: case K_Unmark: o << "sub" << sub << ",ce" << idx; break;
        case K_UpdCE: o << "sub" << sub << ",ce" << idx << ")=" << tok; return o.str();
        case K_UpdDVUpd: o << "sub" << sub << ",dv" << idx << ")=" << tok << (mark ? "; markDiscreteVarUpdateValueRealized" : ""); return o.str();
        case K_CopyCtor: o << "new S" << obj2 << " from S" << obj; break;
        case K_CopyAssign: case K_MoveAssign: case K_AssignFromEmpty: case K_IsConsistent: o << "S" << obj2 << (kind == K_IsConsistent ? "" : " = S") ; if (kind != K_IsConsistent) o << obj; break;
        case K_MoveCtor: o << "new S" << obj2; break;
        case K_Clear: o << "then setNumSubsystems " << n; break;
        default: break;
        }
        o << ")";
        return o.str();
    }
};

struct Obj { std::unique_ptr<State> real; MState m; bool live = false; };

// ------------------------------------------------------------------ the monitor
struct Mon {
    Ctx& c; Rng& r;
    Obj objs[3];
    std::vector<std::string> hist;
    bool dead = false;
    long ncmp = 0;
    int aheadMax = 1;
    long tokCounter = 100;
    Mon(Ctx& c, Rng& r) : c(c), r(r) {}

    Json witness(const std::string& detail, int obj) {
        Json h = Json::arr();
        size_t b = hist.size() > 120 ? hist.size() - 120 : 0;
        for (size_t i = b; i < hist.size(); ++i) h.push(Json(hist[i]));
        return Json::obj().set("detail", detail).set("object", obj).set("ops_total", (long)hist.size()).set("history_tail", h);
    }
    void fail(const std::string& key, const std::string& detail, int obj) {
        if (dead) return;
        dead = true;
        c.viol(key, witness(detail, obj));
    }
    bool ok(bool cond, const std::string& key, const std::string& detail, int obj) { ++ncmp; if (!cond) fail(key, detail, obj); return cond; }

    // ---------------------------------------------------------------- model side of an op
    // returns 0 = legal (model updated), 1 = illegal (library must throw, nothing changes),
    //         2 = outcome is a documented don't-care (skip the op)
    long expectRet = -1;
    long swapsLeavingDependentValid = 0;
    int modelOp(const Op& op, MState& s) {
        expectRet = -1;
        const char* nm = KN[op.kind];
        MSub* bp = op.sub < (int)s.subs.size() ? &s.subs[op.sub] : nullptr;
        switch (op.kind) {
        case K_AllocQ: case K_AllocU: case K_AllocZ: {
            MSub& b = *bp; if (b.stage >= SModel) return 1;
            MChunk ch; ch.alloc = b.stage + 1; ch.init = op.vals;
            if (op.kind == K_AllocQ) { expectRet = b.nq(); b.q.push_back(ch); }
            else if (op.kind == K_AllocU) { expectRet = b.nu(); b.u.push_back(ch); }
            else { expectRet = b.nz(); b.z.push_back(ch); }
            return 0; }
        case K_AllocDV: {
            MSub& b = *bp; if (op.g < STopology || op.g > SReport) return 1;
            if (b.stage > (op.g <= SModel ? SEmpty : STopology)) return 1;
            MDV v; v.alloc = b.stage + 1; v.inval = op.g; v.val = op.tok; expectRet = (long)b.dv.size(); b.dv.push_back(v); return 0; }
        case K_AllocAuto: {   // arguments always legal (P5); may come too late (stage >= Model) => must be rejected
            MSub& b = *bp; if (b.stage > STopology) return 1;
            MDV v; v.alloc = b.stage + 1; v.inval = op.g; v.val = op.tok; v.autoCE = (int)b.ce.size();
            MCE e; e.alloc = b.stage + 1; e.dep = op.g2; e.comp = SInfinity; e.assocDV = (int)b.dv.size(); e.val = op.tok;
            expectRet = (long)b.dv.size(); b.dv.push_back(v); b.ce.push_back(e); return 0; }
        case K_AllocCE: case K_AllocCEPre: {
            MSub& b = *bp;
            for (auto& k : op.pce) if (s.subs[k.first].ce[k.second].dep > op.g) return 1;   // prerequisite with later depends-on stage
            if (op.g < STopology || op.g > SReport) return 1;
            if (op.g2 < op.g || op.g2 > SInfinity) return 1;
            if (b.stage >= SInstance) return 1;
            MCE e; e.alloc = b.stage + 1; e.dep = op.g; e.comp = op.g2; e.val = op.tok;
            e.pq = op.bq; e.pu = op.bu; e.pz = op.bz; e.pdv = op.pdv; e.pce = op.pce;
            expectRet = (long)b.ce.size(); b.ce.push_back(e); return 0; }
        case K_AllocQErr: case K_AllocUErr: case K_AllocUDotErr: {
            MSub& b = *bp; if (b.stage >= SInstance) return 1;
            MErr e; e.alloc = b.stage + 1; e.n = op.n;
            if (op.kind == K_AllocQErr) { expectRet = b.nqe(); b.qe.push_back(e); }
            else if (op.kind == K_AllocUErr) { expectRet = b.nue(); b.ue.push_back(e); }
            else { expectRet = b.nude(); b.ude.push_back(e); }
            return 0; }
        case K_AdvSub: {
            MSub& b = *bp;
            for (int ci : op.early) { b.ce[ci].flag = 1; b.ce[ci].cause = "markCacheValueRealized"; }
            b.stage = op.g; return 0; }
        case K_AdvSys: advanceSystem(s, op.g); return 0;
        case K_InvAll: invalidateAll(s, op.g, nm); return 0;
        case K_InvCache: if (op.g < SInstance) return 1; invalidateAll(s, op.g, nm); return 0;
        case K_UpdQ: if (s.sys < SModel) return 1; invalidateAll(s, SPosition, nm); noteQ(s, nm); s.q = op.vals; return 0;
        case K_UpdU: if (s.sys < SModel) return 1; invalidateAll(s, SVelocity, nm); noteU(s, nm); s.u = op.vals; return 0;
        case K_UpdZ: if (s.sys < SModel) return 1; invalidateAll(s, SDynamics, nm); noteZ(s, nm); s.z = op.vals; return 0;
        case K_UpdY: {
            if (s.sys < SModel) return 1; invalidateAll(s, SPosition, nm); noteQ(s, nm); noteU(s, nm); noteZ(s, nm);
            size_t nq = s.q.size(), nu = s.u.size();
            for (size_t i = 0; i < op.vals.size(); ++i) { if (i < nq) s.q[i] = op.vals[i]; else if (i < nq + nu) s.u[i - nq] = op.vals[i]; else s.z[i - nq - nu] = op.vals[i]; }
            return 0; }
        case K_UpdTime: if (s.sys < STopology) return 1; invalidateAll(s, STime, nm); s.t = op.vals[0]; return 0;
        case K_UpdQSub: { if (s.sys < SModel) return 1; invalidateAll(s, SPosition, nm); noteQ(s, nm); int b0 = s.qStart(op.sub); for (size_t i = 0; i < op.vals.size(); ++i) s.q[b0 + i] = op.vals[i]; return 0; }
        case K_UpdUSub: { if (s.sys < SModel) return 1; invalidateAll(s, SVelocity, nm); noteU(s, nm); int b0 = s.uStart(op.sub); for (size_t i = 0; i < op.vals.size(); ++i) s.u[b0 + i] = op.vals[i]; return 0; }
        case K_UpdZSub: { if (s.sys < SModel) return 1; invalidateAll(s, SDynamics, nm); noteZ(s, nm); int b0 = s.zStart(op.sub); for (size_t i = 0; i < op.vals.size(); ++i) s.z[b0 + i] = op.vals[i]; return 0; }
        case K_UpdUW: if (s.sys < SModel) return 1; invalidateAll(s, SReport, nm); s.uw = op.vals; return 0;
        case K_UpdZW: if (s.sys < SModel) return 1; invalidateAll(s, SReport, nm); s.zw = op.vals; return 0;   // State.h: "will invalidate just Report stage"
        case K_UpdUWSub: { if (s.sys < SModel) return 1; invalidateAll(s, SReport, nm); int b0 = s.uStart(op.sub); for (size_t i = 0; i < op.vals.size(); ++i) s.uw[b0 + i] = op.vals[i]; return 0; }
        case K_UpdZWSub: { if (s.sys < SModel) return 1; invalidateAll(s, SReport, nm); int b0 = s.zStart(op.sub); for (size_t i = 0; i < op.vals.size(); ++i) s.zw[b0 + i] = op.vals[i]; return 0; }
        case K_UpdQEW: if (s.sys < SInstance) return 1; invalidateAll(s, SPosition, nm); s.qew = op.vals; return 0;
        case K_UpdUEW: if (s.sys < SInstance) return 1; invalidateAll(s, SVelocity, nm); s.uew = op.vals; return 0;
        case K_UpdQEWSub: { if (s.sys < SInstance) return 1; invalidateAll(s, SPosition, nm); int b0 = s.qeStart(op.sub); for (size_t i = 0; i < op.vals.size(); ++i) s.qew[b0 + i] = op.vals[i]; return 0; }
        case K_UpdUEWSub: { if (s.sys < SInstance) return 1; invalidateAll(s, SVelocity, nm); int b0 = s.ueStart(op.sub); for (size_t i = 0; i < op.vals.size(); ++i) s.uew[b0 + i] = op.vals[i]; return 0; }
        case K_UpdDV: {
            const int inval = s.subs[op.sub].dv[op.idx].inval;
            invalidateAll(s, inval, nm);
            MDV& v = s.subs[op.sub].dv[op.idx];
            if (v.autoCE >= 0) invalidateCE(s, Key(op.sub, v.autoCE), nm);
            ++v.ver; v.tLast = s.t; v.val = op.tok;
            noteDV(s, Key(op.sub, op.idx), nm);
            return 0; }
        case K_Mark: { MSub& b = *bp; MCE& e = b.ce[op.idx]; if (b.stage < e.dep - 1) return 1; e.flag = 1; e.cause = nm; return 0; }
        case K_Unmark: invalidateCE(s, Key(op.sub, op.idx), nm); return 0;
        case K_UpdCE: bp->ce[op.idx].val = op.tok; return 0;
        case K_UpdDVUpd: {
            MSub& b = *bp; MDV& v = b.dv[op.idx]; if (v.autoCE < 0) return 1;
            MCE& e = b.ce[v.autoCE]; e.val = op.tok;
            if (op.mark) { e.flag = 1; e.cause = "markDiscreteVarUpdateValueRealized"; }
            return 0; }
        case K_AutoUpdate: {
            for (auto& b : s.subs) for (auto& v : b.dv) if (v.autoCE >= 0 && valid(b, b.ce[v.autoCE]) == 2) return 2;
            for (int si = 0; si < (int)s.subs.size(); ++si) {
                MSub& b = s.subs[si];
                for (int di = 0; di < (int)b.dv.size(); ++di) {
                    MDV& v = b.dv[di]; if (v.autoCE < 0) continue;
                    MCE& e = b.ce[v.autoCE];
                    if (valid(b, e) != 1) continue;
                    std::swap(v.val, e.val); v.tLast = s.t;
                    invalidateCE(s, Key(si, v.autoCE), nm);
                    // by design (State.h note on auto-update): the swap is silent — no stage, no
                    // value version, no dependent of the *variable* is touched. Counted, not judged.
                    for (auto& b2 : s.subs) for (auto& e2 : b2.ce) if (contains(e2.pdv, Key(si, di)) && valid(b2, e2) == 1 && b2.stage < e2.comp) ++swapsLeavingDependentValid;
                }
            }
            return 0; }
        case K_Snap: s.haveSnap = true; for (int i = 0; i < NST; ++i) s.snapVer[i] = s.sysVer[i]; s.snapStage = s.sys; return 0;
        case K_Diff: {
            const int nBefore = s.snapStage + 1, nNow = s.sys + 1, nBoth = std::min(nBefore, nNow);
            int g = STopology;
            for (; g < nBoth; ++g) if (s.sysVer[g] != s.snapVer[g]) { expectRet = g; return 0; }
            expectRet = nNow >= nBefore ? (int)SInfinity : nNow;   // first unrealized stage
            return 0; }
        case K_ToString: return 0;
        default: return 0;
        }
    }

    // ---------------------------------------------------------------- library side of an op
    template <class V> static void writeVec(V& v, const std::vector<double>& x) {
        if ((int)x.size() != v.size()) throw std::runtime_error("harness: size mismatch writing a state vector (model " + std::to_string(x.size()) + ", real " + std::to_string(v.size()) + ")");
        for (int i = 0; i < v.size(); ++i) v[i] = x[i];
    }
    static Vector toVector(const std::vector<double>& x) { Vector v((int)x.size()); for (int i = 0; i < v.size(); ++i) v[i] = x[i]; return v; }
    void realOp(const Op& op, Obj& o, long& ret) {
        State& R = *o.real;
        const SubsystemIndex sx(op.sub);
        switch (op.kind) {
        case K_AllocQ: ret = R.allocateQ(sx, toVector(op.vals)); break;
        case K_AllocU: ret = R.allocateU(sx, toVector(op.vals)); break;
        case K_AllocZ: ret = R.allocateZ(sx, toVector(op.vals)); break;
        case K_AllocDV: { AbstractValue* vp = newVal(op.tok); try { ret = R.allocateDiscreteVariable(sx, st(op.g), vp); } catch (...) { delete vp; throw; } break; }
        case K_AllocAuto: { AbstractValue* vp = newVal(op.tok); try { ret = R.allocateAutoUpdateDiscreteVariable(sx, st(op.g), vp, st(op.g2)); } catch (...) { delete vp; throw; } break; }
        case K_AllocCE: { AbstractValue* vp = newVal(op.tok); try { ret = R.allocateCacheEntry(sx, st(op.g), st(op.g2), vp); } catch (...) { delete vp; throw; } break; }
        case K_AllocCEPre: {
            Array_<DiscreteVarKey> dvs; Array_<CacheEntryKey> ces;
            for (auto& k : op.pdv) dvs.push_back(DiscreteVarKey(SubsystemIndex(k.first), DiscreteVariableIndex(k.second)));
            for (auto& k : op.pce) ces.push_back(CacheEntryKey(SubsystemIndex(k.first), CacheEntryIndex(k.second)));
            AbstractValue* vp = newVal(op.tok);
            try { ret = R.allocateCacheEntryWithPrerequisites(sx, st(op.g), st(op.g2), op.bq, op.bu, op.bz, dvs, ces, vp); } catch (...) { delete vp; throw; }
            break; }
        case K_AllocQErr: ret = R.allocateQErr(sx, op.n); break;
        case K_AllocUErr: ret = R.allocateUErr(sx, op.n); break;
        case K_AllocUDotErr: ret = R.allocateUDotErr(sx, op.n); break;
        case K_AdvSub:
            for (int ci : op.early) R.markCacheValueRealized(sx, CacheEntryIndex(ci));
            R.advanceSubsystemToStage(sx, st(op.g)); break;
        case K_AdvSys: R.advanceSystemToStage(st(op.g)); break;
        case K_InvAll: R.invalidateAll(st(op.g)); break;
        case K_InvCache: R.invalidateAllCacheAtOrAbove(st(op.g)); break;
        case K_UpdQ: if (op.mark) R.setQ(toVector(op.vals)); else writeVec(R.updQ(), op.vals); break;
        case K_UpdU: if (op.mark) R.setU(toVector(op.vals)); else writeVec(R.updU(), op.vals); break;
        case K_UpdZ: if (op.mark) R.setZ(toVector(op.vals)); else writeVec(R.updZ(), op.vals); break;
        case K_UpdY: if (op.mark) R.setY(toVector(op.vals)); else writeVec(R.updY(), op.vals); break;
        case K_UpdTime: if (op.mark) R.setTime(op.vals[0]); else R.updTime() = op.vals[0]; break;
        case K_UpdQSub: writeVec(R.updQ(sx), op.vals); break;
        case K_UpdUSub: writeVec(R.updU(sx), op.vals); break;
        case K_UpdZSub: writeVec(R.updZ(sx), op.vals); break;
        case K_UpdUW: writeVec(R.updUWeights(), op.vals); break;
        case K_UpdZW: writeVec(R.updZWeights(), op.vals); break;
        case K_UpdUWSub: writeVec(R.updUWeights(sx), op.vals); break;
        case K_UpdZWSub: writeVec(R.updZWeights(sx), op.vals); break;
        case K_UpdQEW: writeVec(R.updQErrWeights(), op.vals); break;
        case K_UpdUEW: writeVec(R.updUErrWeights(), op.vals); break;
        case K_UpdQEWSub: writeVec(R.updQErrWeights(sx), op.vals); break;
        case K_UpdUEWSub: writeVec(R.updUErrWeights(sx), op.vals); break;
        case K_UpdDV:
            if (op.mark) R.setDiscreteVariable(sx, DiscreteVariableIndex(op.idx), Value<std::string>(tokStr(op.tok)));
            else Value<std::string>::updDowncast(R.updDiscreteVariable(sx, DiscreteVariableIndex(op.idx))).upd() = tokStr(op.tok);
            break;
        case K_Mark: R.markCacheValueRealized(sx, CacheEntryIndex(op.idx)); break;
        case K_Unmark: R.markCacheValueNotRealized(sx, CacheEntryIndex(op.idx)); break;
        case K_UpdCE: Value<std::string>::updDowncast(R.updCacheEntry(sx, CacheEntryIndex(op.idx))).upd() = tokStr(op.tok); break;
        case K_UpdDVUpd:
            Value<std::string>::updDowncast(R.updDiscreteVarUpdateValue(sx, DiscreteVariableIndex(op.idx))).upd() = tokStr(op.tok);
            if (op.mark) R.markDiscreteVarUpdateValueRealized(sx, DiscreteVariableIndex(op.idx));
            break;
        case K_AutoUpdate: R.autoUpdateDiscreteVariables(); break;
        case K_Snap: { Array_<StageVersion> v; R.getSystemStageVersions(v); o.m.realSnap.assign(v.begin(), v.end()); break; }
        case K_Diff: { Array_<StageVersion> v(o.m.realSnap.begin(), o.m.realSnap.end()); ret = (int)R.getLowestSystemStageDifference(v); break; }
        case K_ToString: { std::ostringstream os; os << R; if (os.str().size() < 20) throw std::runtime_error("harness: State dump is empty"); break; }
        default: break;
        }
    }

    // ---------------------------------------------------------------- one lock-step step
    std::string entryKind(const Op& op, const MState& m) const {
        switch (op.kind) {
        case K_Mark: case K_Unmark: case K_UpdCE: return m.subs[op.sub].ce[op.idx].kind();
        case K_UpdDV: case K_UpdDVUpd: return m.subs[op.sub].dv[op.idx].autoCE >= 0 ? "autodv" : "dv";
        case K_AllocCE: return op.g2 == SInfinity ? "lazy" : (op.g2 == op.g ? "exact" : "bounded");
        case K_AllocCEPre: return op.g2 == SInfinity ? "lazy+pre" : "bounded+pre";
        case K_AllocAuto: return "autodv";
        case K_AllocDV: return "dv";
        default: return "-";
        }
    }
    static bool subBased(int k) {
        switch (k) { case K_AdvSys: case K_InvAll: case K_InvCache: case K_UpdQ: case K_UpdU: case K_UpdZ: case K_UpdY: case K_UpdTime: case K_UpdUW: case K_UpdZW:
        case K_UpdQEW: case K_UpdUEW: case K_AutoUpdate: case K_Snap: case K_Diff: case K_ToString: return false; default: return true; }
    }
    void skipOp(const char* why) { c.skip(why); hist.back() += "  [skipped: " + std::string(why) + "]"; }

    void step(const Op& op) {
        if (dead) return;
        hist.push_back(op.str());
        const std::string nm = KN[op.kind];
        c.setPhase(hist.back());
        Obj& o = objs[op.obj];
        switch (op.kind) {
        case K_CopyCtor: case K_CopyAssign: case K_AssignFromEmpty: {
            Obj& d = objs[op.obj2];
            MState trial = copyOf(o.m);
            if (hasDangling(trial)) { skipOp("prerequisite-would-dangle"); return; }
            try {
                if (op.kind == K_CopyCtor) { d.real.reset(new State(*o.real)); d.live = true; }
                else *d.real = *o.real;
            } catch (const std::exception& ex) { fail(nm + ":legal-op-threw", ex.what(), op.obj2); return; }
            c.cover(nm + (op.kind == K_CopyCtor ? "-construct" : (d.m.impl ? "-assign" : "-assign-to-moved")) + "|s" + SN[o.m.impl ? o.m.sys : 0] + "|-|ok");
            d.m = trial;
            break; }
        case K_SelfAssign: {
            State& a = *o.real; State& b = *o.real;
            try { a = b; } catch (const std::exception& ex) { fail(nm + ":legal-op-threw", ex.what(), op.obj); return; }
            c.cover(nm + "|s" + SN[o.m.sys] + "|-|ok");
            break; }
        case K_MoveCtor: {
            Obj& d = objs[op.obj2];
            d.real.reset(new State(std::move(*o.real))); d.live = true;
            d.m = o.m; o.m = MState(); o.m.impl = false;
            c.cover(nm + "|s" + SN[d.m.sys] + "|-|ok");
            break; }
        case K_MoveAssign: {
            Obj& d = objs[op.obj2];
            *d.real = std::move(*o.real);
            std::swap(d.m, o.m);
            c.cover(nm + "|s" + SN[d.m.impl ? d.m.sys : 0] + "|-|ok");
            break; }
        case K_Destroy: o.real.reset(); o.live = false; o.m = MState(); c.cover(nm + "|-|-|ok"); break;
        case K_Clear: {
            try {
                o.real->clear();
                if (op.mark) o.real->setNumSubsystems(op.n);
                else for (int i = 0; i < op.n; ++i) { SubsystemIndex sx = o.real->addSubsystem("sub" + std::to_string(i), "v1"); if ((int)sx != i) { fail(nm + ":returned-index", "addSubsystem index", op.obj); return; } }
            } catch (const std::exception& ex) { fail(nm + ":legal-op-threw", ex.what(), op.obj); return; }
            c.cover(nm + "|s" + SN[o.m.sys] + "|-|ok");
            o.m = MState(); o.m.subs.resize(op.n);
            break; }
        case K_IsConsistent: {
            Obj& d = objs[op.obj2];
            bool real = false;
            try { real = o.real->isConsistent(*d.real); } catch (const std::exception& ex) { fail(nm + ":legal-op-threw", ex.what(), op.obj); return; }
            bool mod = o.m.subs.size() == d.m.subs.size();
            for (size_t i = 0; mod && i < o.m.subs.size(); ++i) {
                const MSub &a = o.m.subs[i], &b = d.m.subs[i];
                mod = a.nq() == b.nq() && a.nu() == b.nu() && a.nz() == b.nz() && a.nqe() == b.nqe() && a.nue() == b.nue() && a.nude() == b.nude();
            }
            ok(real == mod, nm + ":result", std::string("isConsistent returned ") + (real ? "true" : "false"), op.obj);
            c.cover(nm + "|s" + SN[o.m.sys] + "|-|" + (real ? "true" : "false"));
            break; }
        default: {
            MState trial = o.m;
            const int stageBefore = subBased(op.kind) ? o.m.subs[op.sub].stage : o.m.sys;
            const std::string ek = entryKind(op, o.m);
            const int e = modelOp(op, trial);
            if (e == 2) { skipOp("autoupdate-with-dontcare-entry"); return; }
            if (e == 0 && hasDangling(trial)) { skipOp("prerequisite-would-dangle"); return; }
            bool threw = false; std::string what; long ret = -1;
            try { realOp(op, o, ret); } catch (const std::exception& ex) { threw = true; what = ex.what(); }
            std::string outcome = "ok";
            if (e == 0) {
                if (threw) { fail(nm + ":legal-op-threw", firstLine(what, 400), op.obj); return; }
                std::vector<long long> snap = o.m.realSnap;
                o.m = trial; o.m.realSnap = snap;
                if (expectRet >= 0 && !ok(ret == expectRet, nm + (op.kind == K_Diff ? ":lowest-difference" : ":returned-index"),
                                          "returned " + std::to_string(ret) + ", model " + std::to_string(expectRet), op.obj)) return;
                if (op.kind == K_Diff) outcome = SN[ret];
                if (op.kind == K_Mark) outcome = valid(o.m.subs[op.sub], o.m.subs[op.sub].ce[op.idx]) == 1 ? "valid" : "not-yet-valid";
            } else {
                outcome = "rejected"; c.obs("illegal-ops-rejected");
                if (!threw) { fail(nm + ":illegal-op-not-rejected", "no exception", op.obj); return; }
            }
            c.cover(nm + "|s" + SN[stageBefore] + "|" + ek + "|" + outcome);
            break; }
        }
        c.obs("ops");
        for (int i = 0; i < 3 && !dead; ++i) compare(i, nm);
    }

    // ---------------------------------------------------------------- observables: real vs model
    static std::string strOf(const AbstractValue& v) { return Value<std::string>::downcast(v).get(); }
    bool sameDependents(const ListOfDependents& L, const std::vector<Key>& want) {
        if (L.size() != want.size()) return false;
        for (auto& k : want) if (!L.contains(CacheEntryKey(SubsystemIndex(k.first), CacheEntryIndex(k.second)))) return false;
        return true;
    }
    template <class V> bool sameVec(const V& v, const std::vector<double>& x, int off = 0, int n = -1) {
        if (n < 0) n = (int)x.size();
        if (v.size() != n) return false;
        for (int i = 0; i < n; ++i) if (!sameReal(v[i], x[off + i])) return false;
        return true;
    }

    void compare(int oi, const std::string& opn) {
        Obj& o = objs[oi];
        if (!o.live || !o.m.impl) return;
        try { compareInner(oi, opn); }
        catch (const std::exception& ex) { fail(opn + ":observer-threw", firstLine(ex.what(), 400), oi); }
    }
#define CK(cond, what, detail) do { ++ncmp; if (!(cond)) { fail(opn + ":" + (what), (detail), oi); return; } } while (0)
    void compareInner(int oi, const std::string& opn) {
        Obj& o = objs[oi]; const State& R = *o.real; MState& m = o.m;
        const int ns = (int)m.subs.size();
        CK(R.getNumSubsystems() == ns, "num-subsystems", "real " + std::to_string(R.getNumSubsystems()));
        CK((int)R.getSystemStage() == m.sys, (int)R.getSystemStage() < m.sys ? "stage-lower-than-documented" : "stage-not-invalidated", std::string("system stage real ") + SN[(int)R.getSystemStage()] + ", model " + SN[m.sys]);
        for (int si = 0; si < ns; ++si) {
            const SubsystemIndex sx(si); MSub& b = m.subs[si];
            const int rs = (int)R.getSubsystemStage(sx);
            CK(rs == b.stage, rs < b.stage ? "stage-lower-than-documented" : "stage-not-invalidated", "sub" + std::to_string(si) + " real " + SN[rs] + ", model " + SN[b.stage]);
            // stage versions: change / no-change only
            const PerSubsystemInfo& psi = R.getPerSubsystemInfo(sx);
            for (int g = STopology; g <= SReport; ++g) {
                const long long rv = psi.getStageVersion(st(g));
                if (b.seen) {
                    const bool cm = b.sver[g] != b.sverSeen[g], cr = rv != b.realSver[g];
                    CK(cm == cr, cm ? "stage-version-not-bumped" : "stage-version-bumped-without-invalidation",
                       "sub" + std::to_string(si) + " stage " + SN[g]);
                }
                b.realSver[g] = rv; b.sverSeen[g] = b.sver[g];
            }
            b.seen = true;
            // discrete variables
            const int ndv = (int)b.dv.size();
            CK(!R.hasDiscreteVar(DiscreteVarKey(sx, DiscreteVariableIndex(ndv))), "discrete-variable-not-forgotten", "sub" + std::to_string(si) + " index " + std::to_string(ndv));
            for (int di = 0; di < ndv; ++di) {
                const DiscreteVariableIndex dx(di); MDV& v = b.dv[di]; const DiscreteVarKey dk(sx, dx);
                auto idf = [&] { return "sub" + std::to_string(si) + " dv" + std::to_string(di); };
#define id idf()
                CK(R.hasDiscreteVar(dk), "discrete-variable-lost", id);
                CK((int)R.getDiscreteVarAllocationStage(sx, dx) == v.alloc, "dv-allocation-stage", id);
                CK((int)R.getDiscreteVarInvalidatesStage(sx, dx) == v.inval, "dv-invalidates-stage", id);
                const CacheEntryIndex ux = R.getDiscreteVarUpdateIndex(sx, dx);
                CK((ux.isValid() ? (int)ux : -1) == v.autoCE, "dv-update-index", id);
                const std::string rv = strOf(R.getDiscreteVariable(sx, dx));
                CK(rv == tokStr(v.val), "discrete-variable-value", id + " real " + rv.substr(0, 12) + ", model " + tokStr(v.val).substr(0, 12));
                CK(sameReal(R.getDiscreteVarLastUpdateTime(sx, dx), v.tLast), "dv-last-update-time", id);
                const DiscreteVarInfo& info = R.getDiscreteVarInfo(dk);
                const long long ver = info.getValueVersion();
                if (v.realVer >= 0 && v.ver != v.verSeen) CK(ver > v.realVer, "dv-value-version-not-incremented", id);
                v.realVer = ver; v.verSeen = v.ver;
                std::vector<Key> want;
                for (int s2 = 0; s2 < ns; ++s2) for (int c2 = 0; c2 < (int)m.subs[s2].ce.size(); ++c2) if (contains(m.subs[s2].ce[c2].pdv, Key(si, di))) want.push_back(Key(s2, c2));
                CK(sameDependents(info.getDependents(), want), "dv-dependents-list", id);
#undef id
            }
            // cache entries
            const int nce = (int)b.ce.size();
            CK(!R.hasCacheEntry(CacheEntryKey(sx, CacheEntryIndex(nce))), "cache-entry-not-forgotten", "sub" + std::to_string(si) + " index " + std::to_string(nce));
            for (int ci = 0; ci < nce; ++ci) {
                const CacheEntryIndex cx(ci); MCE& e = b.ce[ci]; const CacheEntryKey ck(sx, cx);
                auto idf = [&] { return "sub" + std::to_string(si) + " ce" + std::to_string(ci) + " <" + SN[e.dep] + "," + SN[e.comp] + "," + e.kind() + "> at " + SN[b.stage]; };
#define id idf()
                CK(R.hasCacheEntry(ck), "cache-entry-lost", id);
                CK((int)R.getCacheEntryAllocationStage(sx, cx) == e.alloc, "ce-allocation-stage", id);
                const bool rvalid = R.isCacheValueRealized(sx, cx);
                const int mv = valid(b, e);
                if (mv == 2) c.obs("dontcare-validity-after-copy");
                else if (rvalid && mv == 0) { fail(std::string(e.cause) + ":stale-entry-valid", id + " reads valid; model: invalid since " + e.cause, oi); return; }
                else if (!rvalid && mv == 1) { fail(opn + ":valid-entry-reads-invalid", id + " reads invalid; model: valid since " + e.cause, oi); return; }
                else ++ncmp;
                if (e.assocDV >= 0) CK(R.isDiscreteVarUpdateValueRealized(sx, DiscreteVariableIndex(e.assocDV)) == rvalid, "update-value-realized-disagrees", id);
                // value is always reachable through updCacheEntry
                const std::string val = strOf(R.updCacheEntry(sx, cx));
                CK(val == tokStr(e.val), "cache-entry-value", id + " real " + val.substr(0, 12) + ", model " + tokStr(e.val).substr(0, 12));
                // getCacheEntry must throw iff not valid (all valid ones, a sample of the invalid ones)
                if (rvalid || r.coin(0.15)) {
                    bool threw = false;
                    try { const AbstractValue& av = R.getCacheEntry(sx, cx); if (strOf(av) != val) { fail(opn + ":getCacheEntry-value", id, oi); return; } }
                    catch (const std::exception&) { threw = true; }
                    CK(threw == !rvalid, threw ? "getCacheEntry-threw-on-valid-entry" : "getCacheEntry-returned-stale-entry", id);
                    c.obs(threw ? "getCacheEntry-threw-as-predicted" : "getCacheEntry-returned-as-predicted");
                    if (r.coin(0.2)) c.cover(std::string("getCacheEntry|s") + SN[b.stage] + "|" + e.kind() + (threw ? "|threw" : "|returned"));
                }
                const CacheEntryInfo& info = R.getCacheEntryInfo(ck);
                const long long ver = info.getValueVersion();
                if (e.realVer >= 0 && e.ver != e.verSeen) CK(ver > e.realVer, "ce-value-version-not-incremented", id);
                e.realVer = ver; e.verSeen = e.ver;
                std::vector<Key> want;
                for (int s2 = 0; s2 < ns; ++s2) for (int c2 = 0; c2 < (int)m.subs[s2].ce.size(); ++c2) if (contains(m.subs[s2].ce[c2].pce, Key(si, ci))) want.push_back(Key(s2, c2));
                CK(sameDependents(info.getDependents(), want), "ce-dependents-list", id);
#undef id
            }
        }
        // q/u/z dependents
        {
            std::vector<Key> wq, wu, wz;
            for (int s2 = 0; s2 < ns; ++s2) for (int c2 = 0; c2 < (int)m.subs[s2].ce.size(); ++c2) {
                const MCE& e = m.subs[s2].ce[c2];
                if (e.pq) wq.push_back(Key(s2, c2)); if (e.pu) wu.push_back(Key(s2, c2)); if (e.pz) wz.push_back(Key(s2, c2));
            }
            CK(sameDependents(R.getQDependents(), wq), "q-dependents-list", "");
            CK(sameDependents(R.getUDependents(), wu), "u-dependents-list", "");
            CK(sameDependents(R.getZDependents(), wz), "z-dependents-list", "");
        }
        if (m.sys >= STopology) CK(sameReal(R.getTime(), m.t), "time-value", "real " + std::to_string(R.getTime()) + ", model " + std::to_string(m.t));
        // value versions of q,u,z: model bump => real increment
        {
            const long long rq = R.getQValueVersion(), ru = R.getUValueVersion(), rz = R.getZValueVersion();
            if (m.realQv >= 0 && m.qv != m.qvSeen) CK(rq > m.realQv, "q-value-version-not-incremented", "");
            if (m.realUv >= 0 && m.uv != m.uvSeen) CK(ru > m.realUv, "u-value-version-not-incremented", "");
            if (m.realZv >= 0 && m.zv != m.zvSeen) CK(rz > m.realZv, "z-value-version-not-incremented", "");
            if (m.sys >= SModel) {
                // independent of the model: values seen to differ => version must differ
                std::vector<double> cq(R.getNQ()), cu(R.getNU()), cz(R.getNZ());
                for (int i = 0; i < R.getNQ(); ++i) cq[i] = R.getQ()[i];
                for (int i = 0; i < R.getNU(); ++i) cu[i] = R.getU()[i];
                for (int i = 0; i < R.getNZ(); ++i) cz[i] = R.getZ()[i];
                if (m.haveSeenY) {
                    CK(cq == m.seenQ || rq != m.seenQv, "q-changed-with-same-version", "");
                    CK(cu == m.seenU || ru != m.seenUv, "u-changed-with-same-version", "");
                    CK(cz == m.seenZ || rz != m.seenZv, "z-changed-with-same-version", "");
                }
                m.seenQ = cq; m.seenU = cu; m.seenZ = cz; m.haveSeenY = true; m.seenQv = rq; m.seenUv = ru; m.seenZv = rz;
            }
            m.realQv = rq; m.realUv = ru; m.realZv = rz; m.qvSeen = m.qv; m.uvSeen = m.uv; m.zvSeen = m.zv;
        }
        if (m.sys >= SModel) {
            CK(R.getNQ() == (int)m.q.size() && R.getNU() == (int)m.u.size() && R.getNZ() == (int)m.z.size() && R.getNY() == (int)(m.q.size() + m.u.size() + m.z.size()),
               "continuous-dimensions", "nq,nu,nz real " + std::to_string(R.getNQ()) + "," + std::to_string(R.getNU()) + "," + std::to_string(R.getNZ()));
            CK(sameVec(R.getQ(), m.q), "q-value", ""); CK(sameVec(R.getU(), m.u), "u-value", ""); CK(sameVec(R.getZ(), m.z), "z-value", "");
            { const Vector& y = R.getY(); std::vector<double> my = m.q; my.insert(my.end(), m.u.begin(), m.u.end()); my.insert(my.end(), m.z.begin(), m.z.end()); CK(sameVec(y, my), "y-value", ""); }
            CK(sameVec(R.getUWeights(), m.uw), "u-weights", ""); CK(sameVec(R.getZWeights(), m.zw), "z-weights", "");
            for (int si = 0; si < ns; ++si) {
                const SubsystemIndex sx(si); const MSub& b = m.subs[si]; auto idf = [&] { return "sub" + std::to_string(si); };
                CK((int)R.getQStart(sx) == m.qStart(si) && R.getNQ(sx) == b.nq() && (int)R.getUStart(sx) == m.uStart(si) && R.getNU(sx) == b.nu()
                   && (int)R.getZStart(sx) == m.zStart(si) && R.getNZ(sx) == b.nz(), "subsystem-partition", idf());
                CK(sameVec(R.getQ(sx), m.q, m.qStart(si), b.nq()), "q-value(sub)", idf());
                CK(sameVec(R.getU(sx), m.u, m.uStart(si), b.nu()), "u-value(sub)", idf());
                CK(sameVec(R.getZ(sx), m.z, m.zStart(si), b.nz()), "z-value(sub)", idf());
                CK(sameVec(R.getUWeights(sx), m.uw, m.uStart(si), b.nu()), "u-weights(sub)", idf());
                CK(sameVec(R.getZWeights(sx), m.zw, m.zStart(si), b.nz()), "z-weights(sub)", idf());
            }
        }
        if (m.sys >= SInstance) {
            int nude = 0; for (auto& b : m.subs) nude += b.nude();
            CK(R.getNQErr() == (int)m.qew.size() && R.getNUErr() == (int)m.uew.size() && R.getNUDotErr() == nude && R.getNMultipliers() == nude
               && R.getNYErr() == (int)(m.qew.size() + m.uew.size()), "constraint-dimensions", "");
            CK(sameVec(R.getQErrWeights(), m.qew), "qerr-weights", ""); CK(sameVec(R.getUErrWeights(), m.uew), "uerr-weights", "");
            for (int si = 0; si < ns; ++si) {
                const SubsystemIndex sx(si); const MSub& b = m.subs[si]; auto idf = [&] { return "sub" + std::to_string(si); };
                CK((int)R.getQErrStart(sx) == m.qeStart(si) && R.getNQErr(sx) == b.nqe() && (int)R.getUErrStart(sx) == m.ueStart(si) && R.getNUErr(sx) == b.nue()
                   && (int)R.getUDotErrStart(sx) == m.udeStart(si) && R.getNUDotErr(sx) == b.nude(), "constraint-partition", idf());
                CK(sameVec(R.getQErrWeights(sx), m.qew, m.qeStart(si), b.nqe()), "qerr-weights(sub)", idf());
                CK(sameVec(R.getUErrWeights(sx), m.uew, m.ueStart(si), b.nue()), "uerr-weights(sub)", idf());
            }
        }
    }
#undef CK

    // ---------------------------------------------------------------- generator
    std::vector<Op> pending;     // compound operations (realize to stage g) are queued here, executed in order
    static const int MAXCHUNK = 3, MAXDV = 5, MAXCE = 9;

    std::vector<double> randVals(int n, bool positive = false) { std::vector<double> v(n); for (auto& x : v) x = positive ? r.uni(0.1, 5.0) : r.sym(10.0); return v; }
    long newTok() { return ++tokCounter; }
    int focus = 0, allocBias = 0;   // focus: object most recently created/assigned (keeps working on a fresh copy)
    int pickImpl() {
        std::vector<int> v; for (int i = 0; i < 3; ++i) if (objs[i].live && objs[i].m.impl && !objs[i].m.subs.empty()) v.push_back(i);
        if (v.empty()) return -1;
        if (objs[focus].live && objs[focus].m.impl && !objs[focus].m.subs.empty() && r.coin(0.55)) return focus;
        return v[r.next() % v.size()];
    }
    int freeSlot() { for (int i = 0; i < 3; ++i) if (!objs[i].live) return i; return -1; }

    std::vector<int> earlyMarks(const MSub& b, int g) {
        std::vector<int> e;
        for (int ci = 0; ci < (int)b.ce.size(); ++ci) if (b.ce[ci].dep == g && r.coin(0.35)) e.push_back(ci);
        return e;
    }
    void planRealize(int oi, const MState& m, int g) {
        std::vector<int> sim; for (auto& b : m.subs) sim.push_back(b.stage);
        for (int s = m.sys + 1; s <= g; ++s) {
            for (int si = 0; si < (int)sim.size(); ++si)
                while (sim[si] < s) { Op a; a.kind = K_AdvSub; a.obj = oi; a.sub = si; a.g = sim[si] + 1; a.early = earlyMarks(m.subs[si], a.g); pending.push_back(a); ++sim[si]; }
            Op a; a.kind = K_AdvSys; a.obj = oi; a.g = s; pending.push_back(a);
        }
    }
    bool genAdvance(Op& op, const MState& m, bool plans) {
        const int ns = (int)m.subs.size();
        const double x = r.uni();
        if (plans && x < 0.30 && m.sys < SReport) {   // realize the whole State to a later stage
            int g = r.integer(m.sys + 1, SReport);
            if (r.coin(0.5)) g = std::min(g, m.sys + 2);
            planRealize(op.obj, m, g);
            op = pending.front(); pending.erase(pending.begin()); return true;
        }
        if (x < 0.55 && m.sys < SReport && m.minSub() > m.sys) { op.kind = K_AdvSys; op.g = m.sys + 1; return true; }
        std::vector<int> cand;
        for (int si = 0; si < ns; ++si) if (m.subs[si].stage < SReport && m.subs[si].stage + 1 - m.sys <= aheadMax) cand.push_back(si);
        if (cand.empty()) return false;
        op.kind = K_AdvSub; op.sub = cand[r.next() % cand.size()]; op.g = m.subs[op.sub].stage + 1; op.early = earlyMarks(m.subs[op.sub], op.g);
        return true;
    }
    int randDep() { return r.coin(0.2) ? r.integer(STopology, SInstance) : r.integer(STime, SReport); }
    int randComp(int dep) { const double x = r.uni(); if (x < 0.45) return SInfinity; if (x < 0.65 || dep == SReport) return dep; return r.integer(dep + 1, SReport); }
    void pickPrereqs(Op& op, const MState& m) {
        op.bq = r.coin(0.3); op.bu = r.coin(0.3); op.bz = r.coin(0.3);
        std::vector<Key> dvs, ces;
        for (int si = 0; si < (int)m.subs.size(); ++si) {
            for (int di = 0; di < (int)m.subs[si].dv.size(); ++di) dvs.push_back(Key(si, di));
            for (int ci = 0; ci < (int)m.subs[si].ce.size(); ++ci) if (m.subs[si].ce[ci].dep <= op.g) ces.push_back(Key(si, ci));
        }
        for (int k = r.integer(0, 2); k > 0 && !dvs.empty(); --k) { Key c = dvs[r.next() % dvs.size()]; if (!contains(op.pdv, c)) op.pdv.push_back(c); }
        for (int k = r.integer(0, 2); k > 0 && !ces.empty(); --k) { Key c = ces[r.next() % ces.size()]; if (!contains(op.pce, c)) op.pce.push_back(c); }
        if (!op.bq && !op.bu && !op.bz && op.pdv.empty() && op.pce.empty()) op.bz = true;
    }
    bool genAlloc(Op& op, const MState& m) {
        std::vector<int> cand;
        for (int si = 0; si < (int)m.subs.size(); ++si) if (m.subs[si].stage < SInstance) cand.push_back(si);
        if (cand.empty()) return false;
        op.sub = cand[r.next() % cand.size()];
        const MSub& b = m.subs[op.sub];
        op.tok = newTok();
        for (int attempt = 0; attempt < 8; ++attempt) {
            const int w = r.integer(0, 9);
            if (w <= 2 && b.stage < SModel) {
                const std::vector<MChunk>& v = w == 0 ? b.q : (w == 1 ? b.u : b.z);
                if ((int)v.size() >= MAXCHUNK) continue;
                op.kind = w == 0 ? K_AllocQ : (w == 1 ? K_AllocU : K_AllocZ); op.vals = randVals(r.integer(1, 3)); return true;
            }
            if (w == 3 && b.stage <= STopology && (int)b.dv.size() < MAXDV) {
                op.kind = K_AllocDV; op.g = b.stage == SEmpty ? r.integer(SModel, SReport) : r.integer(SInstance, SReport); return true;
            }
            if (w == 4 && b.stage <= STopology && (int)b.dv.size() < MAXDV && (int)b.ce.size() < MAXCE) {
                op.kind = K_AllocAuto; op.g = r.integer(SPosition, SReport); op.g2 = r.coin(0.15) ? r.integer(STopology, SInstance) : r.integer(STime, SReport); return true;
            }
            if ((w == 5 || w == 6) && (int)b.ce.size() < MAXCE) { op.kind = K_AllocCE; op.g = randDep(); op.g2 = randComp(op.g); return true; }
            if ((w == 7 || w == 8) && (int)b.ce.size() < MAXCE) {
                op.kind = K_AllocCEPre; op.g = randDep(); op.g2 = r.coin(0.7) ? (int)SInfinity : randComp(op.g); pickPrereqs(op, m); return true;
            }
            if (w == 9) {
                const int k = r.integer(0, 2); const std::vector<MErr>& v = k == 0 ? b.qe : (k == 1 ? b.ue : b.ude);
                if ((int)v.size() >= MAXCHUNK) continue;
                op.kind = k == 0 ? K_AllocQErr : (k == 1 ? K_AllocUErr : K_AllocUDotErr); op.n = r.integer(1, 3); return true;
            }
        }
        return false;
    }
    bool pickDV(const MState& m, Op& op, bool wantAuto, bool wantPlain = false) {
        std::vector<Key> v;
        for (int si = 0; si < (int)m.subs.size(); ++si) for (int di = 0; di < (int)m.subs[si].dv.size(); ++di) {
            const bool a = m.subs[si].dv[di].autoCE >= 0;
            if ((wantAuto && !a) || (wantPlain && a)) continue;
            v.push_back(Key(si, di));
        }
        if (v.empty()) return false;
        Key k = v[r.next() % v.size()]; op.sub = k.first; op.idx = k.second; return true;
    }
    bool genVarWrite(Op& op, const MState& m) {
        const int ns = (int)m.subs.size();
        op.mark = r.coin(0.3);      // use the setX() spelling
        for (int attempt = 0; attempt < 8; ++attempt) {
            const int w = r.integer(0, 19);
            op.sub = r.integer(0, ns - 1);
            const MSub& b = m.subs[op.sub];
            if (w <= 3) { if (!pickDV(m, op, false)) continue; op.kind = K_UpdDV; op.tok = newTok(); return true; }
            if (w == 4 && m.sys >= STopology) { op.kind = K_UpdTime; op.vals = randVals(1); return true; }
            if (m.sys < SModel) continue;
            switch (w) {
            case 5: case 6: op.kind = K_UpdQ; op.vals = randVals((int)m.q.size()); return true;
            case 7: case 8: op.kind = K_UpdU; op.vals = randVals((int)m.u.size()); return true;
            case 9: case 10: op.kind = K_UpdZ; op.vals = randVals((int)m.z.size()); return true;
            case 11: op.kind = K_UpdY; op.vals = randVals((int)(m.q.size() + m.u.size() + m.z.size())); return true;
            case 12: op.kind = K_UpdQSub; op.vals = randVals(b.nq()); return true;
            case 13: op.kind = K_UpdUSub; op.vals = randVals(b.nu()); return true;
            case 14: op.kind = K_UpdZSub; op.vals = randVals(b.nz()); return true;
            case 15: if (r.coin()) { op.kind = K_UpdUW; op.vals = randVals((int)m.u.size(), true); } else { op.kind = K_UpdUWSub; op.vals = randVals(b.nu(), true); } return true;
            case 16: if (noZW) continue; if (r.coin()) { op.kind = K_UpdZW; op.vals = randVals((int)m.z.size(), true); } else { op.kind = K_UpdZWSub; op.vals = randVals(b.nz(), true); } return true;
            case 17: case 18: case 19:
                if (m.sys < SInstance) continue;
                if (w == 17) { if (r.coin()) { op.kind = K_UpdQEW; op.vals = randVals((int)m.qew.size(), true); } else { op.kind = K_UpdQEWSub; op.vals = randVals(b.nqe(), true); } }
                else { if (r.coin()) { op.kind = K_UpdUEW; op.vals = randVals((int)m.uew.size(), true); } else { op.kind = K_UpdUEWSub; op.vals = randVals(b.nue(), true); } }
                return true;
            }
        }
        return false;
    }
    bool noZW = false;   // --nozw 1 : leave updZWeights() out (to look past a finding on it)
    bool noAutoLate = false;   // --noautolate 1 : leave out the too-late allocateAutoUpdateDiscreteVariable (ditto)
    bool genCacheOp(Op& op, const MState& m) {
        std::vector<Key> all, markable;
        for (int si = 0; si < (int)m.subs.size(); ++si) for (int ci = 0; ci < (int)m.subs[si].ce.size(); ++ci) {
            all.push_back(Key(si, ci));
            if (m.subs[si].stage >= m.subs[si].ce[ci].dep) markable.push_back(Key(si, ci));
        }
        for (int attempt = 0; attempt < 6; ++attempt) {
            const double x = r.uni();
            if (x < 0.40) { if (markable.empty()) continue; Key k = markable[r.next() % markable.size()]; op.kind = K_Mark; op.sub = k.first; op.idx = k.second; return true; }
            if (x < 0.52) { if (all.empty()) continue; Key k = all[r.next() % all.size()]; op.kind = K_Unmark; op.sub = k.first; op.idx = k.second; return true; }
            if (x < 0.64) { if (all.empty()) continue; Key k = all[r.next() % all.size()]; op.kind = K_UpdCE; op.sub = k.first; op.idx = k.second; op.tok = newTok(); return true; }
            if (x < 0.84) {
                if (!pickDV(m, op, true)) continue;
                const MSub& b = m.subs[op.sub];
                op.kind = K_UpdDVUpd; op.tok = newTok(); op.mark = b.stage >= b.ce[b.dv[op.idx].autoCE].dep && r.coin(0.7); return true;
            }
            if (m.sys >= STopology) { op.kind = K_AutoUpdate; return true; }
        }
        return false;
    }
    bool genObjectOp(Op& op) {
        std::vector<int> live, impl, empty;
        for (int i = 0; i < 3; ++i) if (objs[i].live) { live.push_back(i); (objs[i].m.impl ? impl : empty).push_back(i); }
        const int fs = freeSlot();
        for (int attempt = 0; attempt < 8; ++attempt) {
            const int w = r.integer(0, 9);
            const int src = impl[r.next() % impl.size()];
            op.obj = src;
            int other = -1; { std::vector<int> o; for (int i : live) if (i != src) o.push_back(i); if (!o.empty()) other = o[r.next() % o.size()]; }
            if (w <= 2 && fs >= 0) { op.kind = K_CopyCtor; op.obj2 = fs; return true; }
            if ((w == 3 || w == 4) && other >= 0) { op.kind = K_CopyAssign; op.obj2 = other; return true; }
            if (w == 5) { op.kind = K_SelfAssign; return true; }
            if (w == 6 && fs >= 0) { op.kind = K_MoveCtor; op.obj2 = fs; return true; }
            if (w == 7 && other >= 0) { op.kind = K_MoveAssign; op.obj2 = other; return true; }
            if (w == 8 && !empty.empty()) { op.obj = empty[r.next() % empty.size()]; std::vector<int> o; for (int i : live) if (i != op.obj) o.push_back(i); op.kind = K_AssignFromEmpty; op.obj2 = o[r.next() % o.size()]; return true; }
            if (w == 9 && live.size() >= 2) {
                if (!empty.empty() && r.coin()) op.obj = empty[0];
                else if (impl.size() >= 2) op.obj = src; else continue;
                op.kind = K_Destroy; return true;
            }
        }
        return false;
    }
    bool genIllegal(Op& op, const MState& m) {
        const int ns = (int)m.subs.size();
        for (int attempt = 0; attempt < 10; ++attempt) {
            op.sub = r.integer(0, ns - 1); const MSub& b = m.subs[op.sub];
            op.tok = newTok();
            const int w = r.integer(0, DBG ? 11 : 6);
            switch (w) {
            case 0: if (b.stage < SModel) continue; op.kind = K_AllocQ + r.integer(0, 2); op.vals = randVals(2); return true;
            case 1:
                op.kind = K_AllocDV;
                if (r.coin(0.3)) { op.g = r.coin() ? (int)SEmpty : (int)SInfinity; return true; }
                if (b.stage >= SModel) { op.g = r.integer(SModel, SReport); return true; }
                if (b.stage == STopology) { op.g = SModel; return true; }
                continue;
            case 2:
                op.kind = K_AllocCE;
                if (r.coin(0.3)) { op.g = r.coin() ? (int)SEmpty : (int)SInfinity; op.g2 = SInfinity; return true; }
                if (r.coin(0.3)) { op.g = r.integer(SModel, SReport); op.g2 = r.integer(STopology, op.g - 1); return true; }
                if (b.stage >= SInstance) { op.g = randDep(); op.g2 = randComp(op.g); return true; }
                continue;
            case 3: {
                std::vector<Key> later;
                for (int si = 0; si < ns; ++si) for (int ci = 0; ci < (int)m.subs[si].ce.size(); ++ci) if (m.subs[si].ce[ci].dep > STopology) later.push_back(Key(si, ci));
                if (later.empty()) continue;
                Key k = later[r.next() % later.size()];
                op.kind = K_AllocCEPre; op.g = r.integer(STopology, m.subs[k.first].ce[k.second].dep - 1); op.g2 = SInfinity; op.pce.push_back(k); op.bq = r.coin(); return true; }
            case 4: if (b.stage < SInstance) continue; op.kind = K_AllocQErr + r.integer(0, 2); op.n = 2; return true;
            case 5: op.kind = K_InvCache; op.g = r.integer(STopology, SModel); return true;
            case 6:
                if (b.stage >= SModel && !noAutoLate && r.coin()) { op.kind = K_AllocAuto; op.g = r.integer(SPosition, SReport); op.g2 = r.integer(STime, SReport); return true; }
                if (b.stage < SInstance) continue; op.kind = K_AllocCEPre; op.g = randDep(); op.g2 = SInfinity; op.bu = true; return true;
            // ---- checked in debug builds only (P2)
            case 7: if (m.sys >= SModel) continue; op.kind = K_UpdQ + r.integer(0, 3); op.vals = randVals(1); return true;
            case 8: if (m.sys >= STopology) continue; op.kind = K_UpdTime; op.vals = randVals(1); return true;
            case 9: if (m.sys >= SInstance) continue; op.kind = r.coin() ? K_UpdQEW : K_UpdUEW; op.vals = randVals(1, true); return true;
            case 10: {
                std::vector<int> v; for (int ci = 0; ci < (int)b.ce.size(); ++ci) if (b.stage < b.ce[ci].dep - 1) v.push_back(ci);
                if (v.empty()) continue; op.kind = K_Mark; op.idx = v[r.next() % v.size()]; return true; }
            case 11: if (!pickDV(m, op, false, true)) continue; op.kind = K_UpdDVUpd; return true;
            }
        }
        return false;
    }

    bool gen(Op& op) {
        if (!pending.empty()) { op = pending.front(); pending.erase(pending.begin()); return true; }
        for (int attempt = 0; attempt < 30; ++attempt) {
            op = Op();
            const int oi = pickImpl();
            if (oi < 0) {   // every handle is empty: bring one back with clear()
                for (int i = 0; i < 3; ++i) if (objs[i].live) { op.kind = K_Clear; op.obj = i; op.n = r.integer(1, 4); op.mark = r.coin(); return true; }
                return false;
            }
            op.obj = oi;
            const MState& m = objs[oi].m;
            if (allocBias > 0) {   // build-up phase: mostly allocations, interleaved with single advances
                --allocBias;
                if (r.coin(0.72)) { if (genAlloc(op, m)) return true; }
                else if (genAdvance(op, m, false)) return true;
                continue;
            }
            const double x = r.uni();
            if (x < 0.17) { if (genAdvance(op, m, true)) return true; }
            else if (x < 0.30) { if (genAlloc(op, m)) return true; }
            else if (x < 0.50) { if (genVarWrite(op, m)) return true; }
            else if (x < 0.74) { if (genCacheOp(op, m)) return true; }
            else if (x < 0.81) {
                if (r.coin(0.7)) { op.kind = K_InvAll; op.g = r.coin() ? r.integer(STime, SReport) : r.integer(STopology, SReport); }
                else { op.kind = K_InvCache; op.g = r.integer(SInstance, SReport); }
                return true;
            }
            else if (x < 0.90) { if (genObjectOp(op)) { if (op.obj2 >= 0 && op.kind != K_IsConsistent) focus = op.obj2; return true; } }
            else if (x < 0.93) { if (m.haveSnap && r.coin(0.6)) op.kind = K_Diff; else op.kind = K_Snap; return true; }
            else if (x < 0.965) { if (genIllegal(op, m)) return true; }
            else {
                const double y = r.uni();
                if (y < 0.5) { op.kind = K_ToString; return true; }
                if (y < 0.88) {
                    std::vector<int> o; for (int i = 0; i < 3; ++i) if (i != oi && objs[i].live && objs[i].m.impl && objs[i].m.sys >= SInstance) o.push_back(i);
                    if (m.sys >= SInstance && !o.empty()) { op.kind = K_IsConsistent; op.obj2 = o[r.next() % o.size()]; return true; }
                    continue;
                }
                op.kind = K_Clear; op.n = r.integer(1, 4); op.mark = r.coin(); allocBias = r.integer(0, 8); return true;
            }
        }
        return false;
    }

    void runCase(long idx) {
        aheadMax = r.coin(0.15) ? 3 : 1;
        noZW = c.args.getInt("nozw", 0) != 0; noAutoLate = c.args.getInt("noautolate", 0) != 0;
        objs[0].real.reset(new State()); objs[0].live = true; objs[0].m = MState();
        { Op op; op.kind = K_Clear; op.obj = 0; op.n = r.integer(1, 4); op.mark = r.coin(); step(op); }
        const int len = r.integer(10, (int)c.args.getInt("maxlen", 200));
        allocBias = r.integer(0, 14);
        for (int i = 0; i < len && !dead; ++i) { Op op; if (!gen(op)) break; step(op); }
        if (c.args.verbose) for (auto& h : hist) fprintf(stderr, "  %s\n", h.c_str());
        c.setPhase("destroying the State objects");
        for (int i = 0; i < 3; ++i) { objs[i].real.reset(); objs[i].live = false; }
        c.obs("comparisons", ncmp);
        if (swapsLeavingDependentValid) c.obs("autoupdate-swap-left-dependent-of-variable-valid(by-design)", swapsLeavingDependentValid);
        if (!dead) c.require("lockstep:history-completed", true, nullptr);
        if (c.wantSample() && idx % 7 == 0) {
            Json h = Json::arr(); for (size_t i = 0; i < hist.size() && i < 14; ++i) h.push(Json(hist[i]));
            c.sample(Json::obj().set("case", idx).set("ops", (long)hist.size()).set("first_ops", h));
        }
    }
};

// The histories free and allocate millions of small blocks; ASan's default 256 MB quarantine then
// costs 5-10x in page faults. 32 MB still holds every block freed during several whole cases
// (a use-after-free inside State is caught long before its block leaves quarantine).
// Flags given in ASAN_OPTIONS by the driver take precedence over these defaults.
#if defined(VH_ASAN) || defined(__SANITIZE_ADDRESS__)
extern "C" const char* __asan_default_options() { return "quarantine_size_mb=32:malloc_context_size=8"; }
#endif

int main(int argc, char** argv) {
    Args a = parseArgs(argc, argv);
    Ctx c(a);
    if (a.prop != "C18") { fprintf(stderr, "mon_state: unknown property %s\n", a.prop.c_str()); return 2; }
    return runCases(c, [&](long i, Rng& r) { Mon m(c, r); m.runCase(i); });
}
