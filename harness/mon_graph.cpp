// mon_graph.cpp — C42: MultibodyGraphMaker always produces a valid spanning tree.
//
// Technique: the real MultibodyGraphMaker (ASan+UBSan build) is driven over
//   (a) an EXHAUSTIVE enumeration of small input graphs (see "Enumeration" below) and
//   (b) seeded random larger graphs (5..40 bodies),
// and after every generateGraph() a harness-side structural checker walks the *public*
// accessors (getMobilizer/getLoopConstraint/getBody/getJoint, name lookups) and checks the
// clauses of the property statement. Bodies, joints and joint types are identified through
// the user reference pointers the library hands back (Mobilizer's indices are private).
//
// Legal-client preconditions observed by the generators (documented in MultibodyGraphMaker.h):
//   * first body added is Ground; body/joint/type names unique; parent != child; masses >= 0;
//     joint types registered before use; "weld"/"free" are the reserved predefined types.
//   * "mustBeBaseBody ... Alternatively, provide a joint that connects this body directly to
//     Ground, in which case you should not set this flag": the base-body oracle is therefore
//     judged only for flagged bodies WITHOUT an explicit Ground joint (others are counted in
//     obs "precondition:baseflag_with_ground_joint").
//   * generateGraph() may throw ("Throws an std::exception if it fails"): the three documented
//     massless-body failures are outcomes (counted, and checked to be *justified* by the input);
//     any other exception is a violation candidate.
//
// Enumeration (--enum "n:m:MODE,..." ; n = non-ground bodies, m = joints, also "n:a-b:MODE"):
//   a block <n,m> is the set of all multisets of m joints, a joint being <parent,child,type>
//   with parent != child in {Ground,b1..bn} (both orientations, Ground joints, multi-edges) and
//   type in {weld, pin, free, ball(haveGoodLoopJointAvailable)}, times a choice of flagged items
//   (massless body | mustBeBaseBody body | mustBeLoopJoint joint):
//     mode F = every labelled multiset x at most one flagged item;
//     mode C = as F but one representative per orbit under relabelling of the non-ground
//              bodies (the lexicographically least);
//     mode P = every labelled multiset x exactly two flagged items.
//   Every enumerated case gets ONE joint insertion order (sorted, or a permutation derived from
//   the case index); bodies are added in label order. Global case index = block offset +
//   multisetRank*(number of flag choices) + flagChoice : a pure function of the arguments,
//   independent of seed and worker. Worker k of --nworkers W runs the multisets with
//   rank == k (mod W).
//   --cases N is the number of *random* graphs per worker (indices E+0..E+N-1, E = size of the
//   enumeration index space); they depend on <seed, index> only.
#include "SimTKcommon.h"
#include "simmath/MultibodyGraphMaker.h"
#include "vh.h"

#include <sstream>

using namespace vh;
typedef SimTK::MultibodyGraphMaker MGM;

// This workload is millions of tiny allocations. With ASan's default 256 MB quarantine no freed
// block is ever reused and every allocation touches fresh pages: measured 40x slower (and half
// of it system time) on the shared machine. 8 MB still keeps the blocks of several hundred
// consecutive cases poisoned, far more than the lifetime of any object here. (Flags given in
// the ASAN_OPTIONS environment variable still override these.)
#if defined(__SANITIZE_ADDRESS__) || defined(VH_ASAN)
extern "C" const char* __asan_default_options() { return "quarantine_size_mb=8:thread_local_quarantine_size_kb=256"; }
#endif

// ------------------------------------------------------------------ joint types
struct TypeDef { const char* name; int dof; bool goodLoop; bool reserved; };
static const TypeDef TYPES[] = {
    {"weld", 0, true, true},   {"pin", 1, false, false},    {"free", 6, true, true},
    {"ball", 3, true, false},  {"slider", 1, false, false}, {"planar", 3, false, false},
    {"bushing", 6, false, false}, {"lock", 0, false, false}};
static const int NTYPES = 8, NENUMTYPES = 4;
static int typeByName(const std::string& s) {
    for (int t = 0; t < NTYPES; ++t) if (s == TYPES[t].name) return t;
    return -1;
}

// user reference pointers: identity of every input item
static char BREF[256], JREF[1024], TREF[NTYPES];
static void* bref(int i) { return &BREF[i]; }
static void* jref(int i) { return &JREF[i]; }
static void* tref(int t) { return TYPES[t].reserved ? nullptr : (void*)&TREF[t]; }
static int bodyOfRef(void* p, int nb) {
    const char* q = (const char*)p;
    if (q < BREF || q >= BREF + nb) return -1;
    return int(q - BREF);
}
static int jointOfRef(void* p, int nj) {
    const char* q = (const char*)p;
    if (q < JREF || q >= JREF + nj) return -1;
    return int(q - JREF);
}

// ------------------------------------------------------------------ input graphs
struct InBody { std::string name; double mass; bool base; };
struct InJoint { std::string name; int type, parent, child; bool loop; };
struct Input {
    std::vector<InBody> bodies;   // [0] is Ground; order = order of addBody
    std::vector<InJoint> joints;  // order = order of addJoint
    bool viaEdits = false;        // built with decoy bodies/joints that are deleted again
    uint64_t editSeed = 0;
};

static void addTypes(MGM& g) {
    for (int t = 0; t < NTYPES; ++t)
        if (!TYPES[t].reserved) g.addJointType(TYPES[t].name, TYPES[t].dof, TYPES[t].goodLoop, tref(t));
}
static void buildPlain(MGM& g, const Input& in) {
    addTypes(g);
    for (size_t i = 0; i < in.bodies.size(); ++i)
        g.addBody(in.bodies[i].name, in.bodies[i].mass, in.bodies[i].base, bref((int)i));
    for (size_t j = 0; j < in.joints.size(); ++j) {
        const InJoint& J = in.joints[j];
        g.addJoint(J.name, TYPES[J.type].name, in.bodies[J.parent].name, in.bodies[J.child].name, J.loop, jref((int)j));
    }
}
// Same final set of bodies and joints, reached through addBody/addJoint of decoys that are
// removed again with deleteJoint/deleteBody before generateGraph() (exercises re-indexing).
// Returns false if a delete call reported failure.
static bool buildWithEdits(MGM& g, const Input& in) {
    Rng r(in.editSeed);
    addTypes(g);
    const int nb = (int)in.bodies.size(), nj = (int)in.joints.size();
    bool ok = true;
    // bodies, with decoy bodies interleaved
    std::vector<std::string> decoyBodies, present;  // present = names currently in the maker
    int nDecoyB = 0;
    for (int i = 0; i < nb; ++i) {
        g.addBody(in.bodies[i].name, in.bodies[i].mass, in.bodies[i].base, bref(i));
        present.push_back(in.bodies[i].name);
        if (r.coin(0.3)) {
            std::string dn = "decoyB" + std::to_string(nDecoyB++);
            g.addBody(dn, r.coin(0.3) ? 0.0 : 1.5, r.coin(0.2), nullptr);
            decoyBodies.push_back(dn); present.push_back(dn);
        }
    }
    // joints, with decoy joints (between any present bodies) interleaved; decoy joints that
    // touch a decoy body are removed by deleteBody, the others by deleteJoint
    std::vector<std::string> decoyJoints;
    int nDecoyJ = 0;
    auto addDecoyJoint = [&]() {
        int a = r.integer(0, (int)present.size() - 1), b = r.integer(0, (int)present.size() - 1);
        if (a == b) return;
        std::string jn = "decoyJ" + std::to_string(nDecoyJ++);
        g.addJoint(jn, TYPES[r.integer(0, NTYPES - 1)].name, present[a], present[b], r.coin(0.2), nullptr);
        decoyJoints.push_back(jn);
    };
    for (int j = 0; j < nj; ++j) {
        if (r.coin(0.3)) addDecoyJoint();
        const InJoint& J = in.joints[j];
        g.addJoint(J.name, TYPES[J.type].name, in.bodies[J.parent].name, in.bodies[J.child].name, J.loop, jref(j));
    }
    if (r.coin(0.5)) addDecoyJoint();
    // remove: bodies first or joints first
    const bool bodiesFirst = r.coin();
    auto delBodies = [&]() { for (auto& n : decoyBodies) if (!g.deleteBody(n)) ok = false; };
    auto delJoints = [&]() {
        for (auto& n : decoyJoints) {
            const bool existed = g.getJointNum(n) >= 0;
            const bool res = g.deleteJoint(n);
            if (res != existed) ok = false;   // already removed by deleteBody => must return false
        }
    };
    if (bodiesFirst) { delBodies(); delJoints(); } else { delJoints(); delBodies(); }
    return ok;
}

static std::string bodyDesc(const Input& in, int i) {
    const InBody& b = in.bodies[i];
    std::string s = b.name;
    if (i > 0) { char buf[40]; snprintf(buf, sizeof buf, ":m=%g", b.mass); s += buf; if (b.base) s += ":BASE"; }
    return s;
}
static std::string jointDesc(const Input& in, int j) {
    const InJoint& J = in.joints[j];
    return J.name + ":" + TYPES[J.type].name + ":" + in.bodies[J.parent].name + ">" + in.bodies[J.child].name + (J.loop ? ":LOOP" : "");
}
static Json inputJson(const Input& in) {
    Json b = Json::arr(), j = Json::arr();
    for (size_t i = 0; i < in.bodies.size(); ++i) b.push(bodyDesc(in, (int)i));
    for (size_t k = 0; k < in.joints.size(); ++k) j.push(jointDesc(in, (int)k));
    Json o = Json::obj();
    o.set("bodies_in_add_order(first=Ground)", b).set("joints_in_add_order(name:type:parent>child)", j);
    if (in.viaEdits) o.set("built_via_decoy_add_delete", true);
    return o;
}
static std::string dumpText(const MGM& g) {
    try { std::ostringstream os; g.dumpGraph(os); std::string s = os.str(); if (s.size() > 6000) s.resize(6000); return s; }
    catch (const std::exception& e) { return std::string("dumpGraph threw: ") + e.what(); }
}

// ------------------------------------------------------------------ witness plumbing
// One small witness closure (captures a single pointer: no allocation on the passing path).
struct Wit {
    const Input* in = nullptr;
    const MGM* g = nullptr;
    std::string detail;
    Json make() const {
        Json w = Json::obj();
        w.set("detail", detail);
        if (in) w.set("input", inputJson(*in));
        if (g) w.set("dumpGraph", dumpText(*g));
        return w;
    }
};
// The (expensive) witness is built for the first 3 failures of a key only; all are counted.
static bool wantWitness(const std::string& key) {
    static std::map<const std::string*, int> seen;   // keys are function-local statics: stable addresses
    return ++seen[&key] <= 3;
}
static const std::function<Json()> NO_WITNESS;
#define REQ(key, cond, detailExpr)                                   \
    do {                                                             \
        const bool ok_ = (cond);                                     \
        if (ok_) c.require(key, true, wf);                           \
        else if (wantWitness(key)) { std::ostringstream d_; d_ << detailExpr; W.detail = d_.str(); c.require(key, false, wf); } \
        else c.require(key, false, NO_WITNESS);                      \
    } while (0)
#define KEY(id, text) static const std::string id = text

// ------------------------------------------------------------------ graph signature
// Everything observable about the generated graph, in sections (for attribution of a
// difference between two generations that must agree).
// (compared in this order, least derived first, so that a difference is attributed to its origin)
enum { S_GROUND_SLAVES, S_SLAVES, S_JOINTS, S_BODY, S_CONS, S_MOB, S_NSEC };
static const char* SECNAME[S_NSEC] = {"ground_slave_list", "slave_lists", "joints", "body_level_mobilizer_master",
                                      "loop_constraints", "mobilizers"};
struct Sig {
    std::vector<int> v;        // all sections, one after the other (a single allocation)
    int end[S_NSEC];           // end offset of each section
};
static Sig signature(const MGM& g, int nb, int nj) {
    Sig x;
    const int NB = g.getNumBodies(), NJ = g.getNumJoints(), NM = g.getNumMobilizers(), NC = g.getNumLoopConstraints();
    size_t need = 8 + 9 * (size_t)NM + 4 * (size_t)NC + 4 * (size_t)NB + 6 * (size_t)NJ;
    for (int b = 0; b < NB; ++b) need += g.getBody(b).slaves.size();
    x.v.reserve(need);
    auto& v = x.v;
    // ground slave list
    { const MGM::Body& G = g.getBody(0); v.push_back((int)G.slaves.size()); for (int sl : G.slaves) v.push_back(sl); }
    x.end[S_GROUND_SLAVES] = (int)v.size();
    for (int b = 1; b < NB; ++b) { const MGM::Body& B = g.getBody(b); v.push_back((int)B.slaves.size()); for (int sl : B.slaves) v.push_back(sl); }
    x.end[S_SLAVES] = (int)v.size();
    v.push_back(NJ);
    for (int j = 0; j < NJ; ++j) {
        const MGM::Joint& J = g.getJoint(j);
        v.push_back(J.mobilizer); v.push_back(J.loopConstraint); v.push_back(J.isAddedBaseJoint);
        v.push_back(J.parentBodyNum); v.push_back(J.childBodyNum); v.push_back(J.jointTypeNum);
    }
    x.end[S_JOINTS] = (int)v.size();
    v.push_back(NB);
    for (int b = 0; b < NB; ++b) { const MGM::Body& B = g.getBody(b); v.push_back(B.level); v.push_back(B.mobilizer); v.push_back(B.master); }
    x.end[S_BODY] = (int)v.size();
    v.push_back(NC);
    for (int k = 0; k < NC; ++k) {
        const MGM::LoopConstraint& lc = g.getLoopConstraint(k);
        void* jr = lc.getJointRef();
        v.push_back(jr ? jointOfRef(jr, nj) : -7);
        v.push_back(typeByName(lc.getJointTypeName()));
        v.push_back(bodyOfRef(lc.getParentBodyRef(), nb));
        v.push_back(bodyOfRef(lc.getChildBodyRef(), nb));
    }
    x.end[S_CONS] = (int)v.size();
    v.push_back(NM);
    for (int m = 0; m < NM; ++m) {
        const MGM::Mobilizer& mo = g.getMobilizer(m);
        void* jr = mo.getJointRef();
        v.push_back(jr ? jointOfRef(jr, nj) : -7);
        v.push_back(mo.getLevel());
        v.push_back(bodyOfRef(mo.getInboardBodyRef(), nb));
        v.push_back(bodyOfRef(mo.getOutboardBodyRef(), nb));
        v.push_back(bodyOfRef(mo.getOutboardMasterBodyRef(), nb));
        v.push_back(mo.isReversedFromJoint() + 2 * mo.isSlaveMobilizer() + 4 * mo.isAddedBaseMobilizer());
        v.push_back(mo.getNumFragments());
        v.push_back(typeByName(mo.getJointTypeName()));
    }
    x.end[S_MOB] = (int)v.size();
    return x;
}
static int firstDifference(const Sig& a, const Sig& b) {
    int ba = 0, bb = 0;
    for (int k = 0; k < S_NSEC; ++k) {
        const int la = a.end[k] - ba, lb = b.end[k] - bb;
        if (la != lb || !std::equal(a.v.begin() + ba, a.v.begin() + a.end[k], b.v.begin() + bb)) return k;
        ba = a.end[k]; bb = b.end[k];
    }
    return -1;
}

// A violation whose key is computed at run time: the (expensive) witness is built only for the
// first occurrences of a key; all occurrences are counted.
static void violLazy(Ctx& c, const std::string& key, Wit& W, const std::string& detail) {
    static std::map<std::string, int> seen;
    if (++seen[key] <= 3) { W.detail = detail; c.viol(key, W.make()); }
    else c.viol(key, Json());
}

// ------------------------------------------------------------------ outcome of generateGraph
enum ErrClass { E_NONE, E_MASSLESS_FREE, E_MASSLESS_NOT_INTERNAL, E_TERMINAL_MASSLESS, E_OTHER };
static const char* ERRNAME[] = {"ok", "err_massless_free", "err_massless_not_internal", "err_terminal_massless", "err_other"};
static ErrClass classify(const std::string& msg) {
    if (msg.find("is massless but free (no joint)") != std::string::npos) return E_MASSLESS_FREE;
    if (msg.find("is massless but not internal and not welded") != std::string::npos) return E_MASSLESS_NOT_INTERNAL;
    if (msg.find("invalid tree containing a terminal massless body") != std::string::npos) return E_TERMINAL_MASSLESS;
    return E_OTHER;
}
struct GenResult { ErrClass err = E_NONE; std::string msg; };
static GenResult generate(MGM& g) {
    GenResult r;
    try { g.generateGraph(); }
    catch (const std::exception& e) { r.msg = e.what(); r.err = classify(r.msg); }
    return r;
}

struct GraphStats { int slaves = 0, loopCons = 0, added = 0, reversed = 0, groundSplit = 0, maxLevel = 0; };

// ------------------------------------------------------------------ the structural checker
// Returns false if the structure is so broken that the caller should not go on using it.
static bool checkGraph(Ctx& c, Wit& W, const std::function<Json()>& wf, const MGM& g, const Input& in, GraphStats& st) {
    KEY(K_countB, "count:fewer_bodies_than_input");
    KEY(K_countJ, "count:fewer_joints_than_input");
    KEY(K_countM, "count:mobilizers_not_bodies_minus_ground");
    KEY(K_inBody, "input:body_record_changed");
    KEY(K_inJoint, "input:joint_record_changed");
    KEY(K_lookB, "lookup:body_name_inconsistent");
    KEY(K_lookJ, "lookup:joint_name_inconsistent");
    KEY(K_lookS, "lookup:slave_body_name_resolves");
    KEY(K_lookT, "lookup:joint_type_inconsistent");
    KEY(K_lists, "body:joint_lists_inconsistent");
    KEY(K_inSlave, "body:input_body_marked_slave");
    KEY(K_slList, "body:slave_list_invalid");
    KEY(K_slMark, "slave:not_marked_slave_of_input_body");
    KEY(K_slIn, "slave:not_in_master_list_exactly_once");
    KEY(K_slRef, "slave:has_user_ref");
    KEY(K_slJoints, "slave:joint_lists_invalid");
    KEY(K_slCount, "slave:count_differs_from_slave_mobilizers");
    KEY(K_adFlag, "added_joint:flag_missing");
    KEY(K_adShape, "added_joint:not_ground_to_input_body");
    KEY(K_adType, "added_joint:type_not_free");
    KEY(K_adRef, "added_joint:has_user_ref_or_loop_flag");
    KEY(K_adUse, "added_joint:not_used_as_base_mobilizer");
    KEY(K_mobJ, "mobilizer:joint_unidentified");
    KEY(K_mobO, "mobilizer:outboard_body_unidentified");
    KEY(K_mobI, "mobilizer:inboard_body_unidentified");
    KEY(K_order, "order:inboard_body_not_mobilized_earlier");
    KEY(K_lvlF, "level:not_inboard_plus_one:forward");
    KEY(K_lvlR, "level:not_inboard_plus_one:reversed");
    KEY(K_lvlS, "level:not_inboard_plus_one:slave");
    KEY(K_lvlB, "level:body_level_differs_from_mobilizer_level");
    KEY(K_endF, "joint:mobilizer_bodies_not_parent_child:forward");
    KEY(K_endR, "joint:mobilizer_bodies_not_child_parent:reversed");
    KEY(K_endS, "joint:slave_mobilizer_not_parent_to_slave_of_child");
    KEY(K_accOut, "accessor:outboard_body_ref");
    KEY(K_accMas, "accessor:outboard_master_body_ref");
    KEY(K_accSl, "accessor:isSlaveMobilizer");
    KEY(K_accFr, "accessor:getNumFragments");
    KEY(K_accTy, "accessor:joint_type_name_or_ref");
    KEY(K_accAd, "accessor:isAddedBaseMobilizer");
    KEY(K_abLvl, "added_base:not_level_one_from_ground");
    KEY(K_abRev, "added_base:reversed_or_slave");
    KEY(K_abNeed, "added_base:body_was_connected_to_ground_by_tree_eligible_joints");
    KEY(K_loopTree, "loopflag:must_be_loop_joint_is_tree_mobilizer");
    KEY(K_bodyOnce, "body:not_outboard_of_exactly_one_mobilizer");
    KEY(K_ground, "ground:mobilized_or_level_not_zero");
    KEY(K_root, "tree:body_not_connected_to_ground_through_inboard_chain");
    KEY(K_jOnce, "joint:not_exactly_once_as_mobilizer_or_loop_constraint");
    KEY(K_lcJ, "constraint:joint_unidentified");
    KEY(K_lcType, "constraint:type_differs_from_joint_type");
    KEY(K_lcGood, "constraint:joint_type_has_no_good_loop_joint");
    KEY(K_lcBodies, "constraint:bodies_not_parent_child_of_joint");
    KEY(K_base, "basebody:flagged_body_not_level_one_on_ground");
    KEY(K_baseFree, "basebody:flagged_body_mobilizer_not_added_free");
    KEY(K_iso, "isolated:jointless_body_not_on_added_base_mobilizer");
    KEY(K_mlIn, "massless:terminal_mobile_input_body");
    KEY(K_mlSl, "massless:terminal_mobile_slave_of_massless_body");

    const int nb = (int)in.bodies.size(), nj = (int)in.joints.size();
    const int NB = g.getNumBodies(), NJ = g.getNumJoints(), NM = g.getNumMobilizers(), NC = g.getNumLoopConstraints();
    REQ(K_countB, NB >= nb, "getNumBodies()=" << NB << " input bodies incl. Ground=" << nb);
    REQ(K_countJ, NJ >= nj, "getNumJoints()=" << NJ << " input joints=" << nj);
    if (NB < nb || NJ < nj) return false;
    REQ(K_countM, NM == NB - 1, "getNumMobilizers()=" << NM << " getNumBodies()=" << NB << " (incl. Ground and slaves)");

    // joint types
    {
        bool ok = g.getNumJointTypes() == NTYPES && g.getWeldJointTypeName() == "weld" && g.getFreeJointTypeName() == "free";
        for (int t = 0; ok && t < NTYPES; ++t) {
            const int tn = g.getJointTypeNum(TYPES[t].name);
            ok = tn >= 0 && tn < NTYPES && g.getJointType(tn).name == TYPES[t].name && g.getJointType(tn).numMobilities == TYPES[t].dof
                 && g.getJointType(tn).haveGoodLoopJointAvailable == TYPES[t].goodLoop && g.getJointType(tn).userRef == tref(t);
        }
        REQ(K_lookT, ok, "joint type table changed");
        if (!ok) return false;
    }
    auto libType = [&](int jointTypeNum) { return (jointTypeNum >= 0 && jointTypeNum < NTYPES) ? typeByName(g.getJointType(jointTypeNum).name) : -1; };

    // ---- input bodies and joints are still what was given
    for (int i = 0; i < nb; ++i) {
        const MGM::Body& B = g.getBody(i);
        const InBody& I = in.bodies[i];
        REQ(K_inBody, B.name == I.name && B.userRef == bref(i) && (i == 0 || (B.mass == I.mass && B.mustBeBaseBody == I.base)),
            "body " << i << " '" << I.name << "' reads back name='" << B.name << "' mass=" << B.mass << " base=" << B.mustBeBaseBody);
        REQ(K_lookB, g.getBodyNum(I.name) == i, "getBodyNum('" << I.name << "')=" << g.getBodyNum(I.name) << " expected " << i);
        REQ(K_inSlave, B.master == -1, "input body " << I.name << " has master=" << B.master);
    }
    REQ(K_lookB, g.getGroundBodyName() == in.bodies[0].name && g.getBodyNum("no such body") == -1, "ground name / unknown name lookup");
    for (int j = 0; j < nj; ++j) {
        const MGM::Joint& J = g.getJoint(j);
        const InJoint& I = in.joints[j];
        REQ(K_inJoint, J.name == I.name && J.userRef == jref(j) && J.parentBodyNum == I.parent && J.childBodyNum == I.child
                           && libType(J.jointTypeNum) == I.type && J.mustBeLoopJoint == I.loop && !J.isAddedBaseJoint,
            "joint " << j << " '" << I.name << "' reads back name='" << J.name << "' parent=" << J.parentBodyNum << " child=" << J.childBodyNum
                     << " typeNum=" << J.jointTypeNum << " loop=" << J.mustBeLoopJoint << " added=" << J.isAddedBaseJoint);
        REQ(K_lookJ, g.getJointNum(I.name) == j, "getJointNum('" << I.name << "')=" << g.getJointNum(I.name) << " expected " << j);
    }
    REQ(K_lookJ, g.getJointNum("no such joint") == -1, "unknown joint name resolves");

    // ---- added joints (index >= nj): Ground -> input body, free, flagged, no user ref
    std::vector<char> bodyHasInputJoint(nb, 0), bodyHasGroundJoint(nb, 0);
    for (int j = 0; j < nj; ++j) {
        const InJoint& I = in.joints[j];
        bodyHasInputJoint[I.parent] = bodyHasInputJoint[I.child] = 1;
        if (I.parent == 0) bodyHasGroundJoint[I.child] = 1;
        if (I.child == 0) bodyHasGroundJoint[I.parent] = 1;
    }
    bool addedOk = true;
    for (int j = nj; j < NJ; ++j) {
        const MGM::Joint& J = g.getJoint(j);
        ++st.added;
        REQ(K_adFlag, J.isAddedBaseJoint, "joint " << j << " '" << J.name << "' beyond the input joints is not flagged isAddedBaseJoint");
        const bool shape = J.parentBodyNum == 0 && J.childBodyNum >= 1 && J.childBodyNum < nb;
        REQ(K_adShape, shape, "added joint '" << J.name << "' parent=" << J.parentBodyNum << " child=" << J.childBodyNum);
        REQ(K_adType, libType(J.jointTypeNum) == typeByName("free"), "added joint '" << J.name << "' typeNum=" << J.jointTypeNum);
        REQ(K_adRef, J.userRef == nullptr && !J.mustBeLoopJoint, "added joint '" << J.name << "'");
        if (!shape) addedOk = false;
    }
    if (!addedOk) return false;

    // all joints (input + added): parent/child body numbers valid
    std::vector<int> jp(NJ), jc(NJ), jt(NJ);
    for (int j = 0; j < NJ; ++j) {
        const MGM::Joint& J = g.getJoint(j);
        jp[j] = J.parentBodyNum; jc[j] = J.childBodyNum; jt[j] = libType(J.jointTypeNum);
        if (jt[j] < 0) { REQ(K_inJoint, false, "joint " << j << " has invalid type number " << J.jointTypeNum); return false; }
    }
    // per-body joint lists agree with the joints (lists are in order of addJoint)
    {
        std::vector<int> cntP(NB, 0), cntC(NB, 0);
        bool rangeOk = true;
        for (int j = 0; j < NJ; ++j) {
            if (jp[j] < 0 || jp[j] >= nb || jc[j] < 0 || jc[j] >= nb) { rangeOk = false; continue; }
            ++cntP[jp[j]]; ++cntC[jc[j]];
        }
        REQ(K_inJoint, rangeOk, "a joint names a body number outside the input bodies");
        if (!rangeOk) return false;
        for (int i = 0; i < nb; ++i) {
            const MGM::Body& B = g.getBody(i);
            bool ok = (int)B.jointsAsParent.size() == cntP[i] && (int)B.jointsAsChild.size() == cntC[i] && B.getNumJoints() == cntP[i] + cntC[i];
            int prev = -1;
            for (size_t k = 0; ok && k < B.jointsAsParent.size(); ++k) { const int j = B.jointsAsParent[k]; ok = j > prev && j < NJ && jp[j] == i; prev = j; }
            prev = -1;
            for (size_t k = 0; ok && k < B.jointsAsChild.size(); ++k) { const int j = B.jointsAsChild[k]; ok = j > prev && j < NJ && jc[j] == i; prev = j; }
            REQ(K_lists, ok, "body " << in.bodies[i].name << ": jointsAsParent/jointsAsChild do not list exactly the joints naming it");
        }
    }

    // ---- slaves (index >= nb)
    std::vector<int> masterOf(NB, -1);
    bool slavesOk = true;
    for (int s = nb; s < NB; ++s) {
        const MGM::Body& S = g.getBody(s);
        ++st.slaves;
        const bool marked = S.isSlave() && S.master >= 0 && S.master < nb;
        REQ(K_slMark, marked, "body " << s << " '" << S.name << "' beyond the input bodies has master=" << S.master);
        if (!marked) { slavesOk = false; continue; }
        masterOf[s] = S.master;
        if (S.master == 0) ++st.groundSplit;
        const MGM::Body& M = g.getBody(S.master);
        REQ(K_slIn, std::count(M.slaves.begin(), M.slaves.end(), s) == 1,
            "slave '" << S.name << "' appears " << std::count(M.slaves.begin(), M.slaves.end(), s) << " times in slaves[] of master '" << M.name << "'");
        REQ(K_slRef, S.userRef == nullptr && !S.mustBeBaseBody, "slave '" << S.name << "'");
        REQ(K_lookS, g.getBodyNum(S.name) == -1, "getBodyNum('" << S.name << "')=" << g.getBodyNum(S.name));
        REQ(K_slJoints, S.jointsAsParent.empty() && S.jointsAsChild.size() == 1 && S.jointsAsChild[0] >= 0 && S.jointsAsChild[0] < NJ
                            && jc[S.jointsAsChild[0]] == S.master,
            "slave '" << S.name << "' joint lists: asParent=" << S.jointsAsParent.size() << " asChild=" << S.jointsAsChild.size());
        REQ(K_slList, S.slaves.empty(), "slave '" << S.name << "' has slaves of its own");
    }
    if (!slavesOk) return false;
    for (int i = 0; i < nb; ++i) {
        const MGM::Body& B = g.getBody(i);
        bool ok = B.getNumSlaves() == (int)B.slaves.size() && B.getNumFragments() == 1 + (int)B.slaves.size() && B.isMaster() == !B.slaves.empty();
        for (size_t k = 0; ok && k < B.slaves.size(); ++k) {
            const int s = B.slaves[k];
            ok = s >= nb && s < NB && masterOf[s] == i && std::count(B.slaves.begin(), B.slaves.end(), s) == 1;
        }
        REQ(K_slList, ok, "slaves[] of body '" << B.name << "' (size " << B.slaves.size() << ") does not list exactly its slave bodies");
        if (!ok) slavesOk = false;
    }
    if (!slavesOk) return false;

    // ---- mobilizers
    std::vector<int> mobJoint(NM, -1), mobIn(NM, -1), mobOut(NM, -1);
    std::vector<int> nOutboardOf(NB, 0);
    std::vector<char> hasOutboard(NB, 0);
    std::vector<int> jointMobCount(NJ, 0), jointConsCount(NJ, 0), slaveMobsOfMaster(nb, 0);
    bool mobsOk = true;
    for (int m = 0; m < NM; ++m) {
        const MGM::Mobilizer& mo = g.getMobilizer(m);
        // joint: the one whose record points here; must agree with the user ref
        int jn = -1, nJ = 0;
        for (int j = 0; j < NJ; ++j) if (g.getJoint(j).mobilizer == m) { jn = j; ++nJ; }
        void* jr = mo.getJointRef();
        bool jok = nJ == 1 && (jn < nj ? jr == jref(jn) : jr == nullptr);
        REQ(K_mobJ, jok, "mobilizer " << m << ": " << nJ << " joints record it as their mobilizer; joint ref "
                                      << (jr ? jointOfRef(jr, nj) : -1) << " vs joint " << jn);
        // outboard body: the one whose record points here
        int ob = -1, nO = 0;
        for (int b = 1; b < NB; ++b) if (g.getBody(b).mobilizer == m) { ob = b; ++nO; }
        REQ(K_mobO, nO == 1, "mobilizer " << m << ": " << nO << " bodies record it as their mobilizer");
        // inboard body through its user ref (always an input body)
        const int ib = bodyOfRef(mo.getInboardBodyRef(), nb);
        REQ(K_mobI, ib >= 0, "mobilizer " << m << ": inboard body ref is not one of the input bodies");
        if (!jok || nO != 1 || ib < 0) { mobsOk = false; continue; }
        mobJoint[m] = jn; mobIn[m] = ib; mobOut[m] = ob;
        ++nOutboardOf[ob]; hasOutboard[ib] = 1; ++jointMobCount[jn];

        const MGM::Body& OB = g.getBody(ob);
        const MGM::Body& IB = g.getBody(ib);
        const bool isSlave = ob >= nb;
        const int master = isSlave ? masterOf[ob] : ob;
        const bool rev = mo.isReversedFromJoint();
        const std::string jname = g.getJoint(jn).name;
        if (rev) ++st.reversed;
        st.maxLevel = std::max(st.maxLevel, mo.getLevel());

        // order and levels
        REQ(K_order, ib == 0 || (IB.mobilizer >= 0 && IB.mobilizer < m),
            "mobilizer " << m << " (" << jname << "): inboard body '" << IB.name << "' is outboard body of mobilizer " << IB.mobilizer);
        REQ(isSlave ? K_lvlS : rev ? K_lvlR : K_lvlF, mo.getLevel() == IB.level + 1 && mo.getLevel() >= 1,
            "mobilizer " << m << " (" << jname << "): level " << mo.getLevel() << ", inboard body '" << IB.name << "' level " << IB.level);
        REQ(K_lvlB, OB.level == mo.getLevel(), "mobilizer " << m << " (" << jname << "): level " << mo.getLevel() << ", outboard body '" << OB.name << "' level " << OB.level);

        // correspondence with the joint
        if (isSlave) {
            ++slaveMobsOfMaster[master];
            REQ(K_endS, !rev && ib == jp[jn] && master == jc[jn],
                "slave mobilizer " << m << " (" << jname << "): inboard '" << IB.name << "', slave of '" << g.getBody(master).name << "', reversed=" << rev);
        } else if (rev) {
            REQ(K_endR, ib == jc[jn] && ob == jp[jn], "reversed mobilizer " << m << " (" << jname << "): inboard '" << IB.name << "' outboard '" << OB.name << "'");
        } else {
            REQ(K_endF, ib == jp[jn] && ob == jc[jn], "mobilizer " << m << " (" << jname << "): inboard '" << IB.name << "' outboard '" << OB.name << "'");
        }
        // convenience accessors agree with the records
        REQ(K_accOut, mo.getOutboardBodyRef() == (isSlave ? nullptr : bref(ob)), "mobilizer " << m << " (" << jname << ")");
        REQ(K_accMas, mo.getOutboardMasterBodyRef() == bref(master), "mobilizer " << m << " (" << jname << ")");
        REQ(K_accSl, mo.isSlaveMobilizer() == isSlave, "mobilizer " << m << " (" << jname << ")");
        REQ(K_accFr, mo.getNumFragments() == 1 + (int)g.getBody(master).slaves.size(),
            "mobilizer " << m << " (" << jname << "): getNumFragments()=" << mo.getNumFragments() << ", master '" << g.getBody(master).name << "' has "
                         << g.getBody(master).slaves.size() << " slaves");
        REQ(K_accTy, typeByName(mo.getJointTypeName()) == jt[jn] && mo.getJointTypeRef() == tref(jt[jn]), "mobilizer " << m << " (" << jname << "): type name '" << mo.getJointTypeName() << "'");
        REQ(K_accAd, mo.isAddedBaseMobilizer() == (jn >= nj), "mobilizer " << m << " (" << jname << ")");
        if (jn >= nj) {
            REQ(K_abLvl, ib == 0 && mo.getLevel() == 1, "added base mobilizer " << m << " (" << jname << "): inboard '" << IB.name << "' level " << mo.getLevel());
            REQ(K_abRev, !rev && !isSlave, "added base mobilizer " << m << " (" << jname << ")");
        } else if (in.joints[jn].loop) {
            // "the joint will not appear in the list of joints that are candidates for mobilizers (tree
            // joints) ... [or] this joint will be made into a mobilizer but a loop weld joint will be
            // added to attach the child slave body to its master"
            REQ(K_loopTree, isSlave, "mustBeLoopJoint joint '" << jname << "' is tree mobilizer " << m << " of input body '" << OB.name << "'");
        }
    }
    if (!mobsOk) return false;

    // ---- every body except Ground is outboard body of exactly one mobilizer; Ground of none
    {
        const MGM::Body& G = g.getBody(0);
        REQ(K_ground, G.level == 0 && G.mobilizer == -1 && !G.isSlave(), "Ground level=" << G.level << " mobilizer=" << G.mobilizer);
    }
    bool treeOk = true;
    for (int b = 1; b < NB; ++b) {
        const MGM::Body& B = g.getBody(b);
        const bool ok = nOutboardOf[b] == 1 && B.mobilizer >= 0 && B.mobilizer < NM && B.isInTree();
        REQ(K_bodyOnce, ok, "body '" << B.name << "' is outboard body of " << nOutboardOf[b] << " mobilizers (record says mobilizer " << B.mobilizer << ", level " << B.level << ")");
        if (!ok) treeOk = false;
    }
    if (!treeOk) return false;
    for (int b = 1; b < NB; ++b) {   // acyclic, rooted at Ground
        int cur = b, steps = 0;
        while (cur != 0 && steps <= NM) { cur = mobIn[g.getBody(cur).mobilizer]; ++steps; }
        REQ(K_root, cur == 0 && steps == g.getBody(b).level, "body '" << g.getBody(b).name << "': inboard chain " << (cur == 0 ? "reaches" : "does not reach")
                                                                       << " Ground in " << steps << " steps, level " << g.getBody(b).level);
    }
    for (int i = 0; i < nb; ++i)
        REQ(K_slCount, slaveMobsOfMaster[i] == (int)g.getBody(i).slaves.size(),
            "body '" << in.bodies[i].name << "' has " << g.getBody(i).slaves.size() << " slaves but " << slaveMobsOfMaster[i] << " slave mobilizers");

    // ---- loop constraints
    for (int k = 0; k < NC; ++k) {
        const MGM::LoopConstraint& lc = g.getLoopConstraint(k);
        ++st.loopCons;
        int jn = -1, nJ = 0;
        for (int j = 0; j < NJ; ++j) if (g.getJoint(j).loopConstraint == k) { jn = j; ++nJ; }
        void* jr = lc.getJointRef();
        const bool jok = nJ == 1 && (jn < nj ? jr == jref(jn) : jr == nullptr);
        REQ(K_lcJ, jok, "loop constraint " << k << ": " << nJ << " joints record it; joint ref " << (jr ? jointOfRef(jr, nj) : -1) << " vs joint " << jn);
        if (!jok) continue;
        ++jointConsCount[jn];
        const std::string jname = g.getJoint(jn).name;
        REQ(K_lcType, typeByName(lc.getJointTypeName()) == jt[jn], "loop constraint " << k << " (" << jname << ") type '" << lc.getJointTypeName() << "'");
        REQ(K_lcGood, TYPES[jt[jn]].goodLoop, "loop constraint " << k << " (" << jname << ") of type '" << TYPES[jt[jn]].name << "'");
        REQ(K_lcBodies, lc.getParentBodyRef() == bref(jp[jn]) && lc.getChildBodyRef() == bref(jc[jn]), "loop constraint " << k << " (" << jname << ")");
    }
    // ---- every joint exactly once
    for (int j = 0; j < NJ; ++j) {
        const MGM::Joint& J = g.getJoint(j);
        const bool ok = (jointMobCount[j] + jointConsCount[j] == 1) && (J.hasMobilizer() != J.hasLoopConstraint())
                        && (J.hasMobilizer() ? jointMobCount[j] == 1 : jointConsCount[j] == 1);
        REQ(K_jOnce, ok, "joint '" << J.name << "': " << jointMobCount[j] << " mobilizers, " << jointConsCount[j] << " loop constraints (record: mobilizer "
                                   << J.mobilizer << ", loopConstraint " << J.loopConstraint << ")");
        if (j >= nj) REQ(K_adUse, jointMobCount[j] == 1, "added base joint '" << J.name << "' was not used as a base mobilizer (it became " << (J.hasLoopConstraint() ? "a loop constraint" : "nothing") << ")");
    }

    // ---- base bodies, isolated bodies
    std::vector<int> groundComp(nb);   // components of the input graph over joints not flagged mustBeLoopJoint
    for (int i = 0; i < nb; ++i) groundComp[i] = i;
    for (bool changed = true; changed;) {
        changed = false;
        for (int j = 0; j < nj; ++j) if (!in.joints[j].loop && groundComp[jp[j]] != groundComp[jc[j]]) {
            const int lo = std::min(groundComp[jp[j]], groundComp[jc[j]]);
            groundComp[jp[j]] = groundComp[jc[j]] = lo; changed = true;
        }
    }
    for (int i = 1; i < nb; ++i) {
        const MGM::Body& B = g.getBody(i);
        const int jn = mobJoint[B.mobilizer];
        if (in.bodies[i].base) {
            if (bodyHasGroundJoint[i]) c.obs("precondition:baseflag_with_ground_joint");
            else {
                const bool onGround = B.level == 1 && mobIn[B.mobilizer] == 0;
                REQ(K_base, onGround, "mustBeBaseBody body '" << B.name << "' (no explicit Ground joint) is at level " << B.level
                                                                      << " with inboard body '" << g.getBody(mobIn[B.mobilizer]).name << "' through joint '" << g.getJoint(jn).name << "'");
                if (onGround) REQ(K_baseFree, jn >= nj && jt[jn] == typeByName("free"), "mustBeBaseBody body '" << B.name << "' is mobilized by joint '" << g.getJoint(jn).name << "'");
            }
        }
        // "Additional free mobilizers are added as needed ... so that there is a path from every body
        // ... to Ground": not needed for an unflagged body that tree-eligible joints connect to Ground
        if (jn >= nj && !in.bodies[i].base)
            REQ(K_abNeed, groundComp[i] != groundComp[0], "body '" << B.name << "' got an added base mobilizer although joints not flagged mustBeLoopJoint connect it to Ground");
        if (!bodyHasInputJoint[i])
            REQ(K_iso, jn >= nj && B.level == 1, "body '" << B.name << "' appears in no input joint; mobilized by joint '" << g.getJoint(jn).name << "' at level " << B.level);
    }

    // ---- no massless body with mobilities ends a branch (a slave carries its share of the
    // master's mass: "divide the master body's mass by [getNumFragments()]")
    for (int b = 1; b < NB; ++b) {
        if (hasOutboard[b]) continue;  // not terminal
        const int master = b >= nb ? masterOf[b] : b;
        if (master == 0) continue;     // fragment of Ground
        if (in.bodies[master].mass != 0) continue;
        const int jn = mobJoint[g.getBody(b).mobilizer];
        REQ(b >= nb ? K_mlSl : K_mlIn, TYPES[jt[jn]].dof == 0,
            "terminal body '" << g.getBody(b).name << "' is massless and mobilized by joint '" << g.getJoint(jn).name << "' of type " << TYPES[jt[jn]].name << " ("
                              << TYPES[jt[jn]].dof << " dofs)");
    }
    return true;
}

// After clearGraph(): the inputs are back, nothing of the generated graph is left.
static void checkCleared(Ctx& c, Wit& W, const std::function<Json()>& wf, const MGM& g, const Input& in, const char* when) {
    KEY(K_clrCounts, "clear:counts_not_restored");
    KEY(K_clrBody, "clear:body_graph_fields_not_reset");
    KEY(K_clrJoint, "clear:joint_graph_fields_not_reset");
    KEY(K_clrLists, "clear:body_joint_lists_not_restored");
    const int nb = (int)in.bodies.size(), nj = (int)in.joints.size();
    const bool counts = g.getNumBodies() == nb && g.getNumJoints() == nj && g.getNumMobilizers() == 0 && g.getNumLoopConstraints() == 0;
    REQ(K_clrCounts, counts, when << ": bodies " << g.getNumBodies() << "/" << nb << " joints " << g.getNumJoints() << "/" << nj << " mobilizers "
                                  << g.getNumMobilizers() << " loop constraints " << g.getNumLoopConstraints());
    if (!counts) return;
    for (int i = 0; i < nb; ++i) {
        const MGM::Body& B = g.getBody(i);
        // Ground keeps level 0
        REQ(K_clrBody, B.level == (i == 0 ? 0 : -1) && B.mobilizer == -1 && B.master == -1 && B.slaves.empty() && g.getBodyNum(B.name) == i,
            when << ": body '" << B.name << "' level=" << B.level << " mobilizer=" << B.mobilizer << " master=" << B.master << " slaves=" << B.slaves.size());
        bool lists = true;
        {
            size_t kp = 0, kc = 0;
            for (int j = 0; j < nj && lists; ++j) {
                if (in.joints[j].parent == i) { lists = kp < B.jointsAsParent.size() && B.jointsAsParent[kp] == j; ++kp; }
                if (lists && in.joints[j].child == i) { lists = kc < B.jointsAsChild.size() && B.jointsAsChild[kc] == j; ++kc; }
            }
            lists = lists && kp == B.jointsAsParent.size() && kc == B.jointsAsChild.size();
        }
        REQ(K_clrLists, lists, when << ": body '" << B.name << "'");
    }
    for (int j = 0; j < nj; ++j) {
        const MGM::Joint& J = g.getJoint(j);
        REQ(K_clrJoint, J.mobilizer == -1 && J.loopConstraint == -1 && !J.isAddedBaseJoint && J.name == in.joints[j].name && g.getJointNum(J.name) == j
                            && J.parentBodyNum == in.joints[j].parent && J.childBodyNum == in.joints[j].child,
            when << ": joint '" << J.name << "' mobilizer=" << J.mobilizer << " loopConstraint=" << J.loopConstraint);
    }
}

// ------------------------------------------------------------------ shape class (coverage)
struct Shape { int comps = 0, floating = 0, cyc = 0; bool multi = false, groundJoint = false, groundChild = false; };
static Shape shapeOf(const Input& in) {
    const int nb = (int)in.bodies.size();
    std::vector<int> uf(nb);
    for (int i = 0; i < nb; ++i) uf[i] = i;
    auto find = [&](int x) { while (uf[x] != x) x = uf[x] = uf[uf[x]]; return x; };
    Shape s;
    std::vector<int> pairs;
    pairs.reserve(in.joints.size());
    for (auto& J : in.joints) {
        uf[find(J.parent)] = find(J.child);
        pairs.push_back(std::min(J.parent, J.child) * 4096 + std::max(J.parent, J.child));
        if (J.parent == 0 || J.child == 0) s.groundJoint = true;
        if (J.child == 0) s.groundChild = true;
    }
    std::sort(pairs.begin(), pairs.end());
    for (size_t k = 1; k < pairs.size(); ++k) if (pairs[k] == pairs[k - 1]) s.multi = true;
    for (int i = 0; i < nb; ++i) if (find(i) == i) { ++s.comps; }
    s.floating = s.comps - 1;   // components not containing Ground
    s.cyc = (int)in.joints.size() - nb + s.comps;
    return s;
}
static std::string bucket(int v, bool exact) {
    if (exact || v <= 4) return std::to_string(v);
    if (v <= 9) return "5-9";
    if (v <= 19) return "10-19";
    if (v <= 39) return "20-39";
    return "40+";
}
static std::string cap(int v, int m) { return v >= m ? std::to_string(m) + "+" : std::to_string(v); }

// ------------------------------------------------------------------ one case
static void runGraph(Ctx& c, const Input& in, bool enumerated, bool sampleIt, bool secondObject) {
    KEY(K_build, "exception:while_adding_bodies_and_joints");
    KEY(K_edit, "edit:delete_call_reported_failure");
    KEY(K_errOther, "error:undocumented_exception_from_generateGraph");
    KEY(K_errUnjust, "error:exception_not_justified_by_input");
    KEY(K_errMissing, "error:jointless_massless_body_accepted");
    KEY(K_errRepeat, "error:not_repeatable_after_clearGraph");
    KEY(K_clearThrows, "clear:clearGraph_threw");
    KEY(K_regenThrows, "regen:second_generateGraph_threw");
    KEY(K_detOutcome, "determinism:second_object_outcome_differs");

    Wit W; W.in = &in;
    Wit* wp = &W;
    const std::function<Json()> wf = [wp] { return wp->make(); };
    const int nb = (int)in.bodies.size(), nj = (int)in.joints.size();

    // ---- classify the input
    int nMassless = 0, nBase = 0, nLoop = 0;
    bool masslessNoJoint = false, masslessOneMobileJoint = false, masslessMobile = false;
    {
        std::vector<int> deg(nb, 0), mobileDeg(nb, 0), treeComp(nb);
        for (int i = 0; i < nb; ++i) treeComp[i] = i;
        for (bool changed = true; changed;) {   // components over the joints not flagged mustBeLoopJoint
            changed = false;
            for (auto& J : in.joints) if (!J.loop && treeComp[J.parent] != treeComp[J.child]) {
                const int lo = std::min(treeComp[J.parent], treeComp[J.child]);
                treeComp[J.parent] = treeComp[J.child] = lo; changed = true;
            }
        }
        for (auto& J : in.joints) { ++deg[J.parent]; ++deg[J.child]; if (TYPES[J.type].dof > 0) { ++mobileDeg[J.parent]; ++mobileDeg[J.child]; } if (J.loop) ++nLoop; }
        for (int i = 1; i < nb; ++i) {
            if (in.bodies[i].base) ++nBase;
            if (in.bodies[i].mass == 0) {
                ++nMassless;
                if (deg[i] == 0) masslessNoJoint = true;
                if (deg[i] == 1 && mobileDeg[i] == 1) masslessOneMobileJoint = true;
                // its mobilizer has dofs if one of its joints has, or if it can get an added free
                // joint: flagged base body, or not connected to Ground by tree-eligible joints
                if (mobileDeg[i] > 0 || in.bodies[i].base || treeComp[i] != treeComp[0]) masslessMobile = true;
            }
        }
    }

    // ---- build and generate
    c.setPhase("build");
    MGM A;
    try {
        if (in.viaEdits) { const bool ok = buildWithEdits(A, in); REQ(K_edit, ok, "deleteBody/deleteJoint return value"); }
        else buildPlain(A, in);
    } catch (const std::exception& e) {
        REQ(K_build, false, e.what());
        return;
    }
    W.g = &A;
    c.setPhase("generate");
    GenResult ra = generate(A);
    {
        static const std::string OBSNAME[] = {"outcome:ok", "outcome:err_massless_free", "outcome:err_massless_not_internal", "outcome:err_terminal_massless", "outcome:err_other"};
        c.obs(OBSNAME[ra.err]);
    }

    GraphStats st;
    std::string outcome;
    if (ra.err == E_NONE) {
        REQ(K_errMissing, !masslessNoJoint, "a massless body without any joint was accepted");
        c.setPhase("check");
        const bool usable = checkGraph(c, W, wf, A, in, st);
        if (sampleIt) (void)dumpText(A);   // exercise dumpGraph under the sanitizers
        if (usable) {
            const Sig s1 = signature(A, nb, nj);
            // (1) clearGraph + generateGraph on the same object gives the same graph
            c.setPhase("clear+regen");
            bool cleared = true;
            try { A.clearGraph(); } catch (const std::exception& e) { cleared = false; REQ(K_clearThrows, false, e.what()); }
            if (cleared) {
                checkCleared(c, W, wf, A, in, "after generateGraph+clearGraph");
                GenResult r2 = generate(A);
                REQ(K_regenThrows, r2.err == E_NONE, "generateGraph after clearGraph threw: " << firstLine(r2.msg, 300));
                if (r2.err == E_NONE) {
                    const int d = firstDifference(s1, signature(A, nb, nj));
                    if (d >= 0) violLazy(c, std::string("regen_after_clear:differs:") + SECNAME[d], W, std::string("graph regenerated after clearGraph differs from the first one in section ") + SECNAME[d]);
                    else { static const std::string k = "regen_after_clear:same"; c.require(k, true, wf); }
                }
            }
            // (2) an independent object built from the same input gives the same graph;
            // (3) generateGraph called again without clearGraph leaves the same graph
            if (secondObject) {
            c.setPhase("2nd object");
            MGM B;
            buildPlain(B, in);
            W.g = &B;
            GenResult rb = generate(B);
            REQ(K_detOutcome, rb.err == E_NONE, "same input in a second object threw: " << firstLine(rb.msg, 300));
            if (rb.err == E_NONE) {
                int d = firstDifference(s1, signature(B, nb, nj));
                if (d >= 0) violLazy(c, std::string(in.viaEdits ? "edit:graph_differs_from_direct_build:" : "determinism:second_object_differs:") + SECNAME[d], W,
                                     std::string(in.viaEdits ? "graph of the maker built through add/delete edits" : "graph of the first object") + " differs from that of a fresh object with the same input in section " + SECNAME[d]);
                else { static const std::string k = "determinism:second_object_same"; c.require(k, true, wf); }
                c.setPhase("regen no clear");
                GenResult rb2 = generate(B);
                REQ(K_regenThrows, rb2.err == E_NONE, "second generateGraph (no clearGraph) threw: " << firstLine(rb2.msg, 300));
                if (rb2.err == E_NONE) {
                    d = firstDifference(s1, signature(B, nb, nj));
                    if (d >= 0) violLazy(c, std::string("regen_no_clear:differs:") + SECNAME[d], W, std::string("calling generateGraph() a second time without clearGraph() changed the graph in section ") + SECNAME[d]);
                    else { static const std::string k = "regen_no_clear:same"; c.require(k, true, wf); }
                }
            }
            W.g = &A;
            }
        }
        outcome = std::string("ok.s") + cap(st.slaves, 3) + "c" + cap(st.loopCons, 3) + "a" + cap(st.added, 3) + "r" + cap(st.reversed, 2) + (st.groundSplit ? "G" : "");
    } else {
        // ---- documented failures must be justified by the input
        if (ra.err == E_OTHER) REQ(K_errOther, false, "generateGraph threw: " << firstLine(ra.msg, 400));
        else {
            const bool just = ra.err == E_MASSLESS_FREE ? masslessNoJoint : ra.err == E_MASSLESS_NOT_INTERNAL ? masslessOneMobileJoint : masslessMobile;
            REQ(K_errUnjust, just, "generateGraph threw '" << firstLine(ra.msg, 300) << "' but the input has no such body");
        }
        // the object stays usable: clearGraph restores the input and the failure repeats
        c.setPhase("clear after err");
        bool cleared = true;
        try { A.clearGraph(); } catch (const std::exception& e) { cleared = false; REQ(K_clearThrows, false, e.what()); }
        if (cleared) {
            checkCleared(c, W, wf, A, in, "after failed generateGraph+clearGraph");
            GenResult r2 = generate(A);
            REQ(K_errRepeat, r2.err == ra.err && r2.msg == ra.msg, "first: " << firstLine(ra.msg, 200) << " | after clearGraph: " << (r2.err == E_NONE ? "no exception" : firstLine(r2.msg, 200)));
        }
        outcome = ERRNAME[ra.err];
    }

    // ---- coverage: <shape class, flags, outcome>
    const Shape sh = shapeOf(in);
    std::string key = enumerated ? "enum" : "rand";
    key += ":n" + bucket(nb - 1, enumerated) + "j" + bucket(nj, enumerated) + ":float" + cap(sh.floating, 2) + "cyc" + (enumerated ? std::to_string(sh.cyc) : bucket(sh.cyc, false))
           + (sh.multi ? "M" : "") + (sh.groundJoint ? "G" : "") + (sh.groundChild ? "g" : "")
           + ":f" + (nMassless ? "M" : "") + (nBase ? "B" : "") + (nLoop ? "L" : "") + (in.viaEdits ? "E" : "") + ":" + outcome;
    c.cover(key);

    if (sampleIt && c.wantSample()) {
        Json s = Json::obj();
        s.set("case", c.curCase).set("kind", enumerated ? "enumerated" : "random").set("input", inputJson(in)).set("outcome", outcome)
         .set("coverage_key", key);
        if (ra.err == E_NONE) s.set("mobilizers", st.slaves + nb - 1).set("slaves", st.slaves).set("loop_constraints", st.loopCons).set("added_base_joints", st.added).set("max_level", st.maxLevel);
        else s.set("exception", firstLine(ra.msg, 200));
        c.sample(s);
    }
}

// ------------------------------------------------------------------ enumeration
struct Block { int n, m; char mode; uint64_t combos, base; int F; };
static uint64_t binom(int n, int k) {
    if (k < 0 || k > n) return 0;
    unsigned __int128 r = 1;
    for (int i = 1; i <= k; ++i) r = r * (unsigned)(n - k + i) / (unsigned)i;
    return (uint64_t)r;
}
static int numFlagChoices(char mode, int n, int m);
static std::vector<Block> parseEnum(const std::string& spec, uint64_t& total) {
    std::vector<Block> bl;
    total = 0;
    std::stringstream ss(spec);
    std::string item;
    while (std::getline(ss, item, ',')) {
        if (item.empty()) continue;
        int n = 0, a = 0, b = 0; char mode = 'F';
        if (sscanf(item.c_str(), "%d:%d-%d:%c", &n, &a, &b, &mode) == 4) {}
        else if (sscanf(item.c_str(), "%d:%d:%c", &n, &b, &mode) == 3) { a = b; }
        else { fprintf(stderr, "mon_graph: bad --enum item '%s'\n", item.c_str()); exit(2); }
        if (n < 1 || n > 6 || a < 0 || b > 8 || (mode != 'F' && mode != 'C' && mode != 'P')) { fprintf(stderr, "mon_graph: --enum item out of range '%s'\n", item.c_str()); exit(2); }
        for (int m = a; m <= b; ++m) {
            Block B; B.n = n; B.m = m; B.mode = mode;
            const int K = n * (n + 1) * NENUMTYPES;
            B.combos = binom(K + m - 1, m);
            B.F = numFlagChoices(mode, n, m);
            B.base = total;
            total += B.combos * (uint64_t)B.F;
            bl.push_back(B);
        }
    }
    return bl;
}
// joint code = pairIndex*NENUMTYPES + type; pairIndex = parent*n + (child - (child>parent))
static inline void decodeJoint(int code, int n, int& p, int& ch, int& t) {
    t = code % NENUMTYPES;
    const int q = code / NENUMTYPES;
    p = q / n;
    const int c2 = q % n;
    ch = c2 + (c2 >= p);
}
static inline int encodeJoint(int p, int ch, int t, int n) { return (p * n + (ch - (ch > p))) * NENUMTYPES + t; }
// next multiset (non-decreasing sequence over 0..K-1) in lexicographic order
static inline bool nextMultiset(int* a, int m, int K) {
    int i = m - 1;
    while (i >= 0 && a[i] == K - 1) --i;
    if (i < 0) return false;
    const int v = a[i] + 1;
    for (int k = i; k < m; ++k) a[k] = v;
    return true;
}
// Flag atoms of a block <n,m>: 0..n-1 body (atom+1) massless | n..2n-1 body (atom-n+1) mustBeBaseBody |
// 2n..2n+m-1 joint at sorted position (atom-2n) mustBeLoopJoint.  Modes F and C: flag index 0 = no
// atom, f>=1 = atom f-1. Mode P: flag index = rank of a pair x<y of atoms (exactly two flagged items).
struct Flags { int cnt = 0; int atom[2] = {-1, -1}; };
static Flags decodeFlags(char mode, int flag, int n, int m) {
    Flags f;
    if (mode != 'P') { if (flag > 0) { f.cnt = 1; f.atom[0] = flag - 1; } return f; }
    const int A = 2 * n + m;
    int k = flag;
    for (int x = 0; x < A - 1; ++x) {
        const int row = A - 1 - x;
        if (k < row) { f.cnt = 2; f.atom[0] = x; f.atom[1] = x + 1 + k; return f; }
        k -= row;
    }
    return f;
}
static int numFlagChoices(char mode, int n, int m) { const int A = 2 * n + m; return mode == 'P' ? A * (A - 1) / 2 : 1 + A; }
// The same labelled object is listed twice when a flagged joint has an equal unflagged twin before it.
static bool duplicateListing(const int* a, int n, const Flags& f) {
    for (int q = 0; q < f.cnt; ++q) {
        const int pos = f.atom[q] - 2 * n;
        if (pos <= 0 || a[pos - 1] != a[pos]) continue;
        bool prevFlagged = false;
        for (int w = 0; w < f.cnt; ++w) if (f.atom[w] == f.atom[q] - 1) prevFlagged = true;
        if (!prevFlagged) return true;
    }
    return false;
}
// Is <codes, flag> the least of its orbit under permutations of the non-ground bodies?
// Order: codes lexicographically, then <kind, target> with target = body label or code of
// the flagged joint.
static bool multisetCanonical(const int* a, int m, int n, std::vector<std::vector<int>>& perms) {
    int img[8];
    for (auto& pi : perms) {
        for (int k = 0; k < m; ++k) { int p, ch, t; decodeJoint(a[k], n, p, ch, t); img[k] = encodeJoint(pi[p], pi[ch], t, n); }
        std::sort(img, img + m);
        for (int k = 0; k < m; ++k) { if (img[k] < a[k]) return false; if (img[k] > a[k]) break; }
    }
    return true;
}
static bool flagCanonical(const int* a, int m, int n, const Flags& f, std::vector<std::vector<int>>& perms) {
    if (f.cnt == 0) return true;
    int img[8];
    const bool jointFlag = f.atom[0] >= 2 * n;
    const int body = jointFlag ? 0 : f.atom[0] % n + 1;
    const int pos = jointFlag ? f.atom[0] - 2 * n : -1;
    for (auto& pi : perms) {
        for (int k = 0; k < m; ++k) { int p, ch, t; decodeJoint(a[k], n, p, ch, t); img[k] = encodeJoint(pi[p], pi[ch], t, n); }
        const int flaggedImg = jointFlag ? img[pos] : 0;
        std::sort(img, img + m);
        bool same = true;
        for (int k = 0; k < m; ++k) if (img[k] != a[k]) { same = false; break; }
        if (!same) continue;                      // not an automorphism of the multiset
        if (jointFlag) { if (flaggedImg < a[pos]) return false; }
        else if (pi[body] < body) return false;
    }
    return true;
}
// relabel: the member of the relabelling orbit that is actually run (mode C); null = as listed
static Input enumInput(const int* a, int m, int n, const Flags& f, uint64_t globalIdx, const std::vector<int>* relabel) {
    Input in;
    auto lab = [&](int b) { return relabel ? (*relabel)[b] : b; };
    in.bodies.resize(n + 1);
    in.bodies[0] = {"g", 0.0, false};
    for (int i = 1; i <= n; ++i) in.bodies[i] = {"b" + std::to_string(i), 1.0, false};
    bool loopAt[8] = {false, false, false, false, false, false, false, false};
    for (int q = 0; q < f.cnt; ++q) {
        const int at = f.atom[q];
        if (at < n) in.bodies[lab(at + 1)].mass = 0;
        else if (at < 2 * n) in.bodies[lab(at - n + 1)].base = true;
        else loopAt[at - 2 * n] = true;
    }
    // insertion order of the joints: sorted, or a permutation derived from the index
    int ord[8];
    for (int k = 0; k < m; ++k) ord[k] = k;
    uint64_t h = globalIdx * 0x9E3779B97F4A7C15ULL + 12345;
    uint64_t r = splitmix64(h);
    if (r & 1) for (int k = m - 1; k > 0; --k) { const int j = (int)(splitmix64(h) % (uint64_t)(k + 1)); std::swap(ord[k], ord[j]); }
    in.joints.resize(m);
    for (int k = 0; k < m; ++k) {
        int p, ch, t; decodeJoint(a[ord[k]], n, p, ch, t);
        in.joints[k] = {"j" + std::to_string(k), t, lab(p), lab(ch), loopAt[ord[k]]};
    }
    return in;
}

// ------------------------------------------------------------------ random larger graphs
static Input randomInput(Rng& r, long idx) {
    Input in;
    const int mode = (int)(idx % 8);   // cycled deterministically: every family is reached
    int n = r.integer(5, 40);
    if (mode == 7) n = r.integer(5, 12);
    double pMassless = 0.0, pBase = 0.0, pLoop = 0.0, pGroundAttach = 0.7, pRev = 0.3, pMulti = 0.1, extraFrac = 0.2, pIsolated = 0.03, pExtraGround = 0.05;
    int ncomp = 1;
    switch (mode) {
    case 0: break;                                                                         // plain trees + some loops
    case 1: ncomp = r.integer(2, 6); pGroundAttach = 0.4; pIsolated = 0.1; break;          // disconnected components
    case 2: pMassless = 0.3; extraFrac = 0.1; break;                                       // massless intermediates
    case 3: extraFrac = r.uni(0.5, 1.5); pMulti = 0.5; pExtraGround = 0.2; break;          // dense, multi-edges
    case 4: pBase = 0.2; pLoop = 0.2; ncomp = r.integer(1, 3); break;                      // flag-heavy
    case 5: pMassless = 0.25; pBase = 0.25; pLoop = 0.1; ncomp = r.integer(1, 3); pGroundAttach = 0.8; break;   // massless x base x loop
    case 6: pRev = 0.8; pMassless = 0.1; pLoop = 0.05; extraFrac = 0.4; pExtraGround = 0.15; break;             // mostly child->parent towards Ground
    case 7: pMassless = 0.15; pBase = 0.1; pLoop = 0.15; pMulti = 0.3; extraFrac = 0.5; ncomp = r.integer(1, 2); break;  // small and busy
    }
    // type weights per family
    auto drawType = [&]() {
        const double u = r.uni();
        if (u < 0.35) return 1;          // pin
        if (u < 0.45) return 0;          // weld
        if (u < 0.55) return 3;          // ball
        if (u < 0.62) return 2;          // free
        if (u < 0.75) return 4;          // slider
        if (u < 0.83) return 5;          // planar
        if (u < 0.92) return 6;          // bushing
        return 7;                        // lock
    };
    // labels: body i of the construction gets add-order position perm[i]
    std::vector<int> order(n);
    for (int i = 0; i < n; ++i) order[i] = i + 1;
    for (int i = n - 1; i > 0; --i) std::swap(order[i], order[r.integer(0, i)]);
    struct E { int a, b, t; bool loop; };
    std::vector<E> edges;
    std::vector<int> comp(n + 1, 0), deg(n + 1, 0);
    std::vector<std::vector<int>> members(ncomp);
    std::vector<char> isolated(n + 1, 0);
    const double chainy = r.uni();   // 1: chains, 0: random recursive trees
    for (int i = 1; i <= n; ++i) {
        if (r.coin(pIsolated)) { isolated[i] = 1; continue; }
        const int k = r.integer(0, ncomp - 1);
        comp[i] = k;
        if (!members[k].empty()) {
            const int to = r.coin(chainy) ? members[k].back() : members[k][r.integer(0, (int)members[k].size() - 1)];
            edges.push_back({to, i, drawType(), false});
        }
        members[k].push_back(i);
    }
    for (int k = 0; k < ncomp; ++k) {
        if (members[k].empty()) continue;
        if (r.coin(pGroundAttach)) {
            const int na = r.coin(0.2) ? 2 : 1;
            for (int q = 0; q < na; ++q) edges.push_back({0, members[k][r.integer(0, (int)members[k].size() - 1)], drawType(), false});
        }
    }
    const int nExtra = (int)(extraFrac * n * r.uni(0.3, 1.0));
    for (int q = 0; q < nExtra; ++q) {
        int a, b;
        if (r.coin(pMulti) && !edges.empty()) { const E& e = edges[r.integer(0, (int)edges.size() - 1)]; a = e.a; b = e.b; }
        else if (r.coin(pExtraGround)) { a = 0; b = r.integer(1, n); }
        else { a = r.integer(1, n); b = r.integer(1, n); }
        if (a == b || isolated[a] || isolated[b]) continue;
        edges.push_back({a, b, drawType(), false});
    }
    for (auto& e : edges) { ++deg[e.a]; ++deg[e.b]; if (r.coin(pLoop)) e.loop = true; }
    // orientation
    for (auto& e : edges) if (r.coin(pRev)) std::swap(e.a, e.b);
    // shuffle joint order
    for (int i = (int)edges.size() - 1; i > 0; --i) std::swap(edges[i], edges[r.integer(0, i)]);

    // bodies in add order
    std::vector<int> posOf(n + 1, 0);   // construction index -> position in add order
    for (int i = 0; i < n; ++i) posOf[order[i]] = i + 1;
    in.bodies.resize(n + 1);
    const bool oddNames = r.coin(0.2);
    in.bodies[0] = {oddNames ? "the world" : "ground", 0.0, false};
    for (int i = 1; i <= n; ++i) {
        InBody b;
        b.name = (oddNames ? "body #" : "b") + std::to_string(posOf[i]);
        // massless: mostly internal bodies (degree >= 2), occasionally leaves (=> documented errors)
        const bool ml = deg[i] >= 2 ? r.coin(pMassless) : r.coin(pMassless * 0.08);
        b.mass = ml ? 0.0 : (r.coin(0.3) ? 1.0 : r.logUni(1e-3, 1e3));
        b.base = r.coin(pBase);
        in.bodies[posOf[i]] = b;
    }
    in.joints.resize(edges.size());
    for (size_t k = 0; k < edges.size(); ++k) {
        const E& e = edges[k];
        in.joints[k] = {(oddNames ? "joint " : "j") + std::to_string(k), e.t, e.a ? posOf[e.a] : 0, e.b ? posOf[e.b] : 0, e.loop};
    }
    if (r.coin(0.25)) { in.viaEdits = true; in.editSeed = r.next(); }
    return in;
}

// ------------------------------------------------------------------ main
int main(int argc, char** argv) {
    Args a = parseArgs(argc, argv);
    Ctx c(a);
    if (a.prop != "C42") { fprintf(stderr, "mon_graph: unknown property %s\n", a.prop.c_str()); return 2; }
    const std::string spec = a.get("enum", "1:0-3:F,2:0-2:F");
    const int nworkers = (int)std::max(1L, a.getInt("nworkers", 1));
    const long second = a.getInt("second", 1);  // enumerated cases: second-object oracles on every Nth case
    const bool dry = a.getInt("dry", 0) != 0;   // count the enumerated cases only (calibration aid)
    uint64_t E = 0;
    std::vector<Block> blocks = parseEnum(spec, E);

    long enumCases = 0, enumSkippedDuplicates = 0, enumSkippedNonCanonical = 0;
    auto runOne = [&](long idx, const std::function<void()>& body) {
        c.beginCase(idx);
        try { body(); }
        catch (const std::exception& ex) {
            c.viol("exception:" + normMsg(ex.what()), Json::obj().set("what", firstLine(ex.what(), 600)).set("phase", c.phase));
        }
        c.endCase();
    };

    // ---- exhaustive part
    for (const Block& B : blocks) {
        const int n = B.n, m = B.m, K = n * (n + 1) * NENUMTYPES;
        std::vector<std::vector<int>> perms;   // permutations of 0..n fixing 0 (identity excluded)
        {
            std::vector<int> p(n + 1);
            for (int i = 0; i <= n; ++i) p[i] = i;
            while (std::next_permutation(p.begin() + 1, p.end())) perms.push_back(p);
        }
        int cur[8] = {0, 0, 0, 0, 0, 0, 0, 0};
        uint64_t rank = 0;
        // --only: jump straight to the multiset holding that index
        uint64_t onlyRank = ~0ULL; int onlyFlag = -1;
        if (a.only >= 0) {
            const uint64_t o = (uint64_t)a.only;
            if (o < B.base || o >= B.base + B.combos * (uint64_t)B.F) continue;
            onlyRank = (o - B.base) / (uint64_t)B.F; onlyFlag = (int)((o - B.base) % (uint64_t)B.F);
        }
        bool more = true;
        for (; more; more = (m > 0) && nextMultiset(cur, m, K), ++rank) {
            if (a.only >= 0) { if (rank < onlyRank) continue; if (rank > onlyRank) break; }
            else if ((int)(rank % (uint64_t)nworkers) != a.worker % nworkers) continue;
            if (B.mode == 'C' && a.only < 0 && !multisetCanonical(cur, m, n, perms)) { enumSkippedNonCanonical += B.F; continue; }
            for (int flag = 0; flag < B.F; ++flag) {
                if (a.only >= 0 && flag != onlyFlag) continue;
                const Flags fl = decodeFlags(B.mode, flag, n, m);
                if (a.only < 0) {
                    if (duplicateListing(cur, n, fl)) { ++enumSkippedDuplicates; continue; }
                    if (B.mode == 'C' && !flagCanonical(cur, m, n, fl, perms)) { ++enumSkippedNonCanonical; continue; }
                }
                const uint64_t gidx = B.base + rank * (uint64_t)B.F + (uint64_t)flag;
                ++enumCases;
                if (dry) continue;
                runOne((long)gidx, [&] {
                    const std::vector<int>* relabel = nullptr;
                    if (B.mode == 'C' && !perms.empty()) {
                        uint64_t h = gidx * 0xD1B54A32D192ED03ULL + 777;
                        const uint64_t pick = splitmix64(h) % (uint64_t)(perms.size() + 1);
                        if (pick < perms.size()) relabel = &perms[pick];
                    }
                    const Input in = enumInput(cur, m, n, fl, gidx, relabel);
                    runGraph(c, in, true, (gidx % 9973) == 0 || a.verbose, second <= 1 || gidx % (uint64_t)second == 0);
                });
            }
        }
    }
    c.obs("enumerated_cases_run", enumCases);
    c.obs("enumeration_skipped:same_labelled_graph_listed_twice", enumSkippedDuplicates);
    c.obs("enumeration_skipped:relabelling_of_a_listed_graph", enumSkippedNonCanonical);
    if (dry) { printf("{\"t\":\"dry\",\"index_space\":%llu,\"cases\":%ld}\n", (unsigned long long)E, enumCases); return c.finish(); }

    // ---- random part
    long rb = (long)E, re = (long)E + a.cases;
    if (a.only >= 0) { if ((uint64_t)a.only >= E) { rb = a.only; re = a.only + 1; } else re = rb; }
    for (long idx = rb; idx < re; ++idx) {
        runOne(idx, [&] {
            Rng r(mix(a.seed, (uint64_t)idx));
            const Input in = randomInput(r, idx - (long)E);
            c.obs("random_cases_run");
            runGraph(c, in, false, ((idx - (long)E) % 97) == 0 || a.verbose, true);
        });
    }
    return c.finish();
}
