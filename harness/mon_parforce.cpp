// mon_parforce — C17: force totals are independent of threading and scheduling
// (DESIGN §5 C17).
//
// For one model and one sequence of State changes the totals produced by
// GeneralForceSubsystem at Dynamics stage (rigid-body and mobility forces) and the
// resulting udot are observed under thread counts T in {1,2,3,4,8,16} with injected
// delays, and compared with
//   Oracle A1 (values)  the serial sum of every enabled element's own
//                       Force::calcForceContribution(), within n*eps*sum|terms|;
//   Oracle A2 (exact)   custom elements add an exactly representable "digit" (element
//                       id -> one base-8 digit of one of the six components of the Ground
//                       slot, which no built-in element touches): after realization every
//                       enabled element's digit must be exactly its expected value — a
//                       lost or doubled contribution is identified with no tolerance and
//                       the witness names the element;
//   Oracle A3           udot under T threads equals udot under 1 thread;
//   Oracle B  (races)   ThreadSanitizer reports with simbody frames (tsan flavour).
// Custom elements dwell (yield/sleep/spin) *between* their read and write of the arrays
// they were handed — legal, an element owns those arrays during its call — so that
// thread 0 is still inside calcForce while fast workers reach finish().
// The SIMBODY_VERIF scheduling hooks of ParallelExecutor inject further delays.
//
// Legal-client preconditions: setNumberOfThreads() is called between realizations only;
// parallel custom elements are thread safe (they use no shared mutable data).
#include "model.h"
#include <atomic>
#include <thread>
#include <chrono>

using namespace SimTK;
using namespace vh;

extern "C" {
typedef void (*SimTK_VerifSchedHook)(int site, const void* object);
void SimTK_verifSetSchedHook(SimTK_VerifSchedHook hook);
}
static std::atomic<int> g_delayPermille{0}, g_delayMaxUs{0}, g_ord{0};
static std::atomic<uint64_t> g_hookSeed{1}, g_hookEvents{0};
static thread_local uint64_t t_x = 0; static thread_local int t_ord = -1;
static inline uint64_t tlNext() { if (t_ord < 0) { t_ord = g_ord.fetch_add(1, std::memory_order_relaxed); t_x = mix(g_hookSeed.load(std::memory_order_relaxed), (uint64_t)t_ord + 5); } return splitmix64(t_x); }
static void spinFor(int us) { auto t0 = std::chrono::steady_clock::now(); while (std::chrono::duration_cast<std::chrono::microseconds>(std::chrono::steady_clock::now() - t0).count() < us) {} }
static void dwell(uint64_t r, int maxUs) {
    if (maxUs <= 0) return;
    int k = (int)(r % 3), us = (int)((r >> 8) % (uint64_t)(maxUs + 1));
    if (k == 0) std::this_thread::yield(); else if (k == 1) std::this_thread::sleep_for(std::chrono::microseconds(us)); else spinFor(us / 4);
}
static void schedHook(int, const void*) {
    g_hookEvents.fetch_add(1, std::memory_order_relaxed);
    int p = g_delayPermille.load(std::memory_order_relaxed); if (p <= 0) return;
    uint64_t r = tlNext(); if ((int)(r % 1000) >= p) return;
    dwell(r >> 12, g_delayMaxUs.load(std::memory_order_relaxed));
}

// ------------------------------------------------------------------ the custom element
static const double POW8[16] = {1., 8., 64., 512., 4096., 32768., 262144., 2097152., 16777216., 134217728., 1073741824.,
                                8589934592., 68719476736., 549755813888., 4398046511104., 35184372088832.};
struct UDesc { int id; bool parallel, posOnly; int b1, b2, mob; double w; int dwellUs; uint64_t salt; };

class UForce : public Force::Custom::Implementation {
public:
    UForce(const UDesc& d, const SimbodyMatterSubsystem& m) : d(d), matter(m) {}
    static int digit(const UDesc& d, const State& s) {
        const Vector& v = d.posOnly ? s.getQ() : s.getU();
        if (v.size() == 0) return 1;
        return 1 + ((int)std::floor(std::fabs(v[d.id % v.size()]) * 16) & 1);
    }
    static Vec3 realPart(const UDesc& d, const State& s) {
        const Vector& v = d.posOnly ? s.getQ() : s.getU();
        double a = v.size() ? v[(d.id * 7) % v.size()] : 0.5;
        return d.w * Vec3(std::sin(a + d.id), std::cos(2 * a), a);
    }
    void calcForce(const State& s, Vector_<SpatialVec>& bodyForces, Vector_<Vec3>&, Vector& mobilityForces) const override {
        // exact digit in the Ground slot: read - dwell - write
        int comp = d.id % 6; double add = digit(d, s) * POW8[d.id / 6];
        double old = bodyForces[0][comp / 3][comp % 3];
        dwell(mix(d.salt, 1), d.dwellUs);
        bodyForces[0][comp / 3][comp % 3] = old + add;
        // real-valued action/reaction on two bodies and one mobility
        Vec3 f = realPart(d, s);
        Vec3 o1 = bodyForces[d.b1][1];
        dwell(mix(d.salt, 2), d.dwellUs);
        bodyForces[d.b1][1] = o1 + f;
        bodyForces[d.b2][1] -= f;
        bodyForces[d.b2][0] += 0.5 * f;
        if (mobilityForces.size()) { double om = mobilityForces[d.mob]; dwell(mix(d.salt, 3), d.dwellUs / 2); mobilityForces[d.mob] = om + f[0]; }
    }
    Real calcPotentialEnergy(const State&) const override { return 0; }
    bool dependsOnlyOnPositions() const override { return d.posOnly; }
    bool shouldBeParallelIfPossible() const override { return d.parallel; }
    UDesc d; const SimbodyMatterSubsystem& matter;
};

struct Elem { Force force; bool custom; UDesc ud; std::string kind; UForce* impl = nullptr; };

static double svMax(const SpatialVec& v) { double m = 0; for (int i = 0; i < 2; ++i) for (int j = 0; j < 3; ++j) m = std::max(m, std::fabs(v[i][j])); return m; }

static void checkC17(Ctx& c, long idx, Rng& r) {
    bool thorough = c.args.tier == "thorough";
    GenOpts o; o.minBodies = 2; o.maxBodies = 5; o.forceCycle = false; o.pLoneParticle = 0;
    o.types = {MT_Pin, MT_Slider, MT_Universal, MT_Ball, MT_Free, MT_Planar, MT_Gimbal, MT_Translation, MT_Cylinder};
    ModelDesc md = randomDesc(r, o, idx);
    Model m; m.build(md);
    int nb = (int)m.bodies.size();
    // ---- force elements
    std::vector<Elem> el;
    int nBuiltinCached = r.integer(0, 3), nBuiltinVel = r.integer(0, 3);
    // composition classes cycle deterministically so that every mode appears
    int cls = (int)(idx % 4);   // 0: no cacheable element (mode All); 1: cached + nonparallel slow; 2: everything; 3: only parallel customs + cached built-in
    if (cls == 0) nBuiltinCached = 0;
    if (cls == 3) { nBuiltinCached = std::max(1, nBuiltinCached); }
    auto body = [&](int k) -> MobilizedBody& { return m.bodies[k]; };
    for (int k = 0; k < nBuiltinCached; ++k) {
        int a = r.integer(0, nb - 1), b = (a + r.integer(1, nb - 1)) % nb;   // distinct bodies: a same-body pair cancels to a net 0 whose rounding scale is invisible
        if (r.coin(0.7)) { Elem e{Force::TwoPointLinearSpring(m.forces, body(a), randVec3(r, .5), body(b), randVec3(r, .5), r.uni(1, 20), r.uni(0, 1)), false, {}, "TwoPointLinearSpring"}; el.push_back(e); }
        else { Elem e{Force::TwoPointConstantForce(m.forces, body(a), randVec3(r, .5), body(b), randVec3(r, .5), r.sym(5)), false, {}, "TwoPointConstantForce"}; el.push_back(e); }
    }
    for (int k = 0; k < nBuiltinVel; ++k) {
        int a = r.integer(0, nb - 1), b = (a + r.integer(1, nb - 1)) % nb;
        if (r.coin(0.5)) { Elem e{Force::TwoPointLinearDamper(m.forces, body(a), randVec3(r, .5), body(b), randVec3(r, .5), r.uni(0.1, 3)), false, {}, "TwoPointLinearDamper"}; el.push_back(e); }
        else { Elem e{Force::GlobalDamper(m.forces, m.matter, r.uni(0.1, 2)), false, {}, "GlobalDamper"}; el.push_back(e); }
    }
    if (r.coin(0.5)) { Elem e{Force::Gravity(m.forces, m.matter, Vec3(0, -9.8, 0)), false, {}, "Gravity"}; el.push_back(e); }
    int nCustomNonPar = cls == 3 ? 0 : r.integer(1, 3);
    int nCustomPar = cls == 1 ? r.integer(1, 2) : r.integer(2, thorough ? 14 : 8);
    int slowDwell = r.integer(20, 150), fastDwell = r.coin(0.5) ? 0 : r.integer(1, 10);
    bool thread0Slower = r.coin(0.7);
    int uid = 0;
    auto addCustom = [&](bool par, bool posOnly, int dw) {
        UDesc d; d.id = uid++; d.parallel = par; d.posOnly = posOnly; d.b1 = body(r.integer(0, nb - 1)).getMobilizedBodyIndex(); d.b2 = body(r.integer(0, nb - 1)).getMobilizedBodyIndex();
        d.mob = 0; d.w = r.uni(0.5, 3); d.dwellUs = dw; d.salt = r.next();
        UForce* impl = new UForce(d, m.matter);
        Elem e{Force::Custom(m.forces, impl), true, d, std::string(par ? "par" : "nonpar") + (posOnly ? "-pos" : "-vel"), impl};
        el.push_back(e);
    };
    for (int k = 0; k < nCustomNonPar; ++k) addCustom(false, cls == 0 ? false : r.coin(0.35), thread0Slower ? slowDwell : fastDwell);
    for (int k = 0; k < nCustomPar; ++k) addCustom(true, cls == 0 ? false : r.coin(0.35), thread0Slower ? fastDwell : slowDwell);
    if (uid > 90) return;
    bool anyCacheable = false; for (auto& e : el) if (e.custom ? e.ud.posOnly : (e.kind == "TwoPointLinearSpring" || e.kind == "TwoPointConstantForce")) anyCacheable = true;

    State s0 = m.init();
    int nu = s0.getNU();
    if (nu == 0) { c.skip("no-mobilities"); return; }
    for (auto& e : el) if (e.custom) e.impl->d.mob = e.ud.mob = (int)(e.ud.salt % (uint64_t)nu);

    // ---- the sequence of state changes (same for every thread count)
    struct Step { int kind; uint64_t seed; int which; };
    std::vector<Step> steps; int R = r.integer(6, thorough ? 16 : 10);
    for (int k = 0; k < R; ++k) { Step st; st.kind = k == 0 ? 0 : r.integer(0, 3); st.seed = r.next(); st.which = r.integer(0, (int)el.size() - 1); steps.push_back(st); }
    // kinds: 0 new q and u (cache invalid), 1 new u only (cache valid), 2 toggle an element, 3 new q only

    static const int TS[] = {1, 2, 3, 4, 8, 16};
    std::vector<Vector> udotRef(R);
    int prof = r.integer(0, 2); g_delayPermille = prof == 0 ? 0 : prof == 1 ? 200 : 700; g_delayMaxUs = prof == 0 ? 0 : prof == 1 ? 30 : 150;
    g_hookSeed = r.next();
    std::string descr = md.shortStr() + " elems=" + std::to_string(el.size()) + " par=" + std::to_string(nCustomPar) + " nonpar=" + std::to_string(nCustomNonPar) + " cls=" + std::to_string(cls);
    if (c.wantSample()) c.sample(Json::obj().set("case", idx).set("model", descr).set("steps", R));

    for (int ti = 0; ti < 6; ++ti) {
        int T = TS[ti];
        if (!thorough && ti == 5 && (idx % 2)) continue;      // 16 threads on every other case in the quick tier
        m.forces.setNumberOfThreads(T);
        State s = s0;
        std::vector<bool> enabled(el.size(), true);
        for (int k = 0; k < R; ++k) {
            const Step& st = steps[k];
            Rng rs(st.seed);
            const char* kindName = "";
            if (st.kind == 0) { randomQU(m, s, rs); kindName = "q+u"; }
            else if (st.kind == 1) { Vector u(nu); for (int i = 0; i < nu; ++i) u[i] = rs.sym(2); s.updU() = u; kindName = "u-only"; }
            else if (st.kind == 2) { enabled[st.which] = !enabled[st.which]; m.forces.setForceIsDisabled(s, el[st.which].force.getForceIndex(), !enabled[st.which]); kindName = "toggle"; }
            else { Vector u = s.getU(); randomQU(m, s, rs); s.updU() = u; kindName = "q-only"; }
            c.setPhase("T=" + std::to_string(T) + " step " + std::to_string(k) + " " + kindName + " " + descr);
            m.sys.realize(s, Stage::Acceleration);
            const Vector_<SpatialVec>& F = m.sys.getRigidBodyForces(s, Stage::Dynamics);
            const Vector& f = m.sys.getMobilityForces(s, Stage::Dynamics);
            // ---- Oracle A2: exact digits
            for (auto& e : el) if (e.custom) {
                int comp = e.ud.id % 6; double v = F[0][comp / 3][comp % 3];
                double q = std::floor(v / POW8[e.ud.id / 6]); int got = (int)std::fmod(q, 8.0);
                int want = enabled[&e - &el[0]] ? UForce::digit(e.ud, s) : 0;
                c.require(std::string("exact-contribution:") + (got < want ? "lost" : got > want ? "extra" : "ok") + ":" + e.kind,
                          got == want, [&] { return Json::obj().set("threads", T).set("step", k).set("change", kindName).set("element_id", e.ud.id).set("kind", e.kind).set("digit", got).set("expected", want).set("model", descr); });
            }
            // ---- Oracle A1: serial sum of calcForceContribution
            Vector_<SpatialVec> sumF(F.size()); sumF.setToZero(); Vector sumf(f.size()); sumf.setToZero();
            Vector_<SpatialVec> absF(F.size()); absF.setToZero(); Vector absf(f.size()); absf.setToZero();
            Vector_<SpatialVec> bf; Vector_<Vec3> pf; Vector mf; int nEn = 0;
            int saveP = g_delayPermille.load(); // contributions are computed serially by the harness: no need for delays there
            for (size_t i = 0; i < el.size(); ++i) {
                if (!enabled[i]) continue; ++nEn;
                UForce* uf = el[i].impl;
                int sd = 0; if (uf) { sd = uf->d.dwellUs; uf->d.dwellUs = 0; }
                el[i].force.calcForceContribution(s, bf, pf, mf);
                if (uf) uf->d.dwellUs = sd;
                for (int b = 0; b < bf.size(); ++b) { sumF[b] += bf[b]; for (int a = 0; a < 2; ++a) for (int x = 0; x < 3; ++x) absF[b][a][x] += std::fabs(bf[b][a][x]); }
                for (int j = 0; j < mf.size(); ++j) { sumf[j] += mf[j]; absf[j] += std::fabs(mf[j]); }
                if (uf) {   // scale floor: +f and -f may hit the same body (net 0, rounding scale |f|)
                    Vec3 fr = UForce::realPart(uf->d, s);
                    for (int x = 0; x < 3; ++x) { absF[uf->d.b1][1][x] += std::fabs(fr[x]); absF[uf->d.b2][1][x] += std::fabs(fr[x]); absF[uf->d.b2][0][x] += std::fabs(fr[x]); }
                }
            }
            (void)saveP;
            double worst = 0, tolAt = 1; int wb = -1;
            for (int b = 1; b < F.size(); ++b) for (int a = 0; a < 2; ++a) for (int x = 0; x < 3; ++x) {
                double d = std::fabs(F[b][a][x] - sumF[b][a][x]), tol = 8 * (nEn + 2) * 2.3e-16 * (absF[b][a][x] + 1e-300) + 1e-300;
                if (d / tol > worst / tolAt) { worst = d; tolAt = tol; wb = b; }
            }
            c.check("total-body-forces:vs-serial-sum", worst, tolAt, [&] { return Json::obj().set("threads", T).set("step", k).set("change", kindName).set("body", wb).set("model", descr); });
            worst = 0; tolAt = 1; int wj = -1;
            for (int j = 0; j < f.size(); ++j) { double d = std::fabs(f[j] - sumf[j]), tol = 8 * (nEn + 2) * 2.3e-16 * (absf[j] + 1e-300) + 1e-300; if (d / tol > worst / tolAt) { worst = d; tolAt = tol; wj = j; } }
            c.check("total-mobility-forces:vs-serial-sum", worst, tolAt, [&] { return Json::obj().set("threads", T).set("step", k).set("change", kindName).set("mobility", wj).set("model", descr); });
            // Ground slot real check too (exact)
            { bool ok = true; for (int a = 0; a < 2; ++a) for (int x = 0; x < 3; ++x) if (F[0][a][x] != sumF[0][a][x]) ok = false;
              c.require("ground-slot:exact-equals-serial-sum", ok, [&] { return Json::obj().set("threads", T).set("step", k).set("change", kindName).set("model", descr); }); }
            // ---- Oracle A3: udot independent of T
            const Vector& ud = s.getUDot();
            if (!allFinite(ud)) { c.skip("udot-not-finite(singular-model)"); }
            else if (T == 1) udotRef[k] = ud;
            else if (udotRef[k].size() == ud.size()) {
                double d = 0; for (int i = 0; i < ud.size(); ++i) d = std::max(d, std::fabs(ud[i] - udotRef[k][i]));
                c.check("udot:T-vs-1-thread", d, 1e-8 * (vmaxabs(ud) + 1), [&] { return Json::obj().set("threads", T).set("step", k).set("model", descr); });
            }
            const char* mode = !anyCacheable ? "All" : (st.kind == 1 ? "NonCached" : "CachedAndNonCached");
            c.cover(std::string("mode=") + mode + "/T=" + std::to_string(T) + "/par" + (nCustomPar + 1 > T ? ">T" : "<=T") + "/" + (thread0Slower ? "thread0-slower" : "workers-slower") + "/" + kindName + "/hooks" + std::to_string(prof));
            c.obs("realizations"); c.obs("element_evaluations", nEn);
        }
    }
}

int main(int argc, char** argv) {
    Args a = parseArgs(argc, argv);
    Ctx c(a);
    if (a.prop != "C17") { fprintf(stderr, "mon_parforce: unknown property %s\n", a.prop.c_str()); return 2; }
    if (a.getInt("hooks", 1)) SimTK_verifSetSchedHook(schedHook);
    int rc = runCases(c, [&](long i, Rng& r) {
        checkC17(c, i, r);
        if (i == a.first + a.cases - 1 || a.only >= 0) c.obs("hook_events", (long)g_hookEvents.load());
    });
    SimTK_verifSetSchedHook(nullptr);
    return rc;
}
