// mon_events — C22: events are detected, localised and handled in time order (DESIGN §5 C22).
//
// A custom System with analytically known trajectories is driven by every integrator in two ways:
//   driver I ("manual stepper"): the harness calls Integrator::stepTo() itself with random report /
//     scheduled / final times, and at every ReachedEventTrigger return checks the window, the listed
//     events, the before-state and (for exactly integrated witnesses) the analytic crossing times;
//     triggered handlers are then dispatched through System::handleEvents + reinitialize exactly as
//     TimeStepper does (or, in some cases, not at all: the client just continues).
//   driver S (real TimeStepper): triggered / scheduled / periodic handlers and reporters (optionally a
//     second Subsystem owning scheduled events) write a call log; the log is checked offline against
//     the analytic hybrid trajectory (segment by segment, re-anchored at every handler output).
//
// System:   q' = u, u' = a*mu*nu            (q quadratic: exact for RK2/3/F/M and Verlet only)
//           z_i' = c_i*mu*nu  (i < nzl)      (linear: integrated and interpolated exactly by all methods)
//           zo0' = om*zo1, zo1' = -om*zo0    (oscillator: makes error control / step selection real)
//           mu (Dynamics-stage discrete var), nu (Instance-stage discrete var) are changed by handlers.
// Witnesses: k(z-L), k sin(w(z-phi)), boolean sign(z-L), k(q-L), k(t-L), k(u-L), k(zo0-L).
//
// Legal-client preconditions (cases/oracles outside them are skipped, not judged):
//  * the maximum step is limited so that successive roots of one witness are >= 2.5 steps apart
//    (a crossing that un-crosses within one step is documented as "missed the boat": user error);
//    roots closer than that, tangential roots (|slope| < 1e-3) and roots within 2e-8 of the start of a
//    continuous interval (sign at the start not decidable) are "soft": they may justify a report but
//    their absence is not judged.
//  * witnesses are declared at a stage consistent with what they read (z: Dynamics+, q: Position+ ...).
//  * scheduled time passed to stepTo is never behind the advanced time (non-CPodes); both states are
//    realized to Stage::Time before every stepTo like TimeStepper does.
//  * requested localisation windows below 1e-12*max(1,t) are clamped to that floor (cannot beat roundoff).
//  * scheduled times equal to the last stepTo target are optional (TimeStepper documents nothing there).
//
// Tolerances (DESIGN §1.4): analytic crossing times are compared with 2e-9 time slack plus twice the measured
// deviation of the observed state from the analytic trajectory mapped to time (zero for exactly integrated
// components, so the slack only widens where the integrator itself is inexact); witness signs are judged up
// to 1e-12 relative roundoff of the witness; "state on trajectory" 1e-10 relative (CPodes: + 5*accuracy: it
// follows even the linear components only to within its tolerance, 0.16*accuracy was seen; its accuracy is
// C20's business, here the measured deviation only widens the time slack).
//
// Behaviour seen on the unchanged tree that is counted (c.obs) but NOT judged, with the reason:
//  * before-state-marginally-past-crossing: the before-state returned with ReachedEventTrigger is
//    re-interpolated after the advanced state was backed up to tHigh, so for inexactly interpolated
//    trajectories it differs (by about the local error) from the state on which localisation decided; a
//    listed witness can already be past zero there by less than the integration accuracy.
//  * roundoff-level-rereport: a witness whose value at the restart is at roundoff level may be reported again
//    immediately (sign at the start not decidable).
//  * scheduled-report-inside-event-window-dropped: a scheduled *report* whose time falls inside a localisation
//    window (not known when the window was built) is dropped when the handler changes the state and served
//    after the handler (out of time order) when it does not: the window is "no man's land" by design.
//
// Attribution (DESIGN §1.5a): anomalies of events reported by CPodes within one step of a (re)start at
// which some witness is exactly zero are keyed "cpodes-restart:..." whatever oracle noticed them; CPodes
// anomalies where a crossing / window edge / dispatch lies within 1e-11 of a report, scheduled or target time
// (CPodesIntegrator neither keeps such times out of its ~1e-13 wide root windows nor compares them robustly)
// are keyed "cpodes-coincidence:..."; a state
// that changes although no time passed and no handler touched it is keyed "continue:state-changed-without-
// integration:<class>"; handlers of the default subsystem called at another subsystem's scheduled time are
// keyed "sched:called-at-unscheduled-time:two-subsystems-own-scheduled-events".
// A per-case budget of derivative evaluations (no wall clock) turns a library loop that keeps evaluating the
// system into an exception; a runaway of handler calls is stopped by the handlers themselves (judged only when
// the calls repeat at one and the same time; otherwise the generated system is Zeno-like and the case is skipped).
#include "vh.h"
#include "SimTKcommon.h"
#include "SimTKcommon/internal/SystemGuts.h"
#include "simmath/Integrator.h"
#include "simmath/TimeStepper.h"
#include "simmath/RungeKutta2Integrator.h"
#include "simmath/RungeKutta3Integrator.h"
#include "simmath/RungeKuttaFeldbergIntegrator.h"
#include "simmath/RungeKuttaMersonIntegrator.h"
#include "simmath/VerletIntegrator.h"
#include "simmath/ExplicitEulerIntegrator.h"
#include "simmath/SemiExplicitEulerIntegrator.h"
#include "simmath/SemiExplicitEuler2Integrator.h"
#include "simmath/CPodesIntegrator.h"
#include <memory>

using namespace SimTK;
using namespace vh;

namespace {

const int IQ = 0, IU = 1, IZ = 2;
double DT = 2e-9;              // slack (time units) when comparing with analytic crossing times (debug: --dt)
const double GUARD = 2e-8;     // roots this close to the start of a continuous interval are not judged
const double YTOL = 1e-10;     // relative slack for "state lies on the analytic trajectory"
const double CPTOL = 5;        // CPodes: its states follow the analytic line only to within its accuracy (seen: 0.16*acc)
const size_t CALLCAP = 3000;   // handler-call runaway guard
const long EVALCAP = 500000;   // derivative-evaluation budget per case (normal cases need < 1e4): turns a library
                               // loop that keeps evaluating the system into an exception instead of a hang

// ------------------------------------------------------------------ parameters of one generated system
struct Par {
    int nzl = 1;
    double c[3] = {1, 1, 1};
    double a = 0, om = 1;
    double y0[7] = {0, 0, 0, 0, 0, 0, 0};
    double mu0 = 1, muAlt = 1.5, nu0 = 1, nuAlt = 0.75;
    double t0 = 0;
    int ny() const { return 4 + nzl; }
};

enum WKind { WLinZ, WSinZ, WBoolZ, WQuad, WTime, WVelU, WOsc };
const char* wkName(WKind k) {
    switch (k) { case WLinZ: return "lin"; case WSinZ: return "sin"; case WBoolZ: return "bool"; case WQuad: return "quad";
                 case WTime: return "time"; case WVelU: return "vel"; default: return "osc"; }
}
struct Wit {
    WKind kind = WLinZ;
    int comp = IZ;
    double k = 1, L = 0, om = 1, phi = 0;
    int mask = 3;            // 1 falling, 2 rising, 3 both
    double win = 0.1;        // required localisation window (fraction of time scale); unique => id tag
    int stage = 0;           // Stage enum value at which the witness is evaluated
    // underlying continuous function g; the witness is k*g (or k*sign(g) for the boolean kind)
    double g(double t, const double* y) const {
        switch (kind) {
        case WLinZ: case WOsc: case WBoolZ: return y[comp] - L;
        case WSinZ: return std::sin(om * (y[comp] - phi));
        case WQuad: return y[IQ] - L;
        case WVelU: return y[IU] - L;
        case WTime: return t - L;
        }
        return 0;
    }
    // roundoff level of g: signs of |g| below this are not decidable by an observer
    double gtol(double t, const double* y) const {
        switch (kind) {
        case WSinZ: return 1e-12 * (1 + std::fabs(om) * (std::fabs(y[comp]) + std::fabs(phi)));
        case WQuad: return 1e-12 * (1 + std::fabs(y[IQ]) + std::fabs(L));
        case WVelU: return 1e-12 * (1 + std::fabs(y[IU]) + std::fabs(L));
        case WTime: return 1e-12 * (1 + std::fabs(t) + std::fabs(L));
        default: return 1e-12 * (1 + std::fabs(y[comp]) + std::fabs(L));
        }
    }
    double eval(double t, const double* y) const {
        const double v = g(t, y);
        if (kind == WBoolZ) return v > 0 ? k : -k;
        return k * v;
    }
    // signed g in "witness direction": > 0 means the witness is positive
    double sg(double t, const double* y) const { return (k > 0 ? 1 : -1) * g(t, y); }
};

enum EKind { ENone, EJumpZ, EJumpQ, EJumpU, ESetMu, ESetNu, ETerm, NEK };
const char* ekName(EKind e) {
    switch (e) { case ENone: return "none"; case EJumpZ: return "z"; case EJumpQ: return "q"; case EJumpU: return "u";
                 case ESetMu: return "mu"; case ESetNu: return "nu"; case ETerm: return "term"; default: return "?"; }
}
struct Eff { EKind kind = ENone; int comp = IZ; double val = 0; int termAt = 1; };

enum HKind { HTrig, HSched, HPer, HTrigRep, HSchedRep, HPerRep, HSubSched };
const char* hkName(HKind h) {
    switch (h) { case HTrig: return "trig"; case HSched: return "sched"; case HPer: return "periodic"; case HTrigRep: return "trigrep";
                 case HSchedRep: return "schedrep"; case HPerRep: return "perrep"; default: return "subsched"; }
}
bool isTriggered(HKind h) { return h == HTrig || h == HTrigRep; }
bool isReporter(HKind h) { return h == HTrigRep || h == HSchedRep || h == HPerRep; }
bool isTimed(HKind h) { return !isTriggered(h); }
struct HSpec {
    HKind kind = HTrig;
    int wit = -1;                  // triggered kinds
    std::vector<double> times;     // scheduled kinds (sorted, unique)
    double period = 0;             // periodic kinds
    Eff eff;
    int calls = 0;
};

struct Rec {                       // one handler call
    int h; double t; std::vector<double> yin, yout; double muIn, nuIn, muOut, nuOut; bool term; int disp;
};

struct EvGuts;
struct Shared {
    Par P;
    std::vector<Wit> wits;
    std::vector<HSpec> hs;
    std::vector<Rec> log;
    EvGuts* guts = nullptr;
    bool runaway = false;
    int dispatch = 0;              // incremented by the driver whenever it knows a new dispatch starts
    long evals = 0;                // derivative evaluations in this case (library-hang guard, no wall clock)
    bool budgetExceeded = false;
};

// ------------------------------------------------------------------ the System
struct EvGuts : public System::Guts {
    Shared* S = nullptr;
    SubsystemIndex sub;
    mutable QIndex qi; mutable UIndex ui; mutable ZIndex zi;
    mutable DiscreteVariableIndex muIx, nuIx;
    EvGuts() : System::Guts("EvSystem", "1.0") {}
    EvGuts* cloneImpl() const override { return new EvGuts(*this); }
    int realizeTopologyImpl(State& s) const override {
        const Par& P = S->P;
        qi = s.allocateQ(sub, Vector(1, P.y0[IQ]));
        ui = s.allocateU(sub, Vector(1, P.y0[IU]));
        Vector z(P.nzl + 2);
        for (int i = 0; i < P.nzl + 2; ++i) z[i] = P.y0[IZ + i];
        zi = s.allocateZ(sub, z);
        muIx = s.allocateDiscreteVariable(sub, Stage::Dynamics, new Value<Real>(P.mu0));
        nuIx = s.allocateDiscreteVariable(sub, Stage::Instance, new Value<Real>(P.nu0));
        return 0;
    }
    Real getMu(const State& s) const { return Value<Real>::downcast(s.getDiscreteVariable(sub, muIx)).get(); }
    Real getNu(const State& s) const { return Value<Real>::downcast(s.getDiscreteVariable(sub, nuIx)).get(); }
    void setMu(State& s, Real v) const { Value<Real>::updDowncast(s.updDiscreteVariable(sub, muIx)).upd() = v; }
    void setNu(State& s, Real v) const { Value<Real>::updDowncast(s.updDiscreteVariable(sub, nuIx)).upd() = v; }
    int realizeVelocityImpl(const State& s) const override {
        s.updQDot(sub)[0] = s.getU(sub)[0];
        return 0;
    }
    int realizeAccelerationImpl(const State& s) const override {
        const Par& P = S->P;
        if (++S->evals > EVALCAP) { S->budgetExceeded = true; throw std::runtime_error("C22 harness: derivative evaluation budget exceeded"); }
        const Real r = getMu(s) * getNu(s);
        s.updUDot(sub)[0] = P.a * r;
        s.updQDotDot(sub)[0] = P.a * r;
        const Vector& z = s.getZ(sub);
        Vector& zd = s.updZDot(sub);
        for (int i = 0; i < P.nzl; ++i) zd[i] = P.c[i] * r;
        zd[P.nzl] = P.om * z[P.nzl + 1];
        zd[P.nzl + 1] = -P.om * z[P.nzl];
        return 0;
    }
    void multiplyByNImpl(const State&, const Vector& u, Vector& dq) const override { dq = u; }
    void multiplyByNTransposeImpl(const State&, const Vector& fq, Vector& fu) const override { fu = fq; }
    void multiplyByNPInvImpl(const State&, const Vector& dq, Vector& u) const override { u = dq; }
    void multiplyByNPInvTransposeImpl(const State&, const Vector& fu, Vector& fq) const override { fq = fu; }
};

struct EvSystem : public System {
    EvSystem(Shared* S) {
        EvGuts* g = new EvGuts();
        g->S = S;
        adoptSystemGuts(g);
        DefaultSystemSubsystem defsub(*this);
        g->sub = defsub.getMySubsystemIndex();
        S->guts = g;
        setHasTimeAdvancedEvents(false);
    }
};

void copyY(const State& s, std::vector<double>& y) {
    const Vector& v = s.getY();
    y.resize(v.size());
    for (int i = 0; i < v.size(); ++i) y[i] = v[i];
}

// The common body of every handler: log, apply the effect, log again.
void onCall(Shared* S, int h, const State& cs, State* ms, bool* term) {
    HSpec& H = S->hs[h];
    Rec r;
    r.h = h; r.t = cs.getTime(); r.term = false; r.disp = S->dispatch;
    copyY(cs, r.yin);
    r.muIn = S->guts->getMu(cs); r.nuIn = S->guts->getNu(cs);
    ++H.calls;
    if (ms) {
        State& s = *ms;
        const Eff& e = H.eff;
        switch (e.kind) {
        case EJumpZ: s.updZ()[e.comp - IZ] += e.val; break;
        case EJumpQ: s.updQ()[0] += e.val; break;
        case EJumpU: s.updU()[0] += e.val; break;
        case ESetMu: S->guts->setMu(s, r.muIn == S->P.mu0 ? S->P.muAlt : S->P.mu0); break;
        case ESetNu: S->guts->setNu(s, r.nuIn == S->P.nu0 ? S->P.nuAlt : S->P.nu0); break;
        case ETerm: if (H.calls >= e.termAt) { *term = true; r.term = true; } break;
        default: break;
        }
    }
    copyY(cs, r.yout);
    r.muOut = S->guts->getMu(cs); r.nuOut = S->guts->getNu(cs);
    S->log.push_back(r);
    if (S->log.size() > CALLCAP) { S->runaway = true; if (term) *term = true; }
}

void setInfo(EventTriggerInfo& ti, const Wit& w) {
    ti.setTriggerOnRisingSignTransition((w.mask & 2) != 0);
    ti.setTriggerOnFallingSignTransition((w.mask & 1) != 0);
    ti.setRequiredLocalizationTimeWindow(w.win);
}
Real witValue(const Shared* S, int wit, const State& s) {
    double y[8];
    const Vector& v = s.getY();
    for (int i = 0; i < v.size() && i < 8; ++i) y[i] = v[i];
    return S->wits[wit].eval(s.getTime(), y);
}
Real nextListed(const std::vector<double>& times, Real t, bool incl) {
    for (double x : times) if (x > t || (incl && x == t)) return x;
    return Infinity;
}

struct TrigH : public TriggeredEventHandler {
    Shared* S; int h;
    TrigH(Shared* S, int h) : TriggeredEventHandler(Stage(S->wits[S->hs[h].wit].stage)), S(S), h(h) { setInfo(getTriggerInfo(), S->wits[S->hs[h].wit]); }
    Real getValue(const State& s) const override { return witValue(S, S->hs[h].wit, s); }
    void handleEvent(State& s, Real, bool& term) const override { onCall(S, h, s, &s, &term); }
};
struct TrigR : public TriggeredEventReporter {
    Shared* S; int h;
    TrigR(Shared* S, int h) : TriggeredEventReporter(Stage(S->wits[S->hs[h].wit].stage)), S(S), h(h) { setInfo(getTriggerInfo(), S->wits[S->hs[h].wit]); }
    Real getValue(const State& s) const override { return witValue(S, S->hs[h].wit, s); }
    void handleEvent(const State& s) const override { onCall(S, h, s, nullptr, nullptr); }
};
struct SchedH : public ScheduledEventHandler {
    Shared* S; int h;
    SchedH(Shared* S, int h) : S(S), h(h) {}
    Real getNextEventTime(const State& s, bool incl) const override { return nextListed(S->hs[h].times, s.getTime(), incl); }
    void handleEvent(State& s, Real, bool& term) const override { onCall(S, h, s, &s, &term); }
};
struct SchedR : public ScheduledEventReporter {
    Shared* S; int h;
    SchedR(Shared* S, int h) : S(S), h(h) {}
    Real getNextEventTime(const State& s, bool incl) const override { return nextListed(S->hs[h].times, s.getTime(), incl); }
    void handleEvent(const State& s) const override { onCall(S, h, s, nullptr, nullptr); }
};
struct PerH : public PeriodicEventHandler {
    Shared* S; int h;
    PerH(Shared* S, int h) : PeriodicEventHandler(S->hs[h].period), S(S), h(h) {}
    void handleEvent(State& s, Real, bool& term) const override { onCall(S, h, s, &s, &term); }
};
struct PerR : public PeriodicEventReporter {
    Shared* S; int h;
    PerR(Shared* S, int h) : PeriodicEventReporter(S->hs[h].period), S(S), h(h) {}
    void handleEvent(const State& s) const override { onCall(S, h, s, nullptr, nullptr); }
};

// A second Subsystem that owns scheduled events (the documented extension route:
// createScheduledEvent / calcTimeOfNextScheduledEventImpl / handleEventsImpl).
struct SubSchedGuts : public Subsystem::Guts {
    Shared* S; std::vector<int> hidx; mutable std::vector<EventId> ids;
    SubSchedGuts(Shared* S) : Subsystem::Guts("SubSched", "1.0"), S(S) {}
    SubSchedGuts* cloneImpl() const override { return new SubSchedGuts(*this); }
    int realizeSubsystemTopologyImpl(State& s) const override {
        ids.clear();
        for (size_t k = 0; k < hidx.size(); ++k) { EventId id; createScheduledEvent(s, id); ids.push_back(id); }
        return 0;
    }
    void calcTimeOfNextScheduledEventImpl(const State& s, Real& tNext, Array_<EventId>& eventIds, bool incl) const override {
        tNext = Infinity; eventIds.clear();
        for (size_t k = 0; k < hidx.size(); ++k) {
            Real t = nextListed(S->hs[hidx[k]].times, s.getTime(), incl);
            if (t == Infinity) continue;
            if (t < tNext) { tNext = t; eventIds.clear(); }
            if (t == tNext) eventIds.push_back(ids[k]);
        }
    }
    void handleEventsImpl(State& s, Event::Cause cause, const Array_<EventId>& eventIds, const HandleEventsOptions&, HandleEventsResults& results) const override {
        bool term = false;
        if (cause == Event::Cause::Scheduled)
            for (unsigned i = 0; i < eventIds.size(); ++i)
                for (size_t k = 0; k < ids.size(); ++k)
                    if (ids[k] == eventIds[i]) onCall(S, hidx[k], s, &s, &term);
        results.setExitStatus(term ? HandleEventsResults::ShouldTerminate : HandleEventsResults::Succeeded);
    }
};
struct SubSched : public Subsystem {
    SubSched(System& sys, SubSchedGuts* g) { adoptSubsystemGuts(g); sys.adoptSubsystem(*this); }
};

// ------------------------------------------------------------------ integrators
enum IK { IRK2, IRK3, IRKF, IRKM, IVerlet, IEE, ISEE, ISEE2, ICPBDF, ICPAdams, NIK };
const char* ikName(int k) {
    static const char* n[] = {"RK2", "RK3", "RKF", "RKM", "Verlet", "ExplicitEuler", "SemiExplicitEuler", "SemiExplicitEuler2", "CPodesBDF", "CPodesAdams"};
    return n[k];
}
bool quadExact(int k) { return k == IRK2 || k == IRK3 || k == IRKF || k == IRKM || k == IVerlet; }
bool isCPodes(int k) { return k == ICPBDF || k == ICPAdams; }
std::unique_ptr<Integrator> makeInteg(int k, const System& sys, double hmax, bool fixed) {
    std::unique_ptr<Integrator> p;
    switch (k) {
    case IRK2: p.reset(new RungeKutta2Integrator(sys)); break;
    case IRK3: p.reset(new RungeKutta3Integrator(sys)); break;
    case IRKF: p.reset(new RungeKuttaFeldbergIntegrator(sys)); break;
    case IRKM: p.reset(new RungeKuttaMersonIntegrator(sys)); break;
    case IVerlet: p.reset(new VerletIntegrator(sys)); break;
    case IEE: p.reset(new ExplicitEulerIntegrator(sys)); break;
    case ISEE: p.reset(new SemiExplicitEulerIntegrator(sys, hmax)); return p;
    case ISEE2: p.reset(new SemiExplicitEuler2Integrator(sys)); break;
    case ICPBDF: p.reset(new CPodesIntegrator(sys, CPodes::BDF)); break;
    default: p.reset(new CPodesIntegrator(sys, CPodes::Adams)); break;
    }
    if (fixed && !isCPodes(k)) p->setFixedStepSize(hmax);
    else p->setMaximumStepSize(hmax);
    return p;
}

// ------------------------------------------------------------------ analytic trajectory pieces
struct Traj { double ts = 0; std::vector<double> y; double mu = 1, nu = 1; };
struct Root { double t; int dir; bool soft; double crate; };   // crate = |d(component read by the witness)/dt| at the root

bool exactComp(const Par& P, int comp, bool qx) {
    if (comp == IQ) return qx;
    if (comp == IU) return true;
    return comp < IZ + P.nzl;
}
// Witnesses whose crossings are known in closed form. Where the integrator does not reproduce the
// trajectory exactly (q for first-order methods, everything for CPodes up to its tolerance) the measured
// deviation of the observed states from the analytic trajectory widens the time slack (see tslack()).
// (q under a first-order method or CPodes may not cross where the analytic parabola does: generic.)
bool exactWit(const Par&, const Wit& w, bool qx) { return w.kind != WOsc && (w.kind != WQuad || qx); }
double flow(const Par& P, const Traj& T, int comp, double t) {
    const double dt = t - T.ts, r = T.mu * T.nu;
    if (comp == IQ) return T.y[IQ] + T.y[IU] * dt + 0.5 * P.a * r * dt * dt;
    if (comp == IU) return T.y[IU] + P.a * r * dt;
    if (comp < IZ + P.nzl) return T.y[comp] + P.c[comp - IZ] * r * dt;
    const int o = IZ + P.nzl;
    const double cs = std::cos(P.om * dt), sn = std::sin(P.om * dt);
    return comp == o ? T.y[o] * cs + T.y[o + 1] * sn : -T.y[o] * sn + T.y[o + 1] * cs;
}
int sgn(double x) { return x > 0 ? 1 : (x < 0 ? -1 : 0); }

// All roots of witness w on the analytic trajectory T in (T.ts, tEnd], in time order.
void rootsOf(const Par& P, const Wit& w, const Traj& T, double tEnd, double hmax, std::vector<Root>& out) {
    out.clear();
    const double r = T.mu * T.nu;
    auto lin = [&](double v0, double rate) {
        if (rate == 0) return;
        double dt = (w.L - v0) / rate;
        if (dt > 0 && T.ts + dt <= tEnd) out.push_back({T.ts + dt, sgn(w.k * rate), false, std::fabs(rate)});
    };
    switch (w.kind) {
    case WLinZ: case WBoolZ: lin(T.y[w.comp], P.c[w.comp - IZ] * r); break;
    case WVelU: lin(T.y[IU], P.a * r); break;
    case WTime: if (w.L > T.ts && w.L <= tEnd) out.push_back({w.L, sgn(w.k), false, 1.0}); break;
    case WSinZ: {
        const double s = w.om * P.c[w.comp - IZ] * r, th0 = w.om * (T.y[w.comp] - w.phi);
        if (s == 0) break;
        long n = s > 0 ? (long)std::floor(th0 / Pi) + 1 : (long)std::ceil(th0 / Pi) - 1;
        for (int it = 0; it < 400; ++it, n += (s > 0 ? 1 : -1)) {
            double dt = (n * Pi - th0) / s;
            if (dt <= 0) continue;
            if (T.ts + dt > tEnd) break;
            bool even = (n % 2 == 0);
            int d = (s > 0) ? (even ? 1 : -1) : (even ? -1 : 1);
            out.push_back({T.ts + dt, d * sgn(w.k), false, std::fabs(P.c[w.comp - IZ] * r)});
        }
        break;
    }
    case WQuad: {
        const double A = P.a * r, u0 = T.y[IU], d0 = T.y[IQ] - w.L;
        if (A == 0) { if (u0 != 0) { double dt = -d0 / u0; if (dt > 0 && T.ts + dt <= tEnd) out.push_back({T.ts + dt, sgn(w.k * u0), false, std::fabs(u0)}); } break; }
        const double disc = u0 * u0 - 2 * A * d0;
        if (disc < 0) break;
        const double sq = std::sqrt(disc), qq = -(u0 + (u0 >= 0 ? sq : -sq));
        double r1 = qq / A, r2 = (qq != 0) ? 2 * d0 / qq : r1;
        if (r1 > r2) std::swap(r1, r2);
        for (double dt : {r1, r2}) {
            if (!(dt > 0) || T.ts + dt > tEnd) continue;
            const double v = u0 + A * dt;
            out.push_back({T.ts + dt, sgn(w.k * v), std::fabs(v) < 1e-3, std::max(std::fabs(v), 1e-6)});
            if (r1 == r2) break;
        }
        break;
    }
    case WOsc: break;
    }
    // roots closer than 2.5 max steps to a neighbour may legitimately be stepped over together
    for (size_t i = 0; i + 1 < out.size(); ++i)
        if (out[i + 1].t - out[i].t < 2.5 * hmax) out[i].soft = out[i + 1].soft = true;
    if (w.kind == WSinZ) {     // a neighbour may lie beyond tEnd / before ts
        const double s = std::fabs(w.om * P.c[w.comp - IZ] * r);
        if (s > 0 && Pi / s < 2.5 * hmax) for (auto& x : out) x.soft = true;
    }
    if (w.kind == WQuad && out.size() == 1) {
        // the partner root may be just beyond tEnd or just before ts: be conservative
        const double A = P.a * r, u0 = T.y[IU], d0 = T.y[IQ] - w.L;
        if (A != 0) { double disc = u0 * u0 - 2 * A * d0; if (disc >= 0 && 2 * std::sqrt(disc) / std::fabs(A) < 2.5 * hmax) out[0].soft = true; }
    }
}
bool monitored(const Wit& w, int dir) { return ((dir > 0 ? 2 : 1) & w.mask) != 0; }

// ------------------------------------------------------------------ scenario
struct Scen {
    int ik = 0, driver = 0;
    double T = 3, hmax = 0.1, acc = 1e-3, tscale = 0.1;
    bool fixedStep = false, allowInterp = true, everyStep = false, setFinal = false, ras = false, dispatchEvents = true;
    bool simultaneous = false, tinyWindow = false, twoSubsystems = false, zeroRestart = false, zeroStart = false;
    std::vector<double> reps, scheds, targets;
    int maskBits = 0;
    std::string str() const {
        char b[256];
        snprintf(b, sizeof b, "%s/%s T=%.3g hmax=%.3g acc=%.2g ts=%.2g fixed=%d interp=%d every=%d final=%d ras=%d disp=%d", ikName(ik), driver ? "S" : "I", T, hmax, acc, tscale,
                 fixedStep, allowInterp, everyStep, setFinal, ras, dispatchEvents);
        return b;
    }
};

double compAtInitial(const Par& P, int comp, double t) {
    Traj T; T.ts = P.t0; T.y.assign(P.y0, P.y0 + P.ny()); T.mu = P.mu0; T.nu = P.nu0;
    return flow(P, T, comp, t);
}

// Build witness j so that it has a root at time tau on the initial trajectory (where that is possible).
Wit makeWit(Rng& r, const Par& P, const Scen& sc, int kindSel, int mask, double tau, bool tiny, int j) {
    Wit w;
    static const WKind kinds[] = {WLinZ, WSinZ, WBoolZ, WQuad, WTime, WVelU, WOsc, WLinZ, WSinZ};
    w.kind = kinds[kindSel % 9];
    w.mask = mask;
    w.k = (r.coin() ? 1 : -1) * r.logUni(0.2, 5);
    w.win = tiny ? 1e-9 * (1 + 0.01 * j + 0.001 * r.uni()) : r.uni(0.05, 0.5);
    int zc = IZ + r.integer(0, P.nzl - 1);
    int minStage = Stage::Dynamics;
    switch (w.kind) {
    case WLinZ: case WBoolZ: w.comp = zc; w.L = compAtInitial(P, zc, tau); break;
    case WSinZ: {
        w.comp = zc;
        double cap = Pi / (4.5 * sc.hmax * std::fabs(P.c[zc - IZ]));   // spacing >= 3 hmax at rate factor 1.5
        w.om = r.uni(0.3, 1.0) * cap;
        w.phi = compAtInitial(P, zc, tau);
        break;
    }
    case WQuad: w.comp = IQ; w.L = compAtInitial(P, IQ, tau); minStage = Stage::Position; break;
    case WVelU: w.comp = IU; w.L = compAtInitial(P, IU, tau); minStage = Stage::Velocity; break;
    case WTime: w.L = tau; minStage = Stage::Time; break;
    case WOsc: w.comp = IZ + P.nzl; w.L = 0.5 * compAtInitial(P, w.comp, tau); break;
    }
    w.stage = r.integer(minStage, Stage::Acceleration);
    return w;
}

struct Built {
    std::unique_ptr<Shared> S;
    std::unique_ptr<EvSystem> sys;
    std::unique_ptr<SubSched> sub2;
    State s0;
};

// ------------------------------------------------------------------ oracles shared by both drivers
struct Judge {
    Ctx& c; const Scen& sc; Shared& S; bool qx;
    std::string ikn, tag;   // tag = "<integrator-class>" used in keys: CPodes vs the rest kept apart
    Judge(Ctx& c, const Scen& sc, Shared& S) : c(c), sc(sc), S(S), qx(quadExact(sc.ik)) {
        ikn = ikName(sc.ik);
        tag = isCPodes(sc.ik) ? "CPodes" : (sc.ik == IEE || sc.ik == ISEE || sc.ik == ISEE2 ? "Euler" : "RK");
    }
    double ytol(const Traj& T, int comp, double t) const {
        double dt = std::fabs(t - T.ts);
        double sc_ = 1 + std::fabs(T.y[comp]) + dt * (std::fabs(S.P.a) * 3 + 3) + dt * dt * std::fabs(S.P.a) * 3;
        // CPodes reproduces linear trajectories only up to (a small fraction of) its tolerance
        return (YTOL + (isCPodes(sc.ik) ? CPTOL * sc.acc : 0.0)) * sc_;
    }
    // deviation of the component read by witness w from the analytic trajectory at an observed state
    double devOf(const Wit& w, const Traj& T, double t, const std::vector<double>& y) const {
        if (w.kind == WTime || w.kind == WOsc) return 0;
        return std::fabs(y[w.comp] - flow(S.P, T, w.comp, t));
    }
    // time slack when an analytic crossing is compared with what the integrator saw on its own trajectory
    static double tslack(const Root& rt, double dev) { return DT + 2 * dev / rt.crate; }
    // the witness is at roundoff-level zero at the start of the segment: its sign there is not decidable,
    // so a report immediately after the start (re-report of the crossing that ended the previous
    // interval) is neither required nor forbidden
    // (An exactly zero witness is different: "transitions away from zero are not reported" is decidable.)
    bool ambiguousAtStart(const Wit& w, const Traj& T) const {
        const double g0 = std::fabs(w.sg(T.ts, T.y.data()));
        // (the boolean witness is -k, not 0, when z == L exactly: its jump to +k comes immediately after the start)
        return (g0 > 0 || w.kind == WBoolZ) && g0 <= 100 * w.gtol(T.ts, T.y.data());
    }
    // state y at time t must lie on the analytic trajectory (exactly integrated components only)
    void onTraj(const std::string& what, const Traj& T, double t, const std::vector<double>& y) {
        for (int comp = 0; comp < IZ + S.P.nzl; ++comp) {
            if (!exactComp(S.P, comp, qx)) continue;
            double ref = flow(S.P, T, comp, t), tol = ytol(T, comp, t);
            c.check((isCPodes(sc.ik) ? "trajcp:" : "traj:") + what + ":" + tag, std::fabs(y[comp] - ref), tol, [&] {
                return Json::obj().set("scen", sc.str()).set("comp", comp).set("t", t).set("got", y[comp]).set("expected", ref).set("segStart", T.ts).set("mu", T.mu).set("nu", T.nu);
            });
        }
    }
    // Attribution (DESIGN 1.5a "attribute, then key"): CPodes' root finder treats witnesses that are
    // exactly zero at a (re)start specially; every anomaly of an event reported within one step of such a
    // restart is keyed to that situation instead of to the oracle that happened to notice it.
    bool zeroWitnessRestart(const Traj& T, double t) const {
        if (!isCPodes(sc.ik) || !(t - T.ts <= sc.hmax)) return false;
        for (auto& w : S.wits) if (w.eval(T.ts, T.y.data()) == 0) return true;
        return false;
    }
    static const char* restartKey() { return "cpodes-restart:event-anomaly-within-one-step-of-restart-with-exactly-zero-witness"; }
    // Second CPodes situation: a crossing, its window edge or a dispatch lies within roundoff (1e-11) of a
    // report / scheduled / target time. CPodesIntegrator does not keep such times out of its (1e-13 wide) root
    // windows and compares them with >= / > on times that differ by a few ulps, so events and scheduled
    // handlers are then lost, mis-timed by ~1e-14 or dispatched twice. All oracles noticing that get one key.
    bool nearSpecial(double t) const {
        const double E = 1e-11 * std::max(1.0, std::fabs(t));
        auto near = [&](double x) { return std::fabs(x - t) <= E; };
        for (double x : sc.reps) if (near(x)) return true;
        for (double x : sc.scheds) if (near(x)) return true;
        for (double x : sc.targets) if (near(x)) return true;
        for (auto& H : S.hs) {
            for (double x : H.times) if (near(x)) return true;
            if (H.period > 0 && near(std::round(t / H.period) * H.period)) return true;
        }
        return false;
    }
    bool nearTrigDispatch(double t) const {
        const double E = 1e-11 * std::max(1.0, std::fabs(t));
        for (auto& r : S.log) if (isTriggered(S.hs[r.h].kind) && std::fabs(r.t - t) <= E) return true;
        return false;
    }
    // Third CPodes situation: its root search landed a bracket end exactly on the zero of a witness; the
    // direction filter is then bypassed and the witness is reported for a direction it does not monitor.
    static const char* exactZeroKey() { return "cpodes-exact-zero:unmonitored-direction-reported-when-root-bracket-ends-exactly-on-the-zero"; }
    static const char* coincKey() { return "cpodes-coincidence:crossing-or-dispatch-within-roundoff-of-a-report-or-scheduled-time"; }
    // Residual of the restart situation after the cpRcheck1 repairs (narrower key, so that it is not read as a
    // regression of those): the first root window after a restart with an exactly zero witness lies within
    // roundoff (1e-13) of the restart time and STARTS a few ulps BEFORE it, so the witness that was zero at the
    // restart is listed (and its handler called) a second time for the same crossing. Recognised from the
    // window itself (driver I always, driver S with report-all); events so recognised are remembered by tHigh.
    static const char* ulpKey() { return "cpodes-restart:window-starts-ulps-before-restart-time-with-exactly-zero-witness"; }
    std::set<double> ulpWindowEvents;
    const char* forced = nullptr;
    bool isUlpWindow(const Traj& T, double tLow, double tHigh) const {
        const double E = 1e-13 * std::max(1.0, std::fabs(tHigh));
        // both window ends within roundoff of the restart time and at least one of them before it (the window may
        // even be inverted by a few ulps: tLow == restart time, tHigh 5e-15 earlier -- seen at seed 9)
        return zeroWitnessRestart(T, std::max(tHigh, T.ts)) && std::fabs(tLow - T.ts) <= E && std::fabs(tHigh - T.ts) <= E && (tLow < T.ts || tHigh < T.ts);
    }
    const char* attribute(const Traj& T, double t) const {
        if (!isCPodes(sc.ik)) return nullptr;
        if (forced) return forced;
        if (ulpWindowEvents.count(t)) return ulpKey();
        if (zeroWitnessRestart(T, t)) return restartKey();
        if (nearSpecial(t)) return coincKey();
        return nullptr;
    }
    bool checkK(const std::string& key, double resid, double tol, const Traj& T, double t, const std::function<Json()>& w) {
        const char* a = resid <= tol ? nullptr : attribute(T, t);
        if (!a) return c.check(key, resid, tol, w);
        c.viol(a, w().set("oracle", key).set("resid", resid).set("tol", tol));
        return false;
    }
    bool requireK(const std::string& key, bool ok, const Traj& T, double t, const std::function<Json()>& w) {
        const char* a = ok ? nullptr : attribute(T, t);
        if (!a) return c.require(key, ok, w);
        c.viol(a, w().set("oracle", key));
        return false;
    }
    // scheduled-dispatch anomalies (CPodes): attributed when the time is within roundoff of a triggered dispatch
    bool requireS(const std::string& key, bool ok, double t, const std::function<Json()>& w) {
        if (ok || !isCPodes(sc.ik) || !nearTrigDispatch(t)) return c.require(key, ok, w);
        c.viol(coincKey(), w().set("oracle", key));
        return false;
    }
    double winBound(const Wit& w, double acc, double t) const {
        return std::max(acc * sc.tscale * w.win, 1e-12 * std::max(1.0, std::fabs(t)));
    }
    Json witJ(int j) const {
        const Wit& w = S.wits[j];
        return Json::obj().set("kind", wkName(w.kind)).set("comp", w.comp).set("k", w.k).set("L", w.L).set("om", w.om).set("phi", w.phi).set("mask", w.mask).set("win", w.win).set("stage", w.stage);
    }
    std::string hkey(int h) const {
        const HSpec& H = S.hs[h];
        std::string k = hkName(H.kind);
        if (H.wit >= 0) k += std::string("/") + wkName(S.wits[H.wit].kind);
        return k;
    }
    std::string coverKey(int h) const {
        const HSpec& H = S.hs[h];
        char b[200];
        int m = H.wit >= 0 ? S.wits[H.wit].mask : 0;
        snprintf(b, sizeof b, "%s/%s/nW=%d/mask=%d/sim=%d/%s/%s", ikn.c_str(), sc.driver ? "S" : "I", (int)S.wits.size(), m, sc.simultaneous ? 1 : 0, hkName(H.kind), ekName(H.eff.kind));
        return b;
    }

    // Offline check of the handler-call log against the analytic hybrid trajectory.
    //  seg0: state at the start; (tEnd,yEnd): last state returned by the driver; terminated: run ended by a handler
    void judgeLog(Traj seg, double tEnd, const std::vector<double>& yEnd, bool over, double acc, double lastTarget) {
        const Par& P = S.P;
        const std::vector<Rec>& L = S.log;
        if (S.runaway) {
            // More than CALLCAP handler calls. If time still advances between them the generated hybrid system (or
            // its first-order discretisation) is Zeno-like: not judged. Re-dispatch at one and the same time
            // forever is the library's doing.
            bool sameTime = true;
            for (size_t k = L.size() - 200; k < L.size(); ++k) sameTime &= (L[k].t == L.back().t);
            if (sameTime) c.viol("stepper:handlers-redispatched-forever-at-one-time:" + std::string(hkName(S.hs[L.back().h].kind)), Json::obj().set("scen", sc.str()).set("calls", (long)L.size()).set("time", L.back().t));
            else c.skip("handler-call-cap-reached(zeno-like-generated-system)");
            return;
        }
        std::vector<std::set<double>> seenTimes(S.hs.size());
        std::vector<Root> roots;
        std::vector<std::pair<double, double>> trigWins;   // (tHigh, width bound) of every triggered dispatch
        bool terminated = false; double tTerm = Infinity;
        double lastT = -Infinity, lastRepT = -Infinity, lastWg = 0;
        size_t i = 0;
        const std::string nsub = sc.twoSubsystems ? "two-subsystems-own-scheduled-events" : "";
        while (i < L.size()) {
            const Rec& r0 = L[i];
            {
                // handlers (and triggered reporters) are called in non-decreasing time order. A scheduled
                // report may be served from inside the localisation window of an event whose handlers
                // changed nothing, i.e. up to one window before that event's tHigh (by design: the
                // interpolated trajectory through the window is still valid then).
                const HKind kk = S.hs[r0.h].kind;
                const bool rp = (kk == HSchedRep || kk == HPerRep);
                const double lim = rp ? std::max(lastRepT, lastT - lastWg - DT) : lastT;
                requireS(std::string("order:calls-nondecreasing-time:") + (rp ? "reporter:" : "handler:") + tag, r0.t >= lim, r0.t, [&] { return Json::obj().set("scen", sc.str()).set("t", r0.t).set("prevHandlerTime", lastT).set("prevReportTime", lastRepT).set("window", lastWg).set("handler", hkey(r0.h)); });
                if (rp) lastRepT = std::max(lastRepT, r0.t); else lastT = std::max(lastT, r0.t);
            }
            if (terminated && r0.t > tTerm)
                c.viol("terminate:handler-called-after-termination:" + hkey(r0.h), Json::obj().set("scen", sc.str()).set("t", r0.t).set("tTerm", tTerm));
            const HKind k0 = S.hs[r0.h].kind;
            if (k0 == HSchedRep || k0 == HPerRep) {
                // observation point: interpolated (or advanced) state handed to a scheduled reporter
                if (r0.t >= seg.ts) onTraj("reporter-state", seg, r0.t, r0.yin);
                ++i;
                continue;
            }
            // a dispatch group: consecutive state-chain calls at one time
            size_t j = i;
            while (j < L.size() && L[j].t == r0.t && S.hs[L[j].h].kind != HSchedRep && S.hs[L[j].h].kind != HPerRep) ++j;
            const double tG = r0.t;
            // (a) integration up to the group started from the previous handler output
            requireS("continue:time-not-before-previous-dispatch:" + tag, tG >= seg.ts, tG, [&] { return Json::obj().set("scen", sc.str()).set("t", tG).set("segStart", seg.ts); });
            if (tG >= seg.ts) onTraj("handler-entry-state", seg, tG, r0.yin);
            c.require("continue:discrete-state-kept:" + tag, r0.muIn == seg.mu && r0.nuIn == seg.nu, [&] { return Json::obj().set("scen", sc.str()).set("t", tG).set("mu", r0.muIn).set("expectedMu", seg.mu).set("nu", r0.nuIn).set("expectedNu", seg.nu); });
            // (b) handlers of one dispatch chain on one State
            for (size_t k = i + 1; k < j; ++k) {
                bool same = L[k].yin == L[k - 1].yout && L[k].muIn == L[k - 1].muOut && L[k].nuIn == L[k - 1].nuOut;
                c.require("continue:state-changed-without-integration:" + tag, same, [&] { return Json::obj().set("scen", sc.str()).set("t", tG).set("prev", hkey(L[k - 1].h)).set("next", hkey(L[k].h)).set("prevOut", jvec(L[k - 1].yout)).set("nextIn", jvec(L[k].yin)); });
            }
            // (c) triggered calls: once per group, justified by a monitored crossing inside the window
            std::set<int> calledTrig;
            double Wg = 0; bool anyTrig = false;
            for (size_t k = i; k < j; ++k) if (isTriggered(S.hs[L[k].h].kind)) {
                double W = winBound(S.wits[S.hs[L[k].h].wit], acc, tG);
                Wg = anyTrig ? std::min(Wg, W) : W; anyTrig = true;
            }
            for (size_t k = i; k < j; ++k) {
                const HSpec& H = S.hs[L[k].h];
                c.cover(coverKey(L[k].h));
                if (!isTriggered(H.kind)) continue;
                bool fresh = calledTrig.insert(L[k].h).second;
                c.require("trig:handler-called-twice-in-one-dispatch:" + hkey(L[k].h), fresh, [&] { return Json::obj().set("scen", sc.str()).set("t", tG); });
                const Wit& w = S.wits[H.wit];
                if (!exactWit(P, w, qx)) {
                    // generic witness: at least the post-state sign must be compatible with a monitored transition
                    double e = w.sg(tG, r0.yin.data()), et = w.gtol(tG, r0.yin.data());
                    bool ok = ((w.mask & 2) && e >= -et) || ((w.mask & 1) && e <= et);
                    c.require("trig:generic-post-sign:" + hkey(L[k].h), ok, [&] { return Json::obj().set("scen", sc.str()).set("t", tG).set("e", e).set("wit", witJ(H.wit)); });
                    continue;
                }
                rootsOf(P, w, seg, tG + 1, sc.hmax, roots);
                const double dev = devOf(w, seg, tG, r0.yin);
                double best = 1e9, bestTol = DT;
                for (auto& rt : roots) if (monitored(w, rt.dir)) {
                    double ex = std::max(0.0, std::max((tG - Wg) - rt.t, rt.t - tG)), tl = tslack(rt, dev);
                    if (ex / tl < best / bestTol) { best = ex; bestTol = tl; }
                }
                if (best > bestTol && tG - seg.ts <= Wg + DT && ambiguousAtStart(w, seg)) { c.obs("roundoff-level-rereport"); continue; }
                if (best > bestTol && isCPodes(sc.ik) && !attribute(seg, tG)) {
                    bool unmon = false;
                    for (auto& rt : roots) if (!monitored(w, rt.dir) && std::max((tG - Wg) - rt.t, rt.t - tG) <= tslack(rt, dev)) unmon = true;
                    if (unmon) { c.viol(exactZeroKey(), Json::obj().set("scen", sc.str()).set("oracle", "trig-call-window").set("tCall", tG).set("wit", witJ(H.wit))); continue; }
                }
                checkK("trig-call-window:" + tag + ":" + hkName(H.kind), best, bestTol, seg, tG, [&] {
                    Json jr = Json::arr(); for (auto& rt : roots) jr.push(Json::obj().set("t", rt.t).set("dir", rt.dir));
                    return Json::obj().set("scen", sc.str()).set("what", "triggered handler called with no monitored crossing in (t-window, t]").set("tCall", tG).set("window", Wg).set("roots", jr).set("wit", witJ(H.wit)).set("segStart", seg.ts).set("handler", hkey(L[k].h));
                });
            }
            // (d) no exactly known crossing was skipped / left uncalled before this group
            missing(seg, tG, r0.yin, Wg, calledTrig, "before-dispatch");
            if (anyTrig) trigWins.push_back({tG, Wg});
            lastWg = anyTrig ? Wg : 0;
            // (e) timed handlers: only at their scheduled times, once each
            for (size_t k = i; k < j; ++k) {
                const HSpec& H = S.hs[L[k].h];
                if (!isTimed(H.kind)) continue;
                checkTimed(L[k].h, L[k].t, seenTimes, nsub);
            }
            for (size_t k = i; k < j; ++k) if (L[k].term && !terminated) { terminated = true; tTerm = tG; }
            // re-anchor the analytic trajectory at the handlers' output -- unless nothing was changed: then no
            // restart happened and the trajectory (with its crossings, e.g. one exactly at this time) just continues
            bool changed = false;
            for (size_t k = i; k < j; ++k) changed |= !(L[k].yout == L[k].yin) || L[k].muOut != L[k].muIn || L[k].nuOut != L[k].nuIn;
            if (changed || anyTrig) { seg.ts = tG; seg.y = L[j - 1].yout; seg.mu = L[j - 1].muOut; seg.nu = L[j - 1].nuOut; }
            i = j;
        }
        // scheduled reporters: also only at their times
        for (auto& r : L) { HKind k = S.hs[r.h].kind; if (k == HSchedRep || k == HPerRep) checkTimed(r.h, r.t, seenTimes, nsub); }
        // end of run
        c.require("terminate:simulation-over-iff-handler-terminated:" + tag, terminated == over, [&] { return Json::obj().set("scen", sc.str()).set("terminated", terminated).set("over", over).set("tEnd", tEnd); });
        if (!terminated) {
            if (tEnd >= seg.ts) onTraj("final-state", seg, tEnd, yEnd);
            std::set<int> none;
            missing(seg, tEnd, yEnd, 0, none, "at-end");
        }
        // every scheduled time strictly before the end was served
        const double tStop = terminated ? tTerm : tEnd;
        for (size_t h = 0; h < S.hs.size(); ++h) {
            const HSpec& H = S.hs[h];
            if (!isTimed(H.kind)) continue;
            std::vector<double> exp;
            if (H.kind == HPer || H.kind == HPerRep) {
                long long k = (long long)std::ceil(P.t0 / H.period);
                while ((double)k * H.period < P.t0) ++k;
                for (; (double)k * H.period < tStop && exp.size() < 5000; ++k) exp.push_back((double)k * H.period);
            } else for (double x : H.times) if (x >= P.t0 && x < tStop) exp.push_back(x);
            // reporters are served from the before-event state; a report inside the terminating window is optional
            double slack = (terminated && isReporter(H.kind)) ? sc.acc * sc.tscale * 0.5 + 1e-9 : 0;
            for (double x : exp) {
                if (x >= tStop - slack) continue;
                if (x == lastTarget) continue;
                // a report that falls inside a localisation window (the "no man's land") is dropped by design
                bool inWindow = false;
                if (isReporter(H.kind)) for (auto& tw : trigWins) inWindow |= (x > tw.first - tw.second - DT && x <= tw.first);
                if (inWindow) { c.obs("scheduled-report-inside-event-window-dropped"); continue; }
                bool ok = seenTimes[h].count(x) > 0;
                if (!ok && isCPodes(sc.ik)) for (double sv : seenTimes[h]) ok |= std::fabs(sv - x) <= 1e-11 * std::max(1.0, std::fabs(x));   // (reported above as called off its time)
                requireS(std::string("sched:scheduled-time-not-served:") + hkName(H.kind), ok, x, [&] { return Json::obj().set("scen", sc.str()).set("time", x).set("tStop", tStop).set("handler", (long)h).set("terminated", terminated).set("served", jvec(std::vector<double>(seenTimes[h].begin(), seenTimes[h].end()))); });
            }
            if (!exp.empty() || !seenTimes[h].empty()) c.cover(coverKey((int)h));
        }
    }
    void checkTimed(int h, double t, std::vector<std::set<double>>& seenTimes, const std::string& nsub) {
        const HSpec& H = S.hs[h];
        bool sched;
        if (H.kind == HPer || H.kind == HPerRep) { long long k = std::llround(t / H.period); sched = ((double)k * H.period == t); }
        else sched = std::find(H.times.begin(), H.times.end(), t) != H.times.end();
        bool offByRoundoff = false;   // CPodes: called a few ulps off its scheduled time
        if (!sched && isCPodes(sc.ik)) {
            const double E = 1e-11 * std::max(1.0, std::fabs(t));
            for (double x : H.times) offByRoundoff |= std::fabs(x - t) <= E;
            if (H.period > 0) offByRoundoff |= std::fabs(std::round(t / H.period) * H.period - t) <= E;
        }
        if (offByRoundoff) { c.viol(coincKey(), Json::obj().set("scen", sc.str()).set("oracle", "sched:called-at-unscheduled-time").set("tCall", t).set("times", jvec(H.times)).set("period", H.period)); }
        else c.require(std::string("sched:called-at-unscheduled-time:") + (nsub.empty() ? std::string(hkName(H.kind)) : nsub), sched, [&] {
            return Json::obj().set("scen", sc.str()).set("tCall", t).set("times", jvec(H.times)).set("period", H.period).set("handler", h);
        });
        bool fresh = seenTimes[h].insert(t).second;
        requireS(std::string("sched:called-twice-at-one-time:") + hkName(H.kind), fresh, t, [&] { return Json::obj().set("scen", sc.str()).set("tCall", t).set("handler", h); });
    }
    // crossings that had to be reported on segment seg before time tG (window Wg of the dispatch at tG, 0 if none)
    void missing(const Traj& seg, double tG, const std::vector<double>& yObs, double Wg, const std::set<int>& called, const char* where) {
        std::vector<Root> roots;
        for (size_t h = 0; h < S.hs.size(); ++h) {
            const HSpec& H = S.hs[h];
            if (!isTriggered(H.kind)) continue;
            const Wit& w = S.wits[H.wit];
            if (!exactWit(S.P, w, qx)) continue;
            rootsOf(S.P, w, seg, tG + 1, sc.hmax, roots);
            const double dev = tG >= seg.ts ? devOf(w, seg, tG, yObs) : 0.0;
            for (auto& rt : roots) {
                if (rt.t >= tG) break;
                if (rt.soft || !monitored(w, rt.dir) || rt.t - seg.ts <= GUARD) continue;
                const bool isCalled = called.count((int)h) > 0;
                // a handler called in this dispatch accounts for a crossing inside the window; anything else
                // must not lie behind tG at all. Residual = how far the crossing lies before that limit.
                const double lim = isCalled ? tG - Wg : tG;
                checkK(std::string("no-skip:") + tag + ":" + where, std::max(0.0, lim - rt.t), tslack(rt, dev), seg, rt.t, [&] {
                    return Json::obj().set("scen", sc.str()).set("what", "monitored persisting crossing was never reported/handled").set("root", rt.t).set("dir", rt.dir).set("tNow", tG).set("window", Wg)
                        .set("handlerCalledInThisDispatch", isCalled).set("wit", witJ(H.wit)).set("segStart", seg.ts).set("handler", hkey((int)h));
                });
            }
        }
    }
};

// ------------------------------------------------------------------ building a scenario
void genScenario(Rng& r, long idx, Scen& sc, Built& B) {
    B.S.reset(new Shared());
    Shared& S = *B.S;
    Par& P = S.P;
    sc.ik = (int)(idx % NIK);
    sc.driver = (int)((idx / NIK) % 2);
    const long cyc = idx / (2 * NIK);
    P.nzl = r.integer(1, 3);
    for (int i = 0; i < 3; ++i) P.c[i] = (r.coin() ? 1 : -1) * r.logUni(0.2, 2.0);
    P.a = (r.coin() ? 1 : -1) * r.uni(0.3, 2.0);
    P.om = r.uni(0.5, 3.0);
    P.y0[IQ] = r.sym(1); P.y0[IU] = r.sym(2);
    for (int i = 0; i < P.nzl; ++i) P.y0[IZ + i] = r.sym(1);
    { double A = r.uni(0.5, 2), ph = r.uni(0, 6.28); P.y0[IZ + P.nzl] = A * std::sin(ph); P.y0[IZ + P.nzl + 1] = A * std::cos(ph); }
    P.t0 = r.coin(0.75) ? 0.0 : r.uni(0.05, 1.5);
    sc.T = P.t0 + r.uni(2, 5);
    sc.hmax = std::min(r.logUni(0.03, 0.25), 0.8 / P.om);
    const bool firstOrder = (sc.ik == IEE || sc.ik == ISEE2);
    sc.acc = firstOrder ? r.logUni(1e-4, 1e-2) : r.logUni(1e-5, 1e-2);
    if (firstOrder) sc.T = P.t0 + r.uni(1.5, 3);
    { int t = r.integer(0, 2); sc.tscale = t == 0 ? 0.1 : (t == 1 ? 1.0 : r.uni(0.2, 2.0)); }
    sc.fixedStep = r.coin(0.2);
    sc.allowInterp = r.coin(0.8);
    sc.everyStep = r.coin(0.5);
    sc.setFinal = r.coin(0.4);
    sc.ras = r.coin(0.5);
    sc.dispatchEvents = r.coin(0.7);
    sc.tinyWindow = r.coin(0.06);
    sc.simultaneous = r.coin(0.4);

    // witnesses
    // "zero at restart" class (forced often for CPodes): witness 0 is k(t-L) with a scheduled time exactly at L, so
    // its event is localised to tHigh == L where it is exactly zero, its handler changes the state (restart), and
    // witness 1 crosses 1e-7..1e-5 later. The first step after a restart is given a definite size.
    sc.zeroRestart = r.coin(isCPodes(sc.ik) ? 0.3 : 0.06);
    if (sc.zeroRestart) { sc.fixedStep = false; sc.dispatchEvents = true; sc.tinyWindow = false; }
    // "zero at the initial time" class: witness 0 is k sin(w(z-z(t0))), exactly zero at t0, fast enough that its
    // sign at y0+0.1*y'(t0) differs from its sign just after t0 (half a period is still >= 3 max steps).
    sc.zeroStart = !sc.zeroRestart && r.coin(isCPodes(sc.ik) ? 0.2 : 0.04);
    int zsComp = IZ; double zsOm = 1;
    if (sc.zeroStart) {
        zsComp = IZ + r.integer(0, P.nzl - 1);
        zsOm = r.uni(1.2, 1.8) * Pi / (0.1 * std::fabs(P.c[zsComp - IZ]));
        sc.hmax = std::min(sc.hmax, Pi / (4.6 * zsOm * std::fabs(P.c[zsComp - IZ])));
        sc.tinyWindow = false;
    }
    const int nW = sc.zeroRestart ? r.integer(2, 4) : r.integer(1, 4);
    std::vector<double> taus;
    for (int j = 0; j < nW; ++j) {
        double tau = P.t0 + r.uni(0.08, 0.92) * (sc.T - P.t0);
        if (sc.zeroStart && j == 0) {
            Wit w;
            w.kind = WSinZ; w.comp = zsComp; w.om = zsOm; w.phi = P.y0[zsComp]; w.mask = 3; w.win = r.uni(0.05, 0.5);
            w.k = (r.coin() ? 1 : -1) * r.logUni(0.2, 5); w.stage = r.integer(Stage::Dynamics, Stage::Acceleration);
            S.wits.push_back(w); taus.push_back(P.t0 + Pi / (zsOm * std::fabs(P.c[zsComp - IZ])));
            continue;
        }
        if (sc.zeroRestart && j < 2) {
            Wit w;
            w.mask = 3; w.win = r.uni(0.05, 0.5);
            if (j == 0) { w.kind = WTime; w.k = r.logUni(0.2, 5); w.L = tau; w.stage = r.integer(Stage::Time, Stage::Acceleration); }
            else {
                static const double dz[] = {1e-7, 1e-6, 1e-5};
                tau = taus[0] + dz[r.integer(0, 2)];
                w.kind = WLinZ; w.comp = IZ + r.integer(0, P.nzl - 1); w.k = (r.coin() ? 1 : -1) * r.logUni(0.2, 5);
                w.L = compAtInitial(P, w.comp, tau); w.stage = r.integer(Stage::Dynamics, Stage::Acceleration);
            }
            S.wits.push_back(w); taus.push_back(tau);
            continue;
        }
        int mask = (int)((cyc + j) % 3) + 1;
        int kindSel = (int)((cyc * 5 + j * 3 + r.integer(0, 2)) % 9);
        if (j > 0 && sc.simultaneous && r.coin(0.7)) {
            int m = r.integer(0, 4);
            static const double dl[] = {0, 1e-12, 1e-9, 1e-6, 1e-3};
            if (m == 0 && r.coin()) {          // an exact copy of the previous witness function (bitwise simultaneous)
                Wit w = S.wits.back();
                w.mask = mask; w.win = sc.tinyWindow ? w.win * 1.001 : r.uni(0.05, 0.5);
                if (w.kind != WBoolZ && w.kind != WSinZ) w.k *= r.uni(0.5, 2);
                S.wits.push_back(w); taus.push_back(taus.back());
                continue;
            }
            tau = taus.back() + (r.coin() ? 1 : -1) * dl[m];
            if (tau <= P.t0 + 0.01) tau = taus.back();
        }
        S.wits.push_back(makeWit(r, P, sc, kindSel, mask, tau, sc.tinyWindow, j));
        taus.push_back(tau);
    }
    sc.maskBits = 0; for (auto& w : S.wits) sc.maskBits |= 1 << w.mask;

    auto randEff = [&](int sel) {
        Eff e; e.kind = EKind(sel % NEK);
        e.comp = IZ + r.integer(0, P.nzl - 1);
        e.val = (r.coin() ? 1 : -1) * r.uni(0.3, 1.0);
        e.termAt = r.integer(1, 3);
        return e;
    };
    // handlers
    for (int j = 0; j < nW; ++j) {
        HSpec H; H.kind = (sc.driver == 1 && r.coin(0.2)) ? HTrigRep : HTrig; H.wit = j;
        H.eff = (H.kind == HTrig) ? randEff((int)(cyc + 2 * j + sc.ik)) : Eff();
        if (sc.driver == 0 && !sc.dispatchEvents) H.eff = Eff();
        if (sc.zeroRestart && j == 0) { H.kind = HTrig; H.eff = Eff(); H.eff.kind = r.coin() ? EJumpQ : EJumpU; H.eff.val = (r.coin() ? 1 : -1) * r.uni(0.3, 1.0); }
        if (sc.zeroRestart && j == 1 && H.eff.kind != ENone && H.eff.kind != ETerm) H.eff = Eff();
        S.hs.push_back(H);
    }
    std::vector<int> subH;
    if (sc.driver == 1) {
        // targets of TimeStepper::stepTo
        int nt = r.integer(1, 3);
        for (int k = 1; k <= nt; ++k) sc.targets.push_back(P.t0 + (sc.T - P.t0) * k / nt);
        std::vector<double> pool;     // interesting times shared between timed handlers (simultaneity)
        auto timeList = [&](int n) {
            std::vector<double> v;
            for (int k = 0; k < n; ++k) {
                int m = r.integer(0, 9);
                double t;
                if (m == 0) t = P.t0;
                else if (m == 1 && !pool.empty()) t = r.pick(pool);
                else if (m == 2 && !pool.empty()) t = r.pick(pool) + (r.coin() ? 1e-12 : 1e-9);
                else if (m == 3) t = sc.targets[r.integer(0, (int)sc.targets.size() - 1)];
                else if (m == 4) t = taus[r.integer(0, nW - 1)];
                else t = P.t0 + r.uni(0.02, 0.98) * (sc.T - P.t0);
                v.push_back(t); pool.push_back(t);
            }
            std::sort(v.begin(), v.end()); v.erase(std::unique(v.begin(), v.end()), v.end());
            return v;
        };
        if (sc.zeroRestart) { HSpec H; H.kind = HSched; H.times.push_back(taus[0]); S.hs.push_back(H); pool.push_back(taus[0]); }
        int nS = r.integer(0, 2), nP = r.integer(0, 2), nR = r.integer(0, 2);
        for (int k = 0; k < nS; ++k) { HSpec H; H.kind = HSched; H.times = timeList(r.integer(1, 4)); H.eff = randEff((int)(cyc + k + 3)); S.hs.push_back(H); }
        for (int k = 0; k < nP; ++k) { HSpec H; H.kind = HPer; H.period = r.coin(0.3) ? 0.25 * r.integer(1, 4) : r.uni(0.15, 1.2); H.eff = randEff((int)(cyc + k + 5)); if (H.eff.kind == ETerm) H.eff.termAt += 2; S.hs.push_back(H); }
        for (int k = 0; k < nR; ++k) { HSpec H; H.kind = r.coin() ? HSchedRep : HPerRep; if (H.kind == HSchedRep) H.times = timeList(r.integer(1, 4)); else H.period = r.uni(0.2, 1.0); S.hs.push_back(H); }
        sc.twoSubsystems = r.coin(0.4);
        if (sc.twoSubsystems) {
            int n2 = r.integer(1, 2);
            for (int k = 0; k < n2; ++k) { HSpec H; H.kind = HSubSched; H.times = timeList(r.integer(1, 3)); H.eff = randEff((int)(cyc + k + 1)); subH.push_back((int)S.hs.size()); S.hs.push_back(H); }
            // make sure the default subsystem also owns a scheduled event so that two subsystems compete
            bool any = false; for (auto& H : S.hs) if (H.kind == HSched || H.kind == HPer) any = true;
            if (!any) { HSpec H; H.kind = HSched; H.times = timeList(r.integer(1, 3)); H.eff = randEff((int)(cyc + 4)); S.hs.push_back(H); }
        }
    } else {
        int nr = r.integer(0, 6), ns = r.integer(0, 3);
        auto special = [&]() {
            int m = r.integer(0, 5);
            double tau = taus[r.integer(0, nW - 1)];
            double W = sc.acc * sc.tscale * 0.3;
            switch (m) {
            case 0: return tau;
            case 1: return tau + (r.coin() ? 1 : -1) * 1e-9;
            case 2: return tau + r.sym(W);
            default: return P.t0 + r.uni(0.02, 0.98) * (sc.T - P.t0);
            }
        };
        for (int k = 0; k < nr; ++k) sc.reps.push_back(special());
        for (int k = 0; k < ns; ++k) sc.scheds.push_back(special());
        if (sc.zeroRestart) sc.scheds.push_back(taus[0]);
        for (auto* v : {&sc.reps, &sc.scheds}) {
            v->erase(std::remove_if(v->begin(), v->end(), [&](double t) { return !(t > P.t0 && t < sc.T); }), v->end());
            std::sort(v->begin(), v->end()); v->erase(std::unique(v->begin(), v->end()), v->end());
        }
        sc.reps.push_back(sc.T);
    }

    // system
    B.sys.reset(new EvSystem(&S));
    EvSystem& sys = *B.sys;
    if (sc.tscale != 0.1) sys.setDefaultTimeScale(sc.tscale);
    for (size_t h = 0; h < S.hs.size(); ++h) {
        switch (S.hs[h].kind) {
        case HTrig: sys.addEventHandler(new TrigH(&S, (int)h)); break;
        case HTrigRep: sys.addEventReporter(new TrigR(&S, (int)h)); break;
        case HSched: sys.addEventHandler(new SchedH(&S, (int)h)); break;
        case HSchedRep: sys.addEventReporter(new SchedR(&S, (int)h)); break;
        case HPer: sys.addEventHandler(new PerH(&S, (int)h)); break;
        case HPerRep: sys.addEventReporter(new PerR(&S, (int)h)); break;
        default: break;
        }
    }
    if (!subH.empty()) {
        SubSchedGuts* g = new SubSchedGuts(&S);
        g->hidx = subH;
        B.sub2.reset(new SubSched(sys, g));
    }
    sys.realizeTopology();
    B.s0 = sys.getDefaultState();
    B.s0.setTime(P.t0);
    sys.realize(B.s0, Stage::Instance);
}

Json scenJson(const Scen& sc, const Shared& S) {
    Json w = Json::arr();
    for (auto& x : S.wits) w.push(Json::obj().set("kind", wkName(x.kind)).set("mask", x.mask).set("win", x.win).set("L", x.L));
    Json h = Json::arr();
    for (auto& x : S.hs) h.push(Json::obj().set("kind", hkName(x.kind)).set("eff", ekName(x.eff.kind)).set("calls", x.calls));
    return Json::obj().set("scen", sc.str()).set("wits", w).set("handlers", h).set("calls", (long)S.log.size());
}

std::string statusName(Integrator::SuccessfulStepStatus s) { return Integrator::getSuccessfulStepStatusString(s); }

// ------------------------------------------------------------------ driver I: the harness is the time stepper
void runManual(Ctx& c, Scen& sc, Built& B) {
    Shared& S = *B.S; const Par& P = S.P; EvSystem& sys = *B.sys;
    Judge J(c, sc, S);
    const std::string tag = J.tag;
    std::unique_ptr<Integrator> ip = makeInteg(sc.ik, sys, sc.hmax, sc.fixedStep);
    Integrator& integ = *ip;
    integ.setAccuracy(sc.acc);
    if (sc.zeroRestart && sc.ik != ISEE) integ.setInitialStepSize(std::min(sc.hmax, 2e-3));
    if (!sc.allowInterp) integ.setAllowInterpolation(false);
    if (sc.everyStep) integ.setReturnEveryInternalStep(true);
    if (sc.setFinal) integ.setFinalTime(sc.T);
    c.setPhase("I:initialize " + sc.str());
    integ.initialize(B.s0);
    const double acc = integ.getAccuracyInUse();

    // EventId -> handler via the unique window tag (public API only)
    std::map<int, int> id2h;
    {
        Array_<EventTriggerInfo> infos;
        sys.calcEventTriggerInfo(integ.getAdvancedState(), infos);
        for (unsigned i = 0; i < infos.size(); ++i)
            for (size_t h = 0; h < S.hs.size(); ++h)
                if (S.hs[h].wit >= 0 && S.wits[S.hs[h].wit].win == infos[i].getRequiredLocalizationTimeWindow()) id2h[(int)infos[i].getEventId()] = (int)h;
        c.require("setup:trigger-info-lists-every-witness", id2h.size() == S.hs.size(), [&] { return Json::obj().set("scen", sc.str()).set("mapped", (long)id2h.size()).set("handlers", (long)S.hs.size()); });
        if (id2h.size() != S.hs.size()) return;
    }

    Traj seg; seg.ts = P.t0; copyY(integ.getAdvancedState(), seg.y); seg.mu = P.mu0; seg.nu = P.nu0;
    Traj seg0 = seg;
    // last step-end state for the literal "persisting across a step" check
    double ta = P.t0; std::vector<double> ya = seg.y; bool haveA = true;
    size_t rp = 0, sp = 0;
    double lastTHigh = -Infinity;
    long iters = 0, stall = 0; double lastTime = -Infinity;
    int nEvents = 0;
    bool over = false, pendingStartCheck = false; std::vector<double> yAfterHandlers;
    double unmodifiedEventAt = NaN;
    std::vector<Root> roots;
    HandleEventsOptions hopts(integ.getConstraintToleranceInUse());

    for (;;) {
        if (++iters > 400000) { c.skip("iteration-cap"); break; }
        if (rp >= sc.reps.size()) break;
        sys.realize(integ.getState(), Stage::Time);
        sys.realize(integ.getAdvancedState(), Stage::Time);
        double tRep = sc.reps[rp];
        while (sp < sc.scheds.size() && sc.scheds[sp] < integ.getAdvancedTime() && !isCPodes(sc.ik)) ++sp;   // precondition: never behind advanced time
        double tSch = sp < sc.scheds.size() ? sc.scheds[sp] : Infinity;
        if (tRep < integ.getTime() || tSch < integ.getTime()) { c.skip("client-precondition:time-behind-state"); break; }
        c.setPhase("I:stepTo " + sc.str());
        Integrator::SuccessfulStepStatus st;
        try { st = integ.stepTo(tRep, tSch); }
        catch (const std::exception& e) {
            Json w = Json::obj().set("scen", sc.str()).set("what", firstLine(e.what(), 500)).set("t", integ.getAdvancedTime()).set("evals", S.evals).set("segStart", seg.ts);
            if (S.budgetExceeded) {
                bool zr = false; for (auto& wt : S.wits) zr |= (wt.eval(seg.ts, seg.y.data()) == 0);
                c.viol(isCPodes(sc.ik) && zr ? std::string(Judge::restartKey()) : "hang:stepTo-never-returns(evaluation-budget):" + tag, w.set("oracle", "evaluation budget"));
            } else c.viol("exception:stepTo:" + tag + ":" + normMsg(e.what()), w);
            return;
        }
        c.obs(std::string("I:") + statusName(st));
        const double t = integ.getTime(), tAdv = integ.getAdvancedTime();
        if (c.args.verbose) {
            std::vector<double> yd; copyY(integ.getState(), yd);
            fprintf(stderr, "  ret %-26s t=%.17g tAdv=%.17g tRep=%.17g tSch=%.17g interp=%d dz=%.3g du=%.3g\n", statusName(st).c_str(), t, tAdv, tRep, tSch, (int)integ.isStateInterpolated(),
                    t >= seg.ts ? yd[IZ] - flow(P, seg, IZ, t) : 0.0, t >= seg.ts ? yd[IU] - flow(P, seg, IU, t) : 0.0);
        }
        if (t == lastTime) { if (++stall > 200) { c.viol("driver:no-progress:" + tag, Json::obj().set("scen", sc.str()).set("t", t).set("status", statusName(st))); return; } }
        else { stall = 0; lastTime = t; }

        if (pendingStartCheck) {
            // first return after a state-modifying handler: the trajectory restarts from the handler's output
            pendingStartCheck = false;
            std::vector<double> y; copyY(integ.getState(), y);
            c.require("continue:start-of-interval-is-handler-output:" + tag, st == Integrator::StartOfContinuousInterval && t == seg.ts && y == yAfterHandlers, [&] {
                return Json::obj().set("scen", sc.str()).set("status", statusName(st)).set("t", t).set("tHandler", seg.ts).set("y", jvec(y)).set("handlerOut", jvec(yAfterHandlers));
            });
        }

        bool staleState = false;
        if (unmodifiedEventAt == t && st != Integrator::ReachedEventTrigger) {
            // nothing touched the advanced state at tHigh and no time has passed: it must still be the same state
            std::vector<double> y; copyY(integ.getState(), y);
            staleState = !(y == seg.y);
            c.require("continue:state-changed-without-integration:" + tag, !staleState, [&] {
                return Json::obj().set("scen", sc.str()).set("status", statusName(st)).set("t", t).set("what", "state returned at tHigh after an event whose handlers changed nothing differs from the advanced state at the event").set("y", jvec(y)).set("yAtEvent", jvec(seg.y));
            });
        }
        if (t != unmodifiedEventAt) unmodifiedEventAt = NaN;
        if (st == Integrator::ReachedEventTrigger) {
            ++nEvents;
            c.setPhase("I:event " + sc.str());
            Vec2 w; Array_<EventId> ids; Array_<Real> est; Array_<Event::Trigger> trans;
            try { w = integ.getEventWindow(); ids = integ.getTriggeredEvents(); est = integ.getEstimatedEventTimes(); trans = integ.getEventTransitionsSeen(); }
            catch (const std::exception& e) { c.viol("event:info-unavailable-after-trigger:" + tag, Json::obj().set("scen", sc.str()).set("what", firstLine(e.what(), 300))); return; }
            const double tLow = w[0], tHigh = w[1];
            auto base = [&] {
                Json jid = Json::arr(); for (unsigned i = 0; i < ids.size(); ++i) jid.push((int)ids[i]);
                return Json::obj().set("scen", sc.str()).set("tLow", tLow).set("tHigh", tHigh).set("t", t).set("tAdv", tAdv).set("ids", jid).set("segStart", seg.ts);
            };
            c.require("event:returned-state-time-is-tLow:" + tag, t == tLow, base);
            c.require("event:advanced-time-is-tHigh:" + tag, tAdv == tHigh, base);
            if (J.isUlpWindow(seg, tLow, tHigh)) { J.forced = Judge::ulpKey(); J.ulpWindowEvents.insert(tHigh); }
            J.requireK("event:window-nonempty:" + tag, tLow < tHigh, seg, tHigh, base);
            J.requireK("event:windows-in-time-order:" + tag, tLow >= lastTHigh && tLow >= seg.ts, seg, tHigh, [&] { return base().set("prevTHigh", lastTHigh); });
            // (report/scheduled/final times inside the window are C19's invariant I6, not judged here)
            bool sizes = ids.size() > 0 && est.size() == ids.size() && trans.size() == ids.size();
            c.require("event:arrays-consistent:" + tag, sizes, base);
            if (!sizes) return;
            std::vector<double> ylo, yhi; copyY(integ.getState(), ylo); copyY(integ.getAdvancedState(), yhi);
            std::set<int> listed;
            double Wmin = Infinity;
            for (unsigned i = 0; i < ids.size(); ++i) {
                auto it = id2h.find((int)ids[i]);
                if (it == id2h.end()) { c.viol("event:unknown-event-id:" + tag, base()); continue; }
                const int h = it->second;
                const Wit& wt = S.wits[S.hs[h].wit];
                const std::string wk = wkName(wt.kind);
                c.require("event:listed-once:" + tag, listed.insert(h).second, base);
                Wmin = std::min(Wmin, J.winBound(wt, acc, tHigh + sc.hmax));
                const double elo = wt.eval(tLow, ylo.data()), ehi = wt.eval(tHigh, yhi.data());
                const int tr = (int)trans[i];
                bool trOk = (tr == Event::NegativeToPositive || tr == Event::PositiveToNegative);
                c.require("event:transition-is-single-direction:" + tag, trOk, [&] { return base().set("transition", tr); });
                {
                    const bool inMask = trOk && (tr & wt.mask) != 0;
                    const double g0 = wt.sg(tLow, ylo.data());
                    if (!inMask && isCPodes(sc.ik) && !J.attribute(seg, tHigh) && std::fabs(g0) <= wt.gtol(tLow, ylo.data()))
                        c.viol(Judge::exactZeroKey(), base().set("oracle", "event:transition-in-monitored-mask").set("transition", tr).set("gLow", g0).set("wit", J.witJ(S.hs[h].wit)));
                    else J.requireK("event:transition-in-monitored-mask:" + tag + ":" + wk, inMask, seg, tHigh, [&] { return base().set("transition", tr).set("wit", J.witJ(S.hs[h].wit)); });
                }
                bool rising = tr == Event::NegativeToPositive;
                // signs are judged up to the roundoff level of the witness (the returned before-state is
                // re-interpolated after the advanced state was backed up, so it is not bitwise the
                // state on which localisation decided)
                const double glo = wt.sg(tLow, ylo.data()), ghi = wt.sg(tHigh, yhi.data());
                const double tlo = wt.gtol(tLow, ylo.data()), thi = wt.gtol(tHigh, yhi.data());
                const bool pre = rising ? glo <= tlo : glo >= -tlo, post = rising ? ghi >= -thi : ghi <= thi;
                auto sj = [&] { return base().set("transition", tr).set("eLow", elo).set("eHigh", ehi).set("gLow", glo).set("gHigh", ghi).set("roundoff", tlo).set("wit", J.witJ(S.hs[h].wit)); };
                J.requireK("event:advanced-state-witness-not-past-crossing:" + tag + ":" + wk, post, seg, tHigh, sj);
                // before-state on the wrong side: either by no more than the integration accuracy (the crossing lies
                // just before tLow on the re-interpolated before-state) or macroscopically (no crossing at all)
                const bool marginal = std::fabs(glo) <= acc * (1 + std::fabs(wt.kind == WTime ? tLow : ylo[wt.comp])) && std::fabs(glo) <= 0.1 * std::fabs(ghi - glo);
                // (the before-state is itself only accurate to the integration accuracy: a witness that is past
                // its crossing there by less than that, and still moving in the reported direction, is counted,
                // not judged)
                const bool moving = rising ? ghi >= glo - thi : ghi <= glo + thi;
                if (!pre && marginal && moving) c.obs("before-state-marginally-past-crossing");
                else J.requireK("event:listed-witness-did-not-cross:" + tag + ":" + wk, pre, seg, tHigh, sj);
                J.requireK("event:estimated-time-in-window:" + tag, est[i] > tLow && est[i] <= tHigh, seg, tHigh, [&] { return base().set("est", est[i]); });
                if (i > 0) c.require("event:estimated-times-ascending:" + tag, est[i] >= est[i - 1], [&] { return base().set("est", est[i]).set("prev", est[i - 1]); });
                c.cover(J.coverKey(h));
                // analytic crossing inside the window
                if (exactWit(P, wt, J.qx)) {
                    rootsOf(P, wt, seg, tHigh + 1, sc.hmax, roots);
                    const double dev = std::max(J.devOf(wt, seg, tLow, ylo), J.devOf(wt, seg, tHigh, yhi));
                    double best = 1e9, bestTol = DT;
                    for (auto& rt : roots) if ((rt.dir > 0) == rising) {
                        double ex = std::max(0.0, std::max(tLow - rt.t, rt.t - tHigh)), tl = Judge::tslack(rt, dev);
                        if (ex / tl < best / bestTol) { best = ex; bestTol = tl; }
                    }
                    if (best > bestTol && tLow - seg.ts <= DT && J.ambiguousAtStart(wt, seg)) { c.obs("roundoff-level-rereport"); continue; }
                    J.checkK("root-in-window:" + tag + ":" + wk, best, bestTol, seg, tHigh, [&] {
                        Json jr = Json::arr(); for (auto& rt : roots) jr.push(Json::obj().set("t", rt.t).set("dir", rt.dir));
                        return base().set("what", "no analytic crossing of the listed witness (reported direction) inside (tLow,tHigh]").set("roots", jr).set("wit", J.witJ(S.hs[h].wit)).set("eLow", elo).set("eHigh", ehi);
                    });
                }
            }
            if (std::isfinite(Wmin))
                c.check("window-width:" + tag, tHigh - tLow, Wmin * (1 + 1e-9), [&] { return base().set("width", tHigh - tLow).set("bound", Wmin).set("acc", acc).set("tscale", sc.tscale); });
            // before-state and advanced state lie on the trajectory
            J.onTraj("event-before-state", seg, tLow, ylo);
            J.onTraj("event-advanced-state", seg, tHigh, yhi);
            // nothing earlier was skipped; nothing inside the window is left unlisted
            for (size_t h = 0; h < S.hs.size(); ++h) {
                const Wit& wt = S.wits[S.hs[h].wit];
                if (!exactWit(P, wt, J.qx)) continue;
                rootsOf(P, wt, seg, tHigh + 1, sc.hmax, roots);
                const double dev = std::max(J.devOf(wt, seg, tLow, ylo), J.devOf(wt, seg, tHigh, yhi));
                for (auto& rt : roots) {
                    if (rt.t >= tHigh) break;
                    if (rt.soft || !monitored(wt, rt.dir) || rt.t - seg.ts <= GUARD) continue;
                    const double DTr = Judge::tslack(rt, dev);
                    if (rt.t < tLow - DTr)
                        J.checkK("no-skip:" + tag + ":before-event-window", tLow - rt.t, DTr, seg, rt.t, [&] { return base().set("what", "an earlier monitored crossing was never reported").set("root", rt.t).set("dir", rt.dir).set("wit", J.witJ(S.hs[h].wit)); });
                    else if (rt.t > tLow + DTr && rt.t < tHigh - DTr && !listed.count((int)h))
                        J.checkK("no-skip:" + tag + ":unlisted-crossing-inside-window", std::min(rt.t - tLow, tHigh - rt.t), DTr, seg, rt.t, [&] { return base().set("what", "monitored crossing strictly inside the window is not in the triggered list").set("root", rt.t).set("dir", rt.dir).set("wit", J.witJ(S.hs[h].wit)); });
                    else c.check("no-skip:" + tag + ":before-event-window", 0, DT, nullptr);
                }
            }
            lastTHigh = tHigh;
            J.forced = nullptr;
            // handle
            std::vector<double> yBefore = yhi;
            bool term = false; Stage lowest = Stage::Infinity;
            if (sc.dispatchEvents) {
                c.setPhase("I:handleEvents " + sc.str());
                ++S.dispatch;
                size_t n0 = S.log.size();
                HandleEventsResults res;
                sys.handleEvents(integ.updAdvancedState(), Event::Cause::Triggered, ids, hopts, res);
                lowest = res.getLowestModifiedStage();
                term = res.getExitStatus() == HandleEventsResults::ShouldTerminate;
                std::set<int> got; bool dup = false;
                for (size_t k = n0; k < S.log.size(); ++k) dup |= !got.insert(S.log[k].h).second;
                c.require("dispatch:handleEvents-calls-exactly-the-listed-handlers", got == listed && !dup, [&] {
                    return base().set("called", Json::fromRange(got.begin(), got.end())).set("listed", Json::fromRange(listed.begin(), listed.end()));
                });
                bool anyTerm = false; for (size_t k = n0; k < S.log.size(); ++k) anyTerm |= S.log[k].term;
                if (!S.runaway) c.require("dispatch:terminate-flag-propagates", anyTerm == term, base);
                integ.reinitialize(lowest, term);
            }
            seg.ts = tHigh; copyY(integ.getAdvancedState(), seg.y); seg.mu = S.guts->getMu(integ.getAdvancedState()); seg.nu = S.guts->getNu(integ.getAdvancedState());
            ta = tHigh; ya = seg.y; haveA = true;
            if (term) {
                over = true;
                c.require("terminate:integrator-over-after-handler-termination:" + tag, integ.isSimulationOver() && integ.getTerminationReason() == Integrator::EventHandlerRequestedTermination, base);
                break;
            }
            if (sc.dispatchEvents && lowest < Stage::Report) { pendingStartCheck = true; yAfterHandlers = seg.y; }
            else unmodifiedEventAt = tHigh;
            continue;
        }

        // ---- not an event return
        if (!integ.isStateInterpolated() && st != Integrator::EndOfSimulation) {
            // the advanced state is the end of an internal step (or the unchanged start)
            std::vector<double> yb; copyY(integ.getAdvancedState(), yb);
            if (sc.everyStep && haveA && tAdv > ta) {
                for (size_t h = 0; h < S.hs.size(); ++h) {
                    const Wit& wt = S.wits[S.hs[h].wit];
                    const double ga = wt.sg(ta, ya.data()), gb = wt.sg(tAdv, yb.data());
                    // (CPodes' step-end states and its dense output agree only to a fraction of its tolerance)
                    const double cps = isCPodes(sc.ik) ? CPTOL * sc.acc * (1 + std::fabs(wt.kind == WTime ? ta : ya[wt.comp])) : 0.0;
                    const bool definite = std::fabs(ga) > 10 * wt.gtol(ta, ya.data()) + cps && std::fabs(gb) > 10 * wt.gtol(tAdv, yb.data()) + cps;
                    const int sa = sgn(ga), sb = sgn(gb);
                    bool crossing = definite && sb != sa && monitored(wt, -sa);
                    c.require(std::string("persist:sign-change-across-one-step-not-reported:") + tag + ":" + wkName(wt.kind), !crossing, [&] {
                        return Json::obj().set("scen", sc.str()).set("tStepStart", ta).set("tStepEnd", tAdv).set("eStart", wt.eval(ta, ya.data())).set("eEnd", wt.eval(tAdv, yb.data())).set("status", statusName(st)).set("wit", J.witJ(S.hs[h].wit));
                    });
                }
            }
            // (a return at an unchanged advanced time is not a new step end)
            if (sc.everyStep && tAdv > ta) { ta = tAdv; ya = yb; haveA = true; }
        }
        // analytic: no monitored crossing may lie behind a state that was returned as part of the trajectory
        {
            std::set<int> none;
            std::vector<double> y; copyY(integ.getState(), y);
            J.missing(seg, t, y, 0, none, "returned-state-passed-crossing");
            if (t >= seg.ts && !staleState) J.onTraj("returned-state", seg, t, y);
        }
        if (st == Integrator::EndOfSimulation) { break; }
        if (st == Integrator::ReachedReportTime && t >= tRep) { while (rp < sc.reps.size() && sc.reps[rp] <= t) ++rp; }
        if (st == Integrator::ReachedScheduledEvent) { while (sp < sc.scheds.size() && sc.scheds[sp] <= t) ++sp; }
    }
    c.obs("I:events", nEvents);
    c.obs("evals", S.evals); if (S.evals > 200000) c.obs("cases-over-200k-evals");
    // the calls made through handleEvents obey the same log rules
    if (sc.dispatchEvents) {
        std::vector<double> yEnd; copyY(integ.getState(), yEnd);
        J.judgeLog(seg0, integ.getTime(), yEnd, over, acc, Infinity);
    }
    if (c.wantSample()) c.sample(scenJson(sc, S).set("events", nEvents));
}

// ------------------------------------------------------------------ driver S: the real TimeStepper
void runStepper(Ctx& c, Scen& sc, Built& B) {
    Shared& S = *B.S; const Par& P = S.P; EvSystem& sys = *B.sys;
    Judge J(c, sc, S);
    const std::string tag = J.tag;
    std::unique_ptr<Integrator> ip = makeInteg(sc.ik, sys, sc.hmax, sc.fixedStep);
    Integrator& integ = *ip;
    integ.setAccuracy(sc.acc);
    if (sc.zeroRestart && sc.ik != ISEE) integ.setInitialStepSize(std::min(sc.hmax, 2e-3));
    if (!sc.allowInterp) integ.setAllowInterpolation(false);
    if (sc.everyStep) integ.setReturnEveryInternalStep(true);
    if (sc.setFinal) integ.setFinalTime(sc.T);
    TimeStepper ts(sys, integ);
    ts.setReportAllSignificantStates(sc.ras);
    c.setPhase("S:initialize " + sc.str());
    ts.initialize(B.s0);
    const double acc = integ.getAccuracyInUse();
    Traj seg0; seg0.ts = P.t0; copyY(integ.getAdvancedState(), seg0.y); seg0.mu = P.mu0; seg0.nu = P.nu0;
    std::map<int, int> id2h;
    {
        Array_<EventTriggerInfo> infos;
        sys.calcEventTriggerInfo(integ.getAdvancedState(), infos);
        for (unsigned i = 0; i < infos.size(); ++i)
            for (size_t h = 0; h < S.hs.size(); ++h)
                if (S.hs[h].wit >= 0 && S.wits[S.hs[h].wit].win == infos[i].getRequiredLocalizationTimeWindow()) id2h[(int)infos[i].getEventId()] = (int)h;
    }
    bool over = false;
    long iters = 0;
    int nEvents = 0;
    for (size_t k = 0; k < sc.targets.size() && !over; ++k) {
        const double target = sc.targets[k];
        for (;;) {
            if (++iters > 400000) { c.skip("iteration-cap"); return; }
            c.setPhase("S:stepTo " + sc.str());
            ++S.dispatch;
            size_t n0 = S.log.size();
            Integrator::SuccessfulStepStatus st;
            try { st = ts.stepTo(target); }
            catch (const std::exception& e) {
                Json w = Json::obj().set("scen", sc.str()).set("what", firstLine(e.what(), 500)).set("t", integ.getAdvancedTime()).set("evals", S.evals).set("calls", (long)S.log.size());
                if (S.budgetExceeded) {
                    // a loop inside the library: attribute to the restart situation if that is where it started
                    Traj last; bool haveLast = !S.log.empty();
                    if (haveLast) { last.ts = S.log.back().t; last.y = S.log.back().yout; } else last = seg0;
                    last.mu = last.nu = 1;
                    bool zr = false; for (auto& wt : S.wits) zr |= (wt.eval(last.ts, last.y.data()) == 0);
                    c.viol(isCPodes(sc.ik) && zr ? std::string(Judge::restartKey()) : "hang:stepper-never-returns(evaluation-budget):" + tag, w.set("oracle", "evaluation budget").set("lastDispatch", last.ts));
                } else c.viol("exception:TimeStepper.stepTo:" + tag + ":" + normMsg(e.what()), w);
                return;
            }
            c.obs(std::string("S:") + statusName(st));
            if (c.args.verbose) fprintf(stderr, "  ret %-26s t=%.17g tAdv=%.17g target=%.17g over=%d calls=%zu\n", statusName(st).c_str(), ts.getTime(), integ.getAdvancedTime(), target, (int)integ.isSimulationOver(), S.log.size());
            if (S.runaway) { over = true; break; }
            if (integ.isSimulationOver()) { over = true; }
            if (sc.ras && st == Integrator::ReachedEventTrigger) {
                ++nEvents;
                // the window is still available: the dispatched calls belong to it
                try {
                    Vec2 w = integ.getEventWindow();
                    if (n0 > 0) {   // restart = output of the previous dispatch
                        Traj last; last.ts = S.log[n0 - 1].t; last.y = S.log[n0 - 1].yout; last.mu = S.log[n0 - 1].muOut; last.nu = S.log[n0 - 1].nuOut;
                        if (J.isUlpWindow(last, w[0], w[1])) J.ulpWindowEvents.insert(w[1]);
                    }
                    const Array_<EventId>& ids = integ.getTriggeredEvents();
                    std::set<int> listed; double Wmin = Infinity;
                    for (unsigned i = 0; i < ids.size(); ++i) { auto it = id2h.find((int)ids[i]); if (it != id2h.end()) { listed.insert(it->second); Wmin = std::min(Wmin, J.winBound(S.wits[S.hs[it->second].wit], acc, w[1] + sc.hmax)); } }
                    std::set<int> got; bool dup = false, atHigh = true;
                    for (size_t q = n0; q < S.log.size(); ++q) if (isTriggered(S.hs[S.log[q].h].kind)) { dup |= !got.insert(S.log[q].h).second; atHigh &= (S.log[q].t == w[1]); }
                    auto wj = [&] { return Json::obj().set("scen", sc.str()).set("tLow", w[0]).set("tHigh", w[1]).set("called", Json::fromRange(got.begin(), got.end())).set("listed", Json::fromRange(listed.begin(), listed.end())); };
                    c.require("stepper:triggered-dispatch-calls-exactly-the-listed-handlers-once:" + tag, got == listed && !dup, wj);
                    c.require("stepper:triggered-handlers-called-at-tHigh:" + tag, atHigh, wj);
                    if (std::isfinite(Wmin)) c.check("window-width:" + tag, w[1] - w[0], Wmin * (1 + 1e-9), wj);
                } catch (const std::exception& e) {
                    if (!over) c.viol("event:info-unavailable-after-trigger:" + tag, Json::obj().set("scen", sc.str()).set("what", firstLine(e.what(), 300)));
                }
            }
            if (over) break;
            if (st == Integrator::EndOfSimulation) { over = true; break; }
            if (ts.getTime() >= target) {
                c.require("stepper:returns-at-target-time:" + tag, ts.getTime() == target || (sc.setFinal && ts.getTime() == sc.T), [&] { return Json::obj().set("scen", sc.str()).set("t", ts.getTime()).set("target", target); });
                break;
            }
            c.require("stepper:early-return-only-with-report-all:" + tag, sc.ras, [&] { return Json::obj().set("scen", sc.str()).set("t", ts.getTime()).set("target", target).set("status", statusName(st)); });
            if (!sc.ras) return;
        }
    }
    c.obs("S:events", nEvents);
    c.obs("evals", S.evals); if (S.evals > 200000) c.obs("cases-over-200k-evals");
    bool terminatedByHandler = over && integ.isSimulationOver() && integ.getTerminationReason() == Integrator::EventHandlerRequestedTermination;
    bool finalReached = over && integ.isSimulationOver() && integ.getTerminationReason() == Integrator::ReachedFinalTime;
    std::vector<double> yEnd; copyY(ts.getState(), yEnd);
    const double tEnd = ts.getTime();
    size_t nBefore = S.log.size();
    J.judgeLog(seg0, finalReached ? integ.getTime() : tEnd, yEnd, terminatedByHandler, acc, sc.targets.back());
    if (terminatedByHandler) {
        // a terminated stepper does nothing more
        c.setPhase("S:stepTo-after-termination " + sc.str());
        try {
            Integrator::SuccessfulStepStatus st = ts.stepTo(sc.T + 1);
            c.require("terminate:stepTo-after-termination-is-EndOfSimulation:" + tag, st == Integrator::EndOfSimulation && S.log.size() == nBefore && ts.getTime() == tEnd, [&] {
                return Json::obj().set("scen", sc.str()).set("status", statusName(st)).set("newCalls", (long)(S.log.size() - nBefore)).set("t", ts.getTime()).set("tEnd", tEnd);
            });
        } catch (const std::exception& e) {
            c.viol("terminate:stepTo-after-termination-throws:" + tag, Json::obj().set("scen", sc.str()).set("what", firstLine(e.what(), 300)));
        }
    }
    if (c.wantSample()) c.sample(scenJson(sc, S).set("events", nEvents));
}

} // namespace

int main(int argc, char** argv) {
    Args a = parseArgs(argc, argv);
    Ctx c(a);
    DT = a.getNum("dt", DT);
    if (a.prop != "C22") { fprintf(stderr, "mon_events: unknown property %s\n", a.prop.c_str()); return 2; }
    return runCases(c, [&](long i, Rng& r) {
        Scen sc; Built B;
        c.setPhase("generate");
        genScenario(r, i, sc, B);
        // debugging overrides (never used by registered runs)
        if (a.getInt("every", -1) >= 0) sc.everyStep = a.getInt("every", 0) != 0;
        if (a.getInt("interp", -1) >= 0) sc.allowInterp = a.getInt("interp", 0) != 0;
        if (a.getInt("ras", -1) >= 0) sc.ras = a.getInt("ras", 0) != 0;
        if (a.verbose) fprintf(stderr, "case %ld: %s\n", i, scenJson(sc, *B.S).dump().c_str());
        if (sc.driver == 0) runManual(c, sc, B);
        else runStepper(c, sc, B);
        if (a.verbose) {
            for (auto& r : B.S->log) {
                fprintf(stderr, "  call h=%d(%s) t=%.17g term=%d mu=%g->%g nu=%g->%g  e:", r.h, hkName(B.S->hs[r.h].kind), r.t, (int)r.term, r.muIn, r.muOut, r.nuIn, r.nuOut);
                for (auto& w : B.S->wits) fprintf(stderr, " %.3g", w.eval(r.t, r.yin.data()));
                fprintf(stderr, "\n");
            }
        }
    });
}
