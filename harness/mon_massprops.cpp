// mon_massprops — C29: mass-property and spatial-algebra identities (DESIGN §5 C29).
// Oracles, reference model (point-mass clouds, long double) and the legal-client
// preconditions are documented at the top of common/massprops_c29.h.
#include "massprops_c29.h"

template <class P> static void run29(vh::Ctx& c, long i, vh::Rng& r) {
    c29::B29<P> b(c, r, i);
    b.makeCloud();
    b.inertias();
    b.factories();
    b.spatialInertia();
    b.validity();
    b.energyAndPower();
    b.physical();
}

int main(int argc, char** argv) {
    vh::Args a = vh::parseArgs(argc, argv);
    vh::Ctx c(a);
    if (a.prop != "C29") { fprintf(stderr, "mon_massprops: unknown property %s\n", a.prop.c_str()); return 2; }
    return vh::runCases(c, [&](long i, vh::Rng& r) { if (i % 2) run29<float>(c, i, r); else run29<double>(c, i, r); });
}
