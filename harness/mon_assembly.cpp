// mon_assembly — C43: Assembler, ObservedPointFitter and LocalEnergyMinimizer results satisfy
// what they report (DESIGN §5 C43).
//
// Every case builds a random (possibly constrained) tree, a *reference* configuration q* in
// which all constraints hold by construction, observations generated from q* (exactly
// achievable) or from q* plus noise, a perturbed start, and then drives one of the three
// tools. Only calls that *return without throwing* are judged; documented failures
// (Assembler::AssembleFailed / TrackFailed, Exception::OptimizerFailed) are counted.
//
// Legal-client preconditions (cases violating them are skipped / never judged):
//  * reference configuration away from coordinate singularities *in the Euler-angle
//    representation the Assembler works in* (model.h guards applied in Euler mode);
//  * constraints, Motions, QValue requirements, locks and bounds are mutually consistent at
//    q* whenever the case is flagged "achievable"; q-indexed items (lockQ, restrictQ, QValue,
//    ConstantCoordinate, couplers, position Motions, dynamic locks, mobility springs) use the
//    Euler-mode numbering documented for the Assembler and q-indexed *model* elements are put
//    only on mobilizers without quaternions (their numbering is mode independent);
//  * the spin angle of LineOrientation/FreeLine mobilizers (third Euler angle: no mobility can change
//    it, the conditions' analytic gradients do not see it) is never perturbed away from q*;
//  * at least one free q, at least one active marker/sensor per condition (else the goal is
//    0/0 by definition), marker/sensor weights finite >= 0;
//  * "goal no worse than at the start" is judged only if the start (after the documented
//    prescription step) satisfies the assembly errors to tolerance and the bounds;
//  * "achievable goal reaches zero" is judged only if accuracy <= tolerance/1000 (a-priori
//    model: goal <= |grad|^2/(2 lambda_min) with |grad| <= accuracy*max(1,|x|)), the start is a
//    small perturbation of q*, and the returned point is not a stationary point other than
//    q* (global optimality is not claimed by the library);
//  * energy minimisation: potential bounded below (every body tied to Ground by a spring),
//    start exactly feasible; MobilityLinearSpring only on qdot==u mobilizers (documented).
#include "model.h"
#include <iostream>
#include <streambuf>
#include <set>
#include <typeinfo>
#include <dlfcn.h>
using namespace SimTK;
using namespace vh;

static const double EPS = 2.220446049250313e-16;

// ------------------------------------------------------------------ small helpers
namespace {
struct NullBuf : std::streambuf { int overflow(int ch) override { return ch; } };
// The library prints progress messages on std::cout; keep them out of the protocol stream.
struct CoutSilencer {
    NullBuf nb; std::streambuf* old;
    CoutSilencer() { old = std::cout.rdbuf(&nb); }
    ~CoutSilencer() { std::cout.rdbuf(old); }
};
}

// Observation point for exceptions that the library catches internally (Assembler::assemble()
// and track() swallow an optimizer failure when the assembly errors happen to be within
// tolerance): count every C++ throw and remember the last SimTK message.
static bool g_verbose = false;
static int g_forceNumGrad = -1, g_forceNumJac = -1;    // debugging overrides (--numgrad 0|1, --numjac 0|1)
static long g_throws = 0;          // SimTK::Exception::OptimizerFailed only (IPOPT uses C++ exceptions internally for control flow)
static char g_lastThrow[240] = "";
#if defined(__clang__)
#define VH_TI_ARG std::type_info*
#else
#define VH_TI_ARG void*          /* gcc's built-in declaration of __cxa_throw takes void* */
#endif
extern "C" void __cxa_throw(void* obj, VH_TI_ARG tiArg, void (*dtor)(void*)) {
    std::type_info* ti = (std::type_info*)tiArg;
    typedef void (*Fn)(void*, std::type_info*, void (*)(void*));
    static Fn real = (Fn)dlsym(RTLD_NEXT, "__cxa_throw");
    if (ti && *ti == typeid(SimTK::Exception::OptimizerFailed)) {
        ++g_throws;
        const SimTK::Exception::Base* b = static_cast<const SimTK::Exception::Base*>(obj);
        strncpy(g_lastThrow, b->getMessageText().c_str(), sizeof g_lastThrow - 1); g_lastThrow[sizeof g_lastThrow - 1] = 0;
    }
    real(obj, ti, dtor);
    abort();
}

static bool isNI(int t) {   // qdot == u, q numbering independent of the rotation representation
    return t == MT_Pin || t == MT_Slider || t == MT_Screw || t == MT_Universal || t == MT_Cylinder || t == MT_Planar || t == MT_Translation;
}
static bool bitEq(double a, double b) { return std::memcmp(&a, &b, sizeof a) == 0 || a == b; }
static double rotAngle(const Rotation& Rr) {   // angle of a rotation matrix in [0,pi], accurate near 0 and pi
    const Mat33& R = Rr.asMat33();
    Vec3 sk(R(2, 1) - R(1, 2), R(0, 2) - R(2, 0), R(1, 0) - R(0, 1));
    double s = 0.5 * sk.norm(), cth = 0.5 * (R(0, 0) + R(1, 1) + R(2, 2) - 1.0);
    return std::atan2(s, cth);
}
static double rotDiff(const Rotation& Ar, const Rotation& Br) {
    const Mat33& A = Ar.asMat33(); const Mat33& B = Br.asMat33();
    double m = 0; for (int i = 0; i < 3; ++i) for (int j = 0; j < 3; ++j) m = std::max(m, std::fabs(A(i, j) - B(i, j))); return m;
}
static Rotation smallRot(Rng& r, double ang) { return Rotation(r.sym(ang), randUnit(r)); }
static Vector freshQ(const Vector& q) { Vector v(q.size()); for (int i = 0; i < q.size(); ++i) v[i] = q[i]; return v; }

// ------------------------------------------------------------------ random constrained system
struct Mot { int node; double amp, rate, phase; };
struct Con { Constraint c; std::string type; bool satisfiedAtRef = true; bool disabledByDefault = false; int userFlag = 0; /* +1 enable in state, -1 disable in state */ };

struct Sys {
    Model m;
    bool userEuler = true;
    double t0 = 0;
    std::vector<Mot> mots;
    std::vector<Con> cons;
    State sRef;                      // Euler-mode reference state (q*, random u, time t0), final topology
    std::vector<Transform> Xref;     // per node
    int nNodes() const { return (int)m.bodies.size(); }
    const MobilizedBody& body(int node) const { return node < 0 ? (const MobilizedBody&)m.matter.getGround() : m.bodies[node]; }
    MobilizedBody& updBody(int node) { return node < 0 ? (MobilizedBody&)m.matter.updGround() : m.bodies[node]; }
    MobilizedBodyIndex mbx(int node) const { return body(node).getMobilizedBodyIndex(); }
    Transform xref(int node) const { return node < 0 ? Transform() : Xref[node]; }
    int nq(int node) const { return body(node).getNumQ(sRef); }          // Euler-mode count
    int q0(int node) const { return (int)body(node).getFirstQIndex(sRef); }
    int type(int node) const { return m.desc.nodes[node].type; }
    bool hasCons() const { return !cons.empty(); }
    std::string conTypes() const { std::set<std::string> s; for (auto& k : cons) s.insert(k.type); std::string r; for (auto& t : s) { if (!r.empty()) r += "+"; r += t; } return r.empty() ? "none" : r; }
};

struct SysOpts { int minBodies = 1, maxBodies = 5, maxCons = 2; double pCons = 0.6; bool motions = false; bool flags = false; bool heavyCons = true; bool forceMotion = false; };

class LinFun2 : public Function {   // c0*x0 + c1*x1 + c2
public:
    double c0, c1, c2;
    LinFun2(double a, double b, double c) : c0(a), c1(b), c2(c) {}
    Real calcValue(const Vector& x) const override { return c0 * x[0] + c1 * x[1] + c2; }
    Real calcDerivative(const Array_<int>& d, const Vector&) const override { if (d.size() == 1) return d[0] == 0 ? c0 : c1; return 0; }
    int getArgumentSize() const override { return 2; }
    int getMaxDerivativeOrder() const override { return 1000; }
    LinFun2* clone() const override { return new LinFun2(*this); }
};

// Adds up to maxCons constraints that hold exactly at the reference transforms/coordinates.
static void addConstraints(Rng& r, Sys& S, const State& s, const SysOpts& o) {
    int nb = S.nNodes();
    if (nb < 1 || !r.coin(o.pCons)) return;
    int want = r.integer(1, o.maxCons);
    for (int j = 0; j < want; ++j) {
        int kind = r.integer(0, o.heavyCons ? 8 : 6);
        int b1 = r.integer(-1, nb - 1), b2 = r.integer(0, nb - 1);
        if (b1 == b2) b1 = (b2 == 0) ? -1 : b2 - 1;
        Transform X1 = S.xref(b1), X2 = S.xref(b2);
        Con c;
        try {
            switch (kind) {
            case 0: {   // Rod
                Vec3 p1 = randVec3(r, 0.5), p2 = randVec3(r, 0.5);
                double d = (X1 * p1 - X2 * p2).norm();
                if (d < 0.2) continue;
                c.c = Constraint::Rod(S.updBody(b1), p1, S.updBody(b2), p2, d); c.type = "Rod"; break; }
            case 1: {   // Ball
                Vec3 p1 = randVec3(r, 0.5); Vec3 p2 = ~X2 * (X1 * p1);
                c.c = Constraint::Ball(S.updBody(b1), p1, S.updBody(b2), p2); c.type = "Ball"; break; }
            case 2: {   // PointInPlane
                UnitVec3 n = randUnit(r); Vec3 p2 = randVec3(r, 0.5);
                double h = dot(Vec3(n), ~X1 * (X2 * p2));
                c.c = Constraint::PointInPlane(S.updBody(b1), n, h, S.updBody(b2), p2); c.type = "PointInPlane"; break; }
            case 3: {   // PointOnLine
                UnitVec3 dir = randUnit(r); Vec3 p2 = randVec3(r, 0.5);
                Vec3 p1 = ~X1 * (X2 * p2) - r.sym(0.5) * Vec3(dir);
                c.c = Constraint::PointOnLine(S.updBody(b1), dir, p1, S.updBody(b2), p2); c.type = "PointOnLine"; break; }
            case 4: {   // ConstantAngle
                UnitVec3 a1 = randUnit(r), a2 = randUnit(r);
                double ca = dot(X1.R() * Vec3(a1), X2.R() * Vec3(a2));
                if (std::fabs(ca) > 0.9) continue;
                c.c = Constraint::ConstantAngle(S.updBody(b1), a1, S.updBody(b2), a2, std::acos(ca)); c.type = "ConstantAngle"; break; }
            case 5: {   // ConstantCoordinate on a mode-independent coordinate
                std::vector<int> el; for (int k = 0; k < nb; ++k) if (isNI(S.type(k))) el.push_back(k);
                if (el.empty()) continue;
                int k = r.pick(el); int qi = r.integer(0, S.m.bodies[k].getNumQ(s) - 1);
                c.c = Constraint::ConstantCoordinate(S.m.bodies[k], MobilizerQIndex(qi), S.m.bodies[k].getOneQ(s, qi)); c.type = "ConstantCoordinate"; break; }
            case 6: {   // linear CoordinateCoupler
                std::vector<int> el; for (int k = 0; k < nb; ++k) if (isNI(S.type(k))) el.push_back(k);
                if (el.size() < 2) continue;
                int ka = r.pick(el), kb = r.pick(el); if (ka == kb) continue;
                int qa = r.integer(0, S.m.bodies[ka].getNumQ(s) - 1), qb = r.integer(0, S.m.bodies[kb].getNumQ(s) - 1);
                double c0 = r.uni(0.5, 1.5) * (r.coin() ? 1 : -1), c1 = r.uni(0.5, 1.5) * (r.coin() ? 1 : -1);
                double c2 = -(c0 * S.m.bodies[ka].getOneQ(s, qa) + c1 * S.m.bodies[kb].getOneQ(s, qb));
                Array_<MobilizedBodyIndex> mb; mb.push_back(S.mbx(ka)); mb.push_back(S.mbx(kb));
                Array_<MobilizerQIndex> qx; qx.push_back(MobilizerQIndex(qa)); qx.push_back(MobilizerQIndex(qb));
                c.c = Constraint::CoordinateCoupler(S.m.matter, new LinFun2(c0, c1, c2), mb, qx); c.type = "CoordinateCoupler"; break; }
            case 7: {   // ConstantOrientation
                Rotation R1 = randRotation(r); Rotation R2 = ~X2.R() * (X1.R() * R1);
                c.c = Constraint::ConstantOrientation(S.updBody(b1), R1, S.updBody(b2), R2); c.type = "ConstantOrientation"; break; }
            default: {  // Weld
                Transform F1 = randFrame(r, 2); Transform F2 = ~X2 * (X1 * F1);
                c.c = Constraint::Weld(S.updBody(b1), F1, S.updBody(b2), F2); c.type = "Weld"; break; }
            }
        } catch (const std::exception&) { continue; }
        if (o.flags && r.coin(0.2)) { c.c.setDisabledByDefault(true); c.disabledByDefault = true; c.userFlag = +1; }
        S.cons.push_back(c);
    }
    // a constraint that does NOT hold at q*, enabled by default, which the client disables in the State
    if (o.flags && nb >= 1 && r.coin(0.12)) {
        int b2 = r.integer(0, nb - 1); Con c;
        Vec3 p1 = randVec3(r, 0.5), p2 = randVec3(r, 0.5);
        double d = (p1 - S.xref(b2) * p2).norm() + r.uni(0.3, 1.0);
        c.c = Constraint::Rod(S.m.matter.updGround(), p1, S.m.bodies[b2], p2, d); c.type = "Rod"; c.satisfiedAtRef = false; c.userFlag = -1;
        S.cons.push_back(c);
    }
}

// Builds tree (+Motions) -> reference configuration -> constraints satisfied there.
// 'addForces' runs before the first realizeTopology (force elements are topological).
static bool buildSys(Ctx& c, Rng& r, long idx, Sys& S, const SysOpts& o, const std::function<void(Sys&, Rng&)>& addForces) {
    GenOpts g; g.minBodies = o.minBodies; g.maxBodies = o.maxBodies; g.forceCycle = false; g.pLoneParticle = 0.02;
    ModelDesc d = randomDesc(r, g, idx);
    S.userEuler = r.coin(0.45);
    d.euler = true;                               // generation happens in the Assembler's representation
    S.m.build(d);
    S.t0 = r.uni(0.0, 2.0);
    bool forced = false;
    if (o.motions) for (int k = 0; k < S.nNodes(); ++k) if (isNI(d.nodes[k].type) && (r.coin(0.15) || (o.forceMotion && !forced))) {
        forced = true;
        Mot mo{k, r.uni(0.3, 1.2), r.uni(0.5, 3.0), r.sym(3.0)};
        Motion::Sinusoid(S.m.bodies[k], Motion::Position, mo.amp, mo.rate, mo.phase);
        S.mots.push_back(mo);
    }
    if (addForces) addForces(S, r);
    State s = S.m.sys.realizeTopology();
    S.m.matter.setUseEulerAngles(s, true);
    S.m.sys.realizeModel(s);
    if (s.getNQ() == 0) { c.skip("no-coordinates"); return false; }
    randomQU(S.m, s, r, false, 1.0);
    s.setTime(S.t0);
    for (auto& mo : S.mots) { int n = S.m.bodies[mo.node].getNumQ(s); for (int i = 0; i < n; ++i) S.m.bodies[mo.node].setOneQ(s, i, mo.amp * std::sin(mo.rate * S.t0 + mo.phase)); }
    S.m.sys.realize(s, Stage::Position);
    if (!sphericalOK(S.m, s)) { c.skip("spherical-singularity"); return false; }
    for (int k = 0; k < S.nNodes(); ++k) S.Xref.push_back(S.m.bodies[k].getBodyTransform(s));
    addConstraints(r, S, s, o);
    if (!S.cons.empty()) {
        State s2 = S.m.sys.realizeTopology();
        S.m.matter.setUseEulerAngles(s2, true);
        S.m.sys.realizeModel(s2);
        s2.updQ() = s.getQ(); s2.updU() = s.getU(); s2.setTime(S.t0);
        s = s2;
    }
    if (!S.userEuler) {
        // A quaternion client's configuration reaches the Assembler through convertToEulerAngles(): use the
        // same (canonical) Euler branch for the reference so that q-indexed requirements mean the same thing.
        State qs, es; S.m.matter.convertToQuaternions(s, qs); S.m.matter.convertToEulerAngles(qs, es);
        s.updQ() = es.getQ();
    }
    S.sRef = s;
    // sanity: enabled-at-use constraints hold at q*
    State chk = s;
    for (auto& k : S.cons) { if (k.userFlag > 0) k.c.enable(chk); if (k.userFlag < 0) k.c.disable(chk); }
    S.m.sys.realize(chk, Stage::Position);
    double e = chk.getNQErr() ? vmaxabs(chk.getQErr()) : 0.0;
    if (!(e <= 1e-9)) { c.skip("reference-not-assembled"); return false; }
    return true;
}

// User-side start state: Euler q vector -> state in the client's representation with the client's
// instance-level settings (constraint enable flags, dynamic locks) applied afterwards.
static State makeUserState(const Sys& S, const Vector& qE, const std::vector<int>& dynLocks) {
    State e = S.sRef; e.updQ() = qE;
    State u;
    if (S.userEuler) u = e; else S.m.matter.convertToQuaternions(e, u);
    for (auto& k : S.cons) { if (k.userFlag > 0) k.c.enable(u); if (k.userFlag < 0) k.c.disable(u); }
    for (int n : dynLocks) S.m.bodies[n].lock(u);
    S.m.sys.realizeModel(u);
    return u;
}
// Euler twin of a user state carrying the same instance-level settings (harness evaluation template).
static State makeTwin(const Sys& S, const State& user, const std::vector<int>& dynLocks) {
    State e;
    if (S.userEuler) e = user;
    else {
        S.m.matter.convertToEulerAngles(user, e);
        for (auto& k : S.cons) { if (k.userFlag > 0) k.c.enable(e); if (k.userFlag < 0) k.c.disable(e); }
        for (int n : dynLocks) S.m.bodies[n].lock(e);
        e.updU() = user.getU();
    }
    S.m.sys.realizeModel(e);
    return e;
}
// holonomic position errors of a freshly realized copy (quaternion normalisation errors excluded)
static std::vector<double> holoErrs(const Sys& S, const State& st) {
    State f = st; f.updQ() = freshQ(st.getQ());
    S.m.sys.realize(f, Stage::Position);
    int nquat = S.m.matter.getNumQuaternionsInUse(f);
    int nh = f.getNQErr() - nquat;
    std::vector<double> e; for (int i = 0; i < nh; ++i) e.push_back(f.getQErr()[i]);
    return e;
}
static double quatDefect(const Sys& S, const State& st) {
    double m = 0;
    for (int k = 0; k < S.nNodes(); ++k) if (S.m.matter.isUsingQuaternion(st, S.mbx(k))) {
        Vector q = S.m.bodies[k].getQAsVector(st);
        m = std::max(m, std::fabs(std::sqrt(q[0] * q[0] + q[1] * q[1] + q[2] * q[2] + q[3] * q[3]) - 1.0));
    }
    return m;
}
static double normOf(const std::vector<double>& e, bool rms) {
    if (e.empty()) return 0; double s = 0, m = 0;
    for (double x : e) { if (x != x) return x; s += x * x; m = std::max(m, std::fabs(x)); }
    return rms ? std::sqrt(s / e.size()) : m;
}

// ================================================================== Assembler
struct MarkerD { int node; Vec3 st; double w; int obs = -1; };
struct SensorD { int node; Rotation R_BS; double w; };
struct QValD { int node, qi; double val, w; };
struct BoundD { int node, qi; double lo, hi; };

struct Prob {
    bool hasM = false, hasO = false; double WM = 1, WO = 1;
    std::vector<MarkerD> mk; std::vector<int> obs2mk; bool customOrder = false; std::vector<Vec3> obs;
    std::vector<SensorD> os; std::vector<Rotation> oobs;
    std::vector<QValD> qv;
    double sysW = Infinity;
    std::set<int> lockMob; std::set<std::pair<int, int>> lockQ; std::vector<BoundD> bounds; std::vector<int> dynLock;
    double acc = 0, tol = 0; bool rms = false, numGrad = false, numJac = false;
    bool achievable = true; double delta = 0; bool noFree = false;
    // derived
    std::vector<char> inertQ;       // spin angle of LineOrientation/FreeLine: a coordinate no mobility can change (never perturbed)
    std::vector<char> usedQ;        // per Euler q index: a coordinate in use (quaternion-capable mobilizers keep an unused 4th slot)
    std::vector<char> fixedQ;       // per Euler q index: locked by the study (mobilizer lock, q lock, dynamic lock)
    std::vector<char> prescQ;       // per Euler q index: prescribed by a Motion
    double accInUse() const { return acc > 0 ? acc : 1e-3; }
    double tolInUse() const { return tol > 0 ? tol : accInUse() / 10; }
    std::string kinds() const {
        std::string s; if (hasM) s += "M"; if (hasO) s += "O";
        bool qg = false, qe = false; for (auto& q : qv) (std::isinf(q.w) ? qe : qg) = true;
        if (qg) s += "Qg"; if (qe) s += "Qe"; if (s.empty()) s = "none";
        if (std::isfinite(sysW)) s += sysW == 0 ? "/cons-ignored" : "/cons-as-goal";
        return s;
    }
    std::string restr() const {
        std::string s; if (!lockMob.empty()) s += "lockMob+"; if (!lockQ.empty()) s += "lockQ+"; if (!dynLock.empty()) s += "dynLock+"; if (!bounds.empty()) s += "bounds+";
        if (s.empty()) return "free"; s.pop_back(); return s;
    }
};

struct EvalOut { double errNorm = 0, goal = 0, gM = 0, gMnoGround = 0, gO = 0, gQ = 0, gC = 0; bool groundMarkerActive = false; std::vector<double> mErr, oErr; std::vector<Transform> X; bool finite = true; int nErr = 0; double wsum = 0; std::vector<double> errs; };

// Harness-side recomputation of everything the Assembler reports, from the definitions, on the
// Euler twin 'tw' with coordinates q and time t. Constraint errors come from 'errState' if given
// (the client's own state) else from the twin.
static EvalOut evaluate(const Sys& S, const Prob& P, const State& tw, const Vector& q, double t, const State* errState) {
    EvalOut o;
    State f = tw; f.setTime(t); f.updQ() = freshQ(q);
    S.m.sys.realize(f, Stage::Position);
    for (int k = 0; k < S.nNodes(); ++k) o.X.push_back(S.m.bodies[k].getBodyTransform(f));
    auto X = [&](int node) { return node < 0 ? Transform() : o.X[node]; };
    // markers
    if (P.hasM) {
        double num = 0, wt = 0, numNG = 0, wtNG = 0;
        o.mErr.assign(P.mk.size(), 0.0);
        for (size_t i = 0; i < P.mk.size(); ++i) {
            const MarkerD& m = P.mk[i];
            if (m.obs < 0) continue;
            const Vec3& ob = P.obs[m.obs];
            if (!(ob[0] == ob[0] && ob[1] == ob[1] && ob[2] == ob[2])) continue;
            double r2 = (X(m.node) * m.st - ob).normSqr();
            o.mErr[i] = std::sqrt(r2);
            if (!(m.w > 0)) continue;
            num += m.w * r2; wt += m.w;
            if (m.node >= 0) { numNG += m.w * r2; wtNG += m.w; } else o.groundMarkerActive = true;
        }
        o.gM = num / (2 * wt); o.gMnoGround = wtNG > 0 ? numNG / (2 * wtNG) : 0;
        o.goal += P.WM * o.gM; o.wsum += P.WM;
    }
    if (P.hasO) {
        double num = 0, wt = 0; o.oErr.assign(P.os.size(), 0.0);
        for (size_t i = 0; i < P.os.size(); ++i) {
            const SensorD& s = P.os[i]; const Rotation& RO = P.oobs[i];
            if (!RO.isFinite()) continue;
            Rotation R_GS = X(s.node).R() * s.R_BS;
            double a = rotAngle(~R_GS * RO);
            o.oErr[i] = a;
            if (!(s.w > 0)) continue;
            num += s.w * a * a; wt += s.w;
        }
        o.gO = num / (2 * wt); o.goal += P.WO * o.gO; o.wsum += P.WO;
    }
    std::vector<double> errs;
    for (auto& v : P.qv) {
        double e = S.m.bodies[v.node].getOneQ(f, v.qi) - v.val;
        if (std::isinf(v.w)) errs.push_back(e); else if (v.w > 0) { o.gQ += v.w * e * e / 2; o.wsum += v.w; }
    }
    o.goal += o.gQ;
    std::vector<double> he = errState ? holoErrs(S, *errState) : holoErrs(S, f);
    if (std::isinf(P.sysW)) errs.insert(errs.end(), he.begin(), he.end());
    else if (P.sysW > 0) { std::vector<double> hi = holoErrs(S, f); double s2 = 0; for (double x : hi) s2 += x * x; o.gC = P.sysW * s2 / 2; o.goal += o.gC; o.wsum += P.sysW; }
    o.nErr = (int)errs.size(); o.errs = errs;
    o.errNorm = normOf(errs, P.rms);
    o.finite = std::isfinite(o.goal) && std::isfinite(o.errNorm);
    return o;
}

static bool boundsOK(const Sys& S, const Prob& P, const Vector& q, double* worst = nullptr) {
    double w = 0;
    for (auto& b : P.bounds) {
        int ix = S.q0(b.node) + b.qi;
        if (P.fixedQ[ix] || P.prescQ[ix]) continue;        // documented: no effect on locked/prescribed q
        w = std::max(w, std::max(b.lo - q[ix], q[ix] - b.hi));
    }
    if (worst) *worst = w;
    return w <= 0;
}

static void genProblem(Rng& r, const Sys& S, Prob& P, long idx, bool unlistedTail, int forceWhich) {
    const int nb = S.nNodes(), nqE = S.sRef.getNQ();
    P.fixedQ.assign(nqE, 0); P.prescQ.assign(nqE, 0); P.usedQ.assign(nqE, 0);
    for (int k = 0; k < nb; ++k) for (int i = 0; i < S.nq(k); ++i) P.usedQ[S.q0(k) + i] = 1;
    P.inertQ.assign(nqE, 0);
    for (int k = 0; k < nb; ++k) if (S.type(k) == MT_LineOrientation || S.type(k) == MT_FreeLine) P.inertQ[S.q0(k) + 2] = 1;
    for (auto& mo : S.mots) for (int i = 0; i < S.nq(mo.node); ++i) P.prescQ[S.q0(mo.node) + i] = 1;
    std::vector<int> withQ; for (int k = 0; k < nb; ++k) if (S.nq(k) > 0) withQ.push_back(k);
    P.achievable = r.coin(0.6);
    // ---- restrictions
    if (r.coin(0.3) && withQ.size() >= 1) P.lockMob.insert(r.pick(withQ));
    if (r.coin(0.3)) { int n = r.integer(1, 2); for (int j = 0; j < n; ++j) { int k = r.pick(withQ); P.lockQ.insert({k, r.integer(0, S.nq(k) - 1)}); } }
    if (r.coin(0.12)) { std::vector<int> el; for (int k : withQ) if (isNI(S.type(k))) { bool mot = false; for (auto& mo : S.mots) if (mo.node == k) mot = true; if (!mot) el.push_back(k); } if (!el.empty()) P.dynLock.push_back(r.pick(el)); }
    auto mark = [&]() {
        std::fill(P.fixedQ.begin(), P.fixedQ.end(), 0);
        for (int k : P.lockMob) for (int i = 0; i < S.nq(k); ++i) P.fixedQ[S.q0(k) + i] = 1;
        for (auto& lq : P.lockQ) P.fixedQ[S.q0(lq.first) + lq.second] = 1;
        for (int k : P.dynLock) for (int i = 0; i < S.nq(k); ++i) P.fixedQ[S.q0(k) + i] = 1;
    };
    mark();
    auto nFree = [&]() { int n = 0; for (int i = 0; i < nqE; ++i) if (P.usedQ[i] && !P.fixedQ[i] && !P.prescQ[i]) ++n; return n; };
    if (nFree() == 0) { P.lockMob.clear(); P.dynLock.clear(); mark(); }
    if (nFree() == 0) { P.lockQ.clear(); mark(); }
    P.noFree = nFree() == 0;       // every coordinate prescribed: the study has nothing to solve for
    // ---- tolerances
    if (P.achievable) { P.acc = r.logUni(1e-8, 1e-7); P.tol = r.coin(0.8) ? (r.coin() ? 1e-4 : 1e-3) : 0.0; }
    else { int k = r.integer(0, 3); P.acc = k == 0 ? 0.0 : k == 1 ? 1e-4 : k == 2 ? 1e-5 : 1e-6; P.tol = r.coin(0.5) ? 0.0 : r.logUni(1e-6, 1e-3); }
    P.rms = r.coin(0.25); P.numGrad = r.coin(0.12); P.numJac = r.coin(0.12);
    if (S.hasCons()) { double u = r.uni(); P.sysW = u < 0.08 ? r.uni(0.5, 20.0) : u < 0.12 ? 0.0 : Infinity; }
    P.delta = P.achievable ? r.pick(std::vector<double>{0.03, 0.1, 0.25}) : r.pick(std::vector<double>{0.0, 0.05, 0.3});
    // ---- conditions
    const Vector& qs = S.sRef.getQ();
    double noise = P.achievable ? 0.0 : r.pick(std::vector<double>{0.02, 0.2});
    int which = r.integer(0, 9);        // 0-4 markers, 5-6 markers+sensors, 7 sensors, 8 qvalue only, 9 no goal at all ("basic assembly")
    if (forceWhich >= 0) which = forceWhich;
    P.hasM = which <= 6; P.hasO = which >= 5 && which <= 7;
    if (P.hasM) {
        int n = r.integer(1, 10);
        for (int i = 0; i < n; ++i) {
            MarkerD m; m.node = (r.coin(0.04) ? -1 : r.integer(0, nb - 1)); m.st = randVec3(r, 0.8);
            m.w = r.coin(0.1) ? 0.0 : r.logUni(0.05, 20.0);
            P.mk.push_back(m);
        }
        P.mk[0].w = std::max(P.mk[0].w, 0.3); if (P.mk[0].node < 0) P.mk[0].node = r.integer(0, nb - 1);
        P.customOrder = r.coin(0.4);
        if (!P.customOrder) { for (int i = 0; i < n; ++i) { P.obs2mk.push_back(i); P.mk[i].obs = i; } }
        else {
            // a permutation of the markers, some dropped, some ignored observation slots inserted
            std::vector<int> perm(n); for (int i = 0; i < n; ++i) perm[i] = i;
            for (int i = n - 1; i > 0; --i) std::swap(perm[i], perm[r.integer(0, i)]);
            for (int i = 0; i < n; ++i) {
                if (r.coin(0.15)) P.obs2mk.push_back(-1);
                if (perm[i] != 0 && r.coin(0.2)) continue;            // marker without observation (ignored)
                P.obs2mk.push_back(perm[i]);
            }
            if (!unlistedTail) {
                // keep the highest-numbered marker listed (see README note on the unlisted-tail scenario)
                bool lastListed = false; for (int v : P.obs2mk) if (v == n - 1) lastListed = true;
                if (!lastListed) P.obs2mk.push_back(n - 1);
            }
            for (size_t ox = 0; ox < P.obs2mk.size(); ++ox) if (P.obs2mk[ox] >= 0) P.mk[P.obs2mk[ox]].obs = (int)ox;
        }
        P.obs.assign(P.obs2mk.size(), Vec3(NaN));
        for (size_t ox = 0; ox < P.obs2mk.size(); ++ox) {
            int mi = P.obs2mk[ox];
            if (mi < 0) { P.obs[ox] = r.coin() ? Vec3(NaN) : randVec3(r, 2.0); continue; }
            P.obs[ox] = S.xref(P.mk[mi].node) * P.mk[mi].st + noise * Vec3(r.normal(), r.normal(), r.normal());
            if (mi != 0 && r.coin(0.06)) P.obs[ox] = Vec3(NaN);      // missing observation in this frame
        }
        P.WM = r.coin(0.5) ? 1.0 : r.logUni(0.1, 30.0);
    }
    if (P.hasO) {
        int n = r.integer(1, 4);
        for (int i = 0; i < n; ++i) {
            SensorD s; s.node = r.integer(0, nb - 1); s.R_BS = randRotation(r); s.w = (i > 0 && r.coin(0.1)) ? 0.0 : r.logUni(0.05, 20.0);
            P.os.push_back(s);
            Rotation RO = S.xref(s.node).R() * s.R_BS;
            if (noise > 0) RO = RO * smallRot(r, noise);
            if (i > 0 && r.coin(0.06)) RO.setRotationToNaN();
            P.oobs.push_back(RO);
        }
        P.WO = r.coin(0.5) ? 1.0 : r.logUni(0.1, 30.0);
    }
    if (which == 8 || (which < 8 && r.coin(0.25))) {
        int n = r.integer(1, 3);
        for (int j = 0; j < n; ++j) {
            int k = r.pick(withQ); QValD v; v.node = k; v.qi = r.integer(0, S.nq(k) - 1);
            int ix = S.q0(k) + v.qi;
            bool asError = r.coin(0.4);
            if (asError && (P.fixedQ[ix] || P.prescQ[ix])) asError = false;
            bool dup = false; for (auto& w : P.qv) if (w.node == v.node && w.qi == v.qi) dup = true;
            if (dup) continue;
            v.w = asError ? Infinity : r.logUni(0.1, 30.0);
            v.val = qs[ix] + ((P.achievable || P.fixedQ[ix] || P.prescQ[ix] || (asError && S.hasCons())) ? 0.0 : r.sym(noise * 2));
            P.qv.push_back(v);
        }
    }
    // ---- bounds
    if (r.coin(0.5)) {
        int n = r.integer(1, 4);   // often several mobilizers carry ranges at once (per-mobilizer bookkeeping in the Assembler)
        for (int j = 0; j < n; ++j) { int k = r.pick(withQ); BoundD b; b.node = k; b.qi = r.integer(0, S.nq(k) - 1); b.lo = -Infinity; b.hi = Infinity; P.bounds.push_back(b); }
    }
    if (g_forceNumGrad >= 0) P.numGrad = g_forceNumGrad != 0;
    if (g_forceNumJac >= 0) P.numJac = g_forceNumJac != 0;
    (void)idx;
}

struct AsmRun {
    Sys S; Prob P;
    Vector qStartE;              // Euler start
    State user0, twin;           // client start state and its Euler twin
    Vector q0E;                  // what the Assembler's internal q should be right after setInternalState
    Markers* M = nullptr; OrientationSensors* O = nullptr; std::vector<QValue*> Q;
};

static double prescribedValue(const Mot& mo, double t) { return mo.amp * std::sin(mo.rate * t + mo.phase); }

// Harness-side first-order test at a returned point: central-difference gradient of a recomputed
// objective w.r.t. the free coordinates F, with coordinates sitting on an active bound removed and
// the remainder projected on the tangent space of the equality equations. Returns |g_proj|_inf.
struct FnOut { double f; std::vector<double> errs; };
static double projectedGradientGeneric(const std::function<FnOut(const Vector&)>& fn, const Vector& q, const std::vector<int>& F,
                                       const std::vector<double>& lo, const std::vector<double>& hi, std::vector<double>* gOut = nullptr) {
    const int n = (int)F.size(); const double h = 1e-6;
    FnOut e0 = fn(q); const int m = (int)e0.errs.size();
    std::vector<double> g(n, 0.0); std::vector<std::vector<double>> J(m, std::vector<double>(n, 0.0));
    for (int k = 0; k < n; ++k) {
        Vector qp = freshQ(q), qm = freshQ(q); qp[F[k]] += h; qm[F[k]] -= h;
        FnOut ep = fn(qp), em = fn(qm);
        g[k] = (ep.f - em.f) / (2 * h);
        for (int r = 0; r < m; ++r) J[r][k] = (ep.errs[r] - em.errs[r]) / (2 * h);
    }
    for (int k = 0; k < n; ++k) {
        bool atLo = q[F[k]] - lo[k] <= 1e-5 && g[k] > 0, atHi = hi[k] - q[F[k]] <= 1e-5 && g[k] < 0;
        if (atLo || atHi) { g[k] = 0; for (int r = 0; r < m; ++r) J[r][k] = 0; }
    }
    // modified Gram-Schmidt on the rows of J, then remove their span from g
    std::vector<std::vector<double>> Qr;
    for (int r = 0; r < m; ++r) {
        std::vector<double> v = J[r]; double n0 = 0; for (double x : v) n0 += x * x; n0 = std::sqrt(n0);
        for (auto& u : Qr) { double d = 0; for (int k = 0; k < n; ++k) d += u[k] * v[k]; for (int k = 0; k < n; ++k) v[k] -= d * u[k]; }
        double n1 = 0; for (double x : v) n1 += x * x; n1 = std::sqrt(n1);
        if (g_verbose) fprintf(stderr, "  projGrad: row %d |row|=%.3e residual=%.3e\n", r, n0, n1);
        if (n1 <= 1e-6 * std::max(n0, 1e-12)) continue;
        for (double& x : v) x /= n1; Qr.push_back(v);
    }
    for (auto& u : Qr) { double d = 0; for (int k = 0; k < n; ++k) d += u[k] * g[k]; for (int k = 0; k < n; ++k) g[k] -= d * u[k]; }
    double w = 0; for (double x : g) w = std::max(w, std::fabs(x));
    if (gOut) *gOut = g;
    if (g_verbose) { fprintf(stderr, "  projGrad: n=%d m=%d rank=%d |g_proj|=%.3e g=", n, m, (int)Qr.size(), w); for (double x : g) fprintf(stderr, " %.2e", x); fprintf(stderr, "\n"); }
    return w;
}
static double projectedGradient(const Sys& S, const Prob& P, const State& tw, const Vector& q, double t) {
    // Coordinates w of the feasible directions (DESIGN section 8 nos. 4, 8, 10): the identity on every free q, except
    // that the three Euler angles of a LineOrientation/FreeLine mobilizer (two mobilities) are replaced by an
    // orthonormal basis of range(N) -- the gradients the Assembler works with are generalized forces mapped to q and
    // have no component outside it. A mobilizer of that kind with a fixed, prescribed or range-restricted angle keeps
    // the plain coordinates (spin angle left out, as before).
    const int nq = q.size();
    std::vector<char> special(nq, 0);
    struct Col { std::vector<std::pair<int, double>> e; double lo, hi; };
    std::vector<Col> B;
    {
        State twR = tw; twR.updQ() = freshQ(q); S.m.sys.realize(twR, Stage::Position);
        for (int kk = 0; kk < S.nNodes(); ++kk) {
            if (S.type(kk) != MT_LineOrientation && S.type(kk) != MT_FreeLine) continue;
            const int a0 = S.q0(kk); bool plain = false;
            for (int i = 0; i < 3; ++i) if (!P.usedQ[a0 + i] || P.fixedQ[a0 + i] || P.prescQ[a0 + i]) plain = true;
            for (auto& b : P.bounds) { int ix = S.q0(b.node) + b.qi; if (ix >= a0 && ix < a0 + 3) plain = true; }
            if (plain) continue;
            const int u0 = (int)S.m.bodies[kk].getFirstUIndex(twR);
            double col[2][3];
            for (int j = 0; j < 2; ++j) {
                Vector uu(twR.getNU()); uu.setToZero(); uu[u0 + j] = 1; Vector dq;
                S.m.matter.multiplyByN(twR, false, uu, dq);
                for (int i = 0; i < 3; ++i) col[j][i] = dq[a0 + i];
            }
            auto nrm = [](double* v) { double n = std::sqrt(v[0] * v[0] + v[1] * v[1] + v[2] * v[2]); if (n > 0) for (int i = 0; i < 3; ++i) v[i] /= n; return n; };
            if (!(nrm(col[0]) > 1e-8)) continue;
            double dt = col[0][0] * col[1][0] + col[0][1] * col[1][1] + col[0][2] * col[1][2];
            for (int i = 0; i < 3; ++i) col[1][i] -= dt * col[0][i];
            if (!(nrm(col[1]) > 1e-8)) continue;
            for (int i = 0; i < 3; ++i) special[a0 + i] = 1;
            for (int j = 0; j < 2; ++j) B.push_back(Col{{{a0, col[j][0]}, {a0 + 1, col[j][1]}, {a0 + 2, col[j][2]}}, -Infinity, Infinity});
        }
    }
    for (int i = 0; i < nq; ++i) {
        if (special[i] || !(P.usedQ[i] && !P.inertQ[i] && !P.fixedQ[i] && !P.prescQ[i])) continue;
        Col cI{{{i, 1.0}}, -Infinity, Infinity};
        for (auto& b : P.bounds) { int ix = S.q0(b.node) + b.qi; if (ix == i) { cI.lo = b.lo - q[i]; cI.hi = b.hi - q[i]; } }
        B.push_back(cI);
    }
    const int nw = (int)B.size();
    std::vector<int> F; std::vector<double> lo, hi;
    for (int k = 0; k < nw; ++k) { F.push_back(k); lo.push_back(B[k].lo); hi.push_back(B[k].hi); }
    Vector w0(nw); w0.setToZero();
    return projectedGradientGeneric([&](const Vector& w) {
        Vector x = freshQ(q); for (int k = 0; k < nw; ++k) if (w[k] != 0) for (auto& e : B[k].e) x[e.first] += w[k] * e.second;
        EvalOut e = evaluate(S, P, tw, x, t, nullptr); return FnOut{e.goal, e.errs}; }, w0, F, lo, hi);
}

// Judge one returned assemble()/track() call. Returns false when a violated lock/prescription makes
// everything that follows (later tracking frames included) a mere consequence.
static bool judgeAssembler(Ctx& c, AsmRun& R, Assembler& A, const std::string& api, double reported,
                           const State& userAfter, const Vector& qBeforeI, double tBefore, double tAfterExpected,
                           bool achievableNow, bool smallStart, const Vector& qTargetE, long throwsDuringCall) {
    const Sys& S = R.S; const Prob& P = R.P;
    const double tol = P.tolInUse(), acc = P.accInUse();
    const State& I = A.getInternalState();
    const std::string apiFull = api;
    const std::string apiK = api == "track" ? "track" : "assemble";   // key component (stable, few values)
    bool limits = false; for (auto& b : P.bounds) { int ix = S.q0(b.node) + b.qi; if (!P.fixedQ[ix] && !P.prescQ[ix]) limits = true; }
    Vector qI = freshQ(I.getQ()); double tI = I.getTime();
    auto W = [&](const EvalOut* e = nullptr) {
        Json j = Json::obj().set("api", apiFull).set("model", S.m.desc.shortStr()).set("userEuler", S.userEuler).set("cons", S.conTypes())
            .set("kinds", P.kinds()).set("restr", P.restr()).set("tol", tol).set("acc", acc).set("rms", P.rms).set("reportedGoal", reported).set("achievable", achievableNow).set("delta", P.delta);
        if (throwsDuringCall > 0) j.set("optimizerFailureSwallowed", std::string(g_lastThrow));
        if (e) j.set("errNorm", e->errNorm).set("goal", e->goal).set("gM", e->gM).set("gO", e->gO).set("gQ", e->gQ).set("gC", e->gC);
        return j;
    };
    c.setPhase("judge " + api);
    // ---- 0. finite
    if (!std::isfinite(reported) || !allFinite(qI) || !allFinite(userAfter.getQ())) { c.viol("asm:nonfinite:" + apiK, W()); return false; }
    // ---- 1. the Assembler works on the client's instance-level settings
    {
        bool lostEnable = false, lostLock = false; std::string which;
        for (auto& k : S.cons) if (k.c.isDisabled(I) != k.c.isDisabled(userAfter)) { lostEnable = true; which = k.type + (k.c.isDisabled(userAfter) ? ":disabled-in-client-state" : ":enabled-in-client-state"); }
        for (int n : P.dynLock) if (!S.m.bodies[n].isLocked(I)) lostLock = true;
        if (lostEnable || lostLock) {
            EvalOut e = evaluate(S, P, R.twin, qI, tI, &userAfter);
            double moved = 0; for (int n : P.dynLock) for (int i = 0; i < S.nq(n); ++i) moved = std::max(moved, std::fabs(qI[S.q0(n) + i] - R.q0E[S.q0(n) + i]));
            Json w = W(&e).set("which", which).set("clientErrNorm", e.errNorm).set("lockedCoordinateMoved", moved);
            if (lostEnable) c.viol(std::string("asm:client-settings:constraint-enable-flag-ignored:") + (S.userEuler ? "euler" : "quat"), w);
            if (lostLock) c.viol(std::string("asm:client-settings:mobilizer-lock-ignored:") + (S.userEuler ? "euler" : "quat"), w);
            return false;
        }
    }
    EvalOut e = evaluate(S, P, R.twin, qI, tI, &userAfter);
    if (!e.finite) { c.viol("asm:nonfinite-recomputed:" + apiK, W(&e)); return false; }
    c.obs("asm:optimizer:" + std::string(e.nErr > 0 ? "ipopt" : limits ? "lbfgsb" : "lbfgs"));
    if (throwsDuringCall > 0) c.obs(std::string("asm:swallowed:") + (P.numGrad ? "numeric-gradient:" : "analytic-gradient:") + normMsg(g_lastThrow));
    // ---- 2. client state <- internal state
    {
        State f = userAfter; f.updQ() = freshQ(userAfter.getQ()); S.m.sys.realize(f, Stage::Position);
        double dp = 0, dR = 0, sc = 1;
        for (int k = 0; k < S.nNodes(); ++k) { const Transform& X = S.m.bodies[k].getBodyTransform(f); dp = std::max(dp, (X.p() - e.X[k].p()).norm()); dR = std::max(dR, rotDiff(X.R(), e.X[k].R())); sc = std::max(sc, X.p().norm()); }
        c.check("asm-update:transform-mismatch:" + std::string(S.userEuler ? "euler" : "quat"), std::max(dp / sc, dR), 1e-12, [&] { return W(&e).set("dp", dp).set("dR", dR); });
        bool uSame = userAfter.getNU() == R.user0.getNU(); for (int i = 0; uSame && i < userAfter.getNU(); ++i) uSame = bitEq(userAfter.getU()[i], R.user0.getU()[i]);
        c.require("asm-update:u-changed:" + apiK, uSame, [&] { return W(&e); });
        c.check("asm-update:quaternion-norm", quatDefect(S, userAfter), 1e-13, [&] { return W(&e); });
    }
    // ---- 3. assembly errors within tolerance (documented norm), and the reported norm is the real one
    c.check("asm-errnorm:" + apiK + (P.rms ? ":rms" : ":inf"), e.errNorm, tol * (1 + 1e-9) + 1e-14, [&] { return W(&e).set("nErr", e.nErr); });
    {
        EvalOut ei = evaluate(S, P, R.twin, qI, tI, nullptr);
        double rep = A.calcCurrentErrorNorm();
        c.check("asm-errnorm-reported:" + apiK, std::fabs(rep - ei.errNorm), 1e-10 * (1 + ei.errNorm) , [&] { return W(&ei).set("calcCurrentErrorNorm", rep); });
    }
    // ---- 4. locked / prescribed coordinates
    {
        int bad = -1; for (int i = 0; i < qI.size(); ++i) if (P.fixedQ[i] && !P.prescQ[i] && !bitEq(qI[i], R.q0E[i])) { bad = i; break; }
        std::string kind = "lockQ";
        if (bad >= 0) {
            for (int k : P.lockMob) if (bad >= S.q0(k) && bad < S.q0(k) + S.nq(k)) kind = "lockMobilizer";
            for (int k : P.dynLock) if (bad >= S.q0(k) && bad < S.q0(k) + S.nq(k)) kind = std::string("client-locked-mobilizer:") + (S.userEuler ? "euler" : "quat");
        }
        if (!P.lockMob.empty() || !P.lockQ.empty() || !P.dynLock.empty()) {
            bool okLock = c.require("asm-lock:" + apiK + ":" + kind, bad < 0, [&] { return W(&e).set("qIndex", bad).set("before", bad >= 0 ? R.q0E[bad] : 0.0).set("after", bad >= 0 ? qI[bad] : 0.0); });
            if (!okLock) return false;      // everything downstream is a consequence
        }
        if (!S.mots.empty()) {
            double worst = 0, amp = 1;
            for (auto& mo : S.mots) for (int i = 0; i < S.nq(mo.node); ++i) { worst = std::max(worst, std::fabs(qI[S.q0(mo.node) + i] - prescribedValue(mo, tI))); amp = std::max(amp, mo.amp); }
            bool okP = c.check("asm-prescribed:" + apiK, worst, 8 * EPS * amp, [&] { return W(&e).set("time", tI).set("goalsPresent", P.kinds()); });
            okP = c.check("asm-prescribed:time:" + apiK, std::fabs(tI - tAfterExpected), 0.0, [&] { return W(&e).set("time", tI).set("expected", tAfterExpected); }) && okP;
            if (!okP) return false;
        }
        // in the client's own representation: a locked mobilizer has not moved
        State f = userAfter; f.updQ() = freshQ(userAfter.getQ()); S.m.sys.realize(f, Stage::Position);
        State g = R.user0; g.updQ() = freshQ(R.user0.getQ()); S.m.sys.realize(g, Stage::Position);
        double mv = 0;
        for (int k : P.lockMob) { if (S.nq(k) > 0 && P.prescQ[S.q0(k)]) continue;   // a Motion overrides the study's lock
            const Transform& a = S.m.bodies[k].getMobilizerTransform(f); const Transform& b = S.m.bodies[k].getMobilizerTransform(g); mv = std::max(mv, std::max((a.p() - b.p()).norm() / std::max(1.0, b.p().norm()), rotDiff(a.R(), b.R()))); }
        if (!P.lockMob.empty()) c.check("asm-lock:client-mobilizer-moved:" + std::string(S.userEuler ? "euler" : "quat"), mv, 1e-12, [&] { return W(&e); });
    }
    // ---- 5. bounds
    if (!P.bounds.empty()) {
        double w = 0; boundsOK(S, P, qI, &w);
        // attribute: a start outside its range that is handed back untouched (short circuit / revert) vs an optimizer result
        bool untouched = false;
        for (auto& b : P.bounds) { int ix = S.q0(b.node) + b.qi; if (!P.fixedQ[ix] && !P.prescQ[ix] && (qI[ix] < b.lo || qI[ix] > b.hi) && bitEq(qI[ix], qBeforeI[ix])) untouched = true; }
        bool okB = c.check("asm-bounds:" + apiK + (untouched ? ":start-outside-range-returned-unchanged" : e.nErr > 0 ? ":ipopt" : ":lbfgsb"), std::max(w, 0.0), 0.0, [&] {
            Json bj = Json::arr();
            for (auto& b : P.bounds) { int ix = S.q0(b.node) + b.qi; bj.push(Json::obj().set("qIndex", ix).set("lo", b.lo).set("hi", b.hi).set("q", qI[ix]).set("qBefore", qBeforeI[ix]).set("fixed", (int)P.fixedQ[ix]).set("presc", (int)P.prescQ[ix])); }
            return W(&e).set("excess", w).set("bounds", bj); });
        if (!okB && untouched) return false;     // later frames would only repeat it
    }
    // ---- 6. reported goal == goal of the returned configuration
    {
        double tg = 1e-9 * e.goal + 1e-12 * std::sqrt(e.goal * e.wsum) + 1e-24 * (1 + e.wsum);
        double cur = A.calcCurrentGoal();
        c.check("asm-goal-reported:vs-calcCurrentGoal:" + apiK, std::fabs(reported - cur), 1e-12 * (cur + reported) + 1e-300, [&] { return W(&e).set("calcCurrentGoal", cur); });
        bool groundCase = e.groundMarkerActive;
        if (groundCase) {
            double alt = e.goal - P.WM * e.gM + P.WM * e.gMnoGround;     // documented: markers on Ground are ignored
            bool matchesDoc = std::fabs(reported - alt) <= tg, matchesCode = std::fabs(reported - e.goal) <= tg;
            if (!matchesDoc && matchesCode && std::fabs(alt - e.goal) > 10 * tg) c.viol("asm-goal-recomputed:ground-marker-not-ignored", W(&e).set("goalWithoutGroundMarkers", alt));
            else c.check("asm-goal-recomputed:" + apiK, std::min(std::fabs(reported - alt), std::fabs(reported - e.goal)), tg, [&] { return W(&e); });
        } else c.check("asm-goal-recomputed:" + apiK, std::fabs(reported - e.goal), tg, [&] { return W(&e); });
        if (R.M) { double w = 0; for (size_t i = 0; i < P.mk.size(); ++i) w = std::max(w, std::fabs(R.M->findCurrentMarkerError(Markers::MarkerIx((int)i)) - e.mErr[i])); c.check("asm-goal-parts:marker-error", w, 1e-11, [&] { return W(&e); }); }
        if (R.O) { double w = 0; for (size_t i = 0; i < P.os.size(); ++i) w = std::max(w, std::fabs(R.O->findCurrentOSensorError(OrientationSensors::OSensorIx((int)i)) - e.oErr[i])); c.check("asm-goal-parts:osensor-error", w, 1e-7, [&] { return W(&e); }); }
    }
    // ---- 7. goal no worse than at the start (start = documented prescription applied to the given state)
    {
        State st = R.twin; st.setTime(tAfterExpected); st.updQ() = freshQ(qBeforeI);
        S.m.sys.realize(st, Stage::Time); S.m.sys.prescribeQ(st);
        Vector qs = freshQ(st.getQ());
        EvalOut e0 = evaluate(S, P, R.twin, qs, tAfterExpected, nullptr);
        bool feasible0 = e0.finite && e0.errNorm <= tol && boundsOK(S, P, qs);
        (void)tBefore;
        if (feasible0) {
            c.obs("asm:feasible-start:" + apiK);
            c.check("asm-goal-vs-start:" + apiK, e.goal - e0.goal, 1e-12 * (e0.goal + e.goal) + 1e-300, [&] { return W(&e).set("goalAtStart", e0.goal).set("errNormAtStart", e0.errNorm); });
        } else c.obs("asm:infeasible-start:" + apiK);
    }
    // ---- 8. exactly achievable targets
    if (achievableNow && smallStart && tol >= 1000 * acc) {
        const std::string opt = e.nErr > 0 ? "ipopt" : limits ? "lbfgsb" : "lbfgs";
        if (e.goal <= tol * tol) c.check("asm-achievable:" + apiK + ":" + opt, e.goal, tol * tol, [&] { return W(&e); });
        else if (throwsDuringCall > 0) {
            // success was reported although the optimizer gave up (the library keeps the iterate if the
            // assembly errors are within tolerance, without looking at the goal)
            double pg = projectedGradient(S, P, R.twin, qI, tI);
            c.viol("asm-achievable:optimizer-failure-swallowed:" + apiK, W(&e).set("swallowed", std::string(g_lastThrow)).set("tol2", tol * tol).set("optimizer", opt).set("projectedGradient", pg).set("numGrad", P.numGrad));
        } else {
            int nfree = 0; double xn = 0; for (int i = 0; i < qI.size(); ++i) if (P.usedQ[i] && !P.fixedQ[i] && !P.prescQ[i]) { ++nfree; xn += qI[i] * qI[i]; } xn = std::max(1.0, std::sqrt(xn));
            double pg = projectedGradient(S, P, R.twin, qI, tI);
            if (pg <= 1e3 * acc * xn + 1e-7) c.obs("asm:achievable-not-reached:other-stationary-point");   // global optimality is not claimed
            else if (e.nErr >= nfree)
                // as many (possibly redundant) error equations as free coordinates: the interior-point optimizer
                // treats the problem as a square system and never looks at the goal
                c.viol("asm-achievable:goal-ignored-square-system:" + apiK, W(&e).set("projectedGradient", pg).set("tol2", tol * tol).set("equations", e.nErr).set("freeQ", nfree));
            else if (opt == "lbfgsb")
                // bounds-only problems: L-BFGS-B's own relative-decrease stop (factr*epsmch on max(|f|,1)) legitimately
                // precedes the gradient test for goals << 1, so the a-priori model does not apply; counted only
                c.obs("asm:achievable-not-reached:lbfgsb-small-decrease-stop");
            else c.viol("asm-achievable:nonstationary-return:" + apiK + ":" + opt, W(&e).set("projectedGradient", pg).set("tol2", tol * tol).set("equations", e.nErr).set("freeQ", nfree));
        }
        (void)qTargetE;
    }
    return true;
}

static std::string asmCoverKey(const AsmRun& R, const std::string& api, const std::string& outcome) {
    return "asm/" + api + "/" + R.P.kinds() + "/" + (R.S.hasCons() ? "cons" : "tree") + "/" + R.P.restr() + (R.S.mots.empty() ? "" : "+motion") + "/" + (R.S.userEuler ? "euler" : "quat") + "/" + outcome;
}

static void caseAssembler(Ctx& c, long idx, Rng& r, bool unlistedTail) {
    AsmRun R; Sys& S = R.S; Prob& P = R.P;
    c.setPhase("asm build");
    // forced cell (every 12th case): a Motion exists and the client's state is off the prescription
    const bool prescCell = (idx % 12) == 4;
    SysOpts o; o.maxBodies = 5; o.maxCons = 2; o.pCons = prescCell ? 0.25 : 0.55; o.motions = true; o.flags = true; o.forceMotion = prescCell;
    if (!buildSys(c, r, idx, S, o, nullptr)) return;
    genProblem(r, S, P, idx, unlistedTail, (prescCell && r.coin(0.5)) ? 9 : -1);
    if (P.noFree) { c.skip("asm:no-free-coordinates"); return; }
    const int nqE = S.sRef.getNQ(); const Vector& qRef = S.sRef.getQ();
    // ---- start configuration (Euler)
    bool offPrescription = !S.mots.empty() && (r.coin(0.3) || prescCell);
    R.qStartE = freshQ(qRef);
    for (int i = 0; i < nqE; ++i) {
        if (!P.usedQ[i] || P.inertQ[i]) continue;
        if (P.prescQ[i]) { if (offPrescription) R.qStartE[i] += r.sym(0.5); continue; }
        if (P.fixedQ[i] && P.achievable) continue;
        R.qStartE[i] += r.sym(P.delta);
    }
    // ---- bounds now that start and target are known
    for (auto& b : P.bounds) {
        int ix = S.q0(b.node) + b.qi; double a = std::min(qRef[ix], R.qStartE[ix]), z = std::max(qRef[ix], R.qStartE[ix]);
        int kind = r.integer(0, 5); if (kind == 5) kind = 3;   // active ranges twice as likely as each other kind
        if (kind == 0) { b.lo = a - r.uni(0.01, 1); b.hi = z + r.uni(0.01, 1); }
        else if (kind == 1) { b.lo = a - r.uni(0.01, 1); b.hi = Infinity; }
        else if (kind == 2) { b.lo = -Infinity; b.hi = z + r.uni(0.01, 1); }
        else if (kind == 3 && !P.fixedQ[ix] && !P.prescQ[ix]) {   // active bound: excludes q*, contains the start
            double gap = r.uni(0.05, 0.3);
            if (R.qStartE[ix] >= qRef[ix]) { R.qStartE[ix] = qRef[ix] + gap + r.uni(0.01, 0.3); b.lo = qRef[ix] + gap; b.hi = Infinity; }
            else { R.qStartE[ix] = qRef[ix] - gap - r.uni(0.01, 0.3); b.hi = qRef[ix] - gap; b.lo = -Infinity; }
            P.achievable = false;
        } else { b.lo = qRef[ix] - r.uni(0.01, 0.2); b.hi = qRef[ix] + r.uni(0.01, 0.2); }   // contains q*, maybe not the start
    }
    // a q may be bounded twice: the later restrictQ call wins (std::map assignment); keep only the last
    for (size_t i = 0; i < P.bounds.size(); ++i) for (size_t j = i + 1; j < P.bounds.size(); ++j)
        if (P.bounds[i].node == P.bounds[j].node && P.bounds[i].qi == P.bounds[j].qi) { P.bounds.erase(P.bounds.begin() + i); --i; break; }
    if (!S.cons.empty()) for (auto& k : S.cons) if (!k.satisfiedAtRef && k.userFlag >= 0) P.achievable = false;

    c.setPhase("asm states");
    R.user0 = makeUserState(S, R.qStartE, P.dynLock);
    R.twin = makeTwin(S, R.user0, P.dynLock);
    R.q0E = freshQ(R.twin.getQ());
    if (!S.userEuler) {
        double d = 0; for (int i = 0; i < nqE; ++i) d = std::max(d, std::fabs(R.q0E[i] - R.qStartE[i]));
        if (d > 1e-9) { c.skip("asm:euler-branch-changed-by-perturbation"); return; }
    }
    // target in Euler coordinates (NaN where the target does not pin the coordinate down is not known: use q*)
    Vector qTarget = freshQ(qRef);

    c.setPhase("asm setup");
    CoutSilencer quiet;
    Assembler A(S.m.sys);
    if (P.acc > 0) A.setAccuracy(P.acc);
    if (P.tol > 0) A.setErrorTolerance(P.tol);
    if (P.rms) A.setUseRMSErrorNorm(true);
    if (P.numGrad) A.setForceNumericalGradient(true);
    if (P.numJac) A.setForceNumericalJacobian(true);
    if (std::isfinite(P.sysW)) A.setSystemConstraintsWeight(P.sysW);
    if (P.hasM) {
        R.M = new Markers();
        for (auto& m : P.mk) R.M->addMarker(S.mbx(m.node), m.st, m.w);
        Array_<Markers::MarkerIx> ord;
        if (P.customOrder) for (int mi : P.obs2mk) ord.push_back(mi < 0 ? Markers::MarkerIx() : Markers::MarkerIx(mi));
        R.M->defineObservationOrder(ord);
        Array_<Vec3> ob; for (auto& v : P.obs) ob.push_back(v);
        R.M->moveAllObservations(ob);
        A.adoptAssemblyGoal(R.M, P.WM);
    }
    if (P.hasO) {
        R.O = new OrientationSensors();
        for (auto& s : P.os) R.O->addOSensor(S.mbx(s.node), s.R_BS, s.w);
        R.O->defineObservationOrder(Array_<OrientationSensors::OSensorIx>());
        Array_<Rotation> ob; for (auto& v : P.oobs) ob.push_back(v);
        R.O->moveAllObservations(ob);
        A.adoptAssemblyGoal(R.O, P.WO);
    }
    for (auto& v : P.qv) {
        QValue* q = new QValue(S.mbx(v.node), MobilizerQIndex(v.qi), v.val); R.Q.push_back(q);
        if (std::isinf(v.w)) A.adoptAssemblyError(q); else A.adoptAssemblyGoal(q, v.w);
    }
    for (int k : P.lockMob) A.lockMobilizer(S.mbx(k));
    for (auto& lq : P.lockQ) A.lockQ(S.mbx(lq.first), MobilizerQIndex(lq.second));
    for (auto& b : P.bounds) A.restrictQ(S.mbx(b.node), MobilizerQIndex(b.qi), b.lo, b.hi);

    for (auto& k : S.cons) c.cover("asm-con:" + k.type + (k.userFlag > 0 ? "/enabled-in-state" : k.userFlag < 0 ? "/disabled-in-state" : ""));
    for (int k = 0; k < S.nNodes(); ++k) c.cover("asm-mob:" + std::string(mobName(S.type(k))) + "/" + (mobHasQuat(S.type(k)) ? (S.userEuler ? "euler" : "quat") : "-"));

    // ---- assemble
    bool viaState = r.coin(0.5);
    std::string api = viaState ? "assemble(State)" : "initialize+assemble";
    State user = R.user0; double reported = NaN; bool ok = false;
    c.setPhase("asm " + api);
    long throws0 = g_throws;
    try {
        if (viaState) reported = A.assemble(user);
        else {
            A.initialize(user);
            // what the study starts from must be the client's configuration
            const Vector& qi = A.getInternalState().getQ(); bool same = qi.size() == R.q0E.size();
            for (int i = 0; same && i < qi.size(); ++i) same = bitEq(qi[i], R.q0E[i]);
            c.require("asm-setstate:internal-q-differs-from-client", same, [&] { return Json::obj().set("model", S.m.desc.shortStr()).set("userEuler", S.userEuler); });
            reported = A.assemble();
            A.updateFromInternalState(user);
        }
        ok = true;
    } catch (const std::exception& ex) {
        std::string w = ex.what();
        if (w.find("Assembler::assemble() failed") != std::string::npos) { c.obs("asm:assemble-failed"); c.cover(asmCoverKey(R, "assemble", "failed")); }
        else throw;
    }
    if (!ok) { c.skip("assemble-failed-to-converge"); return; }
    c.obs("asm:assemble-ok"); c.cover(asmCoverKey(R, "assemble", "ok"));
    if (g_throws > throws0) c.obs("asm:optimizer-failure-swallowed:assemble");
    bool consistent = judgeAssembler(c, R, A, api, reported, user, R.q0E, S.t0, S.t0, P.achievable, P.delta <= 0.3, qTarget, g_throws - throws0);
    if (c.wantSample()) c.sample(Json::obj().set("tool", "Assembler").set("model", S.m.desc.shortStr()).set("userEuler", S.userEuler).set("cons", S.conTypes()).set("kinds", P.kinds()).set("restr", P.restr()).set("goal", reported).set("tol", P.tolInUse()).set("acc", P.accInUse()));

    // ---- tracking frames
    int frames = consistent ? r.integer(0, 2) : 0;
    for (int fr = 1; fr <= frames; ++fr) {
        c.setPhase("asm track setup");
        Vector qBefore = freshQ(A.getInternalState().getQ()); double tBefore = A.getInternalState().getTime();
        bool giveTime = !S.mots.empty() ? r.coin(0.8) : r.coin(0.3);
        double tNew = giveTime ? tBefore + r.uni(0.01, 0.08) : -1.0;
        double tExp = giveTime ? tNew : tBefore;
        bool ach = P.achievable && !S.hasCons();
        // new target: q* moved a little along the free coordinates (reachable when there are no constraints)
        Vector qT = freshQ(qTarget);
        for (int i = 0; i < nqE; ++i) {
            if (P.prescQ[i] || !P.usedQ[i] || P.inertQ[i]) continue;
            if (P.fixedQ[i]) { qT[i] = R.q0E[i]; continue; }
            qT[i] += r.sym(0.03);
        }
        for (auto& mo : S.mots) for (int i = 0; i < S.nq(mo.node); ++i) qT[S.q0(mo.node) + i] = prescribedValue(mo, tExp);
        for (auto& b : P.bounds) { int ix = S.q0(b.node) + b.qi; if (!P.fixedQ[ix] && !P.prescQ[ix] && (qT[ix] < b.lo || qT[ix] > b.hi)) ach = false; }
        // locked coordinates may sit away from q* when the first frame was not achievable
        EvalOut eT = evaluate(S, P, R.twin, qT, tExp, nullptr);
        double noise = ach ? 0.0 : 0.01;
        if (P.hasM) for (size_t ox = 0; ox < P.obs2mk.size(); ++ox) {
            int mi = P.obs2mk[ox]; if (mi < 0) continue;
            Vec3 v = (P.mk[mi].node < 0 ? Transform() : eT.X[P.mk[mi].node]) * P.mk[mi].st + noise * Vec3(r.normal(), r.normal(), r.normal());
            if (mi != 0 && r.coin(0.05)) v = Vec3(NaN);
            P.obs[ox] = v;
            if (r.coin(0.5)) R.M->moveOneObservation(Markers::ObservationIx((int)ox), v);
        }
        if (P.hasM) { Array_<Vec3> ob; for (auto& v : P.obs) ob.push_back(v); R.M->moveAllObservations(ob);
            // quantitative weight change between frames (documented as allowed without reinitialisation)
            if (r.coin(0.3)) { int mi = r.integer(0, (int)P.mk.size() - 1); if (P.mk[mi].w > 0) { P.mk[mi].w *= r.uni(0.5, 2.0); R.M->changeMarkerWeight(Markers::MarkerIx(mi), P.mk[mi].w); } } }
        if (P.hasO) for (size_t i = 0; i < P.os.size(); ++i) {
            Rotation RO = eT.X[P.os[i].node].R() * P.os[i].R_BS; if (noise > 0) RO = RO * smallRot(r, noise);
            P.oobs[i] = RO; R.O->moveOneObservation(OrientationSensors::ObservationIx((int)i), RO);
        }
        for (size_t j = 0; j < P.qv.size(); ++j) {
            int ix = S.q0(P.qv[j].node) + P.qv[j].qi;
            if (std::isinf(P.qv[j].w) && S.hasCons()) continue;     // keep hard requirements consistent with the constraints
            P.qv[j].val = qT[ix]; R.Q[j]->setValue(qT[ix]);
        }
        bool wasInit = A.isInitialized();
        c.setPhase("asm track");
        ok = false; reported = NaN; throws0 = g_throws;
        try { reported = giveTime ? A.track(tNew) : A.track(); A.updateFromInternalState(user); ok = true; }
        catch (const std::exception& ex) {
            std::string w = ex.what();
            if (w.find("Assembler::track() failed") != std::string::npos) { c.obs("asm:track-failed"); c.cover(asmCoverKey(R, "track", "failed")); }
            else throw;
        }
        if (!ok) break;
        c.obs("asm:track-ok"); c.cover(asmCoverKey(R, "track", "ok"));
        c.require("asm-track:reinitialized-by-frame-update", wasInit && A.getNumInitializations() == 1, [&] { return Json::obj().set("inits", A.getNumInitializations()); });
        if (g_throws > throws0) c.obs("asm:optimizer-failure-swallowed:track");
        if (!judgeAssembler(c, R, A, "track", reported, user, qBefore, tBefore, tExp, ach, true, qT, g_throws - throws0)) break;
        qTarget = qT;
    }
}

// ================================================================== ObservedPointFitter
static double fitObjective(const Sys& S, const State& st, const std::vector<int>& nodes, const std::vector<std::vector<Vec3>>& stn,
                           const std::vector<std::vector<Vec3>>& tgt, const std::vector<std::vector<double>>& wts) {
    State f = st; f.updQ() = freshQ(st.getQ()); S.m.sys.realize(f, Stage::Position);
    double num = 0, wt = 0;
    for (size_t i = 0; i < nodes.size(); ++i) for (size_t j = 0; j < stn[i].size(); ++j) {
        num += wts[i][j] * (tgt[i][j] - S.body(nodes[i]).getBodyTransform(f) * stn[i][j]).normSqr(); wt += wts[i][j];
    }
    return wt > 0 ? num / wt : num;
}

static void caseFitter(Ctx& c, long idx, Rng& r) {
    Sys S; c.setPhase("fit build");
    SysOpts o; o.minBodies = 1; o.maxBodies = 4; o.maxCons = 1; o.pCons = 0.35; o.heavyCons = false; o.flags = true;
    if (!buildSys(c, r, idx, S, o, nullptr)) return;
    const int nb = S.nNodes(); const Vector& qRef = S.sRef.getQ();
    bool achievable = r.coin(0.5), weighted = r.coin(0.65);
    double noise = achievable ? 0.0 : r.pick(std::vector<double>{0.03, 0.15});
    double delta = r.pick(std::vector<double>{0.0, 0.05, 0.2});
    if (achievable && delta == 0.0) delta = 0.05;
    double tolerance = r.pick(std::vector<double>{1e-3, 1e-3, 1e-4, 1e-6});
    std::vector<int> nodes; std::vector<std::vector<Vec3>> stn, tgt; std::vector<std::vector<double>> wts;
    int total = 0;
    for (int k = 0; k < nb; ++k) {
        if (nb > 1 && r.coin(0.2)) continue;
        int n = r.integer(k == nb - 1 && total == 0 ? 1 : 0, 4);
        nodes.push_back(k); stn.emplace_back(); tgt.emplace_back(); wts.emplace_back();
        for (int j = 0; j < n; ++j) {
            Vec3 p = randVec3(r, 1.0);
            stn.back().push_back(p); tgt.back().push_back(S.Xref[k] * p + noise * Vec3(r.normal(), r.normal(), r.normal()));
            wts.back().push_back(weighted ? (r.coin(0.08) ? 0.0 : r.logUni(0.1, 10.0)) : 1.0); ++total;
        }
    }
    double wsum = 0; for (auto& w : wts) for (double x : w) wsum += x;
    if (total == 0 || !(wsum > 0)) { c.skip("fit:no-stations"); return; }
    Vector qStart = freshQ(qRef); for (int i = 0; i < qStart.size(); ++i) qStart[i] += r.sym(delta);
    State user0 = makeUserState(S, qStart, {});
    State user = user0;
    double f0 = fitObjective(S, user0, nodes, stn, tgt, wts);
    std::vector<double> he0 = holoErrs(S, user0); bool feasible0 = normOf(he0, false) <= 1e-4;

    Array_<MobilizedBodyIndex> bix; Array_<Array_<Vec3>> st, tg; Array_<Array_<Real>> ws;
    for (size_t i = 0; i < nodes.size(); ++i) {
        bix.push_back(S.mbx(nodes[i])); st.push_back(Array_<Vec3>()); tg.push_back(Array_<Vec3>()); ws.push_back(Array_<Real>());
        for (size_t j = 0; j < stn[i].size(); ++j) { st.back().push_back(stn[i][j]); tg.back().push_back(tgt[i][j]); ws.back().push_back(wts[i][j]); }
    }
    std::string mode = S.userEuler ? "euler" : "quat", api = weighted ? "weighted" : "unweighted";
    auto key = [&](const std::string& outcome) { return "fit/" + api + "/" + (S.hasCons() ? "cons:" + S.conTypes() : "tree") + "/" + mode + "/" + (achievable ? "achievable" : "noisy") + "/" + outcome; };
    for (int k = 0; k < nb; ++k) c.cover("fit-mob:" + std::string(mobName(S.type(k))) + "/" + (mobHasQuat(S.type(k)) ? mode : "-"));
    double rep = NaN; bool ok = false;
    c.setPhase("fit findBestFit");
    {
        CoutSilencer quiet;
        try { rep = weighted ? ObservedPointFitter::findBestFit(S.m.sys, user, bix, st, tg, ws, tolerance) : ObservedPointFitter::findBestFit(S.m.sys, user, bix, st, tg, tolerance); ok = true; }
        catch (const Exception::OptimizerFailed& ex) { c.obs("fit:optimizer-failed"); c.obs("fit:fail:" + normMsg(ex.getMessageText())); c.cover(key("failed")); }
        catch (const std::exception& ex) {
            std::string w = ex.what();
            if (w.find("Optimizer failed") != std::string::npos || w.find("Ipopt") != std::string::npos || w.find("LBFGS") != std::string::npos) { c.obs("fit:optimizer-failed"); c.cover(key("failed")); }
            else throw;
        }
    }
    if (!ok) { c.skip("fit-failed-to-converge"); return; }
    c.obs("fit:ok"); c.cover(key("ok"));
    c.setPhase("fit judge");
    double f1 = NaN; std::vector<double> he1;
    auto W = [&] { return Json::obj().set("model", S.m.desc.shortStr()).set("userEuler", S.userEuler).set("cons", S.conTypes()).set("weighted", weighted).set("achievable", achievable)
                       .set("tolerance", tolerance).set("reportedRMS", rep).set("recomputedMeanSq", f1).set("initialMeanSq", f0).set("delta", delta); };
    if (!std::isfinite(rep) || !allFinite(user.getQ())) { c.viol("fit:nonfinite:" + mode, W()); return; }
    for (auto& k : S.cons) if (k.c.isDisabled(user) != k.c.isDisabled(user0)) { c.viol("fit:client-settings:constraint-enable-flag-changed:" + mode, W()); return; }
    f1 = fitObjective(S, user, nodes, stn, tgt, wts); he1 = holoErrs(S, user);
    // reported RMS is sqrt((f+1)-1): absolute rounding eps*(1+f) in f
    c.check("fit-reported-rms:" + api, std::fabs(rep * rep - f1), 64 * EPS * (1 + f1) + 1e-9 * f1, W);
    if (feasible0) c.check("fit-vs-start:" + std::string(S.hasCons() ? "constrained" : "tree"), f1 - f0, 1e-9 * (f0 + f1) + 64 * EPS, W);
    else c.obs("fit:infeasible-start");
    if (S.hasCons()) c.check("fit-constraints:" + S.conTypes(), normOf(he1, false), 1e-4 * (1 + 1e-9), [&] { return W().set("qerr", normOf(he1, false)); });
    bool uSame = user.getNU() == user0.getNU(); for (int i = 0; uSame && i < user.getNU(); ++i) uSame = bitEq(user.getU()[i], user0.getU()[i]);
    c.require("fit-state:u-changed:" + mode, uSame && user.getTime() == user0.getTime(), W);
    c.check("fit-state:quaternion-norm", quatDefect(S, user), 1e-13, W);
    if (achievable) c.obs(std::sqrt(f1) <= tolerance ? "fit:achievable-within-tolerance" : std::sqrt(f1) <= 30 * tolerance ? "fit:achievable-within-30tol" : "fit:achievable-not-reached");
    if (c.wantSample()) c.sample(W().set("tool", "ObservedPointFitter"));
}

// ================================================================== LocalEnergyMinimizer
static double forceScale(const Sys& S, const State& st) {
    State f = st; S.m.sys.realize(f, Stage::Dynamics);
    const Vector_<SpatialVec>& F = S.m.sys.getRigidBodyForces(f, Stage::Dynamics); const Vector& mf = S.m.sys.getMobilityForces(f, Stage::Dynamics);
    double s = 0; for (int i = 0; i < F.size(); ++i) s += F[i][0].norm() + F[i][1].norm(); for (int i = 0; i < mf.size(); ++i) s += std::fabs(mf[i]);
    return s;
}
// debugging aid (--verbose only): a copy of the library's objective wrapper, run with IPOPT diagnostics
class DbgLEM : public OptimizerSystem {
public:
    DbgLEM(const MultibodySystem& system, const State& stateIn) : OptimizerSystem(stateIn.getNQ()), system(system), state(stateIn) {
        state.updU() = 0; system.realize(state, Stage::Time); setNumEqualityConstraints(state.getNQErr()); }
    int objectiveFunc(const Vector& p, bool np, Real& f) const override { if (np) state.updQ() = p; system.realize(state, Stage::Dynamics); f = system.calcPotentialEnergy(state); return 0; }
    int gradientFunc(const Vector& p, bool np, Vector& g) const override {
        if (np) state.updQ() = p; system.realize(state, Stage::Dynamics);
        Vector_<SpatialVec> dEdR = system.getRigidBodyForces(state, Stage::Dynamics); const SimbodyMatterSubsystem& matter = system.getMatterSubsystem();
        Vector dEdU; matter.multiplyBySystemJacobianTranspose(state, dEdR, dEdU); dEdU -= system.getMobilityForces(state, Stage::Dynamics);
        matter.multiplyByNInv(state, true, -1 * dEdU, g);
        double d = 0; for (int i = 0; i < p.size(); ++i) d = std::max(d, std::fabs(p[i] - state.getQ()[i]));
        fprintf(stderr, "   grad eval new=%d |p - stateQ|=%.3e p= %.12g %.12g %.12g g= %.10g %.10g %.10g\n", (int)np, d, p[0], p.size() > 1 ? p[1] : 0.0, p.size() > 2 ? p[2] : 0.0, g[0], g.size() > 1 ? g[1] : 0.0, g.size() > 2 ? g[2] : 0.0);
        return 0; }
    int constraintFunc(const Vector& p, bool, Vector& cons) const override { state.updQ() = p; system.realize(state, Stage::Position); cons = state.getQErr(); return 0; }
    const MultibodySystem& system; mutable State state;
};

static void caseLEM(Ctx& c, long idx, Rng& r) {
    Sys S; c.setPhase("lem build");
    SysOpts o; o.minBodies = 1; o.maxBodies = 3; o.maxCons = 1; o.pCons = 0.3; o.heavyCons = false; o.flags = true;
    std::string fkinds;
    auto addForces = [&](Sys& s, Rng& rr) {
        if (rr.coin(0.8)) { Force::UniformGravity(s.m.forces, s.m.matter, randVec3(rr, 6.0), rr.sym(1.0)); fkinds += "g"; }
        for (int k = 0; k < s.nNodes(); ++k) {
            // every body is tied to Ground: the potential is bounded below
            Force::TwoPointLinearSpring(s.m.forces, s.m.matter.Ground(), randVec3(rr, 1.0), s.m.bodies[k], randVec3(rr, 0.5), rr.uni(5, 50), rr.uni(0, 1.0));
            if (k > 0 && rr.coin(0.3)) Force::TwoPointLinearSpring(s.m.forces, s.m.bodies[rr.integer(0, k - 1)], randVec3(rr, 0.5), s.m.bodies[k], randVec3(rr, 0.5), rr.uni(5, 50), rr.uni(0, 1.0));
            if (isNI(s.m.desc.nodes[k].type) && rr.coin(0.5)) { Force::MobilityLinearSpring(s.m.forces, s.m.bodies[k], MobilizerQIndex(0), rr.uni(1, 30), rr.sym(1.0)); if (fkinds.find('m') == std::string::npos) fkinds += "m"; }
        }
        fkinds += "s";
    };
    if (!buildSys(c, r, idx, S, o, addForces)) return;
    double tolerance = r.pick(std::vector<double>{1e-2, 1e-3, 1e-4, 1e-5});
    State user0 = makeUserState(S, freshQ(S.sRef.getQ()), {});
    State user = user0;
    auto pe = [&](const State& st) { State f = st; f.updQ() = freshQ(st.getQ()); S.m.sys.realize(f, Stage::Dynamics); return (double)S.m.sys.calcPotentialEnergy(f); };
    double pe0 = pe(user0), fs0 = forceScale(S, user0);
    std::string mode = S.userEuler ? "euler" : "quat";
    auto key = [&](const std::string& outcome) { return "lem/" + fkinds + "/" + (S.hasCons() ? "cons:" + S.conTypes() : "tree") + "/" + mode + "/" + outcome; };
    for (int k = 0; k < S.nNodes(); ++k) c.cover("lem-mob:" + std::string(mobName(S.type(k))) + "/" + (mobHasQuat(S.type(k)) ? mode : "-"));
    if (g_verbose) {
        State tw0 = makeTwin(S, user0, {});
        DbgLEM d(S.m.sys, tw0); Optimizer opt(d); opt.useNumericalJacobian(true); opt.setConvergenceTolerance(tolerance); opt.setDiagnosticsLevel(5);
        Vector q = freshQ(tw0.getQ());
        try { opt.optimize(q); fprintf(stderr, "  dbg LEM ok\n"); } catch (const std::exception& e) { fprintf(stderr, "  dbg LEM failed %s\n", e.what()); }
        fprintf(stderr, "  dbg final q:"); for (int i = 0; i < q.size(); ++i) fprintf(stderr, " %.12g", q[i]); fprintf(stderr, "\n");
        Vector g(q.size()); d.gradientFunc(q, true, g); Vector c0(d.getNumEqualityConstraints()); d.constraintFunc(q, true, c0);
        fprintf(stderr, "  dbg grad:"); for (int i = 0; i < g.size(); ++i) fprintf(stderr, " %.10g", g[i]); fprintf(stderr, "\n");
        for (int i = 0; i < q.size(); ++i) { Vector qp = freshQ(q); qp[i] += 1e-7; Vector c1(c0.size()); d.constraintFunc(qp, true, c1); fprintf(stderr, "  dbg dc/dq%d:", i); for (int k = 0; k < c0.size(); ++k) fprintf(stderr, " %.10g", (c1[k] - c0[k]) / 1e-7); fprintf(stderr, "\n"); }
    }
    bool ok = false;
    c.setPhase("lem minimizeEnergy");
    {
        CoutSilencer quiet;
        try { LocalEnergyMinimizer::minimizeEnergy(S.m.sys, user, tolerance); ok = true; }
        catch (const Exception::OptimizerFailed& ex) { c.obs("lem:optimizer-failed"); c.obs("lem:fail:" + normMsg(ex.getMessageText())); c.cover(key("failed")); }
        catch (const std::exception& ex) {
            std::string w = ex.what();
            if (w.find("Optimizer failed") != std::string::npos || w.find("Ipopt") != std::string::npos || w.find("LBFGS") != std::string::npos) { c.obs("lem:optimizer-failed"); c.cover(key("failed")); }
            else throw;
        }
    }
    if (!ok) { c.skip("lem-failed-to-converge"); return; }
    c.obs("lem:ok"); c.cover(key("ok"));
    c.setPhase("lem judge");
    double pe1 = NaN, fs1 = NaN, qe = NaN;
    const double qe0 = normOf(holoErrs(S, user0), false);
    auto W = [&] { return Json::obj().set("qerrBefore", qe0).set("model", S.m.desc.shortStr()).set("userEuler", S.userEuler).set("cons", S.conTypes()).set("forces", fkinds).set("tolerance", tolerance)
                       .set("peBefore", pe0).set("peAfter", pe1).set("forceScale", fs0).set("qerrAfter", qe); };
    if (!allFinite(user.getQ())) { c.viol("lem:nonfinite:" + mode, W()); return; }
    // the client's instance-level settings survive
    for (auto& k : S.cons) if (k.c.isDisabled(user) != k.c.isDisabled(user0)) { c.viol("lem:client-settings:constraint-enable-flag-changed:" + mode, W()); return; }
    pe1 = pe(user); fs1 = forceScale(S, user);
    std::vector<double> he = holoErrs(S, user); qe = normOf(he, false);
    const double ctol = 1e-4;                      // Optimizer's default constraint tolerance (not settable through this API)
    double scale = std::fabs(pe0) + std::fabs(pe1) + fs0 + fs1;
    // constrained: the returned point may sit up to ctol off the manifold: PE may differ by |multipliers|*ctol
    double slack = 1e-9 * scale + (S.hasCons() ? 10 * ctol * (fs0 + fs1) : 0.0);
    c.check(std::string("lem-energy:") + (S.hasCons() ? "constrained" : "tree") + ":" + mode, pe1 - pe0, slack, W);
    if (S.hasCons()) c.check("lem-constraints:" + S.conTypes(), qe, ctol * (1 + 1e-9), W);
    bool uSame = user.getNU() == user0.getNU(); for (int i = 0; uSame && i < user.getNU(); ++i) uSame = bitEq(user.getU()[i], user0.getU()[i]);
    c.require("lem-state:u-changed:" + mode, uSame && user.getTime() == user0.getTime(), W);
    c.check("lem-state:quaternion-norm", quatDefect(S, user), 1e-13, W);
    // documented: "the search ends when no component of the energy gradient is larger than [tolerance]" and the
    // returned state is a local minimum: first-order test in the Euler coordinates the minimizer works in
    {
        State tw = makeTwin(S, user, {});
        std::vector<int> F; for (int i = 0; i < tw.getNQ(); ++i) F.push_back(i);
        std::vector<double> lo(F.size(), -Infinity), hi(F.size(), Infinity);
        Vector qE = freshQ(tw.getQ()); double xn = 0;
        if (g_verbose) { fprintf(stderr, "  returned q:"); for (int i = 0; i < qE.size(); ++i) fprintf(stderr, " %.12g", qE[i]); fprintf(stderr, "\n"); } for (int i = 0; i < qE.size(); ++i) xn += qE[i] * qE[i]; xn = std::max(1.0, std::sqrt(xn));
        std::vector<double> gv;
        // Feasible directions. The three Euler angles of a LineOrientation/FreeLine mobilizer can only move inside
        // range(N) (two mobilities): the energy "gradient" the minimizer and the physics see is the generalized
        // force, which has no component outside it (DESIGN section 8 no. 8). Coordinates w: the identity on every
        // other q, an orthonormal basis of range(N) on those three; |grad_w| = |P_range(N) grad_q|.
        const int nqT = qE.size();
        std::vector<std::vector<std::pair<int, double>>> B; std::vector<double> xs;
        {
            State twR = tw; twR.updQ() = freshQ(qE); S.m.sys.realize(twR, Stage::Position);
            std::vector<char> inLine(nqT, 0);
            for (int kk = 0; kk < S.nNodes(); ++kk) {
                if (S.type(kk) != MT_LineOrientation && S.type(kk) != MT_FreeLine) continue;
                const int a0 = S.q0(kk), u0 = (int)S.m.bodies[kk].getFirstUIndex(twR);
                double col[2][3], xsc = 1;
                for (int j = 0; j < 2; ++j) {
                    Vector uu(twR.getNU()); uu.setToZero(); uu[u0 + j] = 1; Vector dq;
                    S.m.matter.multiplyByN(twR, false, uu, dq);
                    for (int i = 0; i < 3; ++i) col[j][i] = dq[a0 + i];
                }
                for (int i = 0; i < 3; ++i) { inLine[a0 + i] = 1; xsc = std::max(xsc, std::fabs((double)qE[a0 + i])); }
                auto nrm = [](double* v) { double n = std::sqrt(v[0] * v[0] + v[1] * v[1] + v[2] * v[2]); if (n > 0) for (int i = 0; i < 3; ++i) v[i] /= n; return n; };
                nrm(col[0]); double dt = col[0][0] * col[1][0] + col[0][1] * col[1][1] + col[0][2] * col[1][2];
                for (int i = 0; i < 3; ++i) col[1][i] -= dt * col[0][i];
                nrm(col[1]);
                for (int j = 0; j < 2; ++j) { B.push_back({{a0, col[j][0]}, {a0 + 1, col[j][1]}, {a0 + 2, col[j][2]}}); xs.push_back(xsc); }
            }
            for (int i = 0; i < nqT; ++i) if (!inLine[i]) { B.push_back({{i, 1.0}}); xs.push_back(std::max(1.0, std::fabs((double)qE[i]))); }
        }
        const int nw = (int)B.size();
        std::vector<int> Fw; for (int i = 0; i < nw; ++i) Fw.push_back(i);
        std::vector<double> low(nw, -Infinity), hiw(nw, Infinity);
        Vector w0(nw); w0.setToZero();
        double pg = projectedGradientGeneric([&](const Vector& w) {
            Vector x = freshQ(qE); for (int cI = 0; cI < nw; ++cI) if (w[cI] != 0) for (auto& e : B[cI]) x[e.first] += w[cI] * e.second;
            State f = tw; f.updQ() = x; S.m.sys.realize(f, Stage::Dynamics);
            FnOut o; o.f = S.m.sys.calcPotentialEnergy(f); o.errs = holoErrs(S, f); return o; }, w0, Fw, low, hiw, &gv);
        const std::string fk = fkinds.find('m') != std::string::npos ? "with-mobility-forces" : "body-forces";
        if (!S.hasCons()) {
            // unconstrained -> LBFGS, whose (SimTK) stopping rule is max_i |g_i|*max(1,|x_i|) <= tol*max(0.1,|f|)
            double rs = 0; for (size_t i = 0; i < gv.size(); ++i) rs = std::max(rs, std::fabs(gv[i]) * xs[i]);
            rs /= std::max(0.1, std::fabs(pe1));
            c.check("lem-stationary:tree:" + fk, rs, 2 * tolerance + 1e-6, [&] { return W().set("scaledGradient", rs).set("gradientInf", pg); });
        } else
            // constrained -> IPOPT with tol = dual_inf_tol = tolerance (absolute, unscaled)
            // The returned point is IPOPT's solution moved onto the constraint manifold (the optimizer only
            // guarantees |c| <= ctol): a displacement of up to ctol changes the gradient by |Hessian| * ctol, with
            // |Hessian| of the order of the force scale per unit length (DESIGN section 8 no. 12).
            c.check("lem-stationary:constrained:" + fk, pg, 10 * tolerance + 1e-7 * (1 + fs1) + ctol * (1 + fs1), [&] { return W().set("projectedGradient", pg); });
        (void)xn;
    }
    if (c.wantSample()) c.sample(W().set("tool", "LocalEnergyMinimizer"));
}

int main(int argc, char** argv) {
    Args a = parseArgs(argc, argv);
    Ctx c(a);
    g_verbose = a.verbose; g_forceNumGrad = (int)a.getInt("numgrad", -1); g_forceNumJac = (int)a.getInt("numjac", -1);
    if (a.prop != "C43") { fprintf(stderr, "mon_assembly: unknown property %s\n", a.prop.c_str()); return 2; }
    const bool unlistedTail = a.getInt("unlisted-tail", 0) != 0;
    const std::string only = a.get("tool", "");
    return runCases(c, [&](long i, Rng& r) {
        int t = (int)(i % 12);    // 0-8 Assembler; 9,10 fitter; 11 energy minimizer (cost-balanced mix)
        if (only == "asm") t = 0; else if (only == "fit") t = 9; else if (only == "lem") t = 11;
        if (t <= 8) caseAssembler(c, i, r, unlistedTail);
        else if (t <= 10) caseFitter(c, i, r);
        else caseLEM(c, i, r);
    });
}
