// mon_poly — C30 "Polynomial roots are roots".
//
// Drives PolynomialRootFinder::findRoots (six overloads x {float,double}) over generated
// polynomials and judges every returned root set with harness-side oracles evaluated in long double:
//   count     every returned root is finite (the library pre-fills NaN for roots it did not find);
//   residual  |p(z_i)| <= K*(2n+2)*eps_T*G_i * sum|a_k||z_i|^k  (backward error: independent of the root's conditioning, so it
//             is also the multiplicity-aware test). K = 1e3 for the closed-form quadratics, 1e5 (double) / 3e3 (float) for the
//             Jenkins-Traub routes (calibrated: worst benign case 3e2 / 3e2 over 3e5 polynomials). G_i is the a-priori growth
//             of forward deflation, computed from the order in which the roots are returned; roots with G_i > 1e6 are counted;
//   vieta     (n<=8) coefficients of a_0*prod(x-z_i) match a_k within K*(2n+2)*eps*|a_0|*e_k(|z|);
//   rootmatch polynomials built from known, well separated roots: every known root has a computed partner within
//             K*(2n+2)*eps*sum|a_k||z|^k/|p'(z)| (first-order perturbation bound); judged only where that bound is
//             < separation/10 (guard "ill-conditioned-root");
//   conj      real coefficients: every non-real root has a conjugate partner within 64*eps*|z|;
//   zero-leading  leading coefficient exactly zero => ZeroLeadingCoefficient.
// Attribution: four input classes in which the shipped algorithms were measured to lose accuracy are judged by the residual
// oracle only and keyed separately ("residual-hard:<family>:<class>", see judge()); everything else is the benign tier.
// Legal-client preconditions: non-zero finite leading coefficient, all coefficients finite and (for
// float) inside the normal range; the caller sizes the root container to the degree.
// A thrown "Failure to find any roots" is the documented non-convergence outcome: counted, not judged.
#include "SimTKcommon.h"
#include "vh.h"
#include <complex>

using namespace SimTK;
using vh::Json;
typedef long double LD;
typedef std::complex<LD> CLD;

static const char* ROUTE[6] = {"quad-real", "quad-complex", "cubic-real", "cubic-complex", "general-real", "general-complex"};
static const char* CLS[9] = {"coef-random", "roots-separated", "roots-multiple", "roots-clustered", "roots-zero",
                             "roots-widescale", "symmetric", "integer-coef", "zero-leading"};

struct Poly {
    int n = 0;
    bool cplx = false;
    std::vector<CLD> a;       // exactly the coefficients handed to the library (already rounded to T)
    std::vector<CLD> known;   // roots of the unrounded polynomial when built from roots
    bool haveKnown = false;
};

static Json jc(const CLD& z) { return Json::arr().push(Json((double)z.real())).push(Json((double)z.imag())); }
static Json jpoly(const Poly& p) { Json j = Json::arr(); for (auto& c : p.a) j.push(jc(c)); return j; }
static Json jroots(const std::vector<CLD>& r) { Json j = Json::arr(); for (auto& c : r) j.push(jc(c)); return j; }

// multiply out a0 * prod (x - r_i) in long double
static std::vector<CLD> expand(const std::vector<CLD>& roots, CLD a0) {
    std::vector<CLD> c(1, a0);
    for (const CLD& r : roots) {
        c.push_back(CLD(0));
        for (size_t k = c.size() - 1; k >= 1; --k) c[k] -= r * c[k - 1];
    }
    return c;
}

template <class T> static CLD roundTo(const CLD& z, bool cplx) {
    return CLD((LD)(T)z.real(), cplx ? (LD)(T)z.imag() : 0.0L);
}

// Random root sets. For real-coefficient polynomials non-real roots are added as exact conjugate pairs.
static void addRoot(std::vector<CLD>& roots, CLD z, bool realCoef, int n) {
    if (!realCoef || z.imag() == 0) { roots.push_back(z); return; }
    if ((int)roots.size() + 2 <= n) { roots.push_back(z); roots.push_back(std::conj(z)); }
    else roots.push_back(CLD(z.real(), 0));
}
static CLD randRoot(vh::Rng& r, LD rho, bool realCoef) {
    LD m = rho * (LD)r.uni(0.5, 2.0);
    if (realCoef && r.coin(0.45)) return CLD(r.coin() ? m : -m, 0);
    LD th = (LD)r.uni(0.05, 3.09);   // away from the real axis so that pairs are separated
    if (!realCoef && r.coin()) th = -th;
    return CLD(m * std::cos(th), m * std::sin(th));
}
static LD minSep(const std::vector<CLD>& roots, size_t i) {
    LD s = std::numeric_limits<LD>::infinity();
    for (size_t j = 0; j < roots.size(); ++j) if (j != i) s = std::min(s, std::abs(roots[i] - roots[j]));
    return s;
}

template <class T> static bool genPoly(vh::Rng& r, int cls, int n, bool cplx, Poly& P) {
    const bool isFloat = sizeof(T) == 4;
    P.n = n; P.cplx = cplx; P.haveKnown = false; P.known.clear();
    for (int attempt = 0; attempt < 8; ++attempt) {
        const LD decades = isFloat ? std::min<LD>(3.0L, 12.0L / n) : (attempt < 4 ? 6.0L : 2.0L);
        const LD rho = std::pow(10.0L, (LD)r.uni(-1, 1) * decades);                    // root scale
        const LD s = std::pow(10.0L, (LD)r.uni(-1, 1) * (isFloat ? 3.0L : 6.0L));       // coefficient scale
        CLD a0 = cplx ? std::polar<LD>(s, (LD)r.uni(0, 6.283185307179586)) : CLD(r.coin() ? s : -s, 0);
        std::vector<CLD> c;
        std::vector<CLD> roots;
        bool fromRoots = true, sepKnown = false;
        switch (cls) {
        case 0: { // random coefficients with a geometric profile rho^k, some interior zeros
            fromRoots = false;
            c.resize(n + 1);
            for (int k = 0; k <= n; ++k) {
                LD mag = s * std::pow(rho, (LD)k);
                c[k] = cplx ? CLD(mag * (LD)r.normal(), mag * (LD)r.normal()) : CLD(mag * (LD)r.normal(), 0);
                if (k > 0 && r.coin(0.15)) c[k] = 0;
            }
            if (c[0] == CLD(0)) c[0] = a0;
        } break;
        case 1: { // well separated known roots
            int guard = 0;
            while ((int)roots.size() < n && guard++ < 400) {
                CLD z = randRoot(r, rho, !cplx);
                bool ok = true;
                for (auto& w : roots) if (std::abs(w - z) < 0.25L * rho || std::abs(w - std::conj(z)) < 0.25L * rho) ok = false;
                if (!cplx && z.imag() != 0 && std::fabs(z.imag()) < 0.125L * rho) ok = false;
                if (ok) addRoot(roots, z, !cplx, n);
            }
            if ((int)roots.size() < n) continue;
            sepKnown = true;
        } break;
        case 2: { // multiple roots
            while ((int)roots.size() < n) {
                CLD z = randRoot(r, rho, !cplx);
                int m = r.integer(2, 4);
                for (int q = 0; q < m && (int)roots.size() < n; ++q) addRoot(roots, z, !cplx, n);
            }
        } break;
        case 3: { // clustered roots: relative spacing 1e-2 .. 1e-6
            while ((int)roots.size() < n) {
                CLD z = randRoot(r, rho, !cplx);
                LD d = std::pow(10.0L, (LD)r.uni(-6, -2));
                int m = r.integer(2, 3);
                for (int q = 0; q < m && (int)roots.size() < n; ++q)
                    addRoot(roots, z * (1.0L + d * (LD)q), !cplx, n);
            }
        } break;
        case 4: { // some exactly-zero roots, the rest separated
            int nz = r.integer(1, std::max(1, n - 1));
            if (r.coin(0.1)) nz = n;
            for (int q = 0; q < nz; ++q) roots.push_back(CLD(0));
            int guard = 0;
            while ((int)roots.size() < n && guard++ < 400) addRoot(roots, randRoot(r, rho, !cplx), !cplx, n);
        } break;
        case 5: { // moduli spread over several decades
            LD spread = isFloat ? std::min<LD>(4.0L, 16.0L / n) : std::min<LD>(12.0L, 80.0L / n);
            while ((int)roots.size() < n) {
                LD m = rho * std::pow(10.0L, (LD)r.uni(-0.5, 0.5) * spread);
                CLD z = randRoot(r, 1.0L, !cplx);
                addRoot(roots, z * m, !cplx, n);
            }
        } break;
        case 6: { // symmetric +-z pairs: every other coefficient is exactly zero (b==0 for quadratics)
            while ((int)roots.size() + 1 < n) {
                CLD z = randRoot(r, rho, !cplx);
                if (!cplx && z.imag() != 0) {
                    if ((int)roots.size() + 4 <= n) { roots.push_back(z); roots.push_back(std::conj(z)); roots.push_back(-z); roots.push_back(-std::conj(z)); }
                    else { z = CLD(std::abs(z), 0); roots.push_back(z); roots.push_back(-z); }
                } else { roots.push_back(z); roots.push_back(-z); }
            }
            if ((int)roots.size() < n) roots.push_back(CLD(0));
        } break;
        case 7: { // small integer coefficients
            fromRoots = false;
            c.resize(n + 1);
            for (int k = 0; k <= n; ++k) c[k] = cplx ? CLD(r.integer(-5, 5), r.integer(-5, 5)) : CLD(r.integer(-5, 5), 0);
            if (c[0] == CLD(0)) c[0] = CLD(r.integer(1, 5), 0);
        } break;
        default: return false;
        }
        if (fromRoots) {
            if ((int)roots.size() != n) continue;
            c = expand(roots, a0);
            // real coefficients: roots come in exact conjugate pairs, imaginary parts cancel up to 1e-19 relative
            if (!cplx) for (auto& x : c) x = CLD(x.real(), 0);
            // +-z symmetry (and x*q(x^2) for odd n): coefficients at odd offset from the leading one vanish identically
            if (cls == 6) for (int k = 1; k <= n; k += 2) c[k] = 0;
            // zero roots come first in 'roots', so the trailing coefficients are exact zeros already (0 - r*0)
        }
        // round to T and check the legal range
        bool ok = true;
        P.a.resize(n + 1);
        for (int k = 0; k <= n; ++k) {
            P.a[k] = roundTo<T>(c[k], cplx);
            LD m = std::max(std::fabs(P.a[k].real()), std::fabs(P.a[k].imag()));
            if (!std::isfinite((double)m)) ok = false;
            const LD lo = isFloat ? 1e-30L : 1e-280L, hi = isFloat ? 1e30L : 1e280L;
            if (m != 0 && (m < lo || m > hi)) ok = false;
            // a coefficient that underflowed to zero would change the root structure
            if (m == 0 && std::abs(c[k]) != 0) ok = false;
        }
        if (P.a[0] == CLD(0)) ok = false;
        if (!ok) continue;
        if (fromRoots) { P.known = roots; P.haveKnown = sepKnown; }
        return true;
    }
    return false;
}

// p(z), p'(z), sum|a_k||z|^k by Horner in long double
static void evalPoly(const std::vector<CLD>& a, const CLD& z, CLD& p, CLD& dp, LD& S) {
    p = a[0]; dp = 0; S = std::abs(a[0]);
    LD az = std::abs(z);
    for (size_t k = 1; k < a.size(); ++k) { dp = dp * z + p; p = p * z + a[k]; S = S * az + std::abs(a[k]); }
}

template <class T> static bool callLibrary(int route, const Poly& P, std::vector<CLD>& out) {
    typedef std::complex<T> CT;
    const int n = P.n;
    out.assign(n, CLD(0));
    auto R = [&](int k) { return (T)P.a[k].real(); };
    auto C = [&](int k) { return CT((T)P.a[k].real(), (T)P.a[k].imag()); };
    switch (route) {
    case 0: { Vec<3, T> c(R(0), R(1), R(2)); Vec<2, CT> z; PolynomialRootFinder::findRoots(c, z); for (int i = 0; i < 2; ++i) out[i] = CLD(z[i].real(), z[i].imag()); } break;
    case 1: { Vec<3, CT> c(C(0), C(1), C(2)); Vec<2, CT> z; PolynomialRootFinder::findRoots(c, z); for (int i = 0; i < 2; ++i) out[i] = CLD(z[i].real(), z[i].imag()); } break;
    case 2: { Vec<4, T> c(R(0), R(1), R(2), R(3)); Vec<3, CT> z; PolynomialRootFinder::findRoots(c, z); for (int i = 0; i < 3; ++i) out[i] = CLD(z[i].real(), z[i].imag()); } break;
    case 3: { Vec<4, CT> c(C(0), C(1), C(2), C(3)); Vec<3, CT> z; PolynomialRootFinder::findRoots(c, z); for (int i = 0; i < 3; ++i) out[i] = CLD(z[i].real(), z[i].imag()); } break;
    case 4: { Vector_<T> c(n + 1); for (int k = 0; k <= n; ++k) c[k] = R(k); Vector_<CT> z(n); PolynomialRootFinder::findRoots(c, z); for (int i = 0; i < n; ++i) out[i] = CLD(z[i].real(), z[i].imag()); } break;
    case 5: { Vector_<CT> c(n + 1); for (int k = 0; k <= n; ++k) c[k] = C(k); Vector_<CT> z(n); PolynomialRootFinder::findRoots(c, z); for (int i = 0; i < n; ++i) out[i] = CLD(z[i].real(), z[i].imag()); } break;
    }
    return true;
}

template <class T> static void judge(vh::Ctx& c, long idx, int route, const char* clsName, const Poly& P);
static const char* degBucket(int n) { return n <= 2 ? "n2" : n == 3 ? "n3" : n <= 6 ? "n4-6" : n <= 12 ? "n7-12" : "n13-20"; }

template <class T> static void checkC30(vh::Ctx& c, long idx, vh::Rng& r, int route, int cls) {
    const bool isFloat = sizeof(T) == 4;
    const char* tn = isFloat ? "float" : "double";
    const LD eps = std::numeric_limits<T>::epsilon();
    const bool cplx = (route % 2) == 1;
    int n = route < 2 ? 2 : route < 4 ? 3 : 0;
    if (n == 0) {
        double u = r.uni();
        n = u < 0.15 ? r.integer(2, 3) : u < 0.5 ? r.integer(4, 8) : r.integer(9, 20);
    }
    const std::string tag = std::string(ROUTE[route]) + ":" + CLS[cls] + ":" + tn;
    Poly P;

    if (cls == 8) { // zero leading coefficient => documented exception
        c.setPhase("zero-leading " + tag);
        if (!genPoly<T>(r, 0, n, cplx, P)) { c.skip("generator-range"); return; }
        P.a[0] = 0;
        if (r.coin(0.3)) P.a[0] = CLD(-0.0L, cplx ? -0.0L : 0.0L);
        std::vector<CLD> z;
        bool threw = false, right = false; std::string what;
        try { callLibrary<T>(route, P, z); }
        catch (const PolynomialRootFinder::ZeroLeadingCoefficient& e) { threw = right = true; what = e.what(); }
        catch (const std::exception& e) { threw = true; what = e.what(); }
        c.cover(std::string(ROUTE[route]) + ":zero-leading:" + tn);
        c.require(std::string("zero-leading:") + ROUTE[route] + ":" + tn, threw && right, [&] {
            return Json::obj().set("what", "zero leading coefficient must throw ZeroLeadingCoefficient").set("threw", threw).set("msg", vh::firstLine(what)).set("coef", jpoly(P)); });
        c.obs("zero-leading-thrown", threw && right);
        return;
    }

    c.setPhase("generate " + tag);
    if (!genPoly<T>(r, cls, n, cplx, P)) { c.skip("generator-range"); return; }
    judge<T>(c, idx, route, CLS[cls], P);
}

template <class T> static void judge(vh::Ctx& c, long idx, int route, const char* clsName, const Poly& P) {
    const bool isFloat = sizeof(T) == 4;
    const char* tn = isFloat ? "float" : "double";
    const LD eps = std::numeric_limits<T>::epsilon();
    const bool cplx = (route % 2) == 1;
    const int n = P.n;
    const std::string tag = std::string(ROUTE[route]) + ":" + clsName + ":" + tn;
    std::vector<CLD> z;
    c.setPhase("findRoots " + tag + " n=" + std::to_string(n));
    try { callLibrary<T>(route, P, z); }
    catch (const PolynomialRootFinder::ZeroLeadingCoefficient& e) {
        c.viol("exception:ZeroLeadingCoefficient-with-nonzero-leading:" + std::string(ROUTE[route]), Json::obj().set("coef", jpoly(P)));
        return;
    }
    catch (const std::exception& e) {
        std::string w = e.what();
        if (w.find("Failure to find any roots") != std::string::npos) {
            c.obs(std::string("nonconvergence-exception:") + ROUTE[route] + ":" + clsName + ":" + tn);
            c.skip("documented-nonconvergence-exception");
            return;
        }
        throw;
    }
    c.setPhase("judge " + tag);
    c.cover(std::string(ROUTE[route]) + ":" + clsName + ":" + degBucket(n) + ":" + tn);

    auto W = [&](const char* what, int i) {
        return [&, what, i]() { return Json::obj().set("what", what).set("route", ROUTE[route]).set("class", clsName).set("T", tn).set("n", n)
                                   .set("root_index", i).set("coef_desc_powers", jpoly(P)).set("roots", jroots(z)); };
    };
    // count: all finite
    bool allFinite = true;
    for (int i = 0; i < n; ++i) if (!std::isfinite((double)z[i].real()) || !std::isfinite((double)z[i].imag())) allFinite = false;
    c.require(std::string("count:non-finite-root-without-exception:") + (route < 2 ? "quadratic" : cplx ? "cpoly" : "rpoly"), allFinite, W("a returned root is NaN/Inf although no failure was reported", -1));
    if (!allFinite) return;

    // ---- descriptors of the returned root set (long double), used to attribute a violation to an input class
    std::vector<CLD> pv(n), dpv(n); std::vector<LD> Sv(n);
    LD zmax = 0, kapP = 0, eqm = std::numeric_limits<LD>::infinity(), zminNZ = std::numeric_limits<LD>::infinity();
    for (int i = 0; i < n; ++i) {
        evalPoly(P.a, z[i], pv[i], dpv[i], Sv[i]);
        LD az = std::abs(z[i]);
        zmax = std::max(zmax, az);
        if (az > 0) zminNZ = std::min(zminNZ, az);
        if (az > 0) { LD k = Sv[i] / (az * std::abs(dpv[i])); if (!(k <= 1e30L)) k = 1e30L; kapP = std::max(kapP, k); }   // relative condition number of the root
        for (int q = 0; q < i; ++q) {          // smallest relative gap between moduli of two roots that are not conjugates of each other
            LD aq = std::abs(z[q]);
            if (az == 0 || aq == 0) continue;
            if (!cplx && std::abs(z[q] - std::conj(z[i])) <= 1e-6L * az && z[i].imag() != 0) continue;
            eqm = std::min(eqm, std::fabs(aq - az) / std::max(aq, az));
        }
    }
    // Input classes in which the shipped algorithms are known (measured, see the final report) to lose accuracy; a violation
    // there gets its own key so that it can be triaged separately from a violation on a benign input:
    //   rpoly (real coefficients, n>=3 or Vector_ route): roots of nearly equal modulus that are not a conjugate pair, or an
    //          ill-conditioned (clustered / multiple) root set; otherwise any non-zero root of modulus < 0.1 (rpoly.cpp quadit():
    //          the "not close to multiple" early exit compares against max(|lzr|,0.1), an absolute threshold);
    //   cpoly (complex coefficients): any root of modulus > 2 (the convergence bound errev() carries an extra factor |s|);
    //   quadratic closed form: linear coefficient exactly zero.
    const int family = route < 2 ? 0 : (cplx ? 2 : 1);
    const char* famName = family == 0 ? "quadratic" : family == 1 ? "rpoly" : "cpoly";
    std::string lim;
    if (family == 1 && (eqm < 0.1L || kapP > 1e3L)) lim = "near-equimodular-or-clustered-roots";
    else if (family == 1 && zminNZ < 0.1L) lim = "root-modulus-below-0.1";
    if (family == 2 && zmax > 2.0L) lim = "root-modulus-above-2";
    if (family == 0 && P.a[1] == CLD(0)) lim = "linear-coefficient-zero";
    const bool hard = !lim.empty();
    // K: allowance over the (2n+2)*eps Horner constant. Closed-form quadratics: 1e3 (DESIGN). Jenkins-Traub routes: calibrated on
    // the benign tier (60k polynomials: worst observed 3e2 for rpoly, 1e2 for cpoly, in units of (2n+2)eps) => 1e5 for double;
    // float cannot afford more than 3e3 before the bound stops meaning anything (3e3*(2n+2)*eps_float = 3e-3 .. 1.5e-2).
    const LD K = family == 0 ? 1e3L : (isFloat ? 3e3L : 1e5L);
    const LD cn = 2.0L * n + 2.0L;
    c.cover(std::string("tier:") + ROUTE[route] + ":" + tn + (hard ? ":" + lim : ":benign"));

    // residual (backward error)
    // Jenkins-Traub routes deflate each root as it is found and return the roots in that order. Forward deflation by a root w
    // perturbs the quotient by eps*(partial Horner sums at w); seen from a later root x with |x|<|w| that perturbation is
    // amplified by up to (|w|/|x|)^(degree at that stage - 1). G_i sums this a-priori growth over the roots deflated before z_i
    // (G_i = number of earlier roots + 1 when the roots come out in increasing modulus, which is the usual case).
    std::vector<LD> G(n, 1.0L);
    if (family != 0)
        for (int i = 0; i < n; ++i)
            for (int q = 0; q < i; ++q) {
                LD rr = std::abs(z[i]) > 0 ? std::abs(z[q]) / std::abs(z[i]) : 1.0L;
                G[i] += rr > 1 ? std::pow(rr, (LD)(n - q - 1)) : 1.0L;
                if (!(G[i] < 1e300L)) G[i] = 1e300L;
            }
    LD etaMax = 0;
    for (int i = 0; i < n; ++i) {
        if (G[i] > 1e6L) { c.obs(std::string("root-after-out-of-order-deflation-not-judged:") + famName + ":" + tn); continue; }
        c.check(hard ? std::string("residual-hard:") + famName + ":" + lim : std::string("residual.") + tn + ":" + ROUTE[route], (double)std::abs(pv[i]), (double)(K * cn * eps * Sv[i] * G[i]),
                W("|p(z)| exceeds backward-error bound K*(2n+2)*eps*G_i*sum|a_k||z|^k", i));
        if (Sv[i] > 0) etaMax = std::max(etaMax, std::abs(pv[i]) / (cn * eps * Sv[i]));
    }
    {   // observed accuracy histogram: decade of max_i |p(z_i)|/((2n+2) eps S) per polynomial
        int dec = etaMax <= 1 ? 0 : (int)std::ceil(std::log10((double)etaMax));
        char b[96]; snprintf(b, sizeof b, "backward-error<=1e%02d*(2n+2)eps:%s:%s%s", dec, famName, tn, hard ? ":hard" : "");
        c.obs(b);
    }
    // Vieta (benign tier only: in the hard classes the same root cause would only be reported a second time)
    if (n <= 8 && !hard) {
        std::vector<CLD> rb = expand(z, P.a[0]);
        std::vector<CLD> az(z.size()); for (int i = 0; i < n; ++i) az[i] = CLD(-std::abs(z[i]), 0);
        std::vector<CLD> ek = expand(az, CLD(std::abs(P.a[0]), 0));
        for (int k = 1; k <= n; ++k)
            c.check(std::string("vieta.") + tn + ":" + ROUTE[route], (double)std::abs(rb[k] - P.a[k]), (double)(K * cn * eps * std::abs(ek[k])),
                    W("coefficient rebuilt from the returned roots (Vieta) differs from the input coefficient", k));
    }
    // conjugate pairs
    if (!cplx) {
        std::vector<char> used(n, 0);
        for (int i = 0; i < n; ++i) {
            if (used[i]) continue;
            LD tolp = 64 * eps * std::abs(z[i]);
            if (std::fabs(z[i].imag()) <= tolp) continue;
            int best = -1; LD bd = std::numeric_limits<LD>::infinity();
            for (int j = 0; j < n; ++j) if (j != i && !used[j]) { LD d = std::abs(z[j] - std::conj(z[i])); if (d < bd) { bd = d; best = j; } }
            used[i] = 1; if (best >= 0) used[best] = 1;
            c.check(std::string("conj.") + tn + ":" + ROUTE[route], best < 0 ? 1e300 : (double)bd, (double)tolp, W("non-real root of a real polynomial has no conjugate partner", i));
        }
    }
    // known separated roots
    if (P.haveKnown && !hard) {
        std::vector<char> used(n, 0);
        for (int i = 0; i < n; ++i) {
            CLD p, dp; LD S;
            evalPoly(P.a, P.known[i], p, dp, S);
            LD sep = minSep(P.known, i);
            LD bound = K * cn * eps * S / std::abs(dp);
            if (!(bound < sep / 10)) { c.skip("ill-conditioned-root"); continue; }
            int best = -1; LD bd = std::numeric_limits<LD>::infinity();
            for (int j = 0; j < n; ++j) if (!used[j]) { LD d = std::abs(z[j] - P.known[i]); if (d < bd) { bd = d; best = j; } }
            if (best >= 0 && bd <= bound) used[best] = 1;
            c.check(std::string("rootmatch.") + tn + ":" + ROUTE[route], (double)bd, (double)bound, [&, i]() {
                return Json::obj().set("what", "known root has no computed partner within the perturbation bound").set("known_root", jc(P.known[i]))
                    .set("route", ROUTE[route]).set("T", tn).set("n", n).set("coef_desc_powers", jpoly(P)).set("roots", jroots(z)); });
        }
    }
    if (c.wantSample() && (idx % 37) == 0)
        c.sample(Json::obj().set("route", ROUTE[route]).set("class", clsName).set("T", tn).set("n", n).set("coef_desc_powers", jpoly(P)).set("roots", jroots(z)));
}

// Pinned inputs (found by earlier exploration or taken from the library's own regression test); judged by the same oracles.
struct Pinned { int route; bool isFloat; std::vector<double> coef; const char* name; };
static const std::vector<Pinned>& pinned() {
    static const std::vector<Pinned> v = {
        // float cubic whose complex pair 0.0036837+-0.00061088i is returned as two real roots (rpoly.cpp quadit(), absolute 0.1 threshold)
        {2, true, {30.845623016357422, -0.078092060983181, -0.0006688589346595109, 2.079758360196138e-06}, "pinned-small-root-cubic"},
        {4, true, {30.845623016357422, -0.078092060983181, -0.0006688589346595109, 2.079758360196138e-06}, "pinned-small-root-cubic"},
        // the 6th order ellipsoid polynomial of PolynomialTest.cpp / rpoly.cpp comment
        {4, false, {1.0, 0.021700000000000004, 2.9889970904696875e-005, 1.0901272298136685e-008, -4.4822782160985054e-012, -2.6193432740351220e-015, -3.0900602527225053e-019}, "pinned-ellipsoid-6"},
        // (x-1)(x-2)...(x-10)
        {4, false, {1, -55, 1320, -18150, 157773, -902055, 3416930, -8409500, 12753576, -10628640, 3628800}, "pinned-wilkinson-10"},
        // x^12 - 1 through both general routes
        {4, false, {1, 0, 0, 0, 0, 0, 0, 0, 0, 0, 0, 0, -1}, "pinned-unity-12"},
        {5, false, {1, 0, 0, 0, 0, 0, 0, 0, 0, 0, 0, 0, -1}, "pinned-unity-12"},
        // 2x^2 - 8 (linear coefficient zero, a != 1)
        {0, false, {2, 0, -8}, "pinned-2x2-8"},
    };
    return v;
}
static void checkPinned(vh::Ctx& c, long idx, const Pinned& q) {
    Poly P; P.n = (int)q.coef.size() - 1; P.cplx = (q.route % 2) == 1;
    for (double x : q.coef) P.a.push_back(CLD(q.isFloat ? (LD)(float)x : (LD)x, 0));
    if (q.isFloat) judge<float>(c, idx, q.route, q.name, P); else judge<double>(c, idx, q.route, q.name, P);
}

int main(int argc, char** argv) {
    vh::Args a = vh::parseArgs(argc, argv);
    vh::Ctx c(a);
    if (a.prop != "C30") { fprintf(stderr, "mon_poly: unknown property %s\n", a.prop.c_str()); return 2; }
    return vh::runCases(c, [&](long i, vh::Rng& r) {
        if (i % 270 == 269) { checkPinned(c, i, pinned()[(size_t)(i / 270) % pinned().size()]); return; }
        // deterministic cycling through route x class x type cells (forces the rare ones)
        int route = (int)(i % 6);
        int cls = (int)((i / 6) % 9);
        bool isFloat = ((i / 54) % 3) == 2;
        if (isFloat) checkC30<float>(c, i, r, route, cls);
        else checkC30<double>(c, i, r, route, cls);
    });
}
