// mon_force — force-element monitors: C12 (power vs potential energy), C13 (Newton's
// third law for interaction elements), C38 (non-contact elements follow their documented
// laws, parameter changes take effect at the next realization).  DESIGN §5 C12/C13/C38.
//
// One element alone (optionally with a zero-valued position-only "bystander" that switches
// the force subsystem into its cached mode) in a random tree model at a random state.
//
// Legal-client preconditions (violating cases are skipped with a reason, never judged):
//  * state away from coordinate singularities (model.h guards, SphericalCoords zenith).
//  * TwoPoint* elements: the two stations are not (nearly) coincident (documented error).
//  * Mobility spring / stop: only coordinates with qdot == u (documented @bug restriction);
//    verified at run time through multiplyByN, otherwise another mobilizer is chosen.
//  * LinearBushing: middle Euler angle of X_FM away from +-90 deg (documented singularity).
//  * all documented parameter ranges (k,c >= 0, qLow <= qHigh, g >= 0).
//  * finite-difference oracles: h and h/2 estimates must agree, else inconclusive.
#include "model.h"
#include "force_elems.h"
using namespace SimTK;
using namespace vh;

// ------------------------------------------------------------------------------------
// element tables
static const std::vector<int> kLawElems = {E_Gravity, E_UniformGravity, E_TPSpring, E_TPDamper, E_TPConst,
    E_ConstForce, E_ConstTorque, E_GlobalDamper, E_MobSpring, E_MobDamper, E_MobConst, E_MobDiscrete,
    E_MobStop, E_Bushing, E_Discrete};
static const std::vector<int> kEnergyElems = {E_Gravity, E_UniformGravity, E_TPSpring, E_MobSpring, E_Bushing,
    E_MobStop, E_TPDamper, E_MobDamper, E_GlobalDamper,
    E_HuntCrossley, E_ElasticFoundation, E_Compliant, E_ExpSpring, E_CableSpring};
static const std::vector<int> kInteractionElems = {E_TPSpring, E_TPDamper, E_TPConst, E_Bushing,
    E_HuntCrossley, E_ElasticFoundation, E_Compliant, E_SmoothSphere, E_ExpSpring, E_CableSpring, E_CableSpan};

// ------------------------------------------------------------------------------------
// C38: documented laws + parameter changes
// returns false when a comparison with an ordinary (non element-specific) key failed
static bool lawCompare(Ctx& c, FCase& k, const std::string& keyHead, const std::string& keyTail, const Obs& o, const Ref& ref,
                       const char* route, const Json& hist) {
    LazyWit wit{&k};
    auto W = [&](const char* what, double a, double b) {
        return [&, what, a, b]() { return wit.get().set("what", what).set("route", route).set("observed", a).set("expected", b).set("history", hist); };
    };
    double dF = 0; int wb = -1;
    for (int b = 0; b < k.nb; ++b) { double d = spMax(o.F[b] - ref.F[b]); if (!(d <= dF)) { dF = d; wb = b; } }
    double df = 0; for (int j = 0; j < k.nu; ++j) { double d = std::fabs(o.f[j] - ref.f[j]); if (!(d <= df)) df = d; }
    (void)wb;
    bool ok1 = c.check(keyHead + ":force" + keyTail, std::max(dF, df), E1 * ref.scale + 1e-300, W("body/mobility forces differ from the documented law", dF, df));
    std::string pk = k.elem->peKey();
    bool ok2 = c.check(pk.empty() ? keyHead + ":pe" + keyTail : pk, std::fabs(o.pe - ref.pe), E1 * ref.peScale + 1e-300, W("potential energy differs from the documented value", o.pe, ref.pe));
    return ok1 && (ok2 || !pk.empty());
}

static void checkC38(Ctx& c, long idx, Rng& r) {
    const int nE = (int)kLawElems.size();
    int et = c.args.getInt("elem", -1) >= 0 ? (int)c.args.getInt("elem", -1) : kLawElems[idx % nE];   // --elem N: debugging aid
    int attachCls = (int)((idx / nE) % 4);
    int variant = (int)((idx / (4 * nE)) % 6);
    bool bystander = ((idx / nE) % 2) == 1;
    FCase k;
    if (!k.setup(c, r, idx, et, attachCls, variant, bystander)) return;
    Elem& e = *k.elem;
    State& s = k.s;
    const std::string en = e.name;
    Json hist = Json::arr();

    // (1) the law, through calcForceContribution at a Velocity-realized (PE: Position) state
    bool lawOk = true;
    c.setPhase(en + " law/contrib");
    {
        Ref ref; k.reference(s, ref);
        State s2 = s;                              // a fresh copy realized only as far as documented
        k.m.sys.realize(s2, Stage::Position);
        double pePos = e.force.calcPotentialEnergyContribution(s2);
        k.m.sys.realize(s2, Stage::Velocity);
        Obs o = k.contribution(s2); o.pe = pePos;
        lawOk = lawCompare(c, k, "law:" + en, "", o, ref, "calcForceContribution", hist);
        e.checkGetters(c, k, s2, ref, "");
    }
    // (2) the law, through the realized system (force-subsystem caching included)
    c.setPhase(en + " law/realized");
    {
        k.m.sys.realize(s, Stage::Dynamics);
        Ref ref; k.reference(s, ref);
        Obs o = k.realized(s);
        lawOk = lawCompare(c, k, "law:" + en, ":realized", o, ref, "realize(Dynamics)", hist) && lawOk;
    }
    c.cover(en + "/" + e.attach + "/" + e.regime + "/law");
    // Attribute, then key: an element that already breaks its law is not taken through parameter changes
    // (every later comparison would repeat the same root cause under an operation's key)
    if (!lawOk) { c.obs("ops-not-judged-after-law-violation"); return; }

    // (3) parameter / enable / exclusion changes: the *new* law at the next realization.
    int nOps = 3;
    bool disabled = false;
    for (int it = 0; it < nOps; ++it) {
        Ref oldRef; k.reference(s, oldRef); if (disabled) oldRef.zero();
        std::string op;
        int kind = r.integer(0, 9);
        c.setPhase(en + " op");
        if (kind == 9) {
            op = "none";      // state-only step: the same State re-evaluated after only u (or only q) changed
        } else if (kind == 0 || (e.numOps() == 0 && kind < 6)) {
            if (disabled) { e.force.enable(s); disabled = false; op = "enable"; }
            else { e.force.disable(s); disabled = true; op = "disable"; }
            c.require("enable-flag:" + en, e.force.isDisabled(s) == disabled, [&]() { return k.witness().set("what", "isDisabled() does not report the flag just set").set("op", op); });
        } else if (e.numOps() > 0) {
            op = e.applyOp(r.integer(0, e.numOps() - 1), k, s, r);
            if (e.lastOpWasTopology) { e.lastOpWasTopology = false; if (disabled) e.force.disable(s); }   // a new State starts enabled
        } else op = "none";
        // sometimes also move the state (q and/or u), sometimes leave it: a stale cache only
        // shows when nothing else changes.
        int mv = r.integer(0, 3);
        if (op == "none") mv = r.integer(1, 2);
        if (mv == 1) { Vector u = s.getU(); for (int j = 0; j < k.nu; ++j) u[j] = r.sym(2.0); s.updU() = u; }
        else if (mv == 2) { k.perturbQ(s, r); }
        hist.push(op + (mv == 1 ? "+u" : mv == 2 ? "+q" : ""));
        c.setPhase(en + " after " + op);
        k.m.sys.realize(s, Stage::Position);
        if (!sphericalOK(k.m, s)) { c.skip("spherical-singularity"); return; }
        std::string why;
        if (!e.precond(k, s, why)) { c.skip(why); return; }
        k.m.sys.realize(s, Stage::Dynamics);
        Ref ref; k.reference(s, ref); if (disabled) ref.zero();
        Obs oR = k.realized(s);
        Obs oC = k.contribution(s); oC.pe = e.force.calcPotentialEnergyContribution(s);
        // classify: ignored (== old law and old != new) or simply wrong
        auto cls = [&](const Obs& o) {
            double dn = k.obsDiff(o, ref), dold = k.obsDiff(o, oldRef), sep = k.refDiff(ref, oldRef);
            bool ignored = mv == 0 && dn > E1 * ref.scale && dold <= E1 * oldRef.scale && sep > 1e3 * E1 * (ref.scale + oldRef.scale);
            return std::string(ignored ? "param-ignored:" : "param:");
        };
        std::string opk = op.substr(0, op.find('('));
        bool okR = lawCompare(c, k, cls(oR) + en + ":" + opk, ":realized", oR, ref, "realize(Dynamics)", hist);
        bool okC = lawCompare(c, k, cls(oC) + en + ":" + opk, ":contrib", oC, ref, "calcForceContribution", hist);
        if (!disabled) e.checkGetters(c, k, s, ref, ":after-op");
        c.cover(en + "/" + e.attach + "/" + e.regime + "/op:" + opk);
        // a stale value survives later operations: the history is cut at the first operation that shows it
        if (!okR || !okC) { c.obs("history-cut-after-violation"); break; }
    }
    if (c.wantSample()) c.sample(k.witness().set("history", hist));
}

// ------------------------------------------------------------------------------------
// C13: Newton's third law
static void checkC13(Ctx& c, long idx, Rng& r) {
    const int nE = (int)kInteractionElems.size();
    int et = c.args.getInt("elem", -1) >= 0 ? (int)c.args.getInt("elem", -1) : kInteractionElems[idx % nE];   // --elem N: debugging aid
    int attachCls = (int)((idx / nE) % 4);
    int variant = (int)((idx / (4 * nE)) % 6);
    FCase k;
    if (!k.setup(c, r, idx, et, attachCls, variant, false)) return;
    Elem& e = *k.elem; State& s = k.s;
    c.setPhase(e.name + " third-law");
    k.m.sys.realize(s, e.evalStage);
    Obs o = k.contribution(s);
    Ref ref; bool haveRef = e.hasReference; if (haveRef) k.reference(s, ref);
    Vec3 netF(0), netM(0); double sF = 0, sM = 0;
    for (int b = 0; b < k.nb; ++b) {
        const Vec3& p = k.mob(b).getBodyTransform(s).p();
        netF += o.F[b][1]; netM += o.F[b][0] + p % o.F[b][1];
        sF += o.F[b][1].norm(); sM += o.F[b][0].norm() + p.norm() * o.F[b][1].norm();
    }
    // scale from the individual action/reaction (reference or the element's own report), not
    // from the net per-body output which may cancel to exactly zero (same body twice)
    double aF = 0, aM = 0; e.actionScale(k, s, haveRef ? &ref : nullptr, aF, aM);
    sF = std::max(sF, aF); sM = std::max(sM, aM);
    if (haveRef) { sF = std::max(sF, ref.scale); sM = std::max(sM, ref.scale); }   // incl. the floors from magnitudes before cancellation
    LazyWit wit{&k};
    auto W = [&](const char* what, const Vec3& v) { return [&, what, v]() { return wit.get().set("what", what).set("net", jV3(v)).set("bodyForces", jFs(o.F)); }; };
    c.require("finite:" + e.name, std::isfinite(sF) && std::isfinite(sM), W("non-finite body force", netF));
    c.check("net-force:" + e.name, netF.norm(), E1 * sF + 1e-300, W("sum of forces over all bodies incl. Ground != 0", netF));
    c.check("net-moment:" + e.name, netM.norm(), E1 * (sM + sF) + 1e-300, W("sum of moments about the Ground origin over all bodies incl. Ground != 0", netM));
    double mobMax = 0; for (int j = 0; j < k.nu; ++j) mobMax = std::max(mobMax, std::fabs(o.f[j]));
    c.check("no-mobility-force:" + e.name, mobMax, 0.0, W("interaction element applied a generalized force directly", netF));
    if (e.b1 == e.b2 && e.b1 >= 0 && e.pureTwoBody()) {
        // same body twice: net zero on that body (and nothing anywhere else)
        double other = 0; for (int b = 0; b < k.nb; ++b) if (b != e.b1) other = std::max(other, spMax(o.F[b]));
        c.check("same-body:" + e.name, std::max(other, std::max(o.F[e.b1][1].norm(), 0.0)), E1 * sF + 1e-300, W("same body attached twice: net force not zero / other bodies loaded", o.F[e.b1][1]));
        c.check("same-body-moment:" + e.name, o.F[e.b1][0].norm(), E1 * (sM + sF) + 1e-300, W("same body attached twice: net moment on that body not zero", o.F[e.b1][0]));
    }
    c.obs(std::string("active:") + (sF > 0 ? "nonzero" : "zero") + ":" + e.name);
    c.cover(e.name + "/" + e.attach + "/" + e.regime + (sF > 0 ? "/loaded" : "/unloaded"));
    if (c.wantSample()) c.sample(k.witness().set("netF", jV3(netF)).set("netM", jV3(netM)).set("scaleF", sF));
}

// ------------------------------------------------------------------------------------
// C12: power vs potential energy
struct PowerOut { double P = 0, dPE = 0, dPEh = 0, scale = 0, peMag = 0, reported = NaN, h = 1e-3, fmax = 0; bool ok = true, yank = false; double shapeTerm = NaN; std::string why; };

// Power delivered and d(PE)/dt along q(t) = q + t*N*u for the speeds currently in s.
static PowerOut powerAt(Ctx& c, FCase& k, State& s) {
    PowerOut po; Elem& e = *k.elem;
    k.m.sys.realize(s, e.evalStage);
    Obs o = k.contribution(s);
    const Vector& u = s.getU();
    double vmax = 0;
    for (int b = 0; b < k.nb; ++b) {
        const SpatialVec& V = k.mob(b).getBodyVelocity(s);
        po.P += ~o.F[b][0] * V[0] + ~o.F[b][1] * V[1]; po.fmax = std::max(po.fmax, spMax(o.F[b]));
        po.scale += o.F[b][0].norm() * V[0].norm() + o.F[b][1].norm() * V[1].norm();
        vmax = std::max(vmax, V[0].norm() + V[1].norm());
    }
    for (int j = 0; j < k.nu; ++j) { po.P += o.f[j] * u[j]; po.scale += std::fabs(o.f[j] * u[j]); vmax = std::max(vmax, std::fabs(u[j])); }
    double aF = 0, aM = 0; Ref ref; bool haveRef = e.hasReference; if (haveRef) k.reference(s, ref);
    e.actionScale(k, s, haveRef ? &ref : nullptr, aF, aM);
    po.scale += (aF + aM) * vmax;
    if (haveRef) po.scale += ref.scale * vmax;   // incl. the floors from magnitudes before cancellation (same body twice)
    po.reported = e.reportedDissipation(k, s);
    po.yank = e.documentedYankOut && e.yankOutPresent(k, s);
    if (!std::isfinite(po.P)) { po.ok = false; po.why = "nonfinite-power"; return po; }
    if (!e.reportsPE) return po;
    Vector q0 = s.getQ(), qdot; k.m.matter.multiplyByN(s, false, u, qdot);
    State w = s;
    auto pe = [&](double t) { w.updQ() = q0 + t * qdot; k.m.sys.realize(w, e.peStage); double v = e.potentialEnergy(k, w); po.peMag = std::max(po.peMag, std::fabs(v)); return v; };
    double h = e.fdStepFor(k, s); po.h = h;
    auto d5 = [&](double hh) { return (-pe(2 * hh) + 8 * pe(hh) - 8 * pe(-hh) + pe(-2 * hh)) / (12 * hh); };
    po.dPEh = d5(h); po.dPE = d5(h / 2);
    // contribution x^(5/2) * dC/dt of a contact-location dependent energy coefficient (see Elem::shapeCoefficient)
    { double C0, x0; State w0 = s;
      if (e.shapeCoefficient(k, w0, C0, x0)) {
          bool okc = true; double x;
          auto Cat = [&](double t) { double C = NaN; w.updQ() = q0 + t * qdot; k.m.sys.realize(w, Stage::Position); if (!e.shapeCoefficient(k, w, C, x)) okc = false; return C; };
          double hh = h / 2, dC = (-Cat(2 * hh) + 8 * Cat(hh) - 8 * Cat(-hh) + Cat(-2 * hh)) / (12 * hh);
          if (okc && std::isfinite(dC)) po.shapeTerm = std::pow(x0, 2.5) * dC;
      } }
    if (std::isfinite(po.dPE)) po.scale += std::fabs(po.dPE);   // |dPE/dt| is one of the terms of the balance
    (void)c;
    return po;
}

static void checkC12(Ctx& c, long idx, Rng& r) {
    const int nE = (int)kEnergyElems.size();
    int et = c.args.getInt("elem", -1) >= 0 ? (int)c.args.getInt("elem", -1) : kEnergyElems[idx % nE];   // --elem N: debugging aid
    int attachCls = (int)((idx / nE) % 4);
    int variant = (int)((idx / (4 * nE)) % 6);
    FCase k;
    if (!k.setup(c, r, idx, et, attachCls, variant, false)) return;
    Elem& e = *k.elem; State& s = k.s;
    const std::string en = e.name;
    LazyWit wit{&k};
    auto judge = [&](const PowerOut& po, int dirIx) -> bool {
        auto W = [&](const char* what) { return [&, what]() { return wit.get().set("what", what).set("P", po.P).set("dPEdt", po.dPE).set("dPEdt_h", po.dPEh).set("reportedDissipation", po.reported).set("direction", dirIx); }; };
        if (!po.ok) { c.viol("nonfinite:" + en, W(po.why.c_str())()); return false; }
        double tol = E2 * po.scale + 200 * 2.2e-16 * po.peMag / po.h + 1e-300;
        if (e.reportsPE) {
            if (!std::isfinite(po.dPE) || !std::isfinite(po.dPEh)) { c.viol("nonfinite-pe:" + en, W("potential energy NaN/Inf on the stencil")()); return false; }
            if (std::fabs(po.dPE - po.dPEh) > tol / 10) {
                if (c.args.verbose) fprintf(stderr, "fd-disagree %s %s: P=%.9g dPE(h/2)=%.12g dPE(h)=%.12g tol=%.3g peMag=%.6g\n", en.c_str(), e.regime.c_str(), po.P, po.dPE, po.dPEh, tol, po.peMag);
                c.skip("fd-h-vs-h/2-disagree:" + en); return false; }
        }
        double D = po.P + po.dPE;     // = -dissipation
        // One equality per element: P + dPE/dt = -(dissipation), dissipation = the element's own report where it
        // has one, 0 for an element without damping. Elements with damping but no report: sign clause only.
        // The witness says whether it was the power form (direction -1: the state's own speeds) or the gradient
        // form (unit speed on one mobility).
        const char* form = dirIx < 0 ? "power form" : "gradient form";
        if (std::isfinite(po.reported)) {
            if (po.yank) {
                // documented exception: energy lost by yanked contact elements is not reported; the reported
                // dissipation is then only a lower bound of the actual one
                c.obs("yank-out:" + en);
                c.check("energy-" + en + ":sign", D, tol, W("P + dPE/dt > 0 while contact elements are being yanked apart"));
                c.check("energy-" + en + ":sign", D + po.reported, tol, W("reported power dissipation exceeds the actual one (yank-out)"));
            } else {
                double resid = std::fabs(D + po.reported);
                // Attribute, then key: a mismatch that equals x^(5/2)*dC/dt (energy coefficient changing as the contact
                // point travels over a non-spherical surface) keeps the plain key; anything else is keyed apart.
                bool explained = std::isfinite(po.shapeTerm) && std::fabs(D + po.reported - po.shapeTerm) <= 10 * tol + 1e-4 * std::fabs(po.shapeTerm);
                if (std::isfinite(po.shapeTerm)) c.obs(std::string("shape-term:") + (resid <= tol ? "balance-holds" : explained ? "explains-mismatch" : "does-not-explain-mismatch") + ":" + en);
                c.check("energy-" + en + (resid > tol && e.hasShapeCoefficient && !explained ? ":balance-unexplained" : ":balance"), resid, tol,
                        [&]() { return W(dirIx < 0 ? "P + dPE/dt != -(reported power dissipation)" : "generalized force != -dPE/dq*N - reported dissipation")().set("shapeTerm", po.shapeTerm); });
            }
            c.check("energy-" + en + ":sign", -po.reported, tol, W("reported power dissipation negative"));
            if (!e.damped) c.check("energy-" + en + ":balance", std::fabs(po.reported), tol, W("element without damping reports a power dissipation"));
        } else if (!e.damped) c.check("energy-" + en + ":balance", std::fabs(D), tol, W(dirIx < 0 ? "P + dPE/dt != 0 for an element without damping" : "generalized force != -dPE/dq*N for an element without damping"));
        else c.check("energy-" + en + ":sign", D, tol, W("P + dPE/dt > 0: element creates energy"));
        (void)form;
        return true;
    };
    c.setPhase(en + " power");
    PowerOut po = powerAt(c, k, s);
    bool ok = judge(po, -1);
    if (ok) c.cover(en + "/" + e.attach + "/" + e.regime + "/power");
    // gradient form: generalized force = -dPE/dq * N, one mobility at a time (unit speeds);
    // undamped elements only (their force does not depend on u)
    if (e.reportsPE && !e.damped && e.gradientForm) {
        c.setPhase(en + " gradient");
        int nd = std::min(k.nu, 8), done = 0;
        std::vector<int> order(k.nu); for (int j = 0; j < k.nu; ++j) order[j] = j;
        for (int j = k.nu - 1; j > 0; --j) std::swap(order[j], order[r.integer(0, j)]);
        for (int t = 0; t < nd; ++t) {
            State s2 = s; Vector u(k.nu, 0.0); u[order[t]] = 1.0; s2.updU() = u;
            PowerOut pg = powerAt(c, k, s2);
            if (judge(pg, order[t])) ++done;
        }
        if (done) c.cover(en + "/" + e.attach + "/" + e.regime + "/gradient");
    }
    if (c.wantSample()) c.sample(k.witness().set("P", po.P).set("dPEdt", po.dPE).set("scale", po.scale));
}

int main(int argc, char** argv) {
    Args a = parseArgs(argc, argv);
    Ctx c(a);
    const std::string p = a.prop;
    return runCases(c, [&](long i, Rng& r) {
        if (p == "C12") checkC12(c, i, r);
        else if (p == "C13") checkC13(c, i, r);
        else if (p == "C38") checkC38(c, i, r);
        else { fprintf(stderr, "mon_force: unknown property %s\n", p.c_str()); exit(2); }
    });
}
