// mon_geodesic — C47: geodesics on analytic surfaces (DESIGN §5 C47).
//
// Drives the geodesic shooters of ContactGeometry on Sphere, Cylinder, Ellipsoid and Torus:
//   implicit-sink   shootGeodesicInDirectionImplicitly   (GeodesicIntegrator, user accuracy)
//   analytic-sink   shootGeodesicInDirectionAnalytically (sphere, cylinder)
//   implicit-geod   shootGeodesicInDirectionUntilLengthReached           (Geodesic object)
//   analytic-geod   shootGeodesicInDirectionUntilLengthReachedAnalytical (Geodesic object)
//   two-point       calcGeodesicAnalytical / calcGeodesicUsingOrthogonalMethod
// and checks every returned knot sequence against harness-side references that use *no*
// library geometry code: own implicit functions/gradients/Hessians/Gaussian curvature, the
// closed forms for sphere (great circle, j=r sin(s/r)) and cylinder (helix, j=s), and an own
// RK4 geodesic + Jacobi-field integrator (Richardson-checked) for ellipsoid and torus.
//
// Legal-client preconditions (cases outside are not generated / are skipped with a reason):
//  * positive radii, torus tube radius < 0.7 torus radius, ellipsoid axis ratio <= 4;
//  * start point on the surface and unit tangent in the tangent plane, except in the
//    "approx-start" sub-class of the sink API whose documentation promises projection
//    (perturbation <= 1e-3 relative);
//  * requested length > 0, number of analytic knots >= 2;
//  * cross-method / end-to-end comparisons only where the harness-computed error
//    amplification (Jacobi fields) is <= 1e4; two-point recovery only when there is no
//    conjugate point on the segment (reference j_rot(s) >= 0.2 s).
#include "SimTKmath.h"
#include "vh.h"
#include <iostream>
#include <sstream>
using namespace SimTK;
using namespace vh;

static const double EPS = 2.220446049250313e-16;
static inline Json jV3(const Vec3& v) { return Json::arr().push(v[0]).push(v[1]).push(v[2]); }

// ------------------------------------------------------------------ harness surface model
enum Kind { K_Sphere, K_Cylinder, K_Ellipsoid, K_Torus, K_Count };
static const char* kindName(int k) { static const char* n[] = {"sphere", "cylinder", "ellipsoid", "torus"}; return n[k]; }

struct Surf {
    int kind = K_Sphere;
    double r = 1;          // sphere / cylinder radius, torus tube radius
    Vec3 abc = Vec3(1);    // ellipsoid semi axes
    double R = 2;          // torus radius
    double charR = 1;      // radius defining "one circumference"
    double size = 1;       // largest extent (scale of positions)
    double kmax = 1;       // bound on |normal curvature|

    static double sq(double x) { return x * x; }
    double rho(const Vec3& p) const { return std::sqrt(p[0] * p[0] + p[1] * p[1]); }
    // level function phi, increasing outwards
    double phi(const Vec3& p) const {
        switch (kind) {
        case K_Sphere: return p.normSqr() - r * r;
        case K_Cylinder: return p[0] * p[0] + p[1] * p[1] - r * r;
        case K_Ellipsoid: return sq(p[0] / abc[0]) + sq(p[1] / abc[1]) + sq(p[2] / abc[2]) - 1;
        default: return sq(rho(p) - R) + p[2] * p[2] - r * r;
        }
    }
    Vec3 grad(const Vec3& p) const {
        switch (kind) {
        case K_Sphere: return 2 * p;
        case K_Cylinder: return Vec3(2 * p[0], 2 * p[1], 0);
        case K_Ellipsoid: return Vec3(2 * p[0] / sq(abc[0]), 2 * p[1] / sq(abc[1]), 2 * p[2] / sq(abc[2]));
        default: { double h = rho(p), f = 2 * (h - R) / h; return Vec3(f * p[0], f * p[1], 2 * p[2]); }
        }
    }
    Mat33 hess(const Vec3& p) const {
        Mat33 H(0.0);
        switch (kind) {
        case K_Sphere: H(0, 0) = H(1, 1) = H(2, 2) = 2; break;
        case K_Cylinder: H(0, 0) = H(1, 1) = 2; break;
        case K_Ellipsoid: for (int i = 0; i < 3; ++i) H(i, i) = 2 / sq(abc[i]); break;
        default: {
            double h = rho(p), h2 = h * h, h3 = h2 * h, d = h - R, x = p[0], y = p[1];
            H(0, 0) = 2 * (x * x / h2 + d * y * y / h3);
            H(1, 1) = 2 * (y * y / h2 + d * x * x / h3);
            H(0, 1) = H(1, 0) = 2 * (x * y / h2 - d * x * y / h3);
            H(2, 2) = 2;
        }
        }
        return H;
    }
    Vec3 normal(const Vec3& p) const { Vec3 g = grad(p); return g / g.norm(); }
    // signed distance to the surface (exact for sphere/cylinder/torus, first order for ellipsoid)
    double dist(const Vec3& p) const {
        switch (kind) {
        case K_Sphere: return p.norm() - r;
        case K_Cylinder: return rho(p) - r;
        case K_Ellipsoid: return phi(p) / grad(p).norm();
        default: return std::sqrt(sq(rho(p) - R) + p[2] * p[2]) - r;
        }
    }
    // the function the library's geodesic integrator constrains (ContactGeometryImpl::calcSurfaceValue:
    // r^2-|p|^2 for sphere and cylinder -- *not* their getImplicitFunction(), which is 1-|p|^2/r^2 --
    // and the dimensionless implicit function for ellipsoid and torus) and |its gradient|
    double fLib(const Vec3& p) const {
        switch (kind) {
        case K_Sphere: return r * r - p.normSqr();
        case K_Cylinder: return r * r - (p[0] * p[0] + p[1] * p[1]);
        case K_Ellipsoid: return -phi(p);
        default: return 1 - (sq(R - rho(p)) + p[2] * p[2]) / (r * r);
        }
    }
    double gLibNorm(const Vec3& p) const {
        switch (kind) {
        case K_Sphere: return 2 * p.norm();
        case K_Cylinder: return 2 * rho(p);
        case K_Ellipsoid: return grad(p).norm();
        default: return 2 * std::sqrt(sq(rho(p) - R) + p[2] * p[2]) / (r * r);
        }
    }
    // Gaussian curvature, closed forms
    double gaussK(const Vec3& p) const {
        switch (kind) {
        case K_Sphere: return 1 / (r * r);
        case K_Cylinder: return 0;
        case K_Ellipsoid: {
            double a2 = sq(abc[0]), b2 = sq(abc[1]), c2 = sq(abc[2]);
            double w = p[0] * p[0] / (a2 * a2) + p[1] * p[1] / (b2 * b2) + p[2] * p[2] / (c2 * c2);
            return 1 / (a2 * b2 * c2 * w * w);
        }
        default: { double h = rho(p); double cosT = (h - R) / r; return cosT / (r * h); }
        }
    }
    // normal curvature in unit tangent direction t (positive = convex)
    double normalCurv(const Vec3& p, const Vec3& t) const { return (~t * (hess(p) * t)) / grad(p).norm(); }
    // project a nearby point onto the surface along the gradient
    Vec3 project(Vec3 p) const {
        for (int it = 0; it < 8; ++it) { Vec3 g = grad(p); double f = phi(p); p -= g * (f / (~g * g)); }
        return p;
    }
    Json toJson() const {
        return Json::obj().set("kind", kindName(kind)).set("r", r).set("abc", jV3(abc)).set("R", R);
    }
};

// full reference state
struct RefState { Vec3 p, t; double jr = 0, jrd = 1, jt = 1, jtd = 0; };

// closed-form / numerical advance of a geodesic + Jacobi scalars by arc length h
static void derivs(const Surf& S, const double y[10], double yd[10]) {
    Vec3 p(y[0], y[1], y[2]), v(y[3], y[4], y[5]);
    Vec3 g = S.grad(p); Mat33 H = S.hess(p);
    double L = (~v * (H * v)) / (~g * g);
    double K = S.gaussK(p);
    yd[0] = v[0]; yd[1] = v[1]; yd[2] = v[2];
    yd[3] = -L * g[0]; yd[4] = -L * g[1]; yd[5] = -L * g[2];
    yd[6] = y[7]; yd[7] = -K * y[6];
    yd[8] = y[9]; yd[9] = -K * y[8];
}
static void rk4Run(const Surf& S, RefState& st, double h, int n) {
    double y[10] = {st.p[0], st.p[1], st.p[2], st.t[0], st.t[1], st.t[2], st.jr, st.jrd, st.jt, st.jtd};
    double hs = h / n;
    for (int k = 0; k < n; ++k) {
        double k1[10], k2[10], k3[10], k4[10], tmp[10];
        derivs(S, y, k1);
        for (int i = 0; i < 10; ++i) tmp[i] = y[i] + 0.5 * hs * k1[i];
        derivs(S, tmp, k2);
        for (int i = 0; i < 10; ++i) tmp[i] = y[i] + 0.5 * hs * k2[i];
        derivs(S, tmp, k3);
        for (int i = 0; i < 10; ++i) tmp[i] = y[i] + hs * k3[i];
        derivs(S, tmp, k4);
        for (int i = 0; i < 10; ++i) y[i] += hs / 6 * (k1[i] + 2 * k2[i] + 2 * k3[i] + k4[i]);
        // keep on the manifold (removes the only secular drift)
        Vec3 p = S.project(Vec3(y[0], y[1], y[2]));
        Vec3 n = S.normal(p); Vec3 v(y[3], y[4], y[5]); v -= n * (~n * v); v /= v.norm();
        y[0] = p[0]; y[1] = p[1]; y[2] = p[2]; y[3] = v[0]; y[4] = v[1]; y[5] = v[2];
    }
    st.p = Vec3(y[0], y[1], y[2]); st.t = Vec3(y[3], y[4], y[5]); st.jr = y[6]; st.jrd = y[7]; st.jt = y[8]; st.jtd = y[9];
}
// Advance; returns an estimate of the reference's own error (absolute, positions & directions).
static double advance(const Surf& S, RefState& st, double h) {
    if (S.kind == K_Sphere) {
        double r = S.r, a = h / r, ca = std::cos(a), sa = std::sin(a);
        Vec3 e = st.p / st.p.norm();
        Vec3 p = r * (e * ca + st.t * sa), t = -e * sa + st.t * ca;
        double jr = st.jr * ca + st.jrd * r * sa, jrd = -st.jr * sa / r + st.jrd * ca;
        double jt = st.jt * ca + st.jtd * r * sa, jtd = -st.jt * sa / r + st.jtd * ca;
        st.p = p; st.t = t; st.jr = jr; st.jrd = jrd; st.jt = jt; st.jtd = jtd;
        return 16 * EPS * (r + std::fabs(h));
    }
    if (S.kind == K_Cylinder) {
        double r = S.r, w = (st.p[0] * st.t[1] - st.p[1] * st.t[0]) / (r * r), a = w * h, ca = std::cos(a), sa = std::sin(a);
        double rr = std::sqrt(st.p[0] * st.p[0] + st.p[1] * st.p[1]);
        double x = st.p[0] * r / rr, y = st.p[1] * r / rr;
        Vec3 p(x * ca - y * sa, x * sa + y * ca, st.p[2] + st.t[2] * h);
        Vec3 t(st.t[0] * ca - st.t[1] * sa, st.t[0] * sa + st.t[1] * ca, st.t[2]);
        st.jr += st.jrd * h; st.jt += st.jtd * h;
        st.p = p; st.t = t;
        return 16 * EPS * (r + std::fabs(h) + std::fabs(p[2]));
    }
    // numerical: substep 0.01 radius of curvature, Richardson estimate from n and 2n
    int n = std::max(2, (int)std::ceil(std::fabs(h) * S.kmax / 0.01));
    RefState a = st, b = st;
    rk4Run(S, a, h, n); rk4Run(S, b, h, 2 * n);
    double e = (a.p - b.p).norm() + (a.t - b.t).norm() * S.size + std::fabs(a.jr - b.jr) + std::fabs(a.jt - b.jt) * S.size;
    st = b;
    return e / 8 + 16 * EPS * (S.size + std::fabs(h));   // (RK4: true error of b ~ e/15)
}

// ------------------------------------------------------------------ knot sequences
struct Knot { double s; Vec3 p, t; double jr, jrd, jt, jtd; };
struct SeqInfo {
    std::string tag;          // "<method>:<surface>"
    bool implicit = false;
    double acc = 0;           // integrator accuracy (absolute, all state components)
    double ctol = 0;          // constraint tolerance (library's dimensionless f)
    bool hasJt = true;        // translational Jacobi scalars reported
    bool hasJ = true;
    double cond = 1;          // rounding amplification of an analytic formula (documented where it is set)
};

static bool finite3(const Vec3& v) { return std::isfinite(v[0]) && std::isfinite(v[1]) && std::isfinite(v[2]); }

struct PathBound { double JR = 0, JRD = 1, JT = 1, JTD = 0; };   // sup of |j| along the reference path

// Generic oracles on a knot sequence. Returns false if the sequence is unusable (NaN...).
static bool checkSequence(Ctx& c, const Surf& S, const std::vector<Knot>& kn, double L, const SeqInfo& q,
                          PathBound* boundOut, RefState* endRef, double* endRefErr) {
    const std::string& tag = q.tag;
    auto W = [&](const char* what, int i) {
        return [&, what, i]() {
            Json j = Json::obj().set("surface", S.toJson()).set("method", tag).set("what", what).set("knot", i).set("nknots", (int)kn.size()).set("L", L);
            if (i >= 0 && i < (int)kn.size()) j.set("s", kn[i].s).set("p", jV3(kn[i].p)).set("t", jV3(kn[i].t));
            if (!kn.empty()) j.set("p0", jV3(kn[0].p)).set("t0", jV3(kn[0].t));
            if (q.implicit) j.set("acc", q.acc).set("ctol", q.ctol);
            return j;
        };
    };
    int N = (int)kn.size();
    if (!c.require("knots:at-least-two:" + tag, N >= 2, W("fewer than two knots returned", -1))) return false;
    for (int i = 0; i < N; ++i) {
        bool fin = std::isfinite(kn[i].s) && finite3(kn[i].p) && finite3(kn[i].t);
        if (q.hasJ) fin = fin && std::isfinite(kn[i].jr) && std::isfinite(kn[i].jrd);
        if (q.hasJ && q.hasJt) fin = fin && std::isfinite(kn[i].jt) && std::isfinite(kn[i].jtd);
        if (!c.require("finite:" + tag, fin, W("NaN/Inf in a returned knot", i))) return false;
    }
    // --- arc-length parameters
    c.check("arclen-start:" + tag, std::fabs(kn[0].s), 0.0, W("first knot not at arc length 0", 0));
    c.check("arclen-total:" + tag, std::fabs(kn[N - 1].s - L), 8 * EPS * L, W("last knot's arc length differs from the requested length", N - 1));
    {
        int bad = -1;
        for (int i = 0; i + 1 < N; ++i) if (!(kn[i + 1].s > kn[i].s)) { bad = i + 1; break; }
        c.require("arclen-increasing:" + tag, bad < 0, W("arc-length parameters not strictly increasing", bad));
        if (bad >= 0) return false;
    }
    // position / direction error budgets of one step
    const double posLoc = q.implicit ? q.acc : 64 * EPS * (S.size + L) * q.cond;
    const double dirLoc = q.implicit ? q.acc : 64 * EPS * (1 + L * S.kmax) * q.cond;
    // --- per knot: on surface, unit tangent, tangent in tangent plane
    double wOn = 0, wUnit = 0, wPerp = 0, tolOnMin = 0; int iOn = 0, iPerp = 0, iUnit = 0;
    for (int i = 0; i < N; ++i) {
        const Knot& k = kn[i];
        double on, tolOn;
        if (q.implicit) { on = std::fabs(S.fLib(k.p)); tolOn = q.ctol + 64 * EPS; }            // documented: |f| <= constraintTolerance
        else { on = std::fabs(S.dist(k.p)); tolOn = 8 * EPS * (N + 16) * (S.size + std::fabs(k.p[2])) * q.cond; }
        if (on / tolOn >= wOn) { wOn = on / tolOn; iOn = i; tolOnMin = tolOn; }
        double un = std::fabs(k.t.norm() - 1);
        if (un >= wUnit) { wUnit = un; iUnit = i; }
        Vec3 n = S.normal(k.p);
        double pe = std::fabs(~n * k.t);
        double tolPe = q.implicit ? (q.ctol / S.gLibNorm(k.p) + 64 * EPS) : 8 * EPS * (N + 16);
        if (pe / tolPe >= wPerp) { wPerp = pe / tolPe; iPerp = i; }
    }
    c.check("onsurface:" + tag, wOn * tolOnMin, tolOnMin, W(q.implicit ? "|f(knot)| exceeds the constraint tolerance" : "knot point off the surface", iOn));
    c.check("tangent-unit:" + tag, wUnit, q.implicit ? 8 * EPS : 4 * EPS * (N + 16), W("tangent not unit", iUnit));
    c.check("tangent-perp-normal:" + tag, wPerp, 1.0, W("tangent has a component along the surface normal (ratio to tolerance)", iPerp));
    // --- consecutive knots: chord vs arc, tangent = dp/ds (trapezoid), FD geodesic curvature
    double wChordHi = 0, wChordLo = 0, wTrap = 0, wKg = 0; int iCh = 0, iCl = 0, iTr = 0, iKg = 0; int nTrap = 0, nKg = 0;
    for (int i = 0; i + 1 < N; ++i) {
        const Knot &a = kn[i], &b = kn[i + 1];
        double h = b.s - a.s, hk = h * S.kmax;
        double chord = (b.p - a.p).norm();
        double hi = (chord - h) / (4 * EPS * h + 2 * posLoc);          // chord must not exceed the arc
        if (hi > wChordHi) { wChordHi = hi; iCh = i + 1; }
        if (hk <= 1.5) {
            double lo = (h * (1 - hk * hk / 16) - chord) / (4 * EPS * h + 2 * posLoc);   // arc cannot be much longer than its chord
            if (lo > wChordLo) { wChordLo = lo; iCl = i + 1; }
        }
        if (hk <= 0.5) {
            ++nTrap;
            Vec3 tr = (b.p - a.p) - (a.t + b.t) * (h / 2);
            double x = tr.norm() / (h * hk * hk + 2 * posLoc + h * dirLoc);
            if (x > wTrap) { wTrap = x; iTr = i + 1; }
        }
        if (hk <= 0.3) {
            ++nKg;
            Vec3 ba = a.t % S.normal(a.p), bb = b.t % S.normal(b.p), bm = ba + bb;
            double nb = bm.norm();
            if (nb > 1) {
                double kg = std::fabs(~(b.t - a.t) * bm) / (nb * h);
                double x = kg / (S.kmax * hk * hk + 4 * dirLoc / h);
                if (x > wKg) { wKg = x; iKg = i + 1; }
            }
        }
    }
    c.check("chord-le-arc:" + tag, wChordHi, 1.0, W("consecutive knots are further apart than their arc-length difference", iCh));
    c.check("arc-vs-chord:" + tag, wChordLo, 1.0, W("arc-length difference much larger than the chord for a short step", iCl));
    if (nTrap) c.check("tangent-is-dpds:" + tag, wTrap, 1.0, W("p(i+1)-p(i) != h (t(i)+t(i+1))/2 beyond O(h^3 k^2)", iTr));
    if (nKg) c.check("geodesic-curvature-fd:" + tag, wKg, 1.0, W("finite-difference geodesic curvature not negligible (ratio to O(h^2 k^3) + noise)", iKg));
    c.obs("fd-curvature-intervals:" + std::string(q.implicit ? "implicit" : "analytic"), nKg);

    // --- step by step against the reference started at the library's own knot
    double wSp = 0, wSt = 0, wSj = 0; int iSp = 0, iSt = 0, iSj = 0;
    PathBound B;
    RefState whole; whole.p = kn[0].p; whole.t = kn[0].t; double wholeErr = 0;
    // the full-path reference is advanced knot to knot so that sup|j| is sampled along the way
    for (int i = 0; i + 1 < N; ++i) {
        const Knot &a = kn[i], &b = kn[i + 1];
        double h = b.s - a.s;
        RefState st; st.p = a.p; st.t = a.t; st.jr = a.jr; st.jrd = a.jrd; st.jt = a.jt; st.jtd = a.jtd;
        if (!q.hasJ) { st.jr = 0; st.jrd = 1; }
        if (!q.hasJ || !q.hasJt) { st.jt = 1; st.jtd = 0; }
        double re = advance(S, st, h);
        // local growth of an error made at the step start: bounded by (1 + h*kmax)^2-ish; the step error itself <= acc
        double g = 1 + h * S.kmax;
        double tolP = 20 * posLoc * g + re, tolT = 20 * dirLoc * g + re / S.size;
        double x = (st.p - b.p).norm() / tolP; if (x > wSp) { wSp = x; iSp = i + 1; }
        x = (st.t - b.t).norm() / tolT; if (x > wSt) { wSt = x; iSt = i + 1; }
        if (q.hasJ) {
            // the integrator bounds the local error of every state component by the same absolute
            // accuracy; rounding and the reference's own error are scaled to each component's unit
            // (jr: length, jrd and jt: dimensionless, jtd: 1/length)
            const double la = 20 * (q.implicit ? q.acc : 0.0) * g, rr = 256 * EPS * (1 + h * S.kmax);
            double sr = std::fabs(a.jr) + std::fabs(a.jrd) * h + S.size, stt = std::fabs(a.jt) + std::fabs(a.jtd) * h + 1;
            x = std::fabs(st.jr - b.jr) / (la + rr * sr + re);
            x = std::max(x, std::fabs(st.jrd - b.jrd) / (la + rr * sr / S.charR + re / S.size));
            if (q.hasJt) {
                x = std::max(x, std::fabs(st.jt - b.jt) / (la + rr * stt + re / S.size));
                x = std::max(x, std::fabs(st.jtd - b.jtd) / (la + rr * stt / S.charR + re / (S.size * S.charR)));
            }
            if (x > wSj) { wSj = x; iSj = i + 1; }
        }
        wholeErr += advance(S, whole, h) * g;
        B.JR = std::max(B.JR, std::fabs(whole.jr)); B.JRD = std::max(B.JRD, std::fabs(whole.jrd));
        B.JT = std::max(B.JT, std::fabs(whole.jt)); B.JTD = std::max(B.JTD, std::fabs(whole.jtd));
    }
    c.check("step-vs-reference-point:" + tag, wSp, 1.0, W("knot i+1 is not the geodesic continuation of knot i (position; ratio to tolerance)", iSp));
    c.check("step-vs-reference-tangent:" + tag, wSt, 1.0, W("knot i+1 is not the geodesic continuation of knot i (tangent; ratio to tolerance)", iSt));
    if (q.hasJ) c.check("step-vs-reference-jacobi:" + tag, wSj, 1.0, W("Jacobi scalars at knot i+1 do not continue those of knot i under j''+K j=0 (ratio to tolerance)", iSj));
    if (boundOut) *boundOut = B;
    if (endRef) *endRef = whole;
    if (endRefErr) *endRefErr = wholeErr;
    return true;
}

// Tolerances for an end-to-end comparison after nsteps steps of local error <= loc.
struct EndTol { double p, t, jr, jrd, jt, jtd; };
static EndTol endTol(const Surf& S, const SeqInfo& q, int nsteps, double L, const PathBound& B, double refErr) {
    double posLoc = q.implicit ? q.acc : 64 * EPS * (S.size + L) * q.cond;
    double dirLoc = q.implicit ? q.acc : 64 * EPS * (1 + L * S.kmax) * q.cond;
    double n = 10.0 * nsteps;
    EndTol e;
    e.p = n * (posLoc * (1 + B.JT) + dirLoc * B.JR) + refErr;
    e.t = n * (posLoc * B.JTD + dirLoc * (1 + B.JRD)) + refErr / S.size;
    // Jacobi scalars: own local error plus the effect of the path error on K(s) (second order; covered by the factor)
    double jl = q.implicit ? q.acc : 64 * EPS * (B.JR + S.size);
    e.jr = n * jl * (1 + B.JT + B.JR / S.charR) + refErr;
    e.jrd = n * jl * (1 + B.JTD * S.charR + B.JRD) / S.charR + refErr / S.charR;
    e.jt = e.jr / S.charR + refErr / S.charR;
    e.jtd = e.jrd / S.charR;
    return e;
}

// ------------------------------------------------------------------ library wrappers
struct CoutCapture {
    std::ostringstream ss; std::streambuf* old;
    CoutCapture() { old = std::cout.rdbuf(ss.rdbuf()); }
    ~CoutCapture() { std::cout.rdbuf(old); }
    std::string take() { std::string s = ss.str(); ss.str(""); return s; }
};

// The Geodesic-object interfaces leave the translational ("positional") Jacobi scalars as NaN
// on some paths (documented "XXX"/"TODO" in the sources): all-NaN = not provided (counted),
// partly NaN = judged as non-finite output.
static bool jtNotProvided(const std::vector<struct Knot>& kn);
static std::vector<Knot> fromGeodesic(const Geodesic& g, bool& sizesOk) {
    std::vector<Knot> kn;
    int n = g.getNumPoints();
    sizesOk = (int)g.getArcLengths().size() == n && (int)g.getDirectionalSensitivityPtoQ().size() == n &&
              (int)g.getCurvatures().size() == n && (int)g.getPositionalSensitivityPtoQ().size() == n;
    if (!sizesOk) return kn;
    for (int i = 0; i < n; ++i) {
        Knot k; k.s = g.getArcLengths()[i]; k.p = g.getFrenetFrames()[i].p(); k.t = Vec3(g.getFrenetFrames()[i].y());
        k.jr = g.getDirectionalSensitivityPtoQ()[i][0]; k.jrd = g.getDirectionalSensitivityPtoQ()[i][1];
        k.jt = g.getPositionalSensitivityPtoQ()[i][0]; k.jtd = g.getPositionalSensitivityPtoQ()[i][1];
        kn.push_back(k);
    }
    return kn;
}

static bool jtNotProvided(const std::vector<Knot>& kn) {
    for (auto& k : kn) if (!(std::isnan(k.jt) && std::isnan(k.jtd))) return false;
    return !kn.empty();
}

// Frenet-frame and curvature bookkeeping of a Geodesic object
static void checkGeodesicObject(Ctx& c, const Surf& S, const Geodesic& g, const std::string& tag, bool exactFrames) {
    int n = g.getNumPoints();
    double wN = 0, wX = 0, wK = 0; int iN = 0, iX = 0, iK = 0;
    for (int i = 0; i < n; ++i) {
        const Transform& F = g.getFrenetFrames()[i];
        Vec3 nrm = S.normal(F.p());
        double e = (Vec3(F.z()) - nrm).norm(); if (e > wN) { wN = e; iN = i; }
        e = (Vec3(F.x()) - Vec3(F.y()) % Vec3(F.z())).norm(); if (e > wX) { wX = e; iX = i; }
        double kref = S.normalCurv(F.p(), Vec3(F.y()));
        e = std::fabs(g.getCurvatures()[i] - kref) / (S.kmax); if (e > wK) { wK = e; iK = i; }
    }
    auto W = [&](const char* what, int i) { return [&, what, i]() { return Json::obj().set("surface", S.toJson()).set("method", tag).set("what", what).set("knot", i).set("p", jV3(g.getFrenetFrames()[i].p())); }; };
    // a point within ctol of the surface has a normal within ~ctol*k of the true one
    double tolN = exactFrames ? 64 * EPS : 1e-8;
    c.check("frenet-z-is-normal:" + tag, wN, tolN, W("Frenet z axis is not the outward surface normal", iN));
    c.check("frenet-x-is-tXn:" + tag, wX, 64 * EPS, W("Frenet x axis is not t x n", iX));
    c.check("curvature-array:" + tag, wK, exactFrames ? 1e-12 : 1e-7, W("stored normal curvature differs from t'Ht/|g| (relative to kmax)", iK));
}

static Vec3 anyTangent(const Surf& S, const Vec3& p, Rng& r) {
    Vec3 n = S.normal(p);
    for (;;) {
        Vec3 v(r.normal(), r.normal(), r.normal());
        v -= n * (~n * v);
        if (v.norm() > 0.3) return v / v.norm();
    }
}
static Vec3 rotateAbout(const Vec3& t, const Vec3& n, double th) { return t * std::cos(th) + (n % t) * std::sin(th); }

static const char* lenName(int k) { static const char* n[] = {"tiny", "short", "medium", "long"}; return n[k]; }

// ------------------------------------------------------------------ one case
static void runCase(Ctx& c, long idx, Rng& r) {
    CoutCapture cap;   // the library chats on std::cout; keep the protocol channel clean
    const int kind = (int)(idx % 4), lenClass = (int)((idx / 4) % 4), variant = (int)((idx / 16) % 3);
    // ---------------- surface
    Surf S; S.kind = kind;
    double scale = r.logUni(0.1, 10.0);
    ContactGeometry geom;
    switch (kind) {
    case K_Sphere: S.r = scale; S.charR = S.size = S.r; S.kmax = 1 / S.r; geom = ContactGeometry::Sphere(S.r); break;
    case K_Cylinder: S.r = scale; S.charR = S.size = S.r; S.kmax = 1 / S.r; geom = ContactGeometry::Cylinder(S.r); break;
    case K_Ellipsoid: {
        double a = r.uni(0.5, 2.0), b = r.uni(0.5, 2.0), d = r.uni(0.5, 2.0);
        if (r.coin(0.1)) b = a;                   // spheroid
        S.abc = Vec3(a, b, d) * scale;
        double mx = std::max(a, std::max(b, d)) * scale, mn = std::min(a, std::min(b, d)) * scale;
        S.charR = (a + b + d) / 3 * scale; S.size = mx; S.kmax = mx / (mn * mn);
        geom = ContactGeometry::Ellipsoid(S.abc); break;
    }
    default: {
        S.R = scale; S.r = scale * r.uni(0.15, 0.7);
        S.charR = S.r; S.size = S.R + S.r; S.kmax = std::max(1 / S.r, 1 / (S.R - S.r));
        geom = ContactGeometry::Torus(S.R, S.r); break;
    }
    }
    const std::string sname = kindName(kind);
    // ---------------- start point, direction
    Vec3 p0;
    {
        Vec3 u(r.normal(), r.normal(), r.normal()); while (u.norm() < 1e-3) u = Vec3(r.normal(), r.normal(), r.normal()); u /= u.norm();
        switch (kind) {
        case K_Sphere: p0 = S.r * u; break;
        case K_Cylinder: { double a = r.sym(3.1415926), z = r.sym(3 * S.r); p0 = Vec3(S.r * std::cos(a), S.r * std::sin(a), z); break; }
        case K_Ellipsoid: p0 = Vec3(S.abc[0] * u[0], S.abc[1] * u[1], S.abc[2] * u[2]); break;
        default: { double th = r.sym(3.1415926), ph = r.sym(3.1415926); double h = S.R + S.r * std::cos(th); p0 = Vec3(h * std::cos(ph), h * std::sin(ph), S.r * std::sin(th)); }
        }
        p0 = S.project(p0);
    }
    Vec3 t0 = anyTangent(S, p0, r);
    std::string dirClass = "general";
    if (r.coin(0.2)) {
        // special directions: along / across the symmetry axis z
        Vec3 n = S.normal(p0), ez(0, 0, 1), a = ez - n * (~n * ez);
        if (a.norm() > 0.2) {
            a /= a.norm();
            if (r.coin()) { t0 = a; dirClass = "meridian"; } else { t0 = n % a; dirClass = "parallel"; }
            if (r.coin()) t0 = -t0;
        }
    }
    static const double lo[] = {0.01, 0.1, 0.5, 1.0}, hi[] = {0.1, 0.5, 1.0, 3.0};
    double frac = r.uni(lo[lenClass], hi[lenClass]);
    if (variant == 2 && lenClass == 3) frac = r.uni(1.0, 1.5);
    const double L = frac * 2 * 3.14159265358979323846 * S.charR;
    static const double accRel[] = {1e-5, 1e-7, 1e-9};
    const double acc = accRel[variant] * S.charR;
    static const double ctols[] = {1e-8, 1e-10, 1e-12};
    const double ctol = ctols[r.integer(0, 2)];
    const bool approxStart = r.coin(0.2);
    Vec3 pIn = p0, tIn = t0;
    double pert = 0;
    if (approxStart) {
        pert = r.logUni(1e-6, 1e-3);
        pIn = p0 + S.normal(p0) * (pert * S.charR * (r.coin() ? 1 : -1));
        tIn = t0 + S.normal(p0) * (pert * 50 * r.sym(1.0));   // not unit, not tangent
        tIn *= r.uni(0.5, 2.0);
    }
    Json desc = Json::obj().set("surface", S.toJson()).set("p0", jV3(p0)).set("t0", jV3(t0)).set("L", L).set("acc", acc).set("ctol", ctol)
                    .set("approxStart", approxStart).set("dir", dirClass);
    auto WD = [&](const char* what) { return [&, what]() { Json j = desc; j.set("what", what); return j; }; };
    std::string covBase = sname + "/";
    std::string covTail = std::string("/") + lenName(lenClass) + (approxStart ? "/approx-start" : "") + (dirClass != "general" ? "/special-dir" : "");

    // ---------------- A: implicit, sink API
    std::vector<Knot> knA; bool okA = false; PathBound BA; RefState endA; double endAErr = 0;
    SeqInfo qA; qA.tag = "implicit-sink:" + sname; qA.implicit = true; qA.acc = acc; qA.ctol = ctol;
    c.setPhase("shootGeodesicInDirectionImplicitly " + sname);
    try {
        double h0 = r.coin() ? 0.1 : r.logUni(1e-3, 1.0) * S.charR;
        geom.shootGeodesicInDirectionImplicitly(pIn, tIn, L, h0, acc, ctol, 50,
                                                [&](const ContactGeometry::GeodesicKnotPoint& k) {
                                                    Knot q; q.s = k.arcLength; q.p = k.point; q.t = Vec3(k.tangent); q.jr = k.jacobiRot; q.jrd = k.jacobiRotDot; q.jt = k.jacobiTrans; q.jtd = k.jacobiTransDot;
                                                    knA.push_back(q);
                                                });
        okA = true;
    } catch (const std::exception& ex) {
        std::string m = ex.what();
        if (m.find("step count exceeded") != std::string::npos) { c.obs("implicit-step-limit-exceeded"); c.skip("implicit-step-limit"); }
        else c.viol("exception:implicit-sink:" + sname, Json::obj().set("case", desc).set("what", firstLine(m, 400)));
    }
    if (okA) {
        okA = checkSequence(c, S, knA, L, qA, &BA, &endA, &endAErr);
        if (okA) {
            c.cover(covBase + "implicit-sink" + covTail + "/acc" + std::to_string(variant));
            c.obs("implicit-steps", (long)knA.size() - 1);
            // the first knot is the (projected) start
            double d0 = (knA[0].p - p0).norm(), a0 = (knA[0].t - t0).norm();
            if (!approxStart) {
                c.check("start-kept:implicit-sink:" + sname, d0, ctol * S.size + 64 * EPS * S.size, WD("first knot differs from an on-surface start point"));
                c.check("start-tangent-kept:implicit-sink:" + sname, a0, 64 * EPS, WD("first tangent differs from a valid unit tangent"));
            } else {
                c.check("start-projected:implicit-sink:" + sname, d0, 4 * pert * S.charR, WD("projected start far from the approximate start"));
                c.check("start-tangent-projected:implicit-sink:" + sname, a0, 400 * pert + 1e-9, WD("projected start tangent far from the tangential part of the given direction"));
            }
        }
    }
    // end-to-end against closed form / Richardson reference
    const bool wellCond = okA && (BA.JR / S.charR + BA.JT + BA.JRD + BA.JTD * S.charR) <= 1e4;
    if (okA) {
        if (!wellCond) c.skip("ill-conditioned-geodesic-flow");
        else {
            EndTol e = endTol(S, qA, (int)knA.size() - 1, L, BA, endAErr);
            const Knot& z = knA.back();
            c.check("end-vs-reference-point:implicit-sink:" + sname, (z.p - endA.p).norm(), e.p, WD("end point differs from closed form / reference geodesic"));
            c.check("end-vs-reference-tangent:implicit-sink:" + sname, (z.t - endA.t).norm(), e.t, WD("end tangent differs from closed form / reference geodesic"));
            c.check("end-vs-reference-jacobi-rot:implicit-sink:" + sname, std::fabs(z.jr - endA.jr), e.jr, WD("rotational Jacobi scalar at the end differs from closed form / reference"));
            c.check("end-vs-reference-jacobi-rot-dot:implicit-sink:" + sname, std::fabs(z.jrd - endA.jrd), e.jrd, WD("d/ds of rotational Jacobi scalar differs"));
            c.check("end-vs-reference-jacobi-trans:implicit-sink:" + sname, std::fabs(z.jt - endA.jt), e.jt, WD("translational Jacobi scalar at the end differs from closed form / reference"));
            c.check("end-vs-reference-jacobi-trans-dot:implicit-sink:" + sname, std::fabs(z.jtd - endA.jtd), e.jtd, WD("d/ds of translational Jacobi scalar differs"));
        }
    }

    // ---------------- B: analytic, sink API
    std::vector<Knot> knB; bool okB = false; PathBound BB; RefState endB; double endBErr = 0;
    SeqInfo qB; qB.tag = "analytic-sink:" + sname;
    bool analytic = false;
    c.setPhase("isAnalyticFormAvailable " + sname);
    analytic = geom.isAnalyticFormAvailable();
    c.require("analytic-available:" + sname, analytic == (kind == K_Sphere || kind == K_Cylinder), WD("isAnalyticFormAvailable() unexpected for this surface"));
    static const int nk[] = {2, 3, 7, 40, 200};
    const int nKnots = nk[r.integer(0, 4)];
    if (analytic) {
        c.setPhase("shootGeodesicInDirectionAnalytically " + sname);
        try {
            geom.shootGeodesicInDirectionAnalytically(pIn, tIn, L, nKnots, [&](const ContactGeometry::GeodesicKnotPoint& k) {
                Knot q; q.s = k.arcLength; q.p = k.point; q.t = Vec3(k.tangent); q.jr = k.jacobiRot; q.jrd = k.jacobiRotDot; q.jt = k.jacobiTrans; q.jtd = k.jacobiTransDot;
                knB.push_back(q);
            });
            okB = true;
        } catch (const std::exception& ex) {
            c.viol("exception:analytic-sink:" + sname, Json::obj().set("case", desc).set("what", firstLine(ex.what(), 400)));
        }
        if (okB) {
            c.require("knot-count:analytic-sink:" + sname, (int)knB.size() == nKnots, WD("number of knots differs from numberOfKnotPoints"));
            okB = checkSequence(c, S, knB, L, qB, &BB, &endB, &endBErr);
        }
        if (okB) {
            c.cover(covBase + "analytic-sink" + covTail + "/n" + std::to_string(nKnots));
            // equal spacing is documented
            double wsp = 0; for (int i = 0; i < (int)knB.size(); ++i) wsp = std::max(wsp, std::fabs(knB[i].s - L * i / (nKnots - 1)));
            c.check("knot-spacing:analytic-sink:" + sname, wsp, 8 * EPS * L, WD("knots not at equal arc-length intervals"));
            double d0 = (knB[0].p - p0).norm(), a0 = (knB[0].t - t0).norm();
            if (!approxStart) {
                c.check("start-kept:analytic-sink:" + sname, d0, 64 * EPS * (S.size + std::fabs(p0[2])), WD("first knot differs from an on-surface start point"));
                c.check("start-tangent-kept:analytic-sink:" + sname, a0, 64 * EPS, WD("first tangent differs from a valid unit tangent"));
            } else {
                c.check("start-projected:analytic-sink:" + sname, d0, 4 * pert * S.charR, WD("projected start far from the approximate start"));
                c.check("start-tangent-projected:analytic-sink:" + sname, a0, 400 * pert + 1e-9, WD("projected start tangent far from the tangential part of the given direction"));
            }
            EndTol e = endTol(S, qB, nKnots - 1, L, BB, endBErr);
            const Knot& z = knB.back();
            c.check("end-vs-closedform-point:analytic-sink:" + sname, (z.p - endB.p).norm(), e.p, WD("analytic end point differs from the closed form"));
            c.check("end-vs-closedform-tangent:analytic-sink:" + sname, (z.t - endB.t).norm(), e.t, WD("analytic end tangent differs from the closed form"));
            c.check("end-vs-closedform-jacobi-rot:analytic-sink:" + sname, std::fabs(z.jr - endB.jr), e.jr, WD("analytic rotational Jacobi scalar differs from the closed form"));
            c.check("end-vs-closedform-jacobi-rot-dot:analytic-sink:" + sname, std::fabs(z.jrd - endB.jrd), e.jrd, WD("analytic jacobiRotDot differs from the closed form"));
            c.check("end-vs-closedform-jacobi-trans:analytic-sink:" + sname, std::fabs(z.jt - endB.jt), e.jt, WD("analytic translational Jacobi scalar differs from the closed form"));
            c.check("end-vs-closedform-jacobi-trans-dot:analytic-sink:" + sname, std::fabs(z.jtd - endB.jtd), e.jtd, WD("analytic jacobiTransDot differs from the closed form"));
            // analytic vs implicit (same projected start up to the projection differences)
            if (okA && wellCond) {
                EndTol ea = endTol(S, qA, (int)knA.size() - 1, L, BA, 0);
                double startDiffP = (knA[0].p - knB[0].p).norm(), startDiffT = (knA[0].t - knB[0].t).norm();
                double tp = ea.p + e.p + 2 * (startDiffP * (1 + BA.JT) + startDiffT * BA.JR);
                double tt = ea.t + e.t + 2 * (startDiffP * BA.JTD + startDiffT * (1 + BA.JRD));
                c.check("analytic-vs-implicit-point:" + sname, (knA.back().p - z.p).norm(), tp, WD("analytic and implicit end points disagree"));
                c.check("analytic-vs-implicit-tangent:" + sname, (knA.back().t - z.t).norm(), tt, WD("analytic and implicit end tangents disagree"));
                c.check("analytic-vs-implicit-length:" + sname, std::fabs(knA.back().s - z.s), 8 * EPS * L, WD("analytic and implicit total lengths disagree"));
                c.check("analytic-vs-implicit-jacobi-rot:" + sname, std::fabs(knA.back().jr - z.jr), ea.jr + e.jr + 2 * (startDiffP + startDiffT * S.charR) * (1 + BA.JR / S.charR), WD("analytic and implicit rotational Jacobi scalars disagree"));
                c.check("analytic-vs-implicit-jacobi-trans:" + sname, std::fabs(knA.back().jt - z.jt), ea.jt + e.jt + 2 * (startDiffP / S.charR + startDiffT) * (1 + BA.JT), WD("analytic and implicit translational Jacobi scalars disagree"));
            }
        }
    } else if (r.coin(0.15)) {
        c.setPhase("shootGeodesicInDirectionAnalytically (unavailable) " + sname);
        bool threw = false; int got = 0;
        try { geom.shootGeodesicInDirectionAnalytically(pIn, tIn, L, nKnots, [&](const ContactGeometry::GeodesicKnotPoint&) { ++got; }); }
        catch (const std::exception&) { threw = true; }
        c.require("analytic-unavailable-throws:" + sname, threw && got == 0, WD("analytic shooter neither available nor refusing"));
        c.obs("analytic-unavailable-exception");
    }

    // ---------------- C: implicit, Geodesic object (library-fixed accuracy 1e-6, tolerance 1e-10)
    Geodesic gC; bool okC = false; std::vector<Knot> knC; PathBound BC; RefState endC; double endCErr = 0;
    SeqInfo qC; qC.tag = "implicit-geodesic:" + sname; qC.implicit = true; qC.acc = 1e-6; qC.ctol = 1e-10;
    const bool noOld = c.args.getInt("noold", 0) != 0;          // profiling aid only
    // (this interface runs a full Simbody integrator on a particle system: 5x the cost of everything
    // else in the case, so it is exercised in one accuracy variant per length class)
    const bool runC = !noOld && (variant == lenClass % 3);
    if (runC) {
        c.setPhase("shootGeodesicInDirectionUntilLengthReached " + sname);
        try { geom.shootGeodesicInDirectionUntilLengthReached(p0, UnitVec3(t0), L, GeodesicOptions(), gC); okC = true; }
        catch (const std::exception& ex) { c.viol("exception:implicit-geodesic:" + sname, Json::obj().set("case", desc).set("what", firstLine(ex.what(), 400))); }
        if (okC) {
            bool sizesOk; knC = fromGeodesic(gC, sizesOk);
            okC = c.require("geodesic-arrays-same-size:implicit-geodesic:" + sname, sizesOk, WD("Geodesic arrays have different lengths"));
        }
        if (okC && jtNotProvided(knC)) { qC.hasJt = false; c.obs("geodesic-object-translational-jacobi-not-provided:implicit-geodesic"); }
        if (okC) okC = checkSequence(c, S, knC, L, qC, &BC, &endC, &endCErr);
        if (okC) {
            c.cover(covBase + "implicit-geodesic/" + lenName(lenClass) + (dirClass != "general" ? "/special-dir" : ""));
            checkGeodesicObject(c, S, gC, qC.tag, false);
            c.check("length-getter:implicit-geodesic:" + sname, std::fabs(gC.getLength() - L), 8 * EPS * L, WD("Geodesic::getLength() != requested length"));
            c.check("start-kept:implicit-geodesic:" + sname, (knC[0].p - p0).norm(), 1e-10 * S.size + 64 * EPS * S.size, WD("first knot differs from the start point"));
            bool wc = (BC.JR / S.charR + BC.JT + BC.JRD + BC.JTD * S.charR) <= 1e4;
            if (wc) {
                EndTol e = endTol(S, qC, (int)knC.size() - 1, L, BC, endCErr);
                const Knot& z = knC.back();
                c.check("end-vs-reference-point:implicit-geodesic:" + sname, (z.p - endC.p).norm(), e.p, WD("end point differs from closed form / reference geodesic"));
                c.check("end-vs-reference-tangent:implicit-geodesic:" + sname, (z.t - endC.t).norm(), e.t, WD("end tangent differs from closed form / reference geodesic"));
                c.check("end-vs-reference-jacobiQ:implicit-geodesic:" + sname, std::fabs(gC.getJacobiQ() - endC.jr), e.jr, WD("getJacobiQ() differs from closed form / reference"));
                c.check("end-vs-reference-jacobiQDot:implicit-geodesic:" + sname, std::fabs(gC.getJacobiQDot() - endC.jrd), e.jrd, WD("getJacobiQDot() differs from closed form / reference"));
                if (qC.hasJt) c.check("end-vs-reference-jacobiTransQ:implicit-geodesic:" + sname, std::fabs(gC.getJacobiTransQ() - endC.jt), e.jt, WD("getJacobiTransQ() differs from closed form / reference"));
                // backwards field through the public completion call: jP(0) must equal jQ(L) in magnitude
                if (r.coin(0.4)) {
                    c.setPhase("calcGeodesicReverseSensitivity " + sname);
                    bool okR = false;
                    try { geom.calcGeodesicReverseSensitivity(gC, Vec2(0, 1)); okR = true; }
                    catch (const std::exception& ex) { c.viol("exception:reverse-sensitivity:" + sname, Json::obj().set("case", desc).set("what", firstLine(ex.what(), 400))); }
                    if (okR && c.require("reverse-sensitivity-size:implicit-geodesic:" + sname, (int)gC.getDirectionalSensitivityQtoP().size() == gC.getNumPoints(), WD("QtoP sensitivity array has the wrong length"))) {
                        double jP = gC.getJacobiP(), jQ = gC.getJacobiQ();
                        c.check("jacobiP-equals-jacobiQ:implicit-geodesic:" + sname, std::fabs(std::fabs(jP) - std::fabs(jQ)), 2 * e.jr + 20 * ((int)knC.size() - 1) * 1e-6 * (1 + BC.JR / S.charR + BC.JT),
                                [&]() { Json j = desc; j.set("what", "|getJacobiP()| != |getJacobiQ()| after calcGeodesicReverseSensitivity (the Wronskian of j''+Kj=0 is constant)").set("jP", jP).set("jQ", jQ); return j; });
                        c.cover(covBase + "reverse-sensitivity/" + lenName(lenClass));
                    }
                }
                if (okA && wellCond && !approxStart) {
                    EndTol ea = endTol(S, qA, (int)knA.size() - 1, L, BA, 0);
                    c.check("implicit-sink-vs-geodesic-point:" + sname, (knA.back().p - z.p).norm(), ea.p + e.p, WD("the two implicit interfaces disagree on the end point"));
                    c.check("implicit-sink-vs-geodesic-tangent:" + sname, (knA.back().t - z.t).norm(), ea.t + e.t, WD("the two implicit interfaces disagree on the end tangent"));
                }
            } else c.skip("ill-conditioned-geodesic-flow");
        }
    }

    // ---------------- D: analytic, Geodesic object
    if (kind == K_Sphere || kind == K_Cylinder || r.coin(0.1)) {
        Geodesic gD; bool okD = false;
        SeqInfo qD; qD.tag = "analytic-geodesic:" + sname; qD.hasJt = false;
        if (kind == K_Ellipsoid || kind == K_Torus) { qD.implicit = true; qD.acc = 1e-6; qD.ctol = 1e-10; qD.hasJt = true; qD.tag = "analytic-geodesic-fallback:" + sname; }
        c.setPhase("shootGeodesicInDirectionUntilLengthReachedAnalytical " + sname);
        try { geom.shootGeodesicInDirectionUntilLengthReachedAnalytical(p0, UnitVec3(t0), L, GeodesicOptions(), gD); okD = true; }
        catch (const std::exception& ex) { c.viol("exception:" + qD.tag, Json::obj().set("case", desc).set("what", firstLine(ex.what(), 400))); }
        if (okD && gD.getNumPoints() == 0) {
            // Cylinder::Impl::shootGeodesicInDirectionUntilLengthReachedAnalytical is an empty stub in this tree
            c.obs(std::string("analytic-geodesic-returned-empty:") + sname);
            okD = false;
        }
        if (okD) {
            bool sizesOk; std::vector<Knot> knD = fromGeodesic(gD, sizesOk);
            PathBound BD; RefState endD; double endDErr = 0;
            if (qD.hasJt && jtNotProvided(knD)) { qD.hasJt = false; c.obs("geodesic-object-translational-jacobi-not-provided:analytic-geodesic"); }
            if (c.require("geodesic-arrays-same-size:" + qD.tag, sizesOk, WD("Geodesic arrays have different lengths")) &&
                checkSequence(c, S, knD, L, qD, &BD, &endD, &endDErr)) {
                c.cover(covBase + (qD.implicit ? "analytic-geodesic-fallback/" : "analytic-geodesic/") + lenName(lenClass));
                checkGeodesicObject(c, S, gD, qD.tag, !qD.implicit);
                c.check("length-getter:" + qD.tag, std::fabs(gD.getLength() - L), 8 * EPS * L, WD("Geodesic::getLength() != requested length"));
                bool wc = (BD.JR / S.charR + BD.JT + BD.JRD + BD.JTD * S.charR) <= 1e4;
                if (wc) {
                    EndTol e = endTol(S, qD, (int)knD.size() - 1, L, BD, endDErr);
                    const Knot& z = knD.back();
                    c.check("end-vs-closedform-point:" + qD.tag, (z.p - endD.p).norm(), e.p, WD("end point differs from the closed form"));
                    c.check("end-vs-closedform-tangent:" + qD.tag, (z.t - endD.t).norm(), e.t, WD("end tangent differs from the closed form"));
                    c.check("end-vs-closedform-jacobiQ:" + qD.tag, std::fabs(gD.getJacobiQ() - endD.jr), e.jr, WD("getJacobiQ() differs from the closed form"));
                    if ((int)gD.getDirectionalSensitivityQtoP().size() == gD.getNumPoints()) {
                        // backwards field: jP(s=0) must equal jQ(s=L) (Wronskian of j''+Kj=0 is constant)
                        c.check("jacobiP-equals-jacobiQ:" + qD.tag, std::fabs(std::fabs(gD.getJacobiP()) - std::fabs(gD.getJacobiQ())), e.jr * 2, WD("|getJacobiP()| != |getJacobiQ()|"));
                    }
                    if (okA && wellCond && !approxStart) {
                        EndTol ea = endTol(S, qA, (int)knA.size() - 1, L, BA, 0);
                        c.check("analytic-vs-implicit-point:" + qD.tag, (knA.back().p - z.p).norm(), ea.p + e.p, WD("Geodesic-object analytic and implicit-sink end points disagree"));
                        c.check("analytic-vs-implicit-tangent:" + qD.tag, (knA.back().t - z.t).norm(), ea.t + e.t, WD("Geodesic-object analytic and implicit-sink end tangents disagree"));
                    }
                }
            }
        }
    }

    // ---------------- E: Jacobi scalars against finite differences over the start direction / start point
    // method: analytic sink when available (exact), else implicit sink in the tight-accuracy variant
    if (wellCond && !approxStart && ((analytic && okB) || (!analytic && variant == 2 && okA))) {
        const bool useAnalytic = analytic;
        const std::vector<Knot>& base = useAnalytic ? knB : knA;
        const Knot& z = base.back();
        const std::string mtag = std::string(useAnalytic ? "analytic-sink:" : "implicit-sink:") + sname;
        Vec3 nP = S.normal(base[0].p), bP = base[0].t % nP;
        Vec3 nQ = S.normal(z.p), bQ = z.t % nQ;
        bool failed = false;
        auto shootEnd = [&](const Vec3& p, const Vec3& t) {
            Vec3 q(NaN);
            try {
                if (useAnalytic) geom.shootGeodesicInDirectionAnalytically(p, t, L, 2, [&](const ContactGeometry::GeodesicKnotPoint& k) { q = k.point; });
                else geom.shootGeodesicInDirectionImplicitly(p, t, L, 0.1, acc, 1e-12, 50, [&](const ContactGeometry::GeodesicKnotPoint& k) { q = k.point; });
            } catch (const std::exception&) { failed = true; }
            return q;
        };
        c.setPhase("finite-difference Jacobi " + mtag);
        // noise of one shot (position) seen through a difference quotient
        const int nst = (int)knA.size();
        const double shotNoise = useAnalytic ? 64 * EPS * (S.size + L) * 4 : 2.0 * nst * acc * (1 + BA.JT + BA.JR / S.charR);
        // rotation: theta about nP (right hand). jQ = -dQ/dtheta . bQ
        double d = 2e-4 * std::min(1.0, 6.0 / (L * S.kmax));
        if (!useAnalytic) d = std::max(d, 1e-3 * std::min(1.0, 6.0 / (L * S.kmax)));
        auto fdRot = [&](double dd) {
            Vec3 qp = shootEnd(base[0].p, rotateAbout(base[0].t, nP, dd)), qm = shootEnd(base[0].p, rotateAbout(base[0].t, nP, -dd));
            return -(~(qp - qm) * bQ) / (2 * dd);
        };
        double j1 = fdRot(d), j2 = fdRot(d / 2);
        // translation: start moved along bP by +-e (tangent re-projected by the shooter = parallel transport to first order)
        double e = d * S.charR;
        auto fdTrans = [&](double ee) {
            Vec3 qp = shootEnd(S.project(base[0].p + bP * ee), base[0].t), qm = shootEnd(S.project(base[0].p - bP * ee), base[0].t);
            return (~(qp - qm) * bQ) / (2 * ee);
        };
        double a1 = fdTrans(e), a2 = fdTrans(e / 2);
        if (failed) c.skip("fd-jacobi-shot-failed");
        else {
            double tolR = 1e-3 * (BA.JR + S.charR) + 10 * shotNoise / d;
            double tolT = 1e-3 * (BA.JT + 1) + 10 * shotNoise / e;
            if (std::fabs(j1 - j2) > tolR / 10 || std::fabs(a1 - a2) > tolT / 10) { c.skip("fd-jacobi-h-vs-h/2-disagree"); c.obs("fd-jacobi-inconclusive"); }
            else {
                c.check("jacobi-rot-vs-fd:" + mtag, std::fabs(j2 - z.jr), tolR, [&]() { Json j = desc; j.set("what", "jacobiRot != -dQ/dtheta.bQ by central differences").set("fd_h", j1).set("fd_h2", j2).set("lib", z.jr); return j; });
                c.check("jacobi-trans-vs-fd:" + mtag, std::fabs(a2 - z.jt), tolT, [&]() { Json j = desc; j.set("what", "jacobiTrans != dQ/d(binormal shift of P).bQ by central differences").set("fd_h", a1).set("fd_h2", a2).set("lib", z.jt); return j; });
                c.cover(covBase + "jacobi-fd/" + (useAnalytic ? "analytic" : "implicit") + "/" + lenName(lenClass));
            }
        }
    }

    // ---------------- F: two-point solvers recover the geodesic their end points came from
    if (idx % 3 == 0 && okA && !approxStart) {
        // Q = point at arc length sQ on the reference geodesic from knA[0], before any conjugate point
        const Vec3 P = knA[0].p, tP = knA[0].t;
        double sQ = std::min(L, r.uni(0.05, 0.4) * 2 * 3.14159265358979323846 * S.charR);
        if (kind == K_Cylinder) {
            double w = std::fabs(P[0] * tP[1] - P[1] * tP[0]) / (S.r * S.r);
            if (w * sQ > 2.5) sQ = 2.5 / w;
        }
        RefState st; st.p = P; st.t = tP;
        // march in 16 pieces to guard against conjugate points
        bool conj = false; double refErr = 0;
        for (int k = 0; k < 16; ++k) { refErr += advance(S, st, sQ / 16); if (st.jr < 0.2 * sQ * (k + 1) / 16) conj = true; }
        if (conj) c.skip("two-point:conjugate-point-on-segment");
        else {
            const Vec3 Q = st.p, tQ = st.t;
            const double chord = (Q - P).norm();
            Json d2 = desc; d2.set("P", jV3(P)).set("Q", jV3(Q)).set("sQ", sQ);
            auto W2 = [&](const char* what, double got) { return [&, what, got]() { Json j = d2; j.set("what", what).set("got", got); return j; }; };
            const char* twoLen = sQ < 0.1 * 6.2831853 * S.charR ? "short" : "medium";
            // ---- analytic two-point (sphere, cylinder): hints along the true tangents
            if (analytic) {
                Geodesic g; bool ok = false;
                c.setPhase("calcGeodesicAnalytical " + sname);
                try { geom.calcGeodesicAnalytical(P, Q, tP, tQ, g); ok = true; }
                catch (const std::exception& ex) { c.viol("exception:two-point-analytic:" + sname, Json::obj().set("case", d2).set("what", firstLine(ex.what(), 400))); }
                if (ok) {
                    bool sizesOk; std::vector<Knot> kn = fromGeodesic(g, sizesOk);
                    SeqInfo q; q.tag = "two-point-analytic:" + sname; q.hasJt = false;
                    PathBound B; RefState en; double enErr;
                    const double dphi = kind == K_Cylinder ? std::fabs(P[0] * Q[1] - P[1] * Q[0]) / (S.r * S.r) : 1.0;
                    // The cylinder's two-point formula is parametrised by the swept angle (z = R m (phi-phiP) + c with slope
                    // m = dz/(R angle)): rounding is amplified by ~ phi/angle, and for P, Q on one generator (angle = 0, a
                    // perfectly valid input) it divides by zero. Judged with that conditioning; the degenerate case is
                    // attributed to a single key.
                    if (kind == K_Cylinder) q.cond = 1 + 8 / std::max(dphi, 1e-300);
                    if (kind == K_Cylinder && dphi < 1e-6) {
                        bool fin = std::isfinite(g.getLength()) && g.getNumPoints() >= 2;
                        for (auto& kk : kn) fin = fin && finite3(kk.p) && finite3(kk.t) && std::isfinite(kk.s);
                        bool good = fin && std::fabs(g.getLength() - sQ) <= 1e-9 * (S.size + sQ) && (g.getPointP() - P).norm() + (g.getPointQ() - Q).norm() <= 1e-9 * (S.size + sQ);
                        // on a generator the geodesic is (to 1e-6 relative) the straight segment PQ traversed at unit speed
                        if (good) for (auto& kk : kn) if ((kk.p - (P + (Q - P) * (kk.s / sQ))).norm() > 1e-5 * (S.size + sQ) || (kk.t - (Q - P) / (Q - P).norm()).norm() > 1e-5) good = false;
                        if (!good) c.viol("axial-geodesic-degenerate:two-point-analytic:cylinder", [&]() { Json j = d2; j.set("what", "calcGeodesicAnalytical returns NaN or garbage (length/frames) for two points on (nearly) the same generator of the cylinder: valid input, no failure reported").set("dphi", dphi).set("length", g.getLength()).set("expected", sQ); return j; }());
                        else c.obs("two-point-analytic-cylinder-axial-ok");
                    } else if (c.require("geodesic-arrays-same-size:" + q.tag, sizesOk, W2("Geodesic arrays have different lengths", 0)) &&
                        checkSequence(c, S, kn, g.getLength(), q, &B, &en, &enErr)) {
                        checkGeodesicObject(c, S, g, q.tag, true);
                        double tl = 256 * EPS * (S.size + sQ) + refErr;
                        c.check("two-point-length-vs-closedform:" + q.tag, std::fabs(g.getLength() - sQ), tl * 4, W2("length differs from the closed form", g.getLength()));
                        c.check("two-point-length-ge-chord:" + q.tag, chord - g.getLength(), 16 * EPS * S.size, W2("geodesic shorter than the chord", g.getLength()));
                        c.check("two-point-endpoints:" + q.tag, (g.getPointP() - P).norm() + (g.getPointQ() - Q).norm(), tl * 4, W2("end points differ from the given points", 0));
                        c.check("two-point-tangents:" + q.tag, (Vec3(g.getTangentP()) - tP).norm() + (Vec3(g.getTangentQ()) - tQ).norm(), (tl * 4) / S.size * (1 + S.size / chord), W2("end tangents differ from the geodesic's", 0));
                        c.check("two-point-jacobiQ:" + q.tag, std::fabs(g.getJacobiQ() - st.jr), tl * 8, W2("getJacobiQ differs from closed form", g.getJacobiQ()));
                        c.check("two-point-jacobiP:" + q.tag, std::fabs(g.getJacobiP() - st.jr), tl * 8, W2("getJacobiP differs from closed form (must equal jQ)", g.getJacobiP()));
                        c.cover(covBase + "two-point-analytic/" + twoLen);
                    }
                }
            }
            // ---- orthogonal (Newton shooting) method with perturbed hints
            {
                Geodesic g; bool ok = false;
                Vec3 nP = S.normal(P);
                double rot = r.sym(0.15), lenHint = sQ * r.uni(0.9, 1.1);
                Vec3 hint = rotateAbout(tP, nP, rot);
                c.setPhase("calcGeodesicUsingOrthogonalMethod " + sname);
                cap.take();
                try { geom.calcGeodesicUsingOrthogonalMethod(P, Q, hint, lenHint, g); ok = true; }
                catch (const std::exception& ex) { c.obs("two-point-orthogonal-exception"); c.viol("exception:two-point-orthogonal:" + sname, Json::obj().set("case", d2).set("what", firstLine(ex.what(), 400))); }
                std::string chat = cap.take();
                bool diverged = chat.find("DIVERGED") != std::string::npos || chat.find("too-small step") != std::string::npos;
                if (ok && g.getNumPoints() >= 2) {
                    SeqInfo q; q.tag = "two-point-orthogonal:" + sname; q.implicit = true; q.acc = 1e-6; q.ctol = 1e-10;
                    bool straight = g.getNumPoints() == 2 && g.getLength() < 1e-3;
                    double miss = (g.getPointQ() - Q).norm();
                    if (diverged || miss > 1e-6 * (1 + S.size)) { c.obs("two-point-orthogonal-not-converged"); c.skip("two-point-orthogonal-not-converged"); }
                    else if (straight) c.obs("two-point-straight-line-geodesic");
                    else {
                        bool sizesOk; std::vector<Knot> kn = fromGeodesic(g, sizesOk);
                        PathBound B; RefState en; double enErr;
                        if (jtNotProvided(kn)) { q.hasJt = false; c.obs("geodesic-object-translational-jacobi-not-provided:two-point-orthogonal"); }
                        if (c.require("geodesic-arrays-same-size:" + q.tag, sizesOk, W2("Geodesic arrays have different lengths", 0)) &&
                            checkSequence(c, S, kn, g.getLength(), q, &B, &en, &enErr)) {
                            checkGeodesicObject(c, S, g, q.tag, false);
                            int ns = (int)kn.size() - 1;
                            EndTol e = endTol(S, q, ns, sQ, B, refErr + enErr);
                            // Newton stops at |err| <= 1e-9 (absolute, library constant)
                            double tl = e.p + 1e-8;
                            c.check("two-point-length-vs-reference:" + q.tag, std::fabs(g.getLength() - sQ), tl, W2("length differs from the geodesic the points came from", g.getLength()));
                            c.check("two-point-length-ge-chord:" + q.tag, chord - g.getLength(), tl, W2("geodesic shorter than the chord", g.getLength()));
                            c.check("two-point-startpoint:" + q.tag, (g.getPointP() - P).norm(), 1e-10 * S.size + 64 * EPS * S.size, W2("P moved", 0));
                            c.check("two-point-tangentP:" + q.tag, (Vec3(g.getTangentP()) - tP).norm(), (tl / std::max(st.jr, 1e-300)) * 2 + e.t, W2("initial tangent differs from the geodesic's", 0));
                            c.check("two-point-tangentQ:" + q.tag, (Vec3(g.getTangentQ()) - tQ).norm(), (tl / std::max(st.jr, 1e-300)) * (1 + std::fabs(st.jrd)) * 2 + e.t, W2("final tangent differs from the geodesic's", 0));
                            c.check("two-point-jacobiQ:" + q.tag, std::fabs(g.getJacobiQ() - st.jr), e.jr + tl * (1 + B.JRD), W2("getJacobiQ differs from reference", g.getJacobiQ()));
                            if ((int)g.getDirectionalSensitivityQtoP().size() == g.getNumPoints())
                                c.check("two-point-jacobiP-equals-jacobiQ:" + q.tag, std::fabs(g.getJacobiP() - g.getJacobiQ()), 2 * e.jr + 20 * ns * 1e-6 * (1 + B.JR / S.charR + B.JT),
                                        W2("getJacobiP != getJacobiQ (the Wronskian of j''+Kj=0 is constant, so both must agree)", g.getJacobiP()));
                            c.cover(covBase + "two-point-orthogonal/" + twoLen);
                        }
                    }
                } else if (ok) c.viol("two-point-empty:two-point-orthogonal:" + sname, d2);
            }
        }
    }
    // ---------------- G: history: a plane-terminated shot must not change what a later
    // length-terminated shot on the same surface object returns
    if (okC && r.coin(0.4)) {
        RefState mid; mid.p = p0; mid.t = t0; advance(S, mid, 0.5 * L);
        const double d0 = ~mid.t * (p0 - mid.p);
        if (std::fabs(d0) > 1e-3 * S.size) {
            Geodesic gp; bool okP = false;
            c.setPhase("shootGeodesicInDirectionUntilPlaneHit " + sname);
            try { geom.shootGeodesicInDirectionUntilPlaneHit(p0, UnitVec3(t0), Plane(UnitVec3(mid.t), ~mid.t * mid.p), GeodesicOptions(), gp); okP = true; }
            catch (const std::exception& ex) { c.viol("exception:plane-hit-geodesic:" + sname, Json::obj().set("case", desc).set("what", firstLine(ex.what(), 400))); }
            if (okP && gp.getNumPoints() >= 2) {
                // the geodesic meets the plane for the first time no later than at s = L/2
                c.check("plane-hit-length:plane-hit-geodesic:" + sname, gp.getLength() - 0.5 * L, 1e-4 * L, WD("plane-terminated geodesic ran past the known crossing"));
                c.check("plane-hit-end-on-plane:plane-hit-geodesic:" + sname, std::fabs(~mid.t * (gp.getPointQ() - mid.p)), 1e-4 * (S.size + L), WD("plane-terminated geodesic does not end on the plane"));
                c.check("plane-hit-end-on-surface:plane-hit-geodesic:" + sname, std::fabs(S.dist(gp.getPointQ())), 1e-7 * S.size, WD("plane-terminated geodesic's end point is off the surface"));
                Geodesic g2; bool ok2 = false;
                c.setPhase("shootGeodesicInDirectionUntilLengthReached after a plane-terminated shot " + sname);
                try { geom.shootGeodesicInDirectionUntilLengthReached(p0, UnitVec3(t0), L, GeodesicOptions(), g2); ok2 = true; }
                catch (const std::exception& ex) { c.viol("exception:implicit-geodesic-after-planehit:" + sname, Json::obj().set("case", desc).set("what", firstLine(ex.what(), 400))); }
                if (ok2) {
                    double got = g2.getLength();
                    c.check("length-after-plane-hit-shot:implicit-geodesic:" + sname, std::fabs(got - L), 8 * EPS * L,
                            [&]() { Json j = desc; j.set("what", "shootGeodesicInDirectionUntilLengthReached returned a different length after an earlier shootGeodesicInDirectionUntilPlaneHit on the same ContactGeometry (stale plane event)").set("got", got).set("planeHitLength", gp.getLength()); return j; });
                    c.cover(covBase + "implicit-geodesic-after-planehit/" + lenName(lenClass));
                }
            } else if (okP) c.obs("plane-hit-geodesic-empty");
        }
    }
    if (c.wantSample() && okA) c.sample(Json::obj().set("case", desc).set("implicit_knots", (int)knA.size()).set("end", jV3(knA.back().p)).set("jacobiRot", knA.back().jr));
}

int main(int argc, char** argv) {
    Args a = parseArgs(argc, argv);
    Ctx c(a);
    if (a.prop != "C47") { fprintf(stderr, "mon_geodesic: unknown property %s\n", a.prop.c_str()); return 2; }
    return runCases(c, [&](long i, Rng& r) { runCase(c, i, r); });
}
