// mon_text — C32 "Values survive text and serialization round trips".
//
// Case kinds (cycled by case index):
//   0  scalar round trips  String(x) -> tryConvertTo/convertTo<T>, bitwise (NaN-ness for NaN), with and without surrounding
//      white space; float/double (random bits, denormals, short decimals, neighbours of powers, boundaries, +-0, +-Inf, NaN),
//      bool, int/long/long long and unsigned variants, complex<float/double>;
//   1  containers through writeUnformatted/readUnformatted (Vec, Row, Mat, SymMat, Vector_, RowVector_ view, Matrix_ via
//      fillUnformatted, Array_ of double/float/int/bool/Vec3/complex) and through writeFormatted/readFormatted (Array_ and nested
//      Array_, decisive for what Array.h implements: finite numeric elements; everything else formatted is only counted);
//   2  acceptance: grammar-generated strings labelled valid / invalid for double, float, bool, int, long, unsigned,
//      complex<double>; tryConvertTo<T> must return exactly the label and convertTo<T> must throw iff it is invalid
//      (strings whose status the documentation leaves open - overflow, "-nan", "+1" for bool ... - are counted, not judged);
//   3  XML: random tree built through the API -> writeToString (pretty/compact) / writeToFile -> re-read -> structural equality
//      with the harness model (node kinds, order, tags, attribute order and values, text, comments, unknowns, declaration);
//      copy construction; typed values (getValueAs, attribute accessors, toXmlElement/fromXmlElement);
//      and harness-written documents in alternate legal spellings (entities, numeric character references, CDATA, quotes, BOM)
//      must parse to the model;
//   4  XML parser memory safety: mutated (truncated, byte-flipped, spliced ...) documents are parsed in a forked child from an
//      exactly sized heap buffer or from a file; every mutant must end in "parsed" or "exception"; ASan/UBSan decide.
// Preconditions are listed at the top of common/text_xml.h.
#include "SimTKcommon.h"
#include "vh.h"
#include "text_values.h"
#include "text_xml.h"

int main(int argc, char** argv) {
    vh::Args a = vh::parseArgs(argc, argv);
    vh::Ctx c(a);
    if (a.prop != "C32") { fprintf(stderr, "mon_text: unknown property %s\n", a.prop.c_str()); return 2; }
    const std::string part = a.get("part", "all");     // "values" (kinds 0-3), "mutants" (kind 4) or "all"
    return vh::runCases(c, [&](long i, vh::Rng& r) {
        int kind = (int)(i % 5);
        if (part == "mutants") kind = 4;
        else if (part == "values" && kind == 4) kind = (int)((i / 5) % 4);
        switch (kind) {
        case 0: tv::scalarRoundTrips(c, r); break;
        case 1: for (int k = 0; k < 6; ++k) tv::containerRoundTrips(c, r); break;
        case 2: tv::acceptance(c, r); break;
        case 3: if ((i / 5) % 3 == 0) { tx::xmlParseModel(c, i, r); tx::xmlTypedValues(c, r); } else tx::xmlRoundTrip(c, i, r); break;
        default: tx::xmlMutants(c, i, r); break;
        }
    });
}
