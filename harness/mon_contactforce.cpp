// mon_contactforce — C37 "Compliant contact forces follow their documented laws" (DESIGN §5 C37).
//
// One case = one contact model (case index mod 9) alone in a two-body system (body A on Ground or on a Free body,
// body B on a Free body; no gravity, no other force element) with random materials, sizes and frames, evaluated at 8
// configurations: pose class (separated / touching / shallow / deep) x velocity class (rest, approach, separating
// slowly, separating fast enough that 1+1.5cv<0, sliding, creeping below the transition velocity, Stribeck range,
// rolling without slip). Models:
//   HuntCrossleyForce (GeneralContactSubsystem: half-space/sphere, sphere/sphere, either registration order)
//   HuntCrossleyContact (frictionless subsystem: sphere/sphere, sphere/half-space on Ground or on a moving body)
//   CompliantContactSubsystem: HertzCircular (half-space/sphere, sphere/sphere), HertzElliptical (half-space/ellipsoid,
//     sphere/ellipsoid, ellipsoid/ellipsoid), BrickHalfSpacePenalty, ElasticFoundation (half-space/mesh, sphere/mesh)
//   ElasticFoundationForce (GeneralContactSubsystem: half-space/mesh, sphere/mesh)
//   SmoothSphereHalfSpaceForce, ExponentialSpringForce (incl. Sliding / anchor-point states and the force limit)
// Oracle: the documented law re-implemented in contact_ref.h, evaluated on the actual poses and velocities read from
// the State, compared with the body forces of the system (which contain only this element) and, where the model
// reports them, with its own ContactForce / part getters. Universal clauses for every model: the normal force is
// along the contact normal and never attractive, it vanishes without penetration for the non-smooth models, friction
// is collinear with and opposes the slip velocity and is bounded by the documented limit, action = -reaction.
//
// Legal-client preconditions: material parameters in their documented ranges (E>0, c>=0, us>=ud>=0, uv>=0), positive
// sizes; ExponentialSpring states Sliding in [0,1] and anchor point in the contact plane (as documented).
// Where the documentation does not say at which point of the overlap region the force is applied / the velocities are
// taken (HuntCrossleyForce, HuntCrossleyContact, SmoothSphereHalfSpaceForce), the point is inferred from the reported
// moment, required to lie on the contact normal inside the overlap, and then used by the reference.
// Contact geometry for ellipsoid pairs (depth, normal, curvatures) is taken from the library's Contact object: its
// correctness is C35's subject.
#include "Simbody.h"
#include "vh.h"
#include "collide_exact.h"
#include "contact_ref.h"
using namespace SimTK;
using namespace vh;

static Vec3 randVec3(Rng& r, double s = 1) { return Vec3(r.sym(s), r.sym(s), r.sym(s)); }
static UnitVec3 randUnit3(Rng& r) { return UnitVec3(gm::randUnit(r)); }
static Rotation randRotation(Rng& r) { return gm::randRotation(r); }
static Transform randFrame(Rng& r) { return Transform(randRotation(r), randVec3(r, 0.5)); }
static Json jV3(const Vec3& v) { return gm::jv(v); }
static bool g_verbose = false;
static bool chk(Ctx& c, const std::string& key, double resid, double tol, const std::function<Json()>& w) {
    if (g_verbose && resid > 1e-2 * tol && resid <= tol) fprintf(stderr, "NEAR %s ratio=%.3g case=%ld %s\n", key.c_str(), resid / tol, c.curCase, w().dump().c_str());
    return c.check(key, resid, tol, w);
}
static cr::Mat randMat(Rng& r, bool dissip, bool fric) {
    cr::Mat m; m.E = r.logUni(1e3, 1e7); m.c = dissip ? r.uni(0.05, 1.5) : 0.0;
    m.us = fric ? r.uni(0.1, 1.2) : 0.0; m.ud = fric ? m.us * r.uni(0.2, 1.0) : 0.0; m.uv = (fric && r.coin(0.4)) ? r.uni(0.0, 0.5) : 0.0;
    return m;
}
static Json jMat(const cr::Mat& m) { return Json::obj().set("E", m.E).set("c", m.c).set("us", m.us).set("ud", m.ud).set("uv", m.uv); }
static Vec3 pointVel(const MobilizedBody& b, const State& s, const Vec3& P) {
    const SpatialVec& V = b.getBodyVelocity(s);
    return V[1] + V[0] % (P - b.getBodyOriginLocation(s));
}

// ------------------------------------------------------------------------------------------------ model base
static const char* POSES[4] = {"separated", "touching", "shallow", "deep"};
static const char* VELS[8] = {"rest", "approach", "separate-slow", "separate-fast", "slide", "creep", "stribeck", "roll"};

struct Model {
    MultibodySystem sys; SimbodyMatterSubsystem matter; GeneralForceSubsystem forces;
    MobilizedBody mobA, mobB; bool aOnGround = false;
    std::string name, sub;          // model, geometry variant
    double size = 1;                // characteristic size used to scale depths
    double cEst = 0, dissFactor = 1.5, vtrans = 0.01;
    bool smooth = false;            // smooth models have no exact zero outside contact
    Json desc = Json::obj();
    Model() : matter(sys), forces(sys) {}
    virtual ~Model() {}
    Model(const Model&) = delete;
    void makeBodies(Rng& r, bool ground) {
        aOnGround = ground;
        Body::Rigid body(MassProperties(1.0, Vec3(0), Inertia(1)));
        mobA = ground ? (MobilizedBody)matter.updGround() : (MobilizedBody)MobilizedBody::Free(matter.updGround(), Transform(), body, Transform());
        mobB = MobilizedBody::Free(matter.updGround(), Transform(), body, Transform());
        (void)r;
    }
    virtual void build(Rng& r, long variant) = 0;
    // put B against A with penetration x (negative = gap); returns nominal contact point and normal A->B in Ground
    virtual bool place(State& s, Rng& r, double x, Vec3& P, Vec3& n) = 0;
    virtual void judge(Ctx& c, State& s, const std::string& cfg) = 0;
    virtual void afterVelocities(State&, Rng&) {}
    void poseA(State& s, Rng& r, Transform& X_GA) {
        if (aOnGround) { X_GA = Transform(); return; }
        X_GA = Transform(randRotation(r), randVec3(r, 2.0));
        mobA.setQToFitTransform(s, X_GA);
    }
    cr::Wrench wrenchOn(const MobilizedBody& b, const State& s) const {
        const SpatialVec& F = sys.getRigidBodyForces(s, Stage::Dynamics)[b.getMobilizedBodyIndex()];
        cr::Wrench w; w.f = F[1]; w.tau = F[0] + b.getBodyOriginLocation(s) % F[1];
        return w;
    }
};

// relative velocity of B with respect to A at P: -xdot*n + slip; bodies spin as the class says
static void setVelocities(Model& m, State& s, Rng& r, int vcls, const Vec3& P, const Vec3& n) {
    m.sys.realize(s, Stage::Position);
    // read the positions first: MobilizedBody::setUToFitVelocity() invalidates the state below Position stage
    const Vec3 OA = m.mobA.getBodyOriginLocation(s), OB = m.mobB.getBodyOriginLocation(s);
    const bool rest = vcls == 0;
    Vec3 wA(0), vA(0);
    if (!m.aOnGround && !rest) { wA = randVec3(r, 1.5); vA = randVec3(r, 1.0); m.mobA.setUToFitVelocity(s, SpatialVec(wA, vA)); }
    else if (!m.aOnGround) m.mobA.setUToFitVelocity(s, SpatialVec(Vec3(0), Vec3(0)));
    Vec3 vAP = vA + wA % (P - OA);
    Vec3 t = gm::anyPerp(n); { double a = r.uni(0, 6.28); Vec3 t2 = n % t; t = std::cos(a) * t + std::sin(a) * t2; }
    const double vcrit = m.cEst > 0 ? 1.0 / (m.dissFactor * m.cEst) : 1.0;
    double xdot = 0, slip = 0; Vec3 wB(0);
    switch (vcls) {
    case 0: break;
    case 1: xdot = r.uni(0.05, 2.0); slip = r.coin() ? 0.0 : m.vtrans * r.logUni(0.1, 30); wB = randVec3(r, 1.0); break;
    case 2: xdot = -vcrit * r.uni(0.05, 0.9); slip = r.coin() ? 0.0 : m.vtrans * r.logUni(0.1, 30); wB = randVec3(r, 1.0); break;
    case 3: xdot = -vcrit * r.uni(1.1, 3.0); slip = m.vtrans * r.logUni(0.1, 30); wB = randVec3(r, 1.0); break;
    case 4: xdot = r.sym(0.2); slip = m.vtrans * r.logUni(3.5, 300); wB = randVec3(r, 1.0); break;
    case 5: xdot = r.sym(0.1); slip = m.vtrans * r.uni(0.05, 0.95); wB = randVec3(r, 0.3); break;
    case 6: xdot = r.sym(0.1); slip = m.vtrans * r.uni(1.05, 2.95); wB = randVec3(r, 0.3); break;
    default: xdot = r.coin() ? 0.0 : r.sym(0.05); slip = 0; wB = randVec3(r, 4.0); break;   // roll: spin, no slip at P
    }
    Vec3 vrel = -xdot * n + slip * t;
    Vec3 vB = vAP + vrel - wB % (P - OB);
    m.mobB.setUToFitVelocity(s, SpatialVec(wB, vB));
}

// ------------------------------------------------------------------------------------------------ shared oracles
struct Clauses {
    Ctx& c; std::string tag; std::function<Json()> wit;
};
// force on B acts somewhere on the line P0 + lambda*n: least-squares lambda and the unexplained moment
static double inferLambda(const cr::Wrench& wB, const Vec3& P0, const Vec3& n, double& resid, bool& observable) {
    Vec3 tauP0 = wB.tau - P0 % wB.f, a = n % wB.f;
    double a2 = a.normSqr();
    observable = a2 > 1e-20 * wB.f.normSqr() && a2 > 0;
    double lam = observable ? (~a * tauP0) / a2 : 0.0;
    resid = (tauP0 - lam * a).norm();
    return lam;
}
// universal clauses for a contact with a single normal n (A->B): fB is the library's force on B, vslip the tangential
// velocity of B relative to A at the contact point, fscale the size of the forces in play
static void universal(Clauses& K, const Vec3& fB, const Vec3& n, const Vec3& vslip, double muLimit, double fscale, bool penetrating, bool smooth, double attractTol = 0) {
    Ctx& c = K.c; const std::string& t = K.tag;
    auto W = [&](const char* what) { return [&K, what, fB]() { Json j = K.wit(); j.set("what", what).set("forceOnB", jV3(fB)); return j; }; };
    double tol = 1e-9 * fscale + 1e-300;
    double fn = ~fB * n; Vec3 ft = fB - fn * n;
    chk(c, "attractive@" + t, std::max(0.0, -fn), tol + attractTol, W("normal force pulls the bodies together"));
    tol += attractTol * (1 + muLimit);   // a documented smoothing residue of the normal force carries over to mu*fn
    if (!penetrating && !smooth) chk(c, "zero-without-penetration@" + t, fB.norm(), tol, W("force without penetration"));
    double vs = vslip.norm();
    if (vs > 0) {
        chk(c, "friction-opposes-slip@" + t, std::max(0.0, (~ft * vslip) / vs), tol, W("friction has a component along the slip velocity"));
        chk(c, "friction-collinear@" + t, (ft % vslip).norm() / vs, tol, W("friction is not collinear with the slip velocity"));
    } else chk(c, "friction-at-zero-slip@" + t, ft.norm(), tol + 1e-6 * std::fabs(fn), W("friction force at zero slip"));
    chk(c, "friction-limit@" + t, std::max(0.0, ft.norm() - muLimit * std::max(fn, 0.0)), 1e-9 * muLimit * std::fabs(fn) + tol, W("friction exceeds the documented limit"));
}
static void reaction(Clauses& K, const cr::Wrench& wA, const cr::Wrench& wB, double fscale, double lscale) {
    auto W = [&](const char* what) { return [&K, what]() { Json j = K.wit(); j.set("what", what); return j; }; };
    chk(K.c, "reaction@" + K.tag, (wA.f + wB.f).norm(), 1e-9 * fscale + 1e-300, W("forces on the two bodies are not equal and opposite"));
    chk(K.c, "reaction@" + K.tag + ":moment", (wA.tau + wB.tau).norm(), 1e-9 * fscale * lscale + 1e-300, W("moments on the two bodies do not cancel"));
}

// ================================================================================================ sphere / half-space pairs
struct Geo2 {               // A: half-space (x>0 material) or sphere; B: sphere
    bool aIsHS = false; double rA = 0, rB = 0; Transform X_BA_S, X_BB_S;   // surface frames on the bodies
    void make(Rng& r, bool hs) { aIsHS = hs; rA = r.logUni(0.05, 1.0); rB = r.logUni(0.05, 1.0); X_BA_S = randFrame(r); X_BB_S = Transform(randVec3(r, 0.5)); }
    double size() const { return aIsHS ? rB : std::min(rA, rB); }
    double R() const { return aIsHS ? rB : rA * rB / (rA + rB); }
    // exact contact geometry from the current poses
    void exact(const Model& m, const State& s, double& x, Vec3& n, Vec3& P0) const {
        Transform XA = m.mobA.getBodyTransform(s) * X_BA_S; Vec3 cB = m.mobB.getBodyTransform(s) * X_BB_S.p();
        if (aIsHS) { Vec3 xh(XA.R().x()); double h = ~xh * (cB - XA.p()); x = h + rB; n = -xh; Vec3 ps = cB + rB * xh; P0 = ps - (x / 2) * xh; }
        else { Vec3 d = cB - XA.p(); double dist = d.norm(); n = d / dist; x = rA + rB - dist; P0 = XA.p() + (rA - x / 2) * n; }
    }
    bool place(Model& m, State& s, Rng& r, double x, Vec3& P, Vec3& n) const {
        Transform XbA; m.poseA(s, r, XbA);
        Transform XA = XbA * X_BA_S; Rotation RB = randRotation(r); Vec3 cB;
        if (aIsHS) { Vec3 xh(XA.R().x()); n = -xh; Vec3 t1 = gm::anyPerp(n), t2 = n % t1; cB = XA.p() + r.sym(1.5) * t1 + r.sym(1.5) * t2 + n * (rB - x); }
        else { n = Vec3(randUnit3(r)); cB = XA.p() + n * (rA + rB - x); }
        m.mobB.setQToFitTransform(s, Transform(RB, cB - RB * X_BB_S.p()));
        m.sys.realize(s, Stage::Position);
        double xx; exact(m, s, xx, n, P);
        return true;
    }
};

// Hunt-Crossley point-contact law shared by HuntCrossleyForce, HuntCrossleyContact and CCS/Hertz; 'curve': 0 none, 1 Hollars, 2 Stribeck
struct PointLaw {
    double R = 1, e = 1; cr::Mat m1, m2; int curve = 1; double vt = 0.01;
    // force on body 2 given depth x, normal n (1->2) and the relative velocity of 2 w.r.t. 1 at the contact point
    Vec3 force(double x, const Vec3& n, const Vec3& vrel, double* fNout = nullptr, double* muOut = nullptr, Vec3* vtOut = nullptr) const {
        cr::Hertz h = cr::hertzCombine(m1, m2);
        double fH = cr::hertzForce(R, h.Estar, x, e), xdot = -(~vrel * n);
        Vec3 vtan = vrel + xdot * n; double vs = vtan.norm();
        double fN = fH * (1 + 1.5 * h.c * xdot); if (fN < 0) fN = 0;
        double us = cr::comb(m1.us, m2.us), ud = cr::comb(m1.ud, m2.ud), uv = cr::comb(m1.uv, m2.uv);
        double mu = curve == 1 ? cr::hollars(us, ud, uv, vs, vt) : (curve == 2 ? cr::stribeck(us, ud, uv, vs, vt) : 0.0);
        if (fNout) *fNout = fN; if (muOut) *muOut = mu; if (vtOut) *vtOut = vtan;
        Vec3 F = fN * n;
        if (vs > 0) F -= (fN * mu / vs) * vtan;
        return F;
    }
    double muLimit(double vs) const { return std::max(cr::comb(m1.us, m2.us), cr::comb(m1.ud, m2.ud)) + cr::comb(m1.uv, m2.uv) * vs; }
};

// judge a single-point contact whose application point along the normal is not documented
static void judgePointInferred(Ctx& c, Model& m, State& s, const std::string& cfg, const PointLaw& law, double x, const Vec3& n, const Vec3& P0, const Json& extra) {
    cr::Wrench wA = m.wrenchOn(m.mobA, s), wB = m.wrenchOn(m.mobB, s);
    double resid; bool obs; double lam = inferLambda(wB, P0, n, resid, obs);
    double xpos = std::max(x, 0.0);
    Vec3 Pc = P0 + std::max(-xpos / 2, std::min(xpos / 2, lam)) * n;
    Vec3 vrel = pointVel(m.mobB, s, Pc) - pointVel(m.mobA, s, Pc);
    double fN, mu; Vec3 vtan; Vec3 Fref = law.force(x, n, vrel, &fN, &mu, &vtan);
    cr::Hertz h = cr::hertzCombine(law.m1, law.m2);
    double fH = cr::hertzForce(law.R, h.Estar, xpos, law.e), xdot = -(~vrel * n);
    double fscale = fH * (1 + 1.5 * h.c * std::fabs(xdot)) * (1 + law.muLimit(vtan.norm())) + 1e-12 * h.Estar * m.size * m.size;
    // rounding of the poses (1e-13 of the lengths involved) moves the depth: |dF/dx| * 1e-13 * L, folded into the force scale
    const double L = m.size + P0.norm() + m.mobB.getBodyOriginLocation(s).norm();
    fscale += 1e-4 * L * 2 * std::sqrt(law.R) * h.Estar * law.e * std::sqrt(std::max(xpos, 1e-13 * L)) * (1 + 1.5 * h.c * std::fabs(xdot)) * (1 + law.muLimit(vtan.norm()));
    std::string tag = m.name + ":" + m.sub;
    Clauses K{c, tag, [&, x, lam, fN, mu, xdot]() {
        Json j = m.desc; j.set("config", cfg).set("depth", x).set("normal", jV3(n)).set("P0", jV3(P0)).set("lambda", lam).set("xdot", xdot).set("slip", jV3(vtan)).set("fN_ref", fN).set("mu_ref", mu).set("F_ref", jV3(Fref)).set("F_lib", jV3(wB.f)).set("extra", extra);
        return j; }};
    auto W = [&](const char* what) { return [&K, what]() { Json j = K.wit(); j.set("what", what); return j; }; };
    chk(c, "law@" + tag, (wB.f - Fref).norm(), 1e-7 * fscale, W("force on body B differs from the documented law"));   // 1e-7: the application point is inferred from the moment
    chk(c, "point@" + tag + ":on-normal-line", resid, 1e-9 * fscale * (m.size + std::fabs(x)), W("moment is not that of a force applied on the contact normal"));
    if (obs && x > 0) chk(c, "point@" + tag + ":within-overlap", std::max(0.0, std::fabs(lam) - x / 2), 1e-6 * x + 1e-12 * L + 1e-12 * wB.f.norm() * L / (n % wB.f).norm(), W("force applied outside the overlap region"));
    universal(K, wB.f, n, vtan, law.muLimit(vtan.norm()), fscale, x > 0, false);
    reaction(K, wA, wB, fscale, m.size + P0.norm());
}

// ---- HuntCrossleyForce
struct M_HCF : Model {
    Geo2 g; std::unique_ptr<GeneralContactSubsystem> gcs; std::unique_ptr<HuntCrossleyForce> hc; PointLaw law;
    void build(Rng& r, long v) override {
        name = "HuntCrossleyForce"; bool hs = v % 2 == 0, swap = (v / 2) % 2 == 1; sub = hs ? "halfspace-sphere" : "sphere-sphere";
        makeBodies(r, (v / 4) % 2 == 0); g.make(r, hs); size = g.size();
        bool dis = (v / 8) % 3 != 0, fr = (v / 8) % 4 != 1;
        law.m1 = randMat(r, dis, fr); law.m2 = randMat(r, dis, fr); law.R = g.R(); law.curve = 1; law.vt = vtrans = r.logUni(1e-3, 0.1);
        cEst = cr::hertzCombine(law.m1, law.m2).c;
        gcs.reset(new GeneralContactSubsystem(sys)); ContactSetIndex set = gcs->createContactSet();
        ContactGeometry gA = hs ? (ContactGeometry)ContactGeometry::HalfSpace() : (ContactGeometry)ContactGeometry::Sphere(g.rA), gB = ContactGeometry::Sphere(g.rB);
        int ia = swap ? 1 : 0, ib = swap ? 0 : 1;
        if (!swap) { gcs->addBody(set, mobA, gA, g.X_BA_S); gcs->addBody(set, mobB, gB, g.X_BB_S); }
        else { gcs->addBody(set, mobB, gB, g.X_BB_S); gcs->addBody(set, mobA, gA, g.X_BA_S); }
        hc.reset(new HuntCrossleyForce(forces, *gcs, set));
        hc->setBodyParameters(ContactSurfaceIndex(ia), law.m1.E, law.m1.c, law.m1.us, law.m1.ud, law.m1.uv);
        hc->setBodyParameters(ContactSurfaceIndex(ib), law.m2.E, law.m2.c, law.m2.us, law.m2.ud, law.m2.uv);
        hc->setTransitionVelocity(law.vt);
        desc.set("model", name).set("pair", sub).set("rA", g.rA).set("rB", g.rB).set("matA", jMat(law.m1)).set("matB", jMat(law.m2)).set("vt", law.vt).set("swapped", swap).set("aOnGround", aOnGround);
        sys.realizeTopology();
    }
    bool place(State& s, Rng& r, double x, Vec3& P, Vec3& n) override { return g.place(*this, s, r, x, P, n); }
    void judge(Ctx& c, State& s, const std::string& cfg) override {
        double x; Vec3 n, P0; g.exact(*this, s, x, n, P0);
        judgePointInferred(c, *this, s, cfg, law, x, n, P0, Json::obj());
    }
};
// ---- HuntCrossleyContact (frictionless)
struct M_HCC : Model {
    Geo2 g; std::unique_ptr<HuntCrossleyContact> hcc; PointLaw law;
    void build(Rng& r, long v) override {
        name = "HuntCrossleyContact"; bool hs = v % 2 == 0; sub = hs ? "halfspace-sphere" : "sphere-sphere";
        makeBodies(r, (v / 2) % 2 == 0); g.make(r, hs); size = g.size();
        bool dis = (v / 4) % 3 != 0;
        law.m1 = randMat(r, dis, false); law.m2 = randMat(r, dis, false); law.R = g.R(); law.curve = 0;
        cEst = cr::hertzCombine(law.m1, law.m2).c;
        hcc.reset(new HuntCrossleyContact(sys));
        if (hs) {
            // surface: normal.p = height in the body frame, material below; our half-space frame: outward normal -x, surface through its origin
            UnitVec3 nB(-g.X_BA_S.R().x()); double height = ~Vec3(nB) * g.X_BA_S.p();
            hcc->addHalfSpace(mobA.getMobilizedBodyIndex(), nB, height, law.m1.E, law.m1.c);
        } else hcc->addSphere(mobA.getMobilizedBodyIndex(), g.X_BA_S.p(), g.rA, law.m1.E, law.m1.c);
        hcc->addSphere(mobB.getMobilizedBodyIndex(), g.X_BB_S.p(), g.rB, law.m2.E, law.m2.c);
        desc.set("model", name).set("pair", sub).set("rA", g.rA).set("rB", g.rB).set("matA", jMat(law.m1)).set("matB", jMat(law.m2)).set("aOnGround", aOnGround);
        sys.realizeTopology();
    }
    bool place(State& s, Rng& r, double x, Vec3& P, Vec3& n) override { return g.place(*this, s, r, x, P, n); }
    void judge(Ctx& c, State& s, const std::string& cfg) override {
        double x; Vec3 n, P0; g.exact(*this, s, x, n, P0);
        judgePointInferred(c, *this, s, cfg, law, x, n, P0, Json::obj());
    }
};
// ---- SmoothSphereHalfSpaceForce
struct M_Smooth : Model {
    Geo2 g; std::unique_ptr<SmoothSphereHalfSpaceForce> f; cr::Mat mat; double cf = 1e-5, bd = 300, bv = 50;
    void build(Rng& r, long v) override {
        name = "SmoothSphereHalfSpaceForce"; sub = "halfspace-sphere"; smooth = true;
        makeBodies(r, v % 2 == 0); g.make(r, true); size = g.size();
        mat = randMat(r, (v / 2) % 3 != 0, (v / 2) % 4 != 1); vtrans = r.logUni(1e-3, 0.1); cEst = mat.c;
        if (r.coin(0.5)) { cf = r.logUni(1e-7, 1e-4); bd = r.uni(100, 600); bv = r.uni(20, 100); }
        f.reset(new SmoothSphereHalfSpaceForce(forces));
        f->setParameters(mat.E, mat.c, mat.us, mat.ud, mat.uv, vtrans, cf, bd, bv);
        f->setContactSphereBody(mobB); f->setContactSphereLocationInBody(g.X_BB_S.p()); f->setContactSphereRadius(g.rB);
        f->setContactHalfSpaceBody(mobA); f->setContactHalfSpaceFrame(g.X_BA_S);
        desc.set("model", name).set("r", g.rB).set("mat", jMat(mat)).set("vt", vtrans).set("cf", cf).set("bd", bd).set("bv", bv).set("aOnGround", aOnGround);
        sys.realizeTopology();
    }
    bool place(State& s, Rng& r, double x, Vec3& P, Vec3& n) override { return g.place(*this, s, r, x, P, n); }
    void judge(Ctx& c, State& s, const std::string& cfg) override {
        double x; Vec3 n, P0; g.exact(*this, s, x, n, P0);     // n: half-space -> sphere; the documented "normal" is -n
        cr::Wrench wA = wrenchOn(mobA, s), wB = wrenchOn(mobB, s);
        double resid; bool obs; double lam = inferLambda(wB, P0, n, resid, obs);
        double lim = std::fabs(x) / 2 + 1e-9 * size;
        Vec3 Pc = P0 + std::max(-lim, std::min(lim, lam)) * n;
        Vec3 vrel = pointVel(mobB, s, Pc) - pointVel(mobA, s, Pc);   // sphere relative to half-space
        double vn = -(~vrel * n); Vec3 vtan = vrel + vn * n;          // vn: penetration rate
        double k = 0.5 * std::pow(mat.E, 2.0 / 3.0);
        double fh_pos = (4.0 / 3.0) * k * std::sqrt(g.rB * k) * std::pow(std::sqrt(x * x + cf), 1.5);
        double fh_s = fh_pos * (0.5 + 0.5 * std::tanh(bd * x));
        double fhc_pos = fh_s * (1 + 1.5 * mat.c * vn);
        double arg = mat.c > 0 ? bv * (vn + 2 / (3 * mat.c)) : 1e300;
        double fhc = fhc_pos * (0.5 + 0.5 * std::tanh(arg));
        double vs = std::sqrt(vtan.normSqr() + cf), mu = cr::hollars(mat.us, mat.ud, mat.uv, vs, vtrans);
        Vec3 Fref = fhc * n - (fhc * mu / vs) * vtan;                 // on the sphere
        double fscale = std::fabs(fh_pos) * (1 + 1.5 * mat.c * std::fabs(vn)) * (1 + mu) + 1e-300;
        const double L = size + P0.norm() + mobB.getBodyOriginLocation(s).norm();
        fscale += 1e-4 * L * std::fabs(fh_pos) * (1.5 / std::sqrt(x * x + cf) + bd) * (1 + 1.5 * mat.c * std::fabs(vn)) * (1 + mu);
        std::string tag = name + ":" + sub;
        Clauses K{c, tag, [&, x, lam, vn, fhc, mu]() { Json j = desc; j.set("config", cfg).set("indentation", x).set("normal", jV3(n)).set("lambda", lam).set("vnormal", vn).set("slip", jV3(vtan)).set("fhc_smooth_ref", fhc).set("mu_ref", mu).set("F_ref", jV3(Fref)).set("F_lib", jV3(wB.f)); return j; }};
        auto W = [&](const char* what) { return [&K, what]() { Json j = K.wit(); j.set("what", what); return j; }; };
        chk(c, "law@" + tag, (wB.f - Fref).norm(), 1e-7 * fscale, W("force on the sphere differs from the documented smooth law"));
        chk(c, "point@" + tag + ":on-normal-line", resid, 1e-9 * fscale * (size + std::fabs(x)), W("moment is not that of a force applied on the contact normal"));
        if (obs && wB.f.norm() > 1e-6 * fscale) chk(c, "point@" + tag + ":within-overlap", std::max(0.0, std::fabs(lam) - lim), 1e-6 * std::fabs(x) + 1e-9 * size + 1e-12 * wB.f.norm() * L / (n % wB.f).norm(), W("force applied outside the overlap region"));
        // the documented smoothing lets fhc_pos<0 through with weight (1+tanh)/2: bounded by max_d 1.5 c d fh exp(-2 bv d) = 0.75 c fh/(e bv)
        double attractTol = mat.c > 0 ? 1.01 * 0.75 * mat.c * std::fabs(fh_s) / (2.718281828 * bv) + 1e-12 * fscale : 0;
        universal(K, wB.f, n, vtan, std::max(mat.us, mat.ud) + mat.uv * vs, fscale, x > 0, true, attractTol);
        reaction(K, wA, wB, fscale, size + P0.norm());
    }
};

// ================================================================================================ CompliantContactSubsystem
struct Shape2 {
    int kind = 0;   // 0 half-space 1 sphere 2 ellipsoid 3 brick 4 mesh
    double r = 0; Vec3 radii = Vec3(0), half = Vec3(0); gm::MeshData mesh; ContactGeometry geo; double size = 0, smin = 0; Vec3 center = Vec3(0);
    void make(int k, Rng& rg) {
        kind = k;
        auto rad3 = [&](double asp) { double b = rg.logUni(0.08, 0.8); return Vec3(b * rg.uni(1, asp), b * rg.uni(1, asp), b * rg.uni(1, asp)); };
        switch (k) {
        case 0: geo = ContactGeometry::HalfSpace(); size = 0; smin = 1e300; break;
        case 1: r = rg.logUni(0.05, 1.0); geo = ContactGeometry::Sphere(r); size = smin = r; break;
        case 2: radii = rad3(3.0); geo = ContactGeometry::Ellipsoid(radii); size = std::max(radii[0], std::max(radii[1], radii[2])); smin = std::min(radii[0], std::min(radii[1], radii[2])); break;
        case 3: half = rad3(4.0); geo = ContactGeometry::Brick(half); size = half.norm(); smin = std::min(half[0], std::min(half[1], half[2])); break;
        default: {
            mesh = rg.coin() ? gm::genSphereMesh(rg, 1, rad3(2.0), 0.0) : gm::genBoxMesh(rg, 2, 2, 2, rad3(2.5), 0.0);
            Array_<Vec3> vv(mesh.v.begin(), mesh.v.end()); Array_<int> ff(mesh.f.begin(), mesh.f.end());
            geo = ContactGeometry::TriangleMesh(vv, ff); size = mesh.scale; smin = 0.4 * mesh.scale; center = mesh.center; }
        }
    }
    // largest extent of the placed shape along unit direction d (about its frame origin), for placing against a plane
    double support(const Rotation& R, const Vec3& d) const {
        Vec3 dl = ~R * d;
        if (kind == 1) return r;
        if (kind == 2) return std::sqrt(square(radii[0] * dl[0]) + square(radii[1] * dl[1]) + square(radii[2] * dl[2]));
        if (kind == 3) return std::fabs(half[0] * dl[0]) + std::fabs(half[1] * dl[1]) + std::fabs(half[2] * dl[2]);
        double mx = -1e300; for (auto& p : mesh.v) mx = std::max(mx, ~p * dl); return mx;
    }
};
static const char* KNAME[5] = {"halfspace", "sphere", "ellipsoid", "brick", "mesh"};

struct M_CCS : Model {
    Shape2 A, B; Transform X_BA_S, X_BB_S; cr::Mat mA, mB; double hA = 0, hB = 0;
    std::unique_ptr<ContactTrackerSubsystem> trk; std::unique_ptr<CompliantContactSubsystem> ccs; int gen = 0;   // 0 circ 1 ellip 2 brick 3 EF
    void build(Rng& r, long v) override {
        static const int PAIRS[9][3] = {{0, 1, 0}, {1, 1, 0}, {0, 2, 1}, {1, 2, 1}, {2, 2, 1}, {0, 3, 2}, {0, 4, 3}, {1, 4, 3}, {0, 3, 2}};
        const int* p = PAIRS[v % 9]; gen = p[2];
        static const char* GN[4] = {"HertzCircular", "HertzElliptical", "BrickHalfSpacePenalty", "ElasticFoundation"};
        name = std::string("CCS.") + GN[gen]; sub = std::string(KNAME[p[0]]) + "-" + KNAME[p[1]];
        A.make(p[0], r); B.make(p[1], r); size = std::min(A.smin, B.smin);
        X_BA_S = randFrame(r); X_BB_S = randFrame(r);
        bool dis = (v / 18) % 3 != 0, fr = (v / 18) % 4 != 1;
        mA = randMat(r, dis, fr); mB = randMat(r, dis, fr); vtrans = r.logUni(1e-3, 0.1);
        if (gen == 3) { hB = B.size * r.uni(0.05, 0.3); hA = r.coin() ? 0.0 : A.kind == 0 ? r.uni(0.01, 0.2) : A.size * r.uni(0.05, 0.3); dissFactor = 1.0; }
        if (gen == 2) dissFactor = 1.0;
        cEst = std::max(mA.c, mB.c);
        ContactMaterial cmA(mA.E, mA.c, mA.us, mA.ud, mA.uv), cmB(mB.E, mB.c, mB.us, mB.ud, mB.uv);
        aOnGround = (v / 9) % 2 == 0;
        if (aOnGround) { matter.updGround().updBody().addContactSurface(X_BA_S, ContactSurface(A.geo, cmA, hA)); mobA = matter.updGround(); }
        else { Body::Rigid ba(MassProperties(1.0, Vec3(0), Inertia(1))); ba.addContactSurface(X_BA_S, ContactSurface(A.geo, cmA, hA)); mobA = MobilizedBody::Free(matter.updGround(), Transform(), ba, Transform()); }
        Body::Rigid bb(MassProperties(1.0, Vec3(0), Inertia(1))); bb.addContactSurface(X_BB_S, ContactSurface(B.geo, cmB, hB));
        mobB = MobilizedBody::Free(matter.updGround(), Transform(), bb, Transform());
        trk.reset(new ContactTrackerSubsystem(sys)); ccs.reset(new CompliantContactSubsystem(sys, *trk)); ccs->setTransitionVelocity(vtrans);
        desc.set("model", name).set("pair", sub).set("matA", jMat(mA)).set("matB", jMat(mB)).set("vt", vtrans).set("hA", hA).set("hB", hB).set("aOnGround", aOnGround);
        if (A.kind == 1) desc.set("rA", A.r); if (B.kind == 1) desc.set("rB", B.r); if (B.kind == 2) desc.set("radiiB", jV3(B.radii)); if (A.kind == 2) desc.set("radiiA", jV3(A.radii)); if (B.kind == 3) desc.set("halfB", jV3(B.half));
        sys.realizeTopology();
    }
    Transform XA(const State& s) const { return mobA.getBodyTransform(s) * X_BA_S; }
    Transform XB(const State& s) const { return mobB.getBodyTransform(s) * X_BB_S; }
    bool place(State& s, Rng& r, double x, Vec3& P, Vec3& n) override {
        Transform XbA; poseA(s, r, XbA); Transform Xa = XbA * X_BA_S; Rotation RB = randRotation(r); Vec3 cB;
        if (A.kind == 0) {
            Vec3 xh(Xa.R().x()); n = -xh; Vec3 t1 = gm::anyPerp(n), t2 = n % t1;
            if (B.kind == 3 && r.coin(0.6)) {   // brick: often nearly face-down so that several vertices are in contact
                int ax = r.integer(0, 2); Vec3 e(0); e[ax] = r.coin() ? 1 : -1;
                UnitVec3 uxh(xh); CoordinateAxis cax(ax); Rotation Ra(uxh, cax); (void)e;
                RB = Rotation(r.sym(0.03), randUnit3(r)) * Ra;
            }
            double h = B.support(RB, xh);
            cB = Xa.p() + r.sym(1.0) * t1 + r.sym(1.0) * t2 + n * (h - x);
            P = cB - n * (h - x / 2);
        } else if (A.kind == 1 && B.kind == 1) { n = Vec3(randUnit3(r)); cB = Xa.p() + n * (A.r + B.r - x); P = Xa.p() + n * (A.r - x / 2); }
        else if (B.kind == 4) {   // sphere against a mesh face
            int f = r.integer(0, B.mesh.nf() - 1);
            Vec3 a = B.mesh.v[B.mesh.f[3 * f]], b = B.mesh.v[B.mesh.f[3 * f + 1]], cc = B.mesh.v[B.mesh.f[3 * f + 2]];
            Vec3 nf = (b - a) % (cc - a); nf = nf / nf.norm(); Vec3 cf = (a + b + cc) / 3;
            n = -(RB * nf);                       // A -> B points into the mesh face
            Vec3 faceG = Xa.p() + n * (A.r - x);  // where the face centroid must be
            cB = faceG - RB * cf; P = Xa.p() + n * (A.r - x / 2);
        } else {   // quadric pairs: solve the separation along a random direction
            n = Vec3(randUnit3(r));
            auto sd = [&](double t) { return (double)-cx::ellipPair(cx::Ellip(Xa, A.kind == 1 ? Vec3(A.r) : A.radii), cx::Ellip(Transform(RB, Xa.p() + t * n), B.kind == 1 ? Vec3(B.r) : B.radii), false).g; };
            double lo = 0, hi = 2 * (A.size + B.size) + 1;
            if (!(sd(hi) > -x)) return false;
            for (int k = 23; k >= 0; --k) { double t = hi * k / 24; if (sd(t) < -x) { lo = t; hi = hi * (k + 1) / 24; break; } if (k == 0) return false; }
            for (int it = 0; it < 45; ++it) { double mid = 0.5 * (lo + hi); if (sd(mid) < -x) lo = mid; else hi = mid; }
            cB = Xa.p() + 0.5 * (lo + hi) * n;
            cx::PairExact pe = cx::ellipPair(cx::Ellip(Xa, A.kind == 1 ? Vec3(A.r) : A.radii), cx::Ellip(Transform(RB, cB), B.kind == 1 ? Vec3(B.r) : B.radii), true);
            n = gm::toVec3(pe.n); P = gm::toVec3(0.5L * (pe.P + pe.Q));
        }
        mobB.setQToFitTransform(s, Transform(RB, cB) * ~X_BB_S);
        sys.realize(s, Stage::Position);
        return true;
    }
    void judge(Ctx& c, State& s, const std::string& cfg) override;
};

void M_CCS::judge(Ctx& c, State& s, const std::string& cfg) {
    std::string tag = name + ":" + sub;
    cr::Wrench wA = wrenchOn(mobA, s), wB = wrenchOn(mobB, s);
    const ContactSnapshot& snap = trk->getActiveContacts(s);
    int nf = ccs->getNumContactForces(s);
    ContactSurfaceIndex sA = trk->getContactSurfaceIndex(mobA.getMobilizedBodyIndex(), 0);
    Transform Xa = XA(s), Xb = XB(s);
    // ---- reference wrench on B about the Ground origin
    cr::Wrench ref; double fscale = 0; bool penetrating = false; Vec3 n1(0); Vec3 vslipSingle(0); double muLim = 0; bool single = false;
    Json extra = Json::obj();
    bool s1isA = true; const Contact* ct = nullptr;
    if (snap.getNumContacts() > 0) { ct = &snap.getContact(0); s1isA = ct->getSurface1() == sA; }
    const MobilizedBody& mob1 = s1isA ? mobA : mobB; const MobilizedBody& mob2 = s1isA ? mobB : mobA;
    const cr::Mat& m1 = s1isA ? mA : mB; const cr::Mat& m2 = s1isA ? mB : mA;
    auto W = [&](const char* what) { return [&, what]() { Json j = desc; j.set("config", cfg).set("what", what).set("F_ref", jV3(ref.f)).set("F_lib", jV3(wB.f)).set("tau_ref", jV3(ref.tau)).set("tau_lib", jV3(wB.tau)).set("extra", extra).set("nContacts", snap.getNumContacts()).set("nForces", nf); return j; }; };
    double sgnB = s1isA ? 1.0 : -1.0;   // the laws give the force on surface 2
    if (gen == 0 || gen == 1) {
        PointLaw law; law.m1 = m1; law.m2 = m2; law.curve = 2; law.vt = vtrans;
        double x = -1; Vec3 n(0), P0(0);
        if (gen == 0) {     // exact sphere / half-space geometry
            double rB = B.r; Vec3 cB = Xb.p();
            if (A.kind == 0) { Vec3 xh(Xa.R().x()); double h = ~xh * (cB - Xa.p()); x = h + rB; n = -xh; P0 = cB + rB * xh - (x / 2) * xh; law.R = rB; }
            else { Vec3 d = cB - Xa.p(); double dist = d.norm(); n = d / dist; x = A.r + rB - dist; P0 = Xa.p() + (A.r - x / 2) * n; law.R = A.r * rB / (A.r + rB); }
            if (!s1isA) n = -n;
        } else if (ct && EllipticalPointContact::isInstance(*ct)) {   // geometry from the tracker (C35's subject)
            const EllipticalPointContact& e = EllipticalPointContact::getAs(*ct);
            Transform X1 = s1isA ? Xa : Xb; x = e.getDepth(); n = X1.R() * Vec3(e.getContactFrame().z()); P0 = X1 * e.getContactFrame().p();
            double kmax = e.getCurvatures()[0], kmin = e.getCurvatures()[1];
            law.R = 2 / (kmax + kmin); law.e = cr::hertzEccentricity(kmax, kmin);
            extra.set("kmax", kmax).set("kmin", kmin).set("e_ref", law.e);
        }
        if (x > 0) {
            cr::Hertz h = cr::hertzCombine(m1, m2);
            Vec3 Pc = P0 + (x * (0.5 - h.s1)) * n;      // "actual contact point moves closer to the stiffer surface"
            Vec3 vrel = pointVel(mob2, s, Pc) - pointVel(mob1, s, Pc);
            double fN, mu; Vec3 vtan; Vec3 F2 = law.force(x, n, vrel, &fN, &mu, &vtan);
            ref.add(Pc, sgnB * F2); penetrating = true; single = true; n1 = sgnB * n; vslipSingle = sgnB * vtan; muLim = law.muLimit(vtan.norm());
            double fH = cr::hertzForce(law.R, h.Estar, x, law.e), xdot = -(~vrel * n);
            fscale = fH * (1 + 1.5 * h.c * std::fabs(xdot)) * (1 + muLim);
            { const double L = size + Pc.norm() + Xb.p().norm(); fscale += 1e-4 * L * 2 * std::sqrt(law.R) * h.Estar * law.e * std::sqrt(std::max(x, 1e-13 * L)) * (1 + 1.5 * h.c * std::fabs(xdot)) * (1 + muLim); }
            extra.set("depth", x).set("normal12", jV3(n)).set("Pc", jV3(Pc)).set("xdot", xdot).set("fN_ref", fN).set("mu_ref", mu).set("slip", jV3(vtan));
            if (nf == 1) {
                const ContactForce& cf = ccs->getContactForce(s, 0);
                chk(c, "reported@" + tag + ":contact-point", (cf.getContactPoint() - Pc).norm(), 1e-9 * (size + Pc.norm() + x), W("reported contact point is not the stiffness-weighted point"));
                chk(c, "reported@" + tag + ":force-on-surface2", (cf.getForceOnSurface2()[1] - F2).norm() + cf.getForceOnSurface2()[0].norm() / (size + 1e-300), (gen == 1 ? 2e-5 : 1e-9) * fscale + 1e-300, W("reported force on surface 2 differs from the documented law"));
            }
        } else { single = true; n1 = sgnB * (n.norm() > 0 ? n : Vec3(1, 0, 0)); fscale = 1e-12 * std::pow(cr::hertzCombine(m1, m2).Estar, 1.0) * size * size; }
        if (gen == 1 && x <= 0 && !ct) { /* separated ellipsoid pair: nothing reported, nothing expected */ }
    } else if (gen == 2) {   // brick / half-space penalty: linear springs at up to 4 vertices of the contacting face
        Vec3 xh(Xa.R().x()), nH = -xh;
        double kH = mA.E, kB = mB.E, sH = kB / (kH + kB), sB = 1 - sH, k = kH * sH, cc = mA.c * sH + mB.c * sB;
        double us = cr::comb(mA.us, mB.us), ud = cr::comb(mA.ud, mB.ud), uv = cr::comb(mA.uv, mB.uv);
        int low = -1; double deep = -1e300; Vec3 vpos[8];
        for (int v = 0; v < 8; ++v) { Vec3 p(v & 4 ? B.half[0] : -B.half[0], v & 2 ? B.half[1] : -B.half[1], v & 1 ? B.half[2] : -B.half[2]); vpos[v] = Xb * p; double d = ~xh * (vpos[v] - Xa.p()); if (d > deep) { deep = d; low = v; } }
        n1 = nH; muLim = std::max(us, ud);
        if (deep > 0) {
            penetrating = true;
            int bestAx = -1; double bestCos = 1e300;
            for (int ax = 0; ax < 3; ++ax) { int bit = ax == 0 ? 4 : (ax == 1 ? 2 : 1); double sg = (low & bit) ? 1 : -1; double cs = ~nH * (sg * Vec3(Xb.R().col(ax))); if (cs < bestCos) { bestCos = cs; bestAx = ax; } }
            int bit = bestAx == 0 ? 4 : (bestAx == 1 ? 2 : 1); double vsMax = 0;
            for (int v = 0; v < 8; ++v) {
                if ((v & bit) != (low & bit)) continue;
                double x = ~xh * (vpos[v] - Xa.p()); if (x <= 0) continue;
                Vec3 Pc = vpos[v] + (x * sB) * nH;
                Vec3 vrel = pointVel(mobB, s, Pc) - pointVel(mobA, s, Pc);
                double xdot = -(~vrel * nH); Vec3 vtan = vrel + xdot * nH; double vs = vtan.norm();
                double fK = k * x, fN = fK * (1 + cc * xdot); fscale += fK * (1 + cc * std::fabs(xdot)) * (1 + muLim + uv * vs);
                if (fN <= 0) continue;
                Vec3 F = fN * nH; if (vs > 0) F -= (fN * cr::stribeck(us, ud, uv, vs, vtrans) / vs) * vtan;
                ref.add(Pc, F); vsMax = std::max(vsMax, vs);
            }
            muLim += uv * vsMax;
            fscale += 1e-4 * (size + Xb.p().norm() + Xa.p().norm()) * 4 * k * (1 + cc * 10) * (1 + muLim);
            extra.set("lowestVertex", low).set("deepest", deep).set("contactFaceAxis", bestAx);
        } else fscale = 1e-12 * k * size;
        if (fscale == 0) fscale = 1e-12 * k * size;
    } else {                 // elastic foundation: a spring at the centroid of every mesh face that is inside the other object
        double h1 = hA, h2 = hB; if (h1 == 0) h1 = h2; if (h2 == 0) h2 = h1;
        double kh1 = mA.E / h1, kh2 = mB.E / h2, sAfrac = kh2 / (kh1 + kh2), kh = kh1 * sAfrac, cc = mA.c * sAfrac + mB.c * (1 - sAfrac);
        double meshFrac = 1 - sAfrac;    // the mesh is B: its share of the squishing
        double us = cr::comb(mA.us, mB.us), ud = cr::comb(mA.ud, mB.ud), uv = cr::comb(mA.uv, mB.uv);
        int nSpr = 0;
        for (int f = 0; f < B.mesh.nf(); ++f) {
            Vec3 a = Xb * B.mesh.v[B.mesh.f[3 * f]], b = Xb * B.mesh.v[B.mesh.f[3 * f + 1]], d = Xb * B.mesh.v[B.mesh.f[3 * f + 2]];
            Vec3 cen = (a + b + d) / 3; double area = 0.5 * ((b - a) % (d - a)).norm();
            Vec3 nearest; double overlap;
            if (A.kind == 0) { Vec3 xh(Xa.R().x()); double dep = ~xh * (cen - Xa.p()); if (dep <= 0) continue; overlap = dep; nearest = cen - dep * xh; }
            else { Vec3 dc = cen - Xa.p(); double dist = dc.norm(); if (dist >= A.r || dist == 0) continue; overlap = A.r - dist; nearest = Xa.p() + (A.r / dist) * dc; }
            Vec3 nM = (cen - nearest) / overlap;        // points out of the mesh, i.e. the direction of the force on the other body
            Vec3 Pc = cen - (meshFrac * overlap) * nM;
            Vec3 vrel = pointVel(mobA, s, Pc) - pointVel(mobB, s, Pc);   // the other body relative to the mesh
            double odot = -(~vrel * nM); Vec3 vtan = vrel + odot * nM; double vs = vtan.norm();
            double fK = kh * area * overlap, fN = fK * (1 + cc * odot);
            fscale += fK * (1 + cc * std::fabs(odot)) * (1 + std::max(us, ud) + uv * vs); ++nSpr;
            if (fN <= 0) continue;
            Vec3 Fother = fN * nM; if (vs > 0) Fother -= (fN * cr::stribeck(us, ud, uv, vs, vtrans) / vs) * vtan;
            ref.add(Pc, -Fother);                                        // on B (the mesh)
            penetrating = true;
        }
        extra.set("springs", nSpr);
        { double area = 0; for (int f = 0; f < B.mesh.nf(); ++f) area += 0.5 * ((B.mesh.v[B.mesh.f[3 * f + 1]] - B.mesh.v[B.mesh.f[3 * f]]) % (B.mesh.v[B.mesh.f[3 * f + 2]] - B.mesh.v[B.mesh.f[3 * f]])).norm();
          fscale += 1e-4 * (size + Xb.p().norm() + Xa.p().norm()) * kh * area * (1 + cc * 10) * (1 + std::max(us, ud)); }
        if (fscale == 0) fscale = 1e-12 * kh * size * size * size;
    }
    Clauses K{c, tag, W("")};
    chk(c, "law@" + tag, (wB.f - ref.f).norm(), (gen == 1 ? 2e-5 : 1e-9) * fscale, W("force on body B differs from the documented law"));
    chk(c, "law@" + tag + ":moment", (wB.tau - ref.tau).norm(), (gen == 1 ? 2e-5 : 1e-9) * fscale * (size + Xb.p().norm() + Xa.p().norm()), W("moment on body B differs from the documented law"));
    if (single) universal(K, wB.f, n1, vslipSingle, muLim + 1e-12, fscale, penetrating, false);
    else {
        // several contact points: without penetration no force; against a half-space all element normals are the plane
        // normal, so "never attractive" and the friction limit hold for the totals too
        if (!penetrating) chk(c, "zero-without-penetration@" + tag, wB.f.norm(), 1e-9 * fscale, W("force without penetration"));
        if (A.kind == 0) {
            Vec3 nH = -Vec3(Xa.R().x()); double fn = ~wB.f * nH; Vec3 ft = wB.f - fn * nH;
            chk(c, "attractive@" + tag, std::max(0.0, -fn), 1e-9 * fscale, W("normal force pulls the bodies together"));
            if (gen == 2) chk(c, "friction-limit@" + tag, std::max(0.0, ft.norm() - muLim * std::max(fn, 0.0)), 1e-9 * fscale, W("total friction exceeds the limit"));
        }
    }
    reaction(K, wA, wB, fscale, size + Xb.p().norm() + Xa.p().norm());
    // ---- per-element clauses from the reported patch details
    if (ct && nf >= 1) {
        ContactPatch patch;
        if (ccs->calcContactPatchDetailsById(s, ct->getContactId(), patch)) {
            Vec3 fsum(0); Vec3 msum(0);
            for (int i = 0; i < patch.getNumDetails(); ++i) {
                const ContactDetail& d = patch.getContactDetail(i);
                Vec3 n = Vec3(d.getContactNormal()), F = d.getForceOnSurface2(), vsl = d.getSlipVelocity();
                double fn = ~F * n; Vec3 ft = F - fn * n; double vs = vsl.norm();
                double tolE = 1e-9 * fscale;
                chk(c, "element@" + tag + ":attractive", std::max(0.0, -fn), tolE, W("patch element pulls"));
                chk(c, "element@" + tag + ":slip-tangent", std::fabs(~vsl * n), 1e-9 * (vs + std::fabs(d.getDeformationRate())) + 1e-14, W("reported slip velocity not in the tangent plane"));
                if (vs > 0) { chk(c, "element@" + tag + ":friction-opposes-slip", std::max(0.0, ~ft * vsl / vs), tolE, W("element friction along slip")); chk(c, "element@" + tag + ":friction-collinear", (ft % vsl).norm() / vs, tolE, W("element friction not collinear with slip")); }
                double us = cr::comb(mA.us, mB.us), ud = cr::comb(mA.ud, mB.ud), uv = cr::comb(mA.uv, mB.uv);
                chk(c, "element@" + tag + ":friction-limit", std::max(0.0, ft.norm() - (std::max(us, ud) + uv * vs) * std::max(fn, 0.0)), 1e-9 * std::fabs(fn) + tolE, W("element friction exceeds the limit"));
                fsum += F; msum += d.getContactPoint() % F;
            }
            const ContactForce& cf = patch.getContactForce();
            Vec3 Fres = cf.getForceOnSurface2()[1], Mres = cf.getForceOnSurface2()[0] + cf.getContactPoint() % Fres;
            chk(c, "element@" + tag + ":sum-equals-resultant", (fsum - Fres).norm() + (msum - Mres).norm() / (size + cf.getContactPoint().norm() + 1e-300), 1e-8 * fscale, W("sum of patch elements differs from the reported resultant"));
            chk(c, "reported@" + tag + ":resultant-is-body-force", (sgnB * Fres - wB.f).norm() + (sgnB * Mres - wB.tau).norm() / (size + cf.getContactPoint().norm() + 1e-300), 1e-8 * fscale, W("reported resultant differs from the force applied to the body"));
        }
    }
    c.obs(nf > 0 ? "ccs-force-reported" : "ccs-no-force");
}

// ================================================================================================ ElasticFoundationForce
struct M_EFF : Model {
    Shape2 A, B; Transform X_BA_S, X_BB_S; cr::Mat mB; std::unique_ptr<GeneralContactSubsystem> gcs; std::unique_ptr<ElasticFoundationForce> eff;
    void build(Rng& r, long v) override {
        name = "ElasticFoundationForce"; int ak = v % 2; sub = std::string(KNAME[ak]) + "-mesh"; dissFactor = 1.0;
        makeBodies(r, (v / 2) % 2 == 0); A.make(ak, r); B.make(4, r); size = std::min(A.smin, B.smin); X_BA_S = randFrame(r); X_BB_S = randFrame(r);
        mB = randMat(r, (v / 4) % 3 != 0, (v / 4) % 4 != 1); mB.E = r.logUni(1e3, 1e7); vtrans = r.logUni(1e-3, 0.1); cEst = mB.c;
        gcs.reset(new GeneralContactSubsystem(sys)); ContactSetIndex set = gcs->createContactSet();
        bool swap = (v / 8) % 2 == 1; int ib = swap ? 0 : 1;
        if (!swap) { gcs->addBody(set, mobA, A.geo, X_BA_S); gcs->addBody(set, mobB, B.geo, X_BB_S); } else { gcs->addBody(set, mobB, B.geo, X_BB_S); gcs->addBody(set, mobA, A.geo, X_BA_S); }
        eff.reset(new ElasticFoundationForce(forces, *gcs, set));
        eff->setBodyParameters(ContactSurfaceIndex(ib), mB.E, mB.c, mB.us, mB.ud, mB.uv); eff->setTransitionVelocity(vtrans);
        desc.set("model", name).set("pair", sub).set("matMesh", jMat(mB)).set("vt", vtrans).set("swapped", swap).set("aOnGround", aOnGround).set("faces", B.mesh.nf());
        if (ak == 1) desc.set("rA", A.r);
        sys.realizeTopology();
    }
    bool place(State& s, Rng& r, double x, Vec3& P, Vec3& n) override {
        Transform XbA; poseA(s, r, XbA); Transform Xa = XbA * X_BA_S; Rotation RB = randRotation(r); Vec3 cB;
        if (A.kind == 0) { Vec3 xh(Xa.R().x()); n = -xh; Vec3 t1 = gm::anyPerp(n), t2 = n % t1; double h = B.support(RB, xh); cB = Xa.p() + r.sym(1.0) * t1 + r.sym(1.0) * t2 + n * (h - x); P = cB - n * (h - x / 2); }
        else {
            int f = r.integer(0, B.mesh.nf() - 1);
            Vec3 a = B.mesh.v[B.mesh.f[3 * f]], b = B.mesh.v[B.mesh.f[3 * f + 1]], cc = B.mesh.v[B.mesh.f[3 * f + 2]];
            Vec3 nf = (b - a) % (cc - a); nf = nf / nf.norm(); Vec3 cf = (a + b + cc) / 3;
            n = -(RB * nf); cB = Xa.p() + n * (A.r - x) - RB * cf; P = Xa.p() + n * (A.r - x / 2);
        }
        mobB.setQToFitTransform(s, Transform(RB, cB) * ~X_BB_S);
        sys.realize(s, Stage::Position);
        return true;
    }
    void judge(Ctx& c, State& s, const std::string& cfg) override {
        std::string tag = name + ":" + sub;
        cr::Wrench wA = wrenchOn(mobA, s), wB = wrenchOn(mobB, s), ref;
        Transform Xa = mobA.getBodyTransform(s) * X_BA_S, Xb = mobB.getBodyTransform(s) * X_BB_S;
        double fscale = 0; int nSpr = 0; bool pen = false;
        for (int f = 0; f < B.mesh.nf(); ++f) {
            Vec3 a = Xb * B.mesh.v[B.mesh.f[3 * f]], b = Xb * B.mesh.v[B.mesh.f[3 * f + 1]], d = Xb * B.mesh.v[B.mesh.f[3 * f + 2]];
            Vec3 cen = (a + b + d) / 3; double area = 0.5 * ((b - a) % (d - a)).norm();
            Vec3 nearest; double x;
            if (A.kind == 0) { Vec3 xh(Xa.R().x()); double dep = ~xh * (cen - Xa.p()); if (dep <= 0) continue; x = dep; nearest = cen - dep * xh; }
            else { Vec3 dc = cen - Xa.p(); double dist = dc.norm(); if (dist >= A.r || dist == 0) continue; x = A.r - dist; nearest = Xa.p() + (A.r / dist) * dc; }
            Vec3 dir = (nearest - cen) / x;                    // displacement direction of the spring
            Vec3 vrel = pointVel(mobA, s, nearest) - pointVel(mobB, s, nearest);   // other object relative to the mesh, at the contact point
            double v = ~vrel * dir; Vec3 vtan = vrel - v * dir; double vs = vtan.norm();
            double fk = mB.E * area * x, fN = fk * (1 + mB.c * v);
            fscale += fk * (1 + mB.c * std::fabs(v)) * (1 + std::max(mB.us, mB.ud) + mB.uv * vs); ++nSpr;
            if (fN <= 0) continue;
            Vec3 F = fN * dir; if (vs > 0) F += (fN * cr::hollars(mB.us, mB.ud, mB.uv, vs, vtrans) / vs) * vtan;
            ref.add(nearest, F); pen = true;
        }
        { double area = 0; for (int f = 0; f < B.mesh.nf(); ++f) area += 0.5 * ((B.mesh.v[B.mesh.f[3 * f + 1]] - B.mesh.v[B.mesh.f[3 * f]]) % (B.mesh.v[B.mesh.f[3 * f + 2]] - B.mesh.v[B.mesh.f[3 * f]])).norm();
          fscale += 1e-4 * (size + Xb.p().norm() + Xa.p().norm()) * mB.E * area * (1 + mB.c * 10) * (1 + std::max(mB.us, mB.ud)); }
        if (fscale == 0) fscale = 1e-12 * mB.E * size * size * size;
        auto W = [&](const char* what) { return [&, what]() { Json j = desc; j.set("config", cfg).set("what", what).set("springs", nSpr).set("F_ref", jV3(ref.f)).set("F_lib", jV3(wB.f)).set("tau_ref", jV3(ref.tau)).set("tau_lib", jV3(wB.tau)); return j; }; };
        Clauses K{c, tag, W("")};
        chk(c, "law@" + tag, (wB.f - ref.f).norm(), 1e-9 * fscale, W("force on the mesh body differs from the documented law"));
        chk(c, "law@" + tag + ":moment", (wB.tau - ref.tau).norm(), 1e-9 * fscale * (size + Xa.p().norm() + Xb.p().norm()), W("moment on the mesh body differs from the documented law"));
        if (A.kind == 0) {   // all spring directions are the plane normal: the universal clauses hold for the totals
            Vec3 n = -Vec3(Xa.R().x());
            chk(c, "attractive@" + tag, std::max(0.0, -(~wB.f * n)), 1e-9 * fscale, W("normal force pulls the bodies together"));
            Vec3 ft = wB.f - (~wB.f * n) * n;
            chk(c, "friction-limit@" + tag, std::max(0.0, ft.norm() - (std::max(mB.us, mB.ud) + mB.uv * 1e3) * std::max(~wB.f * n, 0.0)), 1e-9 * fscale, W("total friction exceeds the limit"));
        }
        if (!pen) chk(c, "zero-without-penetration@" + tag, wB.f.norm(), 1e-9 * fscale, W("force without any displaced spring"));
        reaction(K, wA, wB, fscale, size + Xa.p().norm() + Xb.p().norm());
    }
};

// ================================================================================================ ExponentialSpringForce
struct M_Exp : Model {
    std::unique_ptr<ExponentialSpringForce> spr; ExponentialSpringParameters prm; Transform X_GP; Vec3 station; double mus = 0, muk = 0, K = 1; Vec3 p0 = Vec3(0);
    double d0, d1, d2, cz, kxy, cxy, maxFz, vSettle = 0.01, dt = 0;
    void build(Rng& r, long v) override {
        name = "ExponentialSpringForce"; sub = "station-plane"; smooth = true;
        makeBodies(r, true);
        if (v % 2 == 1) { prm.setShapeParameters(r.uni(0.0, 0.01), r.uni(0.1, 2.0), r.uni(300, 2000)); prm.setNormalViscosity(r.uni(0.0, 2.0)); prm.setFrictionElasticity(r.logUni(1e3, 1e5)); prm.setFrictionViscosity(r.logUni(10, 1e3)); prm.setSettleVelocity(r.logUni(1e-3, 0.1)); }
        if ((v / 2) % 4 == 3) prm.setMaxNormalForce(r.logUni(5, 500));
        mus = (v / 8) % 3 == 0 ? 0.0 : r.uni(0.2, 1.5); muk = mus * r.uni(0.2, 1.0);
        prm.setInitialMuStatic(mus); prm.setInitialMuKinetic(muk);
        prm.getShapeParameters(d0, d1, d2); cz = prm.getNormalViscosity(); kxy = prm.getFrictionElasticity(); cxy = prm.getFrictionViscosity(); maxFz = prm.getMaxNormalForce(); vSettle = prm.getSettleVelocity();
        X_GP = Transform(randRotation(r), randVec3(r, 1.0)); station = randVec3(r, 0.5);
        spr.reset(new ExponentialSpringForce(forces, X_GP, mobB, station, prm));
        size = 0.01; cEst = cz; dissFactor = 1.0; vtrans = 0.05;
        desc.set("model", name).set("d0", d0).set("d1", d1).set("d2", d2).set("cz", cz).set("kxy", kxy).set("cxy", cxy).set("maxFz", maxFz).set("mus", mus).set("muk", muk);
        sys.realizeTopology();
    }
    bool place(State& s, Rng& r, double x, Vec3& P, Vec3& n) override {
        n = Vec3(X_GP.R().z());
        // x is a depth in units of 'size' (1 cm): pz = -x; spread the heights over the interesting range (-2 cm .. +3 cm)
        double pz = -x; Vec3 pP(r.sym(1.0), r.sym(1.0), pz); P = X_GP * pP;
        Rotation RB = randRotation(r);
        mobB.setQToFitTransform(s, Transform(RB, P - RB * station));
        // Sliding and anchor point: documented discrete states
        K = r.coin(0.3) ? 1.0 : (r.coin(0.3) ? 0.0 : r.uni(0, 1));
        p0 = Vec3(pP[0], pP[1], 0) + (r.coin(0.3) ? Vec3(0) : Vec3(r.sym(1.0), r.sym(1.0), 0) * r.logUni(1e-6, 1e-2));
        // the states are written at time t0 and the force is evaluated at t0+dt (the documented anchor speed is |dp0|/dt)
        double t0 = r.uni(0, 5); dt = r.coin(0.15) ? 0.0 : r.logUni(1e-4, 0.1);
        s.setTime(t0);
        Value<Real>::updDowncast(forces.updDiscreteVariable(s, spr->getSlidingStateIndex())).upd() = K;
        Value<Vec3>::updDowncast(forces.updDiscreteVariable(s, spr->getAnchorPointStateIndex())).upd() = p0;
        s.setTime(t0 + dt); dt = s.getTime() - t0;
        sys.realize(s, Stage::Position);
        return true;
    }
    void judge(Ctx& c, State& s, const std::string& cfg) override {
        std::string tag = name + ":" + sub;
        cr::Wrench wA = wrenchOn(mobA, s), wB = wrenchOn(mobB, s);
        Vec3 pG = mobB.findStationLocationInGround(s, station), vG = mobB.findStationVelocityInGround(s, station);
        Vec3 pP = ~X_GP * pG, vP = ~X_GP.R() * vG; double pz = pP[2], vz = vP[2]; Vec3 pxy(pP[0], pP[1], 0), vxy(vP[0], vP[1], 0);
        double fzE = d1 * std::exp(-d2 * (pz - d0)), fzD = -cz * vz * fzE, fz = fzE + fzD;
        if (fz < 0) fz = 0; if (fz > maxFz) fz = maxFz;
        double mu = mus - K * (mus - muk), lim = mu * fz;
        Vec3 damp1 = -cxy * vxy; if (damp1.norm() > lim) damp1 = damp1 * (lim / damp1.norm());
        Vec3 elas2 = -kxy * (pxy - p0), damp2 = -cxy * vxy; double tot2 = (elas2 + damp2).norm(); if (tot2 > lim) { elas2 *= lim / tot2; damp2 *= lim / tot2; }
        Vec3 fe = elas2 * (1 - K), fd = damp2 + (damp1 - damp2) * K, fric = fe + fd;
        if (!(lim > 0)) fric = fe = fd = Vec3(0);
        Vec3 FrefP = fric + Vec3(0, 0, fz), Fref = X_GP.R() * FrefP;
        double fscale = std::fabs(std::min(fzE, 10 * maxFz)) * (1 + cz * std::fabs(vz)) * (1 + mus) * (1 + 1e-4 * d2 * (1 + pG.norm())) + kxy * 1e-4 * (1 + pG.norm()) * 1e-9 + 1e-4;   // + 1e-13 N absolute: below ~1e-14 N the element switches friction off
        auto W = [&](const char* what) { return [&, what]() { Json j = desc; j.set("config", cfg).set("what", what).set("pz", pz).set("vz", vz).set("vxy", jV3(vxy)).set("pxy_minus_p0", jV3(pxy - p0)).set("Sliding", K).set("fz_ref", fz).set("mu_ref", mu).set("F_ref_P", jV3(FrefP)).set("F_lib_P", jV3(~X_GP.R() * wB.f)); return j; }; };
        Clauses Kc{c, tag, W("")};
        chk(c, "law@" + tag, (wB.f - Fref).norm(), 1e-9 * fscale, W("force on the body differs from the documented law"));
        chk(c, "point@" + tag + ":at-station", (wB.tau - pG % wB.f).norm(), 1e-9 * fscale * (1 + pG.norm()), W("force is not applied at the body station"));
        // the parts reported by the element itself
        chk(c, "reported@" + tag + ":normal-force", (spr->getNormalForce(s, false) - Vec3(0, 0, fz)).norm(), 1e-9 * fscale, W("getNormalForce != documented fz"));
        chk(c, "reported@" + tag + ":mu", std::fabs(spr->getMu(s) - mu), 1e-12 * (1 + mus), W("getMu != mus - Sliding*(mus-muk)"));
        chk(c, "reported@" + tag + ":friction-limit", std::fabs(spr->getFrictionForceLimit(s) - lim), 1e-9 * fscale, W("getFrictionForceLimit != mu*fz"));
        chk(c, "reported@" + tag + ":friction-parts", (spr->getFrictionForceElasticPart(s, false) - fe).norm() + (spr->getFrictionForceDampingPart(s, false) - fd).norm(), 1e-9 * fscale, W("friction parts differ from the documented blend"));
        chk(c, "reported@" + tag + ":total", (spr->getForce(s, true) - wB.f).norm(), 1e-9 * fscale, W("getForce != force applied to the body"));
        // documented updates of the auto-update states: p0 = pxy + fricElasBlend/kxy (in the plane); Sliding = stepUp(clamp(0, |dp0|/dt/vSettle, 1))
        Vec3 p0new = pxy + fe / kxy; p0new[2] = 0;
        chk(c, "reported@" + tag + ":anchor-update", (spr->getAnchorPointPosition(s, false) - p0new).norm(), 1e-9 * (fscale / kxy + pxy.norm() + 1e-6), W("updated anchor point != pxy + fricElasBlend/kxy"));
        double Knew = 1;
        if (dt > 1e-10 && lim > 1e-11) { double sp = (p0new - p0).norm() / dt / vSettle; sp = std::max(0.0, std::min(1.0, sp)); Knew = sp * sp * sp * (10 + sp * (6 * sp - 15)); }
        if (!(lim > 1e-15 && lim <= 1e-11) && !(dt > 0 && dt <= 1e-10))   // not judged near the element's own "too small to matter" switches
            chk(c, "reported@" + tag + ":sliding-update", std::fabs(spr->getSliding(s) - Knew), 1e-7 + 4 * 1e-9 * (fscale / kxy + pxy.norm()) / (dt * vSettle + 1e-300) * (dt > 1e-10 ? 1 : 0), W("updated Sliding != stepUp(clamp(|dp0|/dt/vSettle))"));
        // universal clauses
        Vec3 n(X_GP.R().z()); double fn = ~wB.f * n; Vec3 ft = wB.f - fn * n;
        chk(c, "attractive@" + tag, std::max(0.0, -fn), 1e-9 * fscale, W("normal force pulls the body towards the plane"));
        chk(c, "friction-limit@" + tag, std::max(0.0, ft.norm() - mu * std::max(fn, 0.0)), 1e-9 * fscale, W("friction exceeds mu*fz"));
        Vec3 fdG = X_GP.R() * spr->getFrictionForceDampingPart(s, false), vt = X_GP.R() * vxy;
        if (vt.norm() > 0) { chk(c, "friction-opposes-slip@" + tag, std::max(0.0, ~fdG * vt / vt.norm()), 1e-9 * fscale, W("damping part of the friction force along the slip velocity")); chk(c, "friction-collinear@" + tag, (fdG % vt).norm() / vt.norm(), 1e-9 * fscale, W("damping part of the friction force not collinear with the slip velocity")); }
        Vec3 feG = X_GP.R() * spr->getFrictionForceElasticPart(s, false), disp = X_GP.R() * (pxy - p0);
        if (disp.norm() > 0) chk(c, "friction-opposes-slip@" + tag + ":elastic", std::max(0.0, ~feG * disp / disp.norm()), 1e-9 * fscale, W("elastic part of the friction force not opposing the displacement from the anchor"));
        reaction(Kc, wA, wB, fscale, 1 + pG.norm());
    }
};

// ================================================================================================ driver
static Model* makeModel(int kind) {
    switch (kind) {
    case 0: return new M_HCF; case 1: return new M_HCC; case 2: return new M_Smooth; case 3: return new M_Exp;
    case 4: return new M_EFF; default: return new M_CCS;
    }
}
static void runCase(Ctx& c, long idx, Rng& r, long forceKind) {
    // nine slots: 0 HCF 1 HCC 2 Smooth 3 Exp 4 EFF 5..8 CCS (its own 9 geometry/generator variants cycle inside)
    static const int SLOT[9] = {0, 5, 1, 5, 2, 5, 3, 5, 4};
    int slot = (int)(idx % 9); long j = idx / 9;
    int kind = forceKind >= 0 ? (int)forceKind : SLOT[slot];
    long variant = j;
    if (kind == 5 && forceKind < 0) variant = j * 4 + (slot - 1) / 2;      // four CCS slots per round -> walk through its 9 variants
    std::unique_ptr<Model> m(makeModel(kind));
    c.setPhase("build model kind " + std::to_string(kind));
    m->build(r, variant);
    State s = m->sys.getDefaultState();
    for (int k = 0; k < 8; ++k) {
        int pcls = (int)((k + j) % 4), vcls = (int)((k * 3 + j) % 8);
        if (k >= 4) pcls = 2 + (k + (int)j) % 2;                        // second half: penetrating poses only
        double frac;
        switch (pcls) { case 0: frac = -r.logUni(1e-3, 0.5); break; case 1: frac = r.sym(1e-9); break; case 2: frac = r.logUni(1e-3, 0.03); break; default: frac = r.uni(0.03, 0.3); }
        if (kind == 3) { static const double lo[4] = {-3.0, -0.8, -0.3, 0.5}, hi[4] = {-0.8, -0.3, 0.5, 2.0}; frac = r.uni(lo[pcls], hi[pcls]); }   // in cm: pz = -x
        std::string cfg = std::string(POSES[pcls]) + "/" + VELS[vcls];
        c.setPhase(m->name + " " + m->sub + " place");
        Vec3 P, n;
        if (!m->place(s, r, frac * m->size, P, n)) { c.skip("placement-failed"); continue; }
        setVelocities(*m, s, r, vcls, P, n);
        c.setPhase(m->name + " " + m->sub + " realize");
        m->sys.realize(s, Stage::Dynamics);
        c.setPhase(m->name + " " + m->sub + " judge");
        m->judge(c, s, cfg);
        c.cover(m->name + "/" + m->sub + "/" + cfg);
        if (c.wantSample() && k == 5) { Json d = m->desc; d.set("config", cfg); c.sample(d); }
    }
}

int main(int argc, char** argv) {
    Args a = parseArgs(argc, argv);
    Ctx c(a);
    g_verbose = a.verbose;
    long kind = a.getInt("kind", -1);
    if (a.prop != "C37") { fprintf(stderr, "mon_contactforce: unknown property %s\n", a.prop.c_str()); return 2; }
    return runCases(c, [&](long i, Rng& r) {
        try { runCase(c, i, r, kind); }
        catch (const std::exception& ex) {
            c.viol("exception:" + c.phase + ":" + normMsg(ex.what()), Json::obj().set("what", firstLine(ex.what(), 600)).set("phase", c.phase));
        }
    });
}
