// array_elems.h — element types, live-set registry and small helpers for mon_array (C26).
#pragma once
#include "vh.h"
#include <unordered_map>
#include <cstdarg>
#include <string>
#include <vector>
#include <iterator>

namespace c26 {

inline std::string F(const char* fmt, ...) {
    char buf[512];
    va_list ap; va_start(ap, fmt); vsnprintf(buf, sizeof buf, fmt, ap); va_end(ap);
    return buf;
}

// ---------------------------------------------------------------- live-set registry
// Every tracked object registers its address on construction and removes it on
// destruction. Faults are recorded (never thrown) and flushed by the sequence driver
// after each operation, so they are attributed to the operation that caused them.
struct Reg {
    std::unordered_map<const void*, unsigned long> live;
    unsigned long serial = 0;
    unsigned long nCtor = 0, nDtor = 0, nAssign = 0, nDef = 0, nCopy = 0, nMove = 0, nClone = 0;
    std::vector<std::pair<std::string, std::string>> faults;
    void fault(const char* kind, const char* how) { if (faults.size() < 16) faults.emplace_back(kind, how); }
    bool isLive(const void* p) const { return live.find(p) != live.end(); }
    void born(const void* p, const char* how) {
        ++nCtor;
        auto it = live.find(p);
        if (it != live.end()) { fault("construct-on-live", how); it->second = ++serial; }
        else live.emplace(p, ++serial);
    }
    void died(const void* p) {
        ++nDtor;
        auto it = live.find(p);
        if (it == live.end()) fault("destroy-non-live", "dtor"); else live.erase(it);
    }
    void resetCounters() { nCtor = nDtor = nAssign = nDef = nCopy = nMove = nClone = 0; }
};
static Reg g;      // array element objects
static Reg gObj;   // pointer-wrapper payload objects

enum : int { POISON = -999001, MOVED = -999002, DEAD = -999003 };

// ---------------------------------------------------------------- Counted
struct Counted {
    int val;
    Counted() : val(0) { g.born(this, "default"); ++g.nDef; }
    Counted(int v) : val(v) { g.born(this, "from-int"); }
    Counted(const Counted& s) {
        bool srcLive = g.isLive(&s);   // before registering *this: the source may be this very slot
        g.born(this, "copy"); ++g.nCopy;
        if (!srcLive) { g.fault("copy-from-destroyed", "copy-ctor"); val = POISON; } else val = s.val;
    }
    Counted(Counted&& s) noexcept {
        bool srcLive = g.isLive(&s);
        g.born(this, "move"); ++g.nMove;
        if (!srcLive) { g.fault("copy-from-destroyed", "move-ctor"); val = POISON; } else { val = s.val; s.val = MOVED; }
    }
    ~Counted() { g.died(this); val = DEAD; }
    Counted& operator=(const Counted& s) {
        ++g.nAssign;
        if (!g.isLive(this)) g.fault("assign-to-destroyed", "copy-assign");
        if (!g.isLive(&s)) { g.fault("copy-from-destroyed", "copy-assign"); val = POISON; } else val = s.val;
        return *this;
    }
    Counted& operator=(Counted&& s) noexcept {
        ++g.nAssign;
        if (!g.isLive(this)) g.fault("assign-to-destroyed", "move-assign");
        if (!g.isLive(&s)) { g.fault("copy-from-destroyed", "move-assign"); val = POISON; }
        else { int v = s.val; if (&s != this) s.val = MOVED; val = v; }
        return *this;
    }
    Counted& operator=(int v) { ++g.nAssign; if (!g.isLive(this)) g.fault("assign-to-destroyed", "int-assign"); val = v; return *this; }
};
inline bool operator==(const Counted& a, const Counted& b) { return a.val == b.val; }
inline bool operator<(const Counted& a, const Counted& b) { return a.val < b.val; }

// ---------------------------------------------------------------- MoveOnly
struct MoveOnly {
    int val;
    MoveOnly() : val(0) { g.born(this, "default"); ++g.nDef; }
    MoveOnly(int v) : val(v) { g.born(this, "from-int"); }
    MoveOnly(const MoveOnly&) = delete;
    MoveOnly& operator=(const MoveOnly&) = delete;
    MoveOnly(MoveOnly&& s) noexcept {
        bool srcLive = g.isLive(&s);
        g.born(this, "move"); ++g.nMove;
        if (!srcLive) { g.fault("copy-from-destroyed", "move-ctor"); val = POISON; } else { val = s.val; s.val = MOVED; }
    }
    ~MoveOnly() { g.died(this); val = DEAD; }
    MoveOnly& operator=(MoveOnly&& s) noexcept {
        ++g.nAssign;
        if (!g.isLive(this)) g.fault("assign-to-destroyed", "move-assign");
        if (!g.isLive(&s)) { g.fault("copy-from-destroyed", "move-assign"); val = POISON; }
        else { int v = s.val; if (&s != this) s.val = MOVED; val = v; }
        return *this;
    }
    MoveOnly& operator=(int v) { ++g.nAssign; if (!g.isLive(this)) g.fault("assign-to-destroyed", "int-assign"); val = v; return *this; }
};
inline bool operator==(const MoveOnly& a, const MoveOnly& b) { return a.val == b.val; }
inline bool operator<(const MoveOnly& a, const MoveOnly& b) { return a.val < b.val; }

inline int valOf(int v) { return v; }
inline int valOf(const Counted& c) { return c.val; }
inline int valOf(const MoveOnly& c) { return c.val; }
template <class E> struct ElemName;
template <> struct ElemName<int> { static const char* name() { return "int"; } };
template <> struct ElemName<Counted> { static const char* name() { return "Counted"; } };
template <> struct ElemName<MoveOnly> { static const char* name() { return "MoveOnly"; } };

// ---------------------------------------------------------------- a pure input iterator
template <class E> struct InIt {
    typedef std::input_iterator_tag iterator_category;
    typedef E value_type;
    typedef std::ptrdiff_t difference_type;
    typedef const E* pointer;
    typedef const E& reference;
    const E* p;
    explicit InIt(const E* q = nullptr) : p(q) {}
    reference operator*() const { return *p; }
    InIt& operator++() { ++p; return *this; }
    InIt operator++(int) { InIt t = *this; ++p; return t; }
    bool operator==(const InIt& o) const { return p == o.p; }
    bool operator!=(const InIt& o) const { return p != o.p; }
};

inline const char* szClass(long n) {
    return n == 0 ? "0" : n == 1 ? "1" : n <= 4 ? "2-4" : n <= 8 ? "5-8" : n <= 16 ? "9-16" : n <= 64 ? "17-64" : n <= 128 ? "65-128" : "129+";
}

} // namespace c26
