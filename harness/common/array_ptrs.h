// array_ptrs.h — shadow-model sequences for ClonePtr, CloneOnWritePtr, ReferencePtr,
// ResetOnCopy and ReinitOnCopy (C26, second half of the statement).
#pragma once
#include "array_elems.h"
#include "SimTKcommon.h"
#include <memory>
#include <map>

namespace c26 {
using vh::Json;

// payload with a virtual clone(); every instance is registered in gObj
struct Obj {
    int val;
    explicit Obj(int v) : val(v) { gObj.born(this, "Obj"); }
    Obj(const Obj& s) : val(s.val) { gObj.born(this, "Obj-copy"); }
    virtual ~Obj() { gObj.died(this); val = DEAD; }
    virtual Obj* clone() const { ++gObj.nClone; return new Obj(*this); }
    virtual int kind() const { return 0; }
    virtual int extra() const { return 0; }
};
struct DObj : Obj {
    int ex;
    DObj(int v, int e) : Obj(v), ex(e) {}
    DObj* clone() const override { ++gObj.nClone; return new DObj(*this); }
    int kind() const override { return 1; }
    int extra() const override { return ex; }
};

struct PtrSeqBase {
    vh::Ctx& c; vh::Rng& r; std::string fam, op; std::vector<std::string> hist; int nfail = 0; bool dead = false;
    PtrSeqBase(vh::Ctx& c_, vh::Rng& r_, const char* f) : c(c_), r(r_), fam(f) {}
    void log(const std::string& s) { hist.push_back(s); if (c.args.verbose) fprintf(stderr, "  op %zu: %s\n", hist.size(), s.c_str()); }
    void fail(const std::string& what, Json w = Json::obj()) {
        Json h = Json::arr(); size_t b = hist.size() > 14 ? hist.size() - 14 : 0;
        for (size_t i = b; i < hist.size(); ++i) h.push(hist[i]);
        w.set("what", what).set("op", op).set("history_tail", h);
        c.viol(fam + ":" + op + ":" + what, w);
        ++nfail; dead = true;   // the shadow model is not resynchronised: stop this history so that later ops are not blamed
    }
    void flushObjFaults() {
        if (gObj.faults.empty()) return;
        auto fs = gObj.faults; gObj.faults.clear();
        for (auto& f : fs) fail("payload-" + f.first);
    }
    int val() { return r.integer(1, 9999); }
};

// =====================================================================================
// ClonePtr (P = SimTK::ClonePtr) and CloneOnWritePtr (P = SimTK::CloneOnWritePtr) share one
// driver: the shadow model is a set of sharing groups; for ClonePtr every group has one member.
template <template <class> class P, bool COW> struct ClonePtrSeq : PtrSeqBase {
    enum { NB = 4, ND = 2, NH = NB + ND };
    typedef P<Obj> PB; typedef P<DObj> PD;
    std::unique_ptr<PB> hb[NB]; std::unique_ptr<PD> hd[ND];
    struct Grp { int val, kind, ex, n; };
    std::map<int, Grp> grp; int nextGrp = 1;
    int mg[NH];   // model: group of handle h (0..NB-1 base, NB.. derived), -1 empty
    long rawHeld = 0;

    ClonePtrSeq(vh::Ctx& c_, vh::Rng& r_) : PtrSeqBase(c_, r_, COW ? "CloneOnWritePtr" : "ClonePtr") { for (int& x : mg) x = -1; }

    // ---- model operations
    void leave(int h) { if (mg[h] < 0) return; Grp& G = grp[mg[h]]; if (--G.n == 0) grp.erase(mg[h]); mg[h] = -1; }
    int newGrp(int v, int kind, int ex) { grp[nextGrp] = Grp{v, kind, ex, 1}; return nextGrp++; }
    void cloneInto(int h, int srcH) {       // h becomes an independent deep copy (or sharer for COW) of srcH
        if (h == srcH) return;
        if (COW) { if (mg[h] == mg[srcH]) return; leave(h); if (mg[srcH] >= 0) { mg[h] = mg[srcH]; ++grp[mg[h]].n; } }
        else { int s = mg[srcH]; Grp G = s >= 0 ? grp[s] : Grp{0, 0, 0, 0}; leave(h); if (s >= 0) mg[h] = newGrp(G.val, G.kind, G.ex); }
    }
    void moveInto(int h, int srcH) { if (h == srcH) return; int s = mg[srcH]; mg[srcH] = -1; leave(h); mg[h] = s; }
    void detachM(int h) { if (mg[h] < 0) return; Grp& G = grp[mg[h]]; if (G.n > 1) { --G.n; mg[h] = newGrp(G.val, G.kind, G.ex); } }

    // ---- access to the real handles
    const Obj* getP(int h) const { return h < NB ? hb[h]->get() : hd[h - NB]->get(); }
    bool emptyP(int h) const { return h < NB ? hb[h]->empty() : hd[h - NB]->empty(); }
    long useCount(int h) const { if constexpr (COW) return h < NB ? hb[h]->use_count() : hd[h - NB]->use_count(); else return emptyP(h) ? 0 : 1; }
    bool uniqueP(int h) const { if constexpr (COW) return h < NB ? hb[h]->unique() : hd[h - NB]->unique(); else return !emptyP(h); }

    void verify() {
        std::map<const Obj*, int> p2g; std::map<int, const Obj*> g2p;
        for (int h = 0; h < NH && !dead; ++h) {
            const Obj* p = getP(h); int gi = mg[h];
            bool bl = h < NB ? (bool)*hb[h] : (bool)*hd[h - NB];
            if (emptyP(h) != (gi < 0) || (p == nullptr) != (gi < 0) || bl != (gi >= 0)) { fail("empty-mismatch", Json::obj().set("handle", h)); continue; }
            if (gi < 0) { if (useCount(h) != 0 || uniqueP(h)) fail("empty-handle-use_count"); continue; }
            if (!gObj.isLive(p)) { fail("handle-holds-destroyed-object", Json::obj().set("handle", h)); continue; }
            const Grp& G = grp[gi];
            if (p->val != G.val || p->kind() != G.kind || p->extra() != G.ex)
                fail("value-mismatch", Json::obj().set("handle", h).set("got", p->val).set("want", G.val).set("kind_got", p->kind()).set("kind_want", G.kind));
            if (useCount(h) != G.n) fail("use_count-mismatch", Json::obj().set("handle", h).set("got", useCount(h)).set("want", G.n));
            if (uniqueP(h) != (G.n == 1)) fail("unique-mismatch");
            auto it = p2g.find(p); if (it != p2g.end() && it->second != gi) fail("independent-handles-share-object", Json::obj().set("handle", h));
            auto jt = g2p.find(gi); if (jt != g2p.end() && jt->second != p) fail("sharing-handles-hold-different-objects", Json::obj().set("handle", h));
            p2g[p] = gi; g2p[gi] = p;
        }
        long want = (long)grp.size() + rawHeld;
        if ((long)gObj.live.size() != want) { fail("payload-live-count-mismatch", Json::obj().set("live", (long)gObj.live.size()).set("expected", want)); dead = true; }
        c.require(fam + ":lockstep", true, nullptr);
    }

    Obj* freshObj(int& kind, int& v, int& ex, bool forceD) {
        v = val(); kind = forceD || r.coin(0.3) ? 1 : 0; ex = kind ? val() : 0;
        return kind ? static_cast<Obj*>(new DObj(v, ex)) : new Obj(v);
    }

    // generic operations on a handle of either static type
    template <class H, class T> void opsOn(std::unique_ptr<H>& hp, int h, bool isD) {
        int what = r.integer(0, 17); H& x = *hp; int kind, v, ex;
        switch (what) {
        case 0: { op = "ctor()"; bool nl = r.coin(); log(F("h%d = %s", h, nl ? "P(nullptr)" : "P()")); hp.reset(nl ? new H(nullptr) : new H()); leave(h); break; }
        case 1: { op = "ctor(T*)"; T* p = static_cast<T*>(freshObj(kind, v, ex, isD)); log(F("h%d = P(new obj %d)", h, v)); hp.reset(new H(p)); leave(h); mg[h] = newGrp(v, kind, ex); break; }
        case 2: { op = "ctor(const T*)"; bool nul = r.coin(0.2); std::unique_ptr<Obj> src(nul ? nullptr : freshObj(kind, v, ex, isD)); log(F("h%d = P((const T*)%s)", h, nul ? "null" : "obj"));
                  long before = gObj.nClone; hp.reset(new H(static_cast<const T*>(src.get())));
                  if (gObj.nClone - before != (nul ? 0 : 1)) fail("clone-count");
                  leave(h); if (!nul) mg[h] = newGrp(v, kind, ex); break; }
        case 3: { op = "ctor(const T&)"; std::unique_ptr<Obj> src(freshObj(kind, v, ex, isD)); log(F("h%d = P(const T& %d)", h, v));
                  hp.reset(new H(static_cast<const T&>(*src))); leave(h); mg[h] = newGrp(v, kind, ex); break; }
        case 4: { op = "operator=(const T&)"; bool own = mg[h] >= 0 && r.coin(0.3); log(F("h%d = %s", h, own ? "*h (own object)" : "const T&"));
                  if (own) { Grp G = grp[mg[h]]; x = static_cast<const T&>(*x.get()); leave(h); mg[h] = newGrp(G.val, G.kind, G.ex); }
                  else { std::unique_ptr<Obj> src(freshObj(kind, v, ex, isD)); x = static_cast<const T&>(*src); leave(h); mg[h] = newGrp(v, kind, ex); }
                  break; }
        case 5: { op = "operator=(T*)"; bool own = mg[h] >= 0 && r.coin(0.3) && (!COW || grp[mg[h]].n == 1);
                  if (own) { log(F("h%d = (T*)own pointer", h)); x = const_cast<T*>(x.get()); }
                  else { T* p = static_cast<T*>(freshObj(kind, v, ex, isD)); log(F("h%d = new obj %d", h, v)); x = p; leave(h); mg[h] = newGrp(v, kind, ex); }
                  break; }
        case 6: op = "reset()"; log(F("h%d.reset()", h)); x.reset(); leave(h); break;
        case 7: { op = "reset(T*)"; bool own = mg[h] >= 0 && r.coin(0.3) && (!COW || grp[mg[h]].n == 1);
                  if (own) { log(F("h%d.reset(own pointer)", h)); x.reset(const_cast<T*>(x.get())); }
                  else if (r.coin(0.2)) { log(F("h%d.reset((T*)nullptr)", h)); x.reset((T*)nullptr); leave(h); }
                  else { T* p = static_cast<T*>(freshObj(kind, v, ex, isD)); log(F("h%d.reset(new obj %d)", h, v)); x.reset(p); leave(h); mg[h] = newGrp(v, kind, ex); }
                  break; }
        case 8: { op = "release()"; log(F("h%d.release()", h)); int gi = mg[h]; Grp G = gi >= 0 ? grp[gi] : Grp{0, 0, 0, 0};
                  ++rawHeld; T* p = x.release(); if (gi < 0) --rawHeld;
                  if ((p == nullptr) != (gi < 0)) fail("release-null-mismatch");
                  else if (p) { if (!gObj.isLive(p) || p->val != G.val || p->kind() != G.kind) fail("released-object-mismatch"); }
                  detachM(h); leave(h);   // released object is now owned by the harness
                  if (!x.empty()) fail("not-empty-after-release");
                  if (p) { flushObjFaults(); verify(); delete p; --rawHeld; }
                  break; }
        case 9: case 10: case 11: { if (mg[h] < 0) { op = "write"; return; }
                  v = val(); int how = r.integer(0, 3); op = how == 0 ? "upd()" : how == 1 ? "updRef()" : how == 2 ? "operator->" : "operator*";
                  log(F("h%d write %d via %s", h, v, op.c_str()));
                  long before = gObj.nClone; bool shared = COW && grp[mg[h]].n > 1;
                  if (how == 0) x.upd()->val = v; else if (how == 1) x.updRef().val = v; else if (how == 2) x->val = v; else (*x).val = v;
                  if (gObj.nClone - before != (shared ? 1 : 0)) fail("clone-count-on-write", Json::obj().set("clones", (long)(gObj.nClone - before)).set("shared", shared));
                  detachM(h); grp[mg[h]].val = v; break; }
        case 12: { op = "read"; if (mg[h] < 0) return; log(F("h%d read", h)); long before = gObj.nClone; const H& cx = x;
                  int got = cx->val + (*cx).val + cx.getRef().val + cx.get()->val + x.getRef().val;
                  if (got != 5 * grp[mg[h]].val) fail("read-mismatch");
                  if (gObj.nClone != before) fail("read-cloned"); break; }
        case 13: { if constexpr (COW) { op = "detach()"; log(F("h%d.detach()", h)); long before = gObj.nClone; bool shared = mg[h] >= 0 && grp[mg[h]].n > 1;
                  x.detach(); if (gObj.nClone - before != (shared ? 1 : 0)) fail("clone-count-on-detach"); detachM(h); } else { op = "read"; } break; }
        default: op = "noop"; break;
        }
    }
    // binary operations between two handles of possibly different static type
    template <class HD, class HS> void binOps(std::unique_ptr<HD>& dp, int d, std::unique_ptr<HS>& sp, int s, bool sameType) {
        int what = r.integer(0, sameType ? 6 : 3); HD& x = *dp; HS& y = *sp;
        const char* tn = sameType ? "" : "<U>";
        switch (what) {
        case 0: { op = std::string("ctor(copy)") + tn; log(F("h%d = P%s(h%d)", d, tn, s)); long before = gObj.nClone;
                  HD* n = new HD(static_cast<const HS&>(y)); long cl = gObj.nClone - before;
                  if (cl != (COW ? 0 : (mg[s] >= 0 ? 1 : 0))) fail("clone-count");
                  if (d == s) { int gs = mg[s]; if (COW) { if (gs >= 0) ++grp[gs].n; } else if (gs >= 0) { Grp G = grp[gs]; gs = newGrp(G.val, G.kind, G.ex); }
                                dp.reset(n); leave(d); mg[d] = gs; }
                  else { cloneInto(d, s); dp.reset(n); }
                  break; }
        case 1: { op = std::string("ctor(move)") + tn; log(F("h%d = P%s(std::move(h%d))", d, tn, s)); long before = gObj.nClone;
                  HD* n = new HD(std::move(y)); if (gObj.nClone != before) fail("move-cloned");
                  if (!y.empty()) fail("source-not-empty-after-move");
                  if (d == s) { int gs = mg[s]; mg[s] = -1; dp.reset(n); mg[d] = gs; } else { moveInto(d, s); dp.reset(n); }
                  break; }
        case 2: op = std::string("operator=(copy)") + tn; log(F("h%d = h%d%s", d, s, d == s ? " [self]" : "")); x = static_cast<const HS&>(y); cloneInto(d, s); break;
        case 3: { op = std::string("operator=(move)") + tn; log(F("h%d = std::move(h%d)%s", d, s, d == s ? " [self]" : "")); long before = gObj.nClone;
                  x = std::move(y); if (gObj.nClone != before) fail("move-cloned"); moveInto(d, s); break; }
        default:
            if constexpr (std::is_same<HD, HS>::value) {
                if (what == 4) { op = "swap"; bool adl = r.coin(); log(F("swap(h%d,h%d)", d, s)); if (adl) { using std::swap; swap(x, y); } else x.swap(y); std::swap(mg[d], mg[s]); }
                else {
                    op = "compare"; log(F("compare h%d h%d", d, s)); const Obj* p = x.get(); const Obj* q = y.get();
                    if ((x == y) != (p == q) || (x != y) != (p != q) || (x < y) != std::less<const Obj*>()(p, q) || (x >= y) != !std::less<const Obj*>()(p, q)
                        || (x > y) != std::less<const Obj*>()(q, p) || (x <= y) != !std::less<const Obj*>()(q, p)) fail("pointer-comparison-mismatch");
                    if ((x == nullptr) != (p == nullptr) || (nullptr == x) != (p == nullptr) || (x != nullptr) != (p != nullptr) || (x < nullptr) || (nullptr < x) != (p != nullptr)
                        || (x > nullptr) != (p != nullptr) || (x <= nullptr) != (p == nullptr) || !(x >= nullptr) || (nullptr > x)) fail("nullptr-comparison-mismatch");
                }
            }
            break;
        }
    }
    void run() {
        gObj.live.clear(); gObj.faults.clear(); gObj.resetCounters();
        for (auto& h : hb) h.reset(new PB()); for (auto& h : hd) h.reset(new PD());
        int nops = r.integer(20, 200);
        for (int i = 0; i < nops && !dead; ++i) {
            op = "noop"; c.setPhase(fam);
            double u = r.uni();
            try {
                if (u < 0.5) { int h = r.integer(0, NH - 1); if (h < NB) opsOn<PB, Obj>(hb[h], h, false); else opsOn<PD, DObj>(hd[h - NB], h, true); }
                else if (u < 0.8) { int d = r.integer(0, NB - 1), s = r.coin(0.2) ? d : r.integer(0, NB - 1); binOps(hb[d], d, hb[s], s, true); }
                else if (u < 0.9) { int d = r.integer(0, ND - 1), s = r.coin(0.2) ? d : r.integer(0, ND - 1); binOps(hd[d], NB + d, hd[s], NB + s, true); }
                else { int d = r.integer(0, NB - 1), s = r.integer(0, ND - 1); binOps(hb[d], d, hd[s], NB + s, false); }
            } catch (const std::exception& e) { fail("unexpected-exception", Json::obj().set("exception", vh::firstLine(e.what(), 200))); }
            if (op == "noop" || op == "write") continue;
            c.cover(fam + "/" + op);
            flushObjFaults(); if (!dead) verify();
        }
        if (c.wantSample()) { Json h = Json::arr(); for (size_t i = 0; i < hist.size() && i < 10; ++i) h.push(hist[i]); c.sample(Json::obj().set("family", fam).set("ops", (long)hist.size()).set("first_ops", h)); }
        op = "teardown";
        for (auto& h : hb) h.reset(); for (auto& h : hd) h.reset();
        flushObjFaults();
        if (!dead && !gObj.live.empty()) fail("payload-leak", Json::obj().set("live", (long)gObj.live.size()));
        c.require(fam + ":teardown", true, nullptr);
        c.obs(fam + "-ops", (long)hist.size());
        gObj.live.clear(); gObj.faults.clear();
    }
};

// =====================================================================================
// ReferencePtr, ResetOnCopy, ReinitOnCopy
enum Colour { Red = 3, Green = 5, Blue = 9 };
struct Holder {      // compiler-generated copy/move operations only
    SimTK::ReferencePtr<int> ref;
    SimTK::ResetOnCopy<int> rint;
    SimTK::ResetOnCopy<Counted> rcls;
    SimTK::ResetOnCopy<std::unique_ptr<int>> rup;
    SimTK::ResetOnCopy<const int*> rptr;
    SimTK::ReinitOnCopy<int> iint{-1};
    SimTK::ReinitOnCopy<Counted> icls{Counted(7)};
    SimTK::ReinitOnCopy<Colour> ienum{Blue};
};
struct HolderModel { int ref = -1; int rint = 0; int rcls = 0; int rup = -1; int rptr = -1; int iint = -1, iint0 = -1; int icls = 7, icls0 = 7; int ienum = Blue, ienum0 = Blue; };

struct CopyWrapSeq : PtrSeqBase {
    enum { NH = 3, NT = 5 };
    int tgt[NT];
    std::unique_ptr<Holder> h[NH]; HolderModel hm[NH];
    CopyWrapSeq(vh::Ctx& c_, vh::Rng& r_) : PtrSeqBase(c_, r_, "CopyWrappers") {}
    int tix(const int* p) const { return p ? (int)(p - tgt) : -1; }
    void verify() {
        for (int i = 0; i < NH; ++i) {
            const Holder& x = *h[i]; const HolderModel& M = hm[i];
            Json w = Json::obj().set("holder", i);
            if (tix(x.ref.get()) != M.ref || x.ref.empty() != (M.ref < 0) || (bool)x.ref != (M.ref >= 0)) fail("ReferencePtr-mismatch", w);
            if (M.ref >= 0 && (&*x.ref != tgt + M.ref || &x.ref.getRef() != tgt + M.ref)) fail("ReferencePtr-deref-mismatch", w);
            if ((int)x.rint != M.rint || x.rint.getT() != M.rint) fail("ResetOnCopy<int>-mismatch", w.set("got", (int)x.rint).set("want", M.rint));
            if (x.rcls.getT().val != M.rcls || !g.isLive(&x.rcls.getT())) fail("ResetOnCopy<class>-mismatch", w.set("got", x.rcls.getT().val).set("want", M.rcls));
            if ((x.rup.getT() ? *x.rup.getT() : -1) != M.rup) fail("ResetOnCopy<unique_ptr>-mismatch", w);
            if (tix(x.rptr.getT()) != M.rptr) fail("ResetOnCopy<pointer>-mismatch", w);
            if (x.iint.getT() != M.iint || x.iint.getReinitT() != M.iint0) fail("ReinitOnCopy<int>-mismatch", w.set("got", x.iint.getT()).set("want", M.iint).set("reinit_got", x.iint.getReinitT()).set("reinit_want", M.iint0));
            if (x.icls.getT().val != M.icls || x.icls.getReinitT().val != M.icls0) fail("ReinitOnCopy<class>-mismatch", w.set("got", x.icls.getT().val).set("want", M.icls).set("reinit_got", x.icls.getReinitT().val).set("reinit_want", M.icls0));
            if ((int)x.ienum.getT() != M.ienum || (int)x.ienum.getReinitT() != M.ienum0) fail("ReinitOnCopy<enum>-mismatch", w);
        }
        long want = NH * 3;   // rcls + icls value + icls reinit value per holder
        if ((long)g.live.size() != want) { fail("live-count-mismatch", Json::obj().set("live", (long)g.live.size()).set("expected", want)); dead = true; }
        if (!g.faults.empty()) { auto fs = g.faults; g.faults.clear(); for (auto& f : fs) fail("element-" + f.first); }
        c.require("CopyWrappers:lockstep", true, nullptr);
    }
    static HolderModel copied(const HolderModel& s) { HolderModel n; n.iint = n.iint0 = s.iint0; n.icls = n.icls0 = s.icls0; n.ienum = n.ienum0 = s.ienum0; return n; }
    static HolderModel movedFrom(HolderModel& s) { HolderModel n = s; s.ref = -1; s.rup = -1; s.rcls = MOVED; s.icls = MOVED; return n; }
    void run() {
        g.live.clear(); g.faults.clear(); gObj.faults.clear();
        for (int i = 0; i < NT; ++i) tgt[i] = 100 + i;
        for (auto& x : h) x.reset(new Holder());
        verify();
        int nops = r.integer(20, 150);
        for (int it = 0; it < nops && !dead; ++it) {
            int i = r.integer(0, NH - 1), j = r.coin(0.2) ? i : r.integer(0, NH - 1); Holder& x = *h[i]; HolderModel& M = hm[i];
            int what = r.integer(0, 19); int v = val(); int t = r.integer(0, NT - 1);
            c.setPhase("CopyWrappers");
            switch (what) {
            case 0: { op = "struct-copy-ctor"; log(F("H%d = Holder(H%d)", i, j)); Holder* n = new Holder(static_cast<const Holder&>(*h[j])); HolderModel nm = copied(hm[j]); h[i].reset(n); hm[i] = nm; break; }
            case 1: { op = "struct-move-ctor"; log(F("H%d = Holder(std::move(H%d))", i, j)); Holder* n = new Holder(std::move(*h[j])); HolderModel nm = movedFrom(hm[j]);
                      if (!h[j]->ref.empty()) fail("ReferencePtr-source-not-empty-after-move"); h[i].reset(n); hm[i] = nm; break; }
            case 2: { op = "struct-copy-assign"; log(F("H%d = H%d%s", i, j, i == j ? " [self]" : "")); x = static_cast<const Holder&>(*h[j]);
                      // copy assignment: ReferencePtr -> null (unchanged on self-assign), ResetOnCopy -> default, ReinitOnCopy -> own initial value
                      HolderModel nm = copied(M); if (i == j) nm.ref = M.ref; M = nm; break; }
            case 3: { op = "struct-move-assign"; log(F("H%d = std::move(H%d)%s", i, j, i == j ? " [self]" : "")); if (i == j) { op = "noop"; break; }
                      x = std::move(*h[j]); HolderModel& S = hm[j];
                      M.ref = S.ref; S.ref = -1; M.rint = S.rint; M.rcls = S.rcls; S.rcls = MOVED; M.rup = S.rup; S.rup = -1; M.rptr = S.rptr; M.iint = S.iint; M.icls = S.icls; S.icls = MOVED; M.ienum = S.ienum; break; }
            case 4: op = "ReferencePtr=T*"; log(F("H%d.ref = &tgt[%d]", i, t)); if (r.coin()) x.ref = tgt + t; else x.ref = tgt[t]; M.ref = t; break;
            case 5: op = "ReferencePtr.reset"; log(F("H%d.ref.reset()", i)); if (r.coin()) { x.ref.reset(); M.ref = -1; } else { x.ref.reset(tgt + t); M.ref = t; } break;
            case 6: { op = "ReferencePtr.release"; log(F("H%d.ref.release()", i)); int* p = x.ref.release(); if (tix(p) != M.ref) fail("ReferencePtr-release-mismatch"); M.ref = -1; break; }
            case 7: { op = "ReferencePtr.swap"; log(F("swap(H%d.ref,H%d.ref)", i, j)); if (r.coin()) x.ref.swap(h[j]->ref); else { using std::swap; swap(x.ref, h[j]->ref); } std::swap(M.ref, hm[j].ref); break; }
            case 8: { op = "ReferencePtr-copy"; log(F("copy/move single ReferencePtr of H%d", i));
                      SimTK::ReferencePtr<int> cp(x.ref); if (!cp.empty()) fail("ReferencePtr-copy-ctor-carried-pointer");
                      SimTK::ReferencePtr<int> as(tgt + t); as = x.ref; if (!as.empty()) fail("ReferencePtr-copy-assign-carried-pointer");
                      SimTK::ReferencePtr<int> mv(std::move(x.ref)); if (tix(mv.get()) != M.ref || !x.ref.empty()) fail("ReferencePtr-move-ctor-mismatch");
                      x.ref = std::move(mv); if (tix(x.ref.get()) != M.ref || !mv.empty()) fail("ReferencePtr-move-assign-mismatch");
                      SimTK::ReferencePtr<int> a(tgt + t), b(tgt + t), n0, n1(nullptr);
                      if (!(a == b) || (a != b) || (a == n0) || !(n0 == n1) || !(n0 == nullptr) || (a == nullptr) || !(n0 < a) || (a < n0)) fail("ReferencePtr-comparison-mismatch");
                      // elements of a growing Array_ keep their pointers (moved), a copied Array_ has none
                      SimTK::Array_<SimTK::ReferencePtr<int>> arr; for (int q = 0; q < 9; ++q) arr.emplace_back(tgt + q % NT);
                      bool ok = true; for (unsigned q = 0; q < 9; ++q) ok = ok && arr[q].get() == tgt + q % NT; if (!ok) fail("ReferencePtr-lost-in-Array-growth");
                      SimTK::Array_<SimTK::ReferencePtr<int>> arr2(arr); ok = arr2.size() == 9; for (unsigned q = 0; ok && q < 9; ++q) ok = arr2[q].empty(); if (!ok) fail("ReferencePtr-carried-by-Array-copy");
                      break; }
            case 9: op = "ResetOnCopy<int>=T"; log(F("H%d.rint = %d", i, v)); x.rint = v; M.rint = v; break;
            case 10: op = "ResetOnCopy<int>-arith"; log(F("H%d.rint += 1", i)); x.rint.updT() += 1; M.rint += 1; break;
            case 11: op = "ResetOnCopy<class>=T"; log(F("H%d.rcls = Counted(%d)", i, v)); if (r.coin()) { Counted tmp(v); x.rcls = tmp; } else x.rcls = Counted(v); M.rcls = v; break;
            case 12: op = "ResetOnCopy<unique_ptr>=T"; log(F("H%d.rup = make_unique(%d)", i, v)); x.rup = std::unique_ptr<int>(new int(v)); M.rup = v; break;
            case 13: op = "ResetOnCopy<pointer>=T"; log(F("H%d.rptr = &tgt[%d]", i, t)); x.rptr = (const int*)(tgt + t); M.rptr = t; break;
            case 14: op = "ReinitOnCopy<int>=T"; log(F("H%d.iint = %d", i, v)); x.iint = v; M.iint = v; break;
            case 15: op = "ReinitOnCopy<class>=T"; log(F("H%d.icls = Counted(%d)", i, v)); if (r.coin()) { Counted tmp(v); x.icls = tmp; } else x.icls = Counted(v); M.icls = v; break;
            case 16: op = "ReinitOnCopy<enum>=T"; log(F("H%d.ienum = Green", i)); x.ienum = Green; M.ienum = Green; break;
            case 17: { op = "single-wrapper-copies"; log(F("copy/move single wrappers of H%d", i));
                      SimTK::ResetOnCopy<int> a(x.rint); if ((int)a != 0) fail("ResetOnCopy<int>-copy-ctor-carried-value", Json::obj().set("got", (int)a));
                      SimTK::ResetOnCopy<int> b(v); b = x.rint; if ((int)b != 0) fail("ResetOnCopy<int>-copy-assign-carried-value");
                      SimTK::ResetOnCopy<int> cinit(v); if ((int)cinit != v) fail("ResetOnCopy<int>-init-value-lost");
                      SimTK::ResetOnCopy<int> bm(std::move(cinit)); if ((int)bm != v) fail("ResetOnCopy<int>-move-lost-value");
                      SimTK::ResetOnCopy<Counted> d(x.rcls); if (d.getT().val != 0) fail("ResetOnCopy<class>-copy-ctor-carried-value");
                      SimTK::ResetOnCopy<Counted> e{Counted(v)}; e = x.rcls; if (e.getT().val != 0) fail("ResetOnCopy<class>-copy-assign-carried-value");
                      e = Counted(v); { const SimTK::ResetOnCopy<Counted>& er = e; e = er; } if (e.getT().val != 0) fail("ResetOnCopy<class>-self-copy-assign-not-reset");
                      SimTK::ReinitOnCopy<int> f(x.iint); if (f.getT() != M.iint0 || f.getReinitT() != M.iint0) fail("ReinitOnCopy<int>-copy-ctor-mismatch", Json::obj().set("got", f.getT()).set("want", M.iint0));
                      SimTK::ReinitOnCopy<int> k2(v); k2 = 5; k2 = x.iint; if (k2.getT() != v) fail("ReinitOnCopy<int>-copy-assign-mismatch", Json::obj().set("got", k2.getT()).set("want", v));
                      SimTK::ReinitOnCopy<int> k3(v); k3 = 6; SimTK::ReinitOnCopy<int> k4(std::move(k3)); if (k4.getT() != 6 || k4.getReinitT() != v) fail("ReinitOnCopy<int>-move-ctor-mismatch");
                      SimTK::ReinitOnCopy<int> k5(1); k5 = std::move(k4); if (k5.getT() != 6 || k5.getReinitT() != 1) fail("ReinitOnCopy<int>-move-assign-mismatch");
                      SimTK::ReinitOnCopy<Counted> l(x.icls); if (l.getT().val != M.icls0 || l.getReinitT().val != M.icls0) fail("ReinitOnCopy<class>-copy-ctor-mismatch", Json::obj().set("got", l.getT().val).set("want", M.icls0));
                      SimTK::ReinitOnCopy<Counted> m2{Counted(v)}; m2 = Counted(5); m2 = x.icls; if (m2.getT().val != v) fail("ReinitOnCopy<class>-copy-assign-mismatch", Json::obj().set("got", m2.getT().val).set("want", v));
                      SimTK::ReinitOnCopy<Counted> m3(v); if (m3.getT().val != v || m3.getReinitT().val != v) fail("ReinitOnCopy<class>-inherited-ctor-mismatch");
                      m3 = Counted(8); SimTK::ReinitOnCopy<Counted> m4(std::move(m3)); if (m4.getT().val != 8 || m4.getReinitT().val != v) fail("ReinitOnCopy<class>-move-ctor-mismatch");
                      break; }
            default: op = "read"; if ((M.ref >= 0 && *x.ref != tgt[M.ref]) || (int)x.iint != M.iint) fail("read-mismatch"); break;
            }
            if (op == "noop") continue;
            c.cover("CopyWrappers/" + op);
            verify();
        }
        if (c.wantSample()) { Json hh = Json::arr(); for (size_t i = 0; i < hist.size() && i < 10; ++i) hh.push(hist[i]); c.sample(Json::obj().set("family", fam).set("ops", (long)hist.size()).set("first_ops", hh)); }
        op = "teardown";
        for (auto& x : h) x.reset();
        if (!g.faults.empty()) { auto fs = g.faults; g.faults.clear(); for (auto& f : fs) fail("element-" + f.first); }
        if (!dead && !g.live.empty()) fail("element-leak", Json::obj().set("live", (long)g.live.size()));
        c.require("CopyWrappers:teardown", true, nullptr);
        c.obs("CopyWrappers-ops", (long)hist.size());
        g.live.clear(); g.faults.clear();
    }
};

} // namespace c26
