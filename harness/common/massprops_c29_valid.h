// massprops_c29_valid.h — included INSIDE c29::B29<P>: validity tests (accept valid / reject invalid),
// kinetic energy and power invariance, spatial-algebra helpers (double only: SpatialVec is Real).

    // ---------------------------------------------------------------- isValidInertiaMatrix
    void validity() {
        c.setPhase("C29 isValidInertiaMatrix");
        k.cover("isValidInertiaMatrix");
        const M3 I3 = rr::ident(), RB = rr::haar(r);
        const V3 sh = toV(randShift(0.0, 2.0));
        // valid: P-rounded cloud inertias about various points in various frames (rods/discs/points
        // sit on the boundary of the inequalities)
        const struct { const char* nm; M3 I; } valid[4] = {{"about origin", cloudInertia(cl, rr::mk(0, 0, 0), I3)}, {"central", cloudInertia(cl, com, I3)},
                                                            {"shifted+rotated", cloudInertia(cl, sh, RB)}, {"central rotated", cloudInertia(cl, com, RB)}};
        for (auto& v : valid) {
            const Sym S = symP(v.I);
            k.inputs("xx,yy,zz,xy,xz,yz", {(double)S(0, 0), (double)S(1, 1), (double)S(2, 2), (double)S(1, 0), (double)S(2, 0), (double)S(2, 1)});
            k.req(k.key("valid", std::string("isValidInertiaMatrix(cloud ") + v.nm + ")"), In::isValidInertiaMatrix(S), [&] { return k.wit(); });
            const Sym U = symP(rr::scale(1 / M, v.I));
            k.req(k.key("valid", std::string("isValidUnitInertiaMatrix(cloud ") + v.nm + ")"), UIn::isValidUnitInertiaMatrix(U), [&] { return k.wit(); });
#ifndef NDEBUG
            // debug builds: constructors must accept exactly these
            try { In a(S); In b(S(0, 0), S(1, 1), S(2, 2), S(1, 0), S(2, 0), S(2, 1)); UIn g(U); (void)a; (void)b; (void)g; c.obs("dbg.ctor accepted valid"); k.req(k.key("valid", "debug ctor accepts cloud inertia"), true, [&] { return k.wit(); }); }
            catch (const std::exception& e) { std::string m = vh::firstLine(e.what(), 300); k.req(k.key("valid", "debug ctor accepts cloud inertia"), false, [&] { return k.wit().set("what", m); }); }
#endif
        }
        // invalid: one documented condition violated by a margin far above the documented slop
        const LD sig = (LD)NTraits<P>::getSignificant();
        for (int kind = 0; kind < 5; ++kind) {
            const LD T = (LD)r.logUni(sizeof(P) == 4 ? 1e-1 : 1e-3, 1e4);           // trace scale
            const LD rel = (LD)r.logUni(sizeof(P) == 4 ? 1e-3 : 1e-6, 1.0);          // relative margin (DESIGN: >= 1e-6 trace)
            const LD mg = std::max(rel * T, 1e3L * sig * std::max(T, (LD)1));        // absolute margin
            LD a = T * (LD)r.uni(0.2, 0.4), b = T * (LD)r.uni(0.2, 0.4), d = T - a - b;   // a valid diagonal to start from
            LD xy = 0, xz = 0, yz = 0;
            const char* nm;
            switch (kind) {
            case 0: nm = "negative moment"; { int w = (int)(r.next() % 3); (w == 0 ? a : w == 1 ? b : d) = -mg; } break;
            case 1: nm = "triangle inequality"; { int w = (int)(r.next() % 3); if (w == 0) a = b + d + mg; else if (w == 1) b = a + d + mg; else d = a + b + mg; } break;
            case 2: nm = "product too large"; { int w = (int)(r.next() % 3); LD s = r.coin() ? 1 : -1; if (w == 0) yz = s * (a + mg) / 2; else if (w == 1) xz = s * (b + mg) / 2; else xy = s * (d + mg) / 2; } break;
            case 3: nm = "NaN moment"; { int w = (int)(r.next() % 3); (w == 0 ? a : w == 1 ? b : d) = NAN; } break;
            default: nm = "NaN product"; { int w = (int)(r.next() % 3); (w == 0 ? xy : w == 1 ? xz : yz) = NAN; } break;
            }
            const Sym S((P)a, (P)xy, (P)b, (P)xz, (P)yz, (P)d);
            k.inputs("xx,yy,zz,xy,xz,yz,margin", {(double)S(0, 0), (double)S(1, 1), (double)S(2, 2), (double)S(1, 0), (double)S(2, 0), (double)S(2, 1), (double)mg});
            c.cover(std::string("isValidInertiaMatrix/invalid/") + nm + "/" + k.prec);
            k.req(std::string("reject:isValidInertiaMatrix accepts ") + nm + "/" + k.prec, !In::isValidInertiaMatrix(S), [&] { return k.wit(); });
            k.req(std::string("reject:isValidUnitInertiaMatrix accepts ") + nm + "/" + k.prec, !UIn::isValidUnitInertiaMatrix(S), [&] { return k.wit(); });
#ifndef NDEBUG
            // debug builds: the checking constructors throw on the same set when the margin also exceeds
            // their (looser, sqrt(eps)) slop
            const LD dslop = sqrtl((LD)std::numeric_limits<P>::epsilon()) * std::max(T, (LD)1);
            if (mg > 100 * dslop && !(kind == 0 && mg < 1e-10L)) {
                bool threw = false; try { In x(S); (void)x; } catch (const std::exception&) { threw = true; }
                k.req(std::string("reject:debug Inertia(SymMat33) accepts ") + nm + "/" + k.prec, threw, [&] { return k.wit(); });
                threw = false; try { In x; x.setInertia(S(0, 0), S(1, 1), S(2, 2), S(1, 0), S(2, 0), S(2, 1)); } catch (const std::exception&) { threw = true; }
                k.req(std::string("reject:debug setInertia accepts ") + nm + "/" + k.prec, threw, [&] { return k.wit(); });
                c.obs("dbg.ctor rejection checked");
            }
#endif
        }
        // Statement: "every accepted inertia is positive semi-definite and satisfies the triangle inequalities".
        // A matrix can pass all three documented necessary tests and still be indefinite (the tests look at the
        // diagonal and at single products only). Family (f=1-e): diag(a,a,2af), xy=a f^2, xz=s a f/2, yz=-s a f/2.
        {
            const LD a = (LD)r.logUni(1e-2, 1e2), f = 1 - (LD)r.uni(0.01, 0.08), s = r.coin() ? 1 : -1;
            const Sym S((P)a, (P)(a * f * f), (P)a, (P)(s * a / 2 * f), (P)(-s * a / 2 * f), (P)(2 * a * f));
            M3 A = toM(S); LD ev[3]; rr::symEig(A, ev);
            k.inputs("xx,yy,zz,xy,xz,yz,min eigenvalue", {(double)S(0, 0), (double)S(1, 1), (double)S(2, 2), (double)S(1, 0), (double)S(2, 0), (double)S(2, 1), (double)ev[0]});
            c.cover(std::string("isValidInertiaMatrix/indefinite but passes documented tests/") + k.prec);
            if (ev[0] < -1e-2L * a) {
                const bool acc = In::isValidInertiaMatrix(S);
                c.obs(acc ? "indefinite matrix accepted" : "indefinite matrix rejected");
                k.req(std::string("accept:isValidInertiaMatrix accepts an indefinite matrix (passes the three documented necessary tests)/") + k.prec, !acc, [&] { return k.wit(); });
            } else c.skip("indefinite family not indefinite enough");
        }
        // side observation (not judged): the slop has an absolute floor max(trace,1), so for tiny inertias
        // relative violations far above 1e-6 are accepted
        {
            const LD T = (LD)r.logUni(1e-3, 1) * sig;
            const Sym S((P)(0.3L * T), (P)0, (P)(0.3L * T), (P)0, (P)0, (P)(0.9L * T));      // zz > xx+yy by 50 %
            c.obs(In::isValidInertiaMatrix(S) ? "tiny-scale triangle violation accepted (absolute slop floor)" : "tiny-scale triangle violation rejected");
        }
    }

    // ---------------------------------------------------------------- kinetic energy, power, spatial algebra (Real only)
    template <class Q = P> typename std::enable_if<!std::is_same<Q, double>::value>::type energyAndPower() {}
    template <class Q = P> typename std::enable_if<std::is_same<Q, double>::value>::type energyAndPower() {
        c.setPhase("C29 kinetic energy / power invariance, spatial algebra");
        k.cover("energy/power"); k.cover("spatial algebra");
        const Vec3 cP = toVecP<double>(com); const double mP = (double)M;
        In Iacc(0.0); for (size_t i = 0; i < cl.m.size(); ++i) Iacc += In(toVecP<double>(cl.r[i]), (double)cl.m[i]);
        const UIn G(Iacc / mP); const SI si(mP, cP, G);
        const Vec3 S = randShift(0.2, 2.0), S2 = randShift(0.2, 2.0); const V3 SL = toV(S);
        const Rot R_FB = rotP<double>(rr::haar(r));
        const LD D = ext + rr::norm(SL) + rr::norm(com);
        const Vec3 w = toVecP<double>((LD)r.logUni(0.1, 10) * rr::randUnit(r)), v = toVecP<double>((ext * (LD)r.logUni(0.1, 10)) * rr::randUnit(r));
        const Vec3 b = toVecP<double>((LD)r.logUni(0.1, 10) * rr::randUnit(r)), a = toVecP<double>((ext * (LD)r.logUni(0.1, 10)) * rr::randUnit(r));
        const Vec3 tau = toVecP<double>((M * ext * (LD)r.logUni(0.1, 10)) * rr::randUnit(r)), f = toVecP<double>((M * (LD)r.logUni(0.1, 10)) * rr::randUnit(r));
        const V3 wL = toV(w), vL = toV(v), bL = toV(b), aL = toV(a), tL = toV(tau), fL = toV(f);
        const SpatialVec V(w, v), A(b, a), F(tau, f);
        k.inputs("w,v,S", {w[0], w[1], w[2], v[0], v[1], v[2], S[0], S[1], S[2]});
        const LD vs = rr::norm(vL) + D * rr::norm(wL), t = 8 * k.tol;
        // kinetic energy from first principles
        LD KE = 0; for (size_t i = 0; i < cl.m.size(); ++i) { V3 vi = vL + rr::cross(wL, cl.r[i]); KE += cl.m[i] * rr::dot(vi, vi) / 2; }
        const LD tk = t * M * vs * vs;
        k.sameS("energy", "KE = 1/2 V.(SpatialInertia*V)", 0.5 * (~V * (si * V)), KE, tk);
        const SpatialVec VS = shiftVelocityBy(V, S);
        k.sameS("energy", "KE after shift(S)+shiftVelocityBy", 0.5 * (~VS * (si.shift(S) * VS)), KE, tk);
        const SpatialVec VSB = ~R_FB * VS;
        k.sameS("energy", "KE after transform+reexpress", 0.5 * (~VSB * (si.transform(Xf(R_FB, S)) * VSB)), KE, tk);
        const AI ai(si);
        k.sameS("energy", "KE articulated", 0.5 * (~V * (ai * V)), KE, tk);
        k.sameS("energy", "KE articulated after shift(-S)", 0.5 * (~VS * (ai.shift(Vec3(-S)) * VS)), KE, tk);
        const MP mp(mP, cP, Iacc);
        k.sameS("energy", "KE MassProperties.toSpatialMat", 0.5 * (~V * (mp.toSpatialMat() * V)), KE, tk);
        { const MP q = mp.calcTransformedMassProps(Xf(R_FB, S)); k.sameS("energy", "KE calcTransformedMassProps", 0.5 * (~VSB * (q.toSpatialMat() * VSB)), KE, tk); }
        // power
        const LD Pw = rr::dot(tL, wL) + rr::dot(fL, vL);
        const LD tp = t * (rr::norm(tL) + D * rr::norm(fL)) * (rr::norm(wL) + rr::norm(vL) / std::max(D, (LD)1e-300L)) + t * rr::norm(fL) * vs;
        const SpatialVec FS = shiftForceBy(F, S);
        k.sameS("power", "F.V", ~F * V, Pw, tp);
        k.sameS("power", "F.V after shiftForceBy+shiftVelocityBy", ~FS * VS, Pw, tp);
        k.sameS("power", "F.V after shift+reexpress", ~(~R_FB * FS) * VSB, Pw, tp);
        // explicit definitions (long double)
        const LD tv = t * vs, tf = t * (rr::norm(tL) + D * rr::norm(fL));
        k.sameV("shift", "shiftVelocityBy.angular", toV(VS[0]), wL, 0); k.sameV("shift", "shiftVelocityBy.linear", toV(VS[1]), vL + rr::cross(wL, SL), tv);
        k.sameV("shift", "shiftForceBy.moment", toV(FS[0]), tL - rr::cross(SL, fL), tf); k.sameV("shift", "shiftForceBy.force", toV(FS[1]), fL, 0);
        { const SpatialVec x = shiftVelocityFromTo(V, S2, S2 + S), y = shiftForceFromTo(F, S2, S2 + S);
          k.sameV("shift", "shiftVelocityFromTo", toV(x[1]), vL + rr::cross(wL, toV(Vec3(S2 + S)) - toV(S2)), tv + t * rr::norm(toV(S2)) * rr::norm(wL));
          k.sameV("shift", "shiftForceFromTo", toV(y[0]), tL - rr::cross(toV(Vec3(S2 + S)) - toV(S2), fL), tf + t * rr::norm(toV(S2)) * rr::norm(fL)); }
        const SpatialVec AS = shiftAccelerationBy(A, w, S);
        const V3 aWant = aL + rr::cross(bL, SL) + rr::cross(wL, rr::cross(wL, SL));
        const LD ta = t * (rr::norm(aL) + D * (rr::norm(bL) + rr::dot(wL, wL)));
        k.sameV("shift", "shiftAccelerationBy.angular", toV(AS[0]), bL, 0); k.sameV("shift", "shiftAccelerationBy.linear", toV(AS[1]), aWant, ta);
        { const SpatialVec x = shiftAccelerationFromTo(A, w, S2, S2 + S); k.sameV("shift", "shiftAccelerationFromTo", toV(x[1]), aL + rr::cross(bL, toV(Vec3(S2 + S)) - toV(S2)) + rr::cross(wL, rr::cross(wL, toV(Vec3(S2 + S)) - toV(S2))), ta + t * rr::norm(toV(S2)) * (rr::norm(bL) + rr::dot(wL, wL))); }
        // shifted acceleration is the time derivative of the shifted velocity (station fixed in the body):
        // v_Q(t) = v_P(t) + w(t) x r(t), w(t)=w+bt, v_P(t)=v+at, r(t)=exp([wt+bt^2/2]) r
        {
            const LD h = 1e-3L / (1 + rr::norm(wL) + rr::norm(bL));
            V3 fd;
            for (int i = 0; i < 3; ++i) { auto g = [&](LD tt) { V3 rt = rr::mulv(rr::expSO3(tt * wL + (tt * tt / 2) * bL), SL); V3 vq = (vL + tt * aL) + rr::cross(wL + tt * bL, rt); return vq[i]; }; fd[i] = rr::fd1(g, h); }
            k.sameV("fd-shift", "shiftAccelerationBy = d/dt shiftVelocityBy", toV(AS[1]), fd, 1e-7L * (rr::norm(aL) + D * (rr::norm(bL) + rr::dot(wL, wL))) + ta);
        }
        // PhiMatrix operators against the explicit 6x6
        {
            const PhiMatrix phi(S); const S6 T = phi6(SL);
            V3 ra, rb; mulv6(T, tL, fL, ra, rb);
            const SpatialVec pf = phi * F; k.sameV("phi", "phi*F.moment", toV(pf[0]), ra, tf); k.sameV("phi", "phi*F.force", toV(pf[1]), rb, 0);
            mulv6(tr6(T), wL, vL, ra, rb);
            const SpatialVec pv = ~phi * V; k.sameV("phi", "~phi*V.angular", toV(pv[0]), ra, 0); k.sameV("phi", "~phi*V.linear", toV(pv[1]), rb, tv);
            const SpatialMat Mm = si.toSpatialMat(); S6 Ms; Ms.A = toM(Mm(0, 0)); Ms.B = toM(Mm(0, 1)); Ms.C = toM(Mm(1, 0)); Ms.D = toM(Mm(1, 1));
            auto cmp = [&](const char* nm, const SpatialMat& got, const S6& want) { sameSpatial(nm, got, want, 4 * M, D); };
            // one-sided products mix units: bound every block by |X|*|Y| entrywise
            auto ab = [&](const S6& x) { S6 q = x; M3* b[4] = {&q.A, &q.B, &q.C, &q.D}; for (M3* m : b) for (int i = 0; i < 3; ++i) for (int j = 0; j < 3; ++j) m->m[i][j] = fabsl(m->m[i][j]); return q; };
            auto cmpProd = [&](const char* nm, const SpatialMat& got, const S6& X, const S6& Y) {
                const S6 want = mul6(X, Y), bound = mul6(ab(X), ab(Y));
                k.sameM("phi", std::string(nm) + ".00", toM(got(0, 0)), want.A, t * rr::maxAbs(bound.A)); k.sameM("phi", std::string(nm) + ".01", toM(got(0, 1)), want.B, t * rr::maxAbs(bound.B));
                k.sameM("phi", std::string(nm) + ".10", toM(got(1, 0)), want.C, t * rr::maxAbs(bound.C)); k.sameM("phi", std::string(nm) + ".11", toM(got(1, 1)), want.D, t * rr::maxAbs(bound.D)); };
            cmpProd("phi*M", phi * Mm, T, Ms); cmpProd("M*phi", Mm * phi, Ms, T); cmpProd("~phi*M", ~phi * Mm, tr6(T), Ms); cmpProd("M*~phi", Mm * ~phi, Ms, tr6(T));
            cmp("phi.toSpatialMat", phi.toSpatialMat(), T);
            cmp("~phi.toSpatialMat", (~phi).toSpatialMat(), tr6(T));
            // rigid shift of a spatial inertia as a congruence: phi * M * ~phi is the inertia about O - S
            cmp("phi*M*~phi = shift(-S)", phi * Mm * ~phi, rigidS6(cloudInertia(cl, -SL, rr::ident()), M, toV(cP) + SL));
        }
        relativeMotion();
    }

    // relative velocity / acceleration of two moving frames against finite differences of the relative pose
    void relativeMotion() {
        c.setPhase("C29 relative velocity/acceleration helpers");
        k.cover("relative motion");
        auto rv = [&](double s) { return toVecP<double>((LD)r.logUni(0.1, 3) * s * rr::randUnit(r)); };
        const Rot RA = rotP<double>(rr::haar(r)), RB = rotP<double>(rr::haar(r));
        const Transform X_FA(RA, rv(1)), X_FB(RB, rv(1));
        const SpatialVec V_FA(rv(1), rv(1)), V_FB(rv(1), rv(1)), A_FA(rv(1), rv(1)), A_FB(rv(1), rv(1));
        k.inputs("wA,wB", {V_FA[0][0], V_FA[0][1], V_FA[0][2], V_FB[0][0], V_FB[0][1], V_FB[0][2]});
        // exact motions in F: R(t) = exp([w t + b t^2/2]) R0, p(t) = p + v t + a t^2/2
        struct Pose { M3 R; V3 p; };
        auto pose = [&](const Transform& X, const SpatialVec& V, const SpatialVec& A, LD t) { Pose q; q.R = rr::mul(rr::expSO3(t * toV(V[0]) + (t * t / 2) * toV(A[0])), toM(X.R())); q.p = toV(X.p()) + t * toV(V[1]) + (t * t / 2) * toV(A[1]); return q; };
        auto rel = [&](LD t) { Pose a = pose(X_FA, V_FA, A_FA, t), b = pose(X_FB, V_FB, A_FB, t); Pose q; q.R = rr::mul(rr::tr(a.R), b.R); q.p = rr::mulv(rr::tr(a.R), b.p - a.p); return q; };
        const Pose r0 = rel(0);
        const LD h1 = 2e-4L, h2 = 2e-3L;
        V3 w1, v1, w2, v2;
        for (int i = 0; i < 3; ++i) {
            auto fw = [&](LD t) { return rr::logSO3(rr::mul(rel(t).R, rr::tr(r0.R)))[i]; };   // increment expressed in A
            auto fp = [&](LD t) { return rel(t).p[i]; };
            w1[i] = rr::fd1(fw, h1); v1[i] = rr::fd1(fp, h1); w2[i] = rr::fd2(fw, h2); v2[i] = rr::fd2(fp, h2);
        }
        const LD t1 = 1e-7L * 30, t2 = 1e-5L * 100;
        const SpatialVec V_AB = findRelativeVelocity(X_FA, V_FA, X_FB, V_FB);
        k.sameV("fd-relative", "findRelativeVelocity.angular", toV(V_AB[0]), w1, t1); k.sameV("fd-relative", "findRelativeVelocity.linear", toV(V_AB[1]), v1, t1);
        const SpatialVec V_AB_F = findRelativeVelocityInF(X_FB.p() - X_FA.p(), V_FA, V_FB);
        k.sameV("relative", "findRelativeVelocityInF = R_FA*findRelativeVelocity", toV(V_AB_F[0]), rr::mulv(toM(RA), toV(V_AB[0])), 64 * k.tol); k.sameV("relative", "findRelativeVelocityInF = R_FA*findRelativeVelocity", toV(V_AB_F[1]), rr::mulv(toM(RA), toV(V_AB[1])), 64 * k.tol);
        const SpatialVec A_AB = findRelativeAcceleration(X_FA, V_FA, A_FA, X_FB, V_FB, A_FB);
        k.sameV("fd-relative", "findRelativeAcceleration.angular", toV(A_AB[0]), w2, t2); k.sameV("fd-relative", "findRelativeAcceleration.linear", toV(A_AB[1]), v2, t2);
        const SpatialVec A_AB_F = findRelativeAccelerationInF(X_FB.p() - X_FA.p(), V_FA, A_FA, V_FB, A_FB);
        k.sameV("relative", "findRelativeAccelerationInF = R_FA*findRelativeAcceleration", toV(A_AB_F[0]), rr::mulv(toM(RA), toV(A_AB[0])), 640 * k.tol); k.sameV("relative", "findRelativeAccelerationInF = R_FA*findRelativeAcceleration", toV(A_AB_F[1]), rr::mulv(toM(RA), toV(A_AB[1])), 640 * k.tol);
        // reversal: V_BA from V_AB equals the relative velocity computed the other way round
        const Transform X_AB = ~X_FA * X_FB;
        const SpatialVec V_BA = findRelativeVelocity(X_FB, V_FB, X_FA, V_FA);
        const SpatialVec rev = reverseRelativeVelocity(X_AB, V_AB), revA = reverseRelativeVelocityInA(X_AB, V_AB);
        k.sameV("relative", "reverseRelativeVelocity.angular", toV(rev[0]), toV(V_BA[0]), 640 * k.tol); k.sameV("relative", "reverseRelativeVelocity.linear", toV(rev[1]), toV(V_BA[1]), 640 * k.tol);
        k.sameV("relative", "reverseRelativeVelocityInA", toV(revA[1]), rr::mulv(toM(X_AB.R()), toV(V_BA[1])), 640 * k.tol);
        const SpatialVec back = reverseRelativeVelocity(~X_AB, rev);
        k.sameV("relative", "reverse twice.angular", toV(back[0]), toV(V_AB[0]), 640 * k.tol); k.sameV("relative", "reverse twice.linear", toV(back[1]), toV(V_AB[1]), 640 * k.tol);
    }
