// mobilizer_mirrors.h — harness-written MobilizedBody::Custom and ::FunctionBased mirrors of
// the built-in mobilizers (C06 relation (b)), built on the independent reference model of
// mobilizer_ref.h. Everything a mirror reports (X_FM, H, HDot, N, NInv, NDot) is computed
// with the harness' own maths; the library's Rotation helpers are not used.
//
// ASan hygiene: nothing here keeps a reference to a temporary (the repo's own test mirror
// binds `const Rotation&` to `getMobilizerTransform(s).R()` of a temporary Transform).
#pragma once
#include "mobilizer_ref.h"

namespace mref {
using namespace SimTK;

// ---------------------------------------------------------------- Custom: u = qdot types
// Works for every built-in whose speeds are documented as qdot: H(q)e_j = dX/dq_j and
// HDot by second-order automatic differentiation of the documented transform.
class QdotMirror : public MobilizedBody::Custom::Implementation {
public:
    QdotMirror(SimbodyMatterSubsystem& matter, const MobSpec& spec)
        : Implementation(matter, refNU(spec), refNQ(spec), 0), m(spec), n(refNQ(spec)) { m.reversed = false; }
    Implementation* clone() const override { return new QdotMirror(*this); }

    Transform calcMobilizerTransformFromQ(const State&, int nq, const Real* q) const override {
        M3<double> R; V3<double> p;
        refX<double>(m, q, R, p);
        return asTransform(R, p);
    }
    SpatialVec multiplyByHMatrix(const State& s, int nu, const Real* u) const override {
        const Vector q = getQ(s);
        Kin k = refKin0(m, &q[0], u);
        return SpatialVec(toVec3(k.w), toVec3(k.v));
    }
    void multiplyByHTranspose(const State& s, const SpatialVec& F, int nu, Real* f) const override {
        const Vector q = getQ(s);
        for (int j = 0; j < nu; ++j) {
            double e[8] = {0, 0, 0, 0, 0, 0, 0, 0}; e[j] = 1;
            Kin k = refKin0(m, &q[0], e);
            f[j] = dot(toVec3(k.w), F[0]) + dot(toVec3(k.v), F[1]);
        }
    }
    SpatialVec multiplyByHDotMatrix(const State& s, int nu, const Real* u) const override {
        const Vector q = getQ(s), us = getU(s);
        V3<double> aw, av;
        refHDotTimes(m, &q[0], &us[0], u, aw, av);
        return SpatialVec(toVec3(aw), toVec3(av));
    }
    void multiplyByHDotTranspose(const State& s, const SpatialVec& F, int nu, Real* f) const override {
        const Vector q = getQ(s), us = getU(s);
        for (int j = 0; j < nu; ++j) {
            double e[8] = {0, 0, 0, 0, 0, 0, 0, 0}; e[j] = 1;
            V3<double> aw, av;
            refHDotTimes(m, &q[0], &us[0], e, aw, av);
            f[j] = dot(toVec3(aw), F[0]) + dot(toVec3(av), F[1]);
        }
    }
    // N = I, NDot = 0: the defaults of the base class are the documented behaviour for nq==nu.
private:
    MobSpec m; int n;
};

// ---------------------------------------------------------------- Custom: quaternion types
// Ball, Free, Ellipsoid (u = w_FM in F [, v_FM in F]); LineOrientation, FreeLine (u = x,y of
// w_FM in M [, v_FM in F]).
class QuatMirror : public MobilizedBody::Custom::Implementation {
public:
    QuatMirror(SimbodyMatterSubsystem& matter, const MobSpec& spec)
        : Implementation(matter, nuOf(spec), nqMaxOf(spec), 4), m(spec) { m.reversed = false; }
    Implementation* clone() const override { return new QuatMirror(*this); }
    static int nuOf(const MobSpec& s) { MobSpec t = s; return refNU(t); }
    static int nqMaxOf(const MobSpec& s) { MobSpec t = s; t.euler = false; return refNQ(t); }
    bool isLine() const { return m.type == vh::MT_LineOrientation || m.type == vh::MT_FreeLine; }
    bool hasTrans() const { return m.type == vh::MT_Free || m.type == vh::MT_FreeLine; }
    int nRotU() const { return isLine() ? 2 : 3; }
    MobSpec specFor(const State& s) const { MobSpec t = m; t.euler = getUseEulerAngles(s); return t; }

    Transform calcMobilizerTransformFromQ(const State& s, int nq, const Real* q) const override {
        M3<double> R; V3<double> p;
        refX<double>(specFor(s), q, R, p);
        return asTransform(R, p);
    }
    SpatialVec multiplyByHMatrix(const State& s, int nu, const Real* u) const override {
        const Vector q = getQ(s);
        Kin k = refKin0(specFor(s), &q[0], u);
        return SpatialVec(toVec3(k.w), toVec3(k.v));
    }
    void multiplyByHTranspose(const State& s, const SpatialVec& F, int nu, Real* f) const override {
        const Vector q = getQ(s); MobSpec t = specFor(s);
        for (int j = 0; j < nu; ++j) {
            double e[8] = {0, 0, 0, 0, 0, 0, 0, 0}; e[j] = 1;
            Kin k = refKin0(t, &q[0], e);
            f[j] = dot(toVec3(k.w), F[0]) + dot(toVec3(k.v), F[1]);
        }
    }
    // HDot*uArg: closed forms from the documented H.
    void hdotTimes(const State& s, const Real* uArg, V3<double>& aw, V3<double>& av) const {
        const Vector q = getQ(s), us = getU(s); MobSpec t = specFor(s);
        Kin k = refKin0(t, &q[0], &us[0]);            // current relative motion
        aw = V3<double>(); av = V3<double>();
        if (isLine()) {
            // H_w = [R x, R y]; d/dt (R a) = w x (R a)
            V3<double> Ra = k.R * V3<double>(uArg[0], uArg[1], 0.0);
            aw = cross(k.w, Ra);
        } else if (m.type == vh::MT_Ellipsoid) {
            // v = radii .* (wArg x n), n = Mz; d/dt: radii .* (wArg x (w x n))
            V3<double> n(k.R(0, 2), k.R(1, 2), k.R(2, 2)), nd = cross(k.w, n);
            V3<double> c = cross(V3<double>(uArg[0], uArg[1], uArg[2]), nd);
            av = V3<double>(m.radii[0] * c[0], m.radii[1] * c[1], m.radii[2] * c[2]);
        }
    }
    SpatialVec multiplyByHDotMatrix(const State& s, int nu, const Real* u) const override {
        V3<double> aw, av; hdotTimes(s, u, aw, av);
        return SpatialVec(toVec3(aw), toVec3(av));
    }
    void multiplyByHDotTranspose(const State& s, const SpatialVec& F, int nu, Real* f) const override {
        for (int j = 0; j < nu; ++j) {
            double e[8] = {0, 0, 0, 0, 0, 0, 0, 0}; e[j] = 1;
            V3<double> aw, av; hdotTimes(s, e, aw, av);
            f[j] = dot(toVec3(aw), F[0]) + dot(toVec3(av), F[1]);
        }
    }

    // Dense rotational blocks: Nr (nqr x nur), NInvr (nur x nqr), NDotr (nqr x nur)
    struct Blocks { int nqr, nur; double N[4][3], NInv[3][4], NDot[4][3]; };
    Blocks blocks(const State& s, bool wantDot) const {
        Blocks b; const Vector q = getQ(s); const bool euler = getUseEulerAngles(s);
        b.nqr = euler ? 3 : 4; b.nur = nRotU();
        for (int i = 0; i < 4; ++i) for (int j = 0; j < 3; ++j) { b.N[i][j] = 0; b.NInv[j][i] = 0; b.NDot[i][j] = 0; }
        // full-w versions first: qdot = Nw w_F, w_F = NwInv qdot
        double Nw[4][3], NwInv[3][4], NwDot[4][3];
        for (int i = 0; i < 4; ++i) for (int j = 0; j < 3; ++j) { Nw[i][j] = 0; NwInv[j][i] = 0; NwDot[i][j] = 0; }
        MobSpec t = specFor(s);
        Vector us; V3<double> wNow; M3<double> R; V3<double> pdummy;
        refX<double>(t, &q[0], R, pdummy);
        if (wantDot) { us = getU(s); Kin k = refKin0(t, &q[0], &us[0]); wNow = k.w; }
        if (euler) {
            double a[3] = {q[0], q[1], q[2]};
            M3<double> B = eulerB(a), Bi = inv3(B);
            for (int i = 0; i < 3; ++i) for (int j = 0; j < 3; ++j) { Nw[i][j] = Bi(i, j); NwInv[i][j] = B(i, j); }
            if (wantDot) {
                V3<double> qd = Bi * wNow; double qda[3] = {qd[0], qd[1], qd[2]};
                M3<double> Bd = eulerBDot(a, qda), T = Bi * Bd * Bi;
                for (int i = 0; i < 3; ++i) for (int j = 0; j < 3; ++j) NwDot[i][j] = -T(i, j);
            }
        } else {
            double e[4] = {q[0], q[1], q[2], q[3]};
            quatN(e, Nw);
            double n2 = e[0] * e[0] + e[1] * e[1] + e[2] * e[2] + e[3] * e[3];
            for (int i = 0; i < 4; ++i) for (int j = 0; j < 3; ++j) NwInv[j][i] = 4 * Nw[i][j] / n2;
            if (wantDot) {
                double w[3] = {wNow[0], wNow[1], wNow[2]}, ed[4];
                quatDotFromAngVelInF(e, w, ed);
                quatN(ed, NwDot);   // N is linear in e
            }
        }
        if (!isLine()) {
            for (int i = 0; i < b.nqr; ++i) for (int j = 0; j < 3; ++j) { b.N[i][j] = Nw[i][j]; b.NInv[j][i] = NwInv[j][i]; b.NDot[i][j] = NwDot[i][j]; }
        } else {
            // w_F = R P u, P = first two columns of I: N = Nw R P; NInv = P^T R^T NwInv;
            // NDot = NwDot R P + Nw [w]x R P
            for (int i = 0; i < b.nqr; ++i) for (int j = 0; j < 2; ++j) {
                double x = 0, xd = 0;
                for (int k = 0; k < 3; ++k) {
                    x += Nw[i][k] * R(k, j);
                    V3<double> col(R(0, j), R(1, j), R(2, j)), wc = cross(wNow, col);
                    xd += NwDot[i][k] * R(k, j) + Nw[i][k] * wc[k];
                }
                b.N[i][j] = x; b.NDot[i][j] = xd;
            }
            for (int j = 0; j < 2; ++j) for (int i = 0; i < b.nqr; ++i) { double x = 0; for (int k = 0; k < 3; ++k) x += R(k, j) * NwInv[k][i]; b.NInv[j][i] = x; }
        }
        return b;
    }
    // generic apply: which = 0 N, 1 NInv, 2 NDot
    void apply(const State& s, int which, bool transpose, int nIn, const Real* in, int nOut, Real* out) const {
        Blocks b = blocks(s, which == 2);
        const int nqr = b.nqr, nur = b.nur, nt = hasTrans() ? 3 : 0;
        // "q-like" side has nqr+nt entries, "u-like" side nur+nt
        const bool qToU = (which == 1) != transpose;   // NInv maps q->u; transposes swap
        for (int i = 0; i < nOut; ++i) out[i] = 0;
        if (which == 1) {
            if (!transpose) { for (int j = 0; j < nur; ++j) for (int i = 0; i < nqr; ++i) out[j] += b.NInv[j][i] * in[i]; }
            else            { for (int i = 0; i < nqr; ++i) for (int j = 0; j < nur; ++j) out[i] += b.NInv[j][i] * in[j]; }
        } else {
            const double (*M)[3] = (which == 0) ? b.N : b.NDot;
            if (!transpose) { for (int i = 0; i < nqr; ++i) for (int j = 0; j < nur; ++j) out[i] += M[i][j] * in[j]; }
            else            { for (int j = 0; j < nur; ++j) for (int i = 0; i < nqr; ++i) out[j] += M[i][j] * in[i]; }
        }
        // translational block: identity for N and NInv, zero for NDot
        const int inOff = qToU ? nqr : nur, outOff = qToU ? nur : nqr;
        for (int k = 0; k < nt; ++k) out[outOff + k] = (which == 2) ? 0.0 : in[inOff + k];
    }
    void multiplyByN(const State& s, bool t, int nIn, const Real* in, int nOut, Real* out) const override { apply(s, 0, t, nIn, in, nOut, out); }
    void multiplyByNInv(const State& s, bool t, int nIn, const Real* in, int nOut, Real* out) const override { apply(s, 1, t, nIn, in, nOut, out); }
    void multiplyByNDot(const State& s, bool t, int nIn, const Real* in, int nOut, Real* out) const override { apply(s, 2, t, nIn, in, nOut, out); }
private:
    MobSpec m;
};

// ---------------------------------------------------------------- FunctionBased mirrors
// f(x) = sum_t coef_t * prod_k g_{t,k}(x_k), g in {1, y, y^2, sin y, cos y} with y = a*x + b.
class TermFunction : public Function {
public:
    enum G { One, Lin, Sq, Sn, Cs };
    struct Factor { G g = One; double a = 1, b = 0; };
    struct Term { double coef = 1; std::vector<Factor> f; };
    TermFunction(int nArgs) : nArgs(nArgs) {}
    TermFunction& add(double coef, std::vector<Factor> f) { Term t; t.coef = coef; t.f = f; t.f.resize(nArgs); terms.push_back(t); return *this; }
    static double gd(const Factor& f, double x, int order) {
        double y = f.a * x + f.b, s = std::pow(f.a, order), v = 0;
        switch (f.g) {
        case One: v = order == 0 ? 1 : 0; break;
        case Lin: v = order == 0 ? y : order == 1 ? 1 : 0; break;
        case Sq: v = order == 0 ? y * y : order == 1 ? 2 * y : order == 2 ? 2 : 0; break;
        case Sn: { int k = order % 4; v = k == 0 ? std::sin(y) : k == 1 ? std::cos(y) : k == 2 ? -std::sin(y) : -std::cos(y); break; }
        case Cs: { int k = order % 4; v = k == 0 ? std::cos(y) : k == 1 ? -std::sin(y) : k == 2 ? -std::cos(y) : std::sin(y); break; }
        }
        return s * v;
    }
    Real eval(const std::vector<int>& ord, const Vector& x) const {
        double sum = 0;
        for (auto& t : terms) { double pr = t.coef; for (int k = 0; k < nArgs; ++k) pr *= gd(t.f[k], x[k], ord[k]); sum += pr; }
        return sum;
    }
    Real calcValue(const Vector& x) const override { return eval(std::vector<int>(nArgs, 0), x); }
    Real calcDerivative(const Array_<int>& dc, const Vector& x) const override {
        std::vector<int> ord(nArgs, 0); for (int i = 0; i < (int)dc.size(); ++i) ord[dc[i]]++;
        return eval(ord, x);
    }
    int getArgumentSize() const override { return nArgs; }
    int getMaxDerivativeOrder() const override { return 100; }
private:
    int nArgs; std::vector<Term> terms;
};

struct FBDef {
    int nmob = 0;
    Array_<const Function*> fn;           // 6, ownership passes to the mobilizer
    Array_<Array_<int> > idx;             // 6
    bool useAxes = false; Array_<Vec3> axes;
};
inline TermFunction* fbConst(double c = 0) { TermFunction* f = new TermFunction(0); f->add(c, {}); return f; }
inline TermFunction* fbLin(double a = 1, double b = 0) { TermFunction* f = new TermFunction(1); TermFunction::Factor x; x.g = TermFunction::Lin; x.a = a; x.b = b; f->add(1, {x}); return f; }
inline bool hasFunctionMirror(int type) {
    switch (type) {
    case vh::MT_Pin: case vh::MT_Slider: case vh::MT_Screw: case vh::MT_Universal: case vh::MT_Cylinder: case vh::MT_BendStretch:
    case vh::MT_Planar: case vh::MT_Gimbal: case vh::MT_Bushing: case vh::MT_Translation: case vh::MT_SphericalCoords: case vh::MT_CantileverFreeBeam: return true;
    default: return false;
    }
}
// perm: coordinate permutation for the "permuted" variant: mirror coordinate perm[i] plays the
// role of built-in coordinate i (identity when empty).
inline FBDef functionMirror(const MobSpec& m, const std::vector<int>& perm = std::vector<int>()) {
    typedef TermFunction::Factor F; typedef TermFunction TF;
    FBDef d; d.nmob = refNQ(m);
    d.fn.resize(6); d.idx.resize(6);
    for (int i = 0; i < 6; ++i) d.fn[i] = nullptr;
    auto P = [&](int i) { return perm.empty() ? i : perm[i]; };
    auto set1 = [&](int slot, int qi, double a = 1, double b = 0) { d.fn[slot] = fbLin(a, b); d.idx[slot] = Array_<int>(1, P(qi)); };
    F lin; lin.g = TF::Lin; F sn; sn.g = TF::Sn; F cs; cs.g = TF::Cs; F sq; sq.g = TF::Sq; F one;
    switch (m.type) {
    case vh::MT_Pin: set1(2, 0); break;
    case vh::MT_Slider: set1(3, 0); break;
    case vh::MT_Screw: set1(2, 0); set1(5, 0, m.pitch, 0); break;
    case vh::MT_Universal: set1(0, 0); set1(1, 1); break;
    case vh::MT_Cylinder: set1(2, 0); set1(5, 1); break;
    case vh::MT_BendStretch: {
        set1(2, 0);
        TF* fx = new TF(2); fx->add(1, {cs, lin}); d.fn[3] = fx; d.idx[3] = Array_<int>(); d.idx[3].push_back(P(0)); d.idx[3].push_back(P(1));
        TF* fy = new TF(2); fy->add(1, {sn, lin}); d.fn[4] = fy; d.idx[4] = d.idx[3];
        break; }
    case vh::MT_Planar: set1(2, 0); set1(3, 1); set1(4, 2); break;
    case vh::MT_Gimbal: set1(0, 0); set1(1, 1); set1(2, 2); break;
    case vh::MT_Bushing: for (int i = 0; i < 6; ++i) set1(i, i); break;
    case vh::MT_Translation: set1(3, 0); set1(4, 1); set1(5, 2); break;
    case vh::MT_CantileverFreeBeam: {
        const double L = m.length;
        set1(0, 0); set1(1, 1); set1(2, 2);
        set1(3, 1, 2.0 / 3.0 * L, 0); set1(4, 0, -2.0 / 3.0 * L, 0);
        TF* fz = new TF(2); fz->add(L, {one, one}); fz->add(-4.0 / 15.0 * L, {sq, one}); fz->add(-4.0 / 15.0 * L, {one, sq});
        d.fn[5] = fz; d.idx[5] = Array_<int>(); d.idx[5].push_back(P(0)); d.idx[5].push_back(P(1));
        break; }
    case vh::MT_SphericalCoords: {
        // rotation sequence z (azimuth), y (zenith), x (unused): needs the axes form
        d.useAxes = true;
        d.axes.push_back(Vec3(0, 0, 1)); d.axes.push_back(Vec3(0, 1, 0)); d.axes.push_back(Vec3(1, 0, 0));
        d.axes.push_back(Vec3(1, 0, 0)); d.axes.push_back(Vec3(0, 1, 0)); d.axes.push_back(Vec3(0, 0, 1));
        const double s0 = m.negAz ? -1 : 1, s1 = m.negZe ? -1 : 1, s2 = m.negRad ? -1 : 1;
        set1(0, 0, s0, m.az0); set1(1, 1, s1, m.ze0);
        F caz = cs, saz = sn, cze = cs, sze = sn;
        caz.a = saz.a = s0; caz.b = saz.b = m.az0; cze.a = sze.a = s1; cze.b = sze.b = m.ze0;
        Array_<int> all; all.push_back(P(0)); all.push_back(P(1)); all.push_back(P(2));
        TF* fx = new TF(3); TF* fy = new TF(3); TF* fz = new TF(3);
        if (m.radialAxis == 2) { fx->add(s2, {caz, sze, lin}); fy->add(s2, {saz, sze, lin}); fz->add(s2, {one, cze, lin}); }   // R ez = (ca sz, sa sz, cz)
        else                   { fx->add(s2, {caz, cze, lin}); fy->add(s2, {saz, cze, lin}); fz->add(-s2, {one, sze, lin}); }  // R ex = (ca cz, sa cz, -sz)
        d.fn[3] = fx; d.fn[4] = fy; d.fn[5] = fz; d.idx[3] = d.idx[4] = d.idx[5] = all;
        break; }
    default: break;
    }
    for (int i = 0; i < 6; ++i) if (!d.fn[i]) { d.fn[i] = fbConst(0); d.idx[i] = Array_<int>(); }
    return d;
}

// ---------------------------------------------------------------- builders
enum Route { RouteBuiltin = 0, RouteCustom = 1, RouteFunction = 2, RouteFunctionPermuted = 3 };
inline const char* routeName(int r) { static const char* n[] = {"builtin", "Custom", "FunctionBased", "FunctionBased-permuted"}; return n[r]; }

inline MobilizedBody makeBuiltin(MobilizedBody& P, const Transform& X_PF, const Body& body, const Transform& X_BM, const MobSpec& m) {
    MobilizedBody::Direction dir = m.reversed ? MobilizedBody::Reverse : MobilizedBody::Forward;
    switch (m.type) {
    case vh::MT_Pin: return MobilizedBody::Pin(P, X_PF, body, X_BM, dir);
    case vh::MT_Slider: return MobilizedBody::Slider(P, X_PF, body, X_BM, dir);
    case vh::MT_Screw: return MobilizedBody::Screw(P, X_PF, body, X_BM, m.pitch, dir);
    case vh::MT_Universal: return MobilizedBody::Universal(P, X_PF, body, X_BM, dir);
    case vh::MT_Cylinder: return MobilizedBody::Cylinder(P, X_PF, body, X_BM, dir);
    case vh::MT_BendStretch: return MobilizedBody::BendStretch(P, X_PF, body, X_BM, dir);
    case vh::MT_Planar: return MobilizedBody::Planar(P, X_PF, body, X_BM, dir);
    case vh::MT_Gimbal: return MobilizedBody::Gimbal(P, X_PF, body, X_BM, dir);
    case vh::MT_Bushing: return MobilizedBody::Bushing(P, X_PF, body, X_BM, dir);
    case vh::MT_Ball: return MobilizedBody::Ball(P, X_PF, body, X_BM, dir);
    case vh::MT_Free: return MobilizedBody::Free(P, X_PF, body, X_BM, dir);
    case vh::MT_LineOrientation: return MobilizedBody::LineOrientation(P, X_PF, body, X_BM, dir);
    case vh::MT_FreeLine: return MobilizedBody::FreeLine(P, X_PF, body, X_BM, dir);
    case vh::MT_Translation: return MobilizedBody::Translation(P, X_PF, body, X_BM, dir);
    case vh::MT_SphericalCoords:
        if (m.sphDefault) return MobilizedBody::SphericalCoords(P, X_PF, body, X_BM, dir);
        return MobilizedBody::SphericalCoords(P, X_PF, body, X_BM, m.az0, m.negAz, m.ze0, m.negZe,
                                              m.radialAxis == 2 ? CoordinateAxis(ZAxis) : CoordinateAxis(XAxis), m.negRad, dir);
    case vh::MT_Ellipsoid: return MobilizedBody::Ellipsoid(P, X_PF, body, X_BM, Vec3(m.radii[0], m.radii[1], m.radii[2]), dir);
    case vh::MT_CantileverFreeBeam: return MobilizedBody::CantileverFreeBeam(P, X_PF, body, X_BM, m.length, dir);
    case vh::MT_Weld: return MobilizedBody::Weld(P, X_PF, body, X_BM);
    default: throw std::logic_error("makeBuiltin: bad type");
    }
}
inline bool routeAvailable(int type, int route) {
    if (route == RouteBuiltin) return true;
    if (type == vh::MT_Weld) return false;
    if (route == RouteCustom) return true;
    if (route == RouteFunction) return hasFunctionMirror(type);
    if (route == RouteFunctionPermuted) return type == vh::MT_Gimbal || type == vh::MT_Bushing || type == vh::MT_Universal || type == vh::MT_Planar || type == vh::MT_Cylinder || type == vh::MT_Translation;
    return false;
}
inline MobilizedBody makeByRoute(SimbodyMatterSubsystem& matter, MobilizedBody& P, const Transform& X_PF, const Body& body, const Transform& X_BM,
                                 const MobSpec& m, int route, const std::vector<int>& perm = std::vector<int>()) {
    MobilizedBody::Direction dir = m.reversed ? MobilizedBody::Reverse : MobilizedBody::Forward;
    if (route == RouteBuiltin) return makeBuiltin(P, X_PF, body, X_BM, m);
    if (route == RouteCustom) {
        MobilizedBody::Custom::Implementation* impl = speedsAreQdot(m.type) ? (MobilizedBody::Custom::Implementation*)new QdotMirror(matter, m)
                                                                            : (MobilizedBody::Custom::Implementation*)new QuatMirror(matter, m);
        return MobilizedBody::Custom(P, impl, X_PF, body, X_BM, dir);
    }
    FBDef d = functionMirror(m, route == RouteFunctionPermuted ? perm : std::vector<int>());
    if (d.useAxes) return MobilizedBody::FunctionBased(P, X_PF, body, X_BM, d.nmob, d.fn, d.idx, d.axes, dir);
    return MobilizedBody::FunctionBased(P, X_PF, body, X_BM, d.nmob, d.fn, d.idx, dir);
}

} // namespace mref
