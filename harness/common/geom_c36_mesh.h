// geom_c36_mesh.h — C36: TriangleMesh queries vs brute force, OBB tree containment, topology consistency.
#pragma once
#include "geom_util.h"

namespace c36 {
using namespace SimTK;
using namespace gm;

static const char* MESHCLS[] = {"sphere", "sphere-perturbed", "box", "torus", "sliver", "lib-sphere", "lib-brick", "lib-cylinder", "big"};
enum { NMESHCLS = 9 };

struct BuiltMesh {
    MeshData m;                       // exactly the triangles the library holds (read back through the public API)
    std::shared_ptr<ContactGeometry::TriangleMesh> tm;
    std::string cls;
    bool viaPolygonal = false;
};

inline MeshData readBack(const ContactGeometry::TriangleMesh& tm) {
    MeshData m;
    for (int i = 0; i < tm.getNumVertices(); ++i) m.v.push_back(tm.getVertexPosition(i));
    for (int f = 0; f < tm.getNumFaces(); ++f) for (int k = 0; k < 3; ++k) m.f.push_back(tm.getFaceVertex(f, k));
    meshFinish(m);
    return m;
}

inline MeshData genByClass(int cls, vh::Rng& r, int sizeClass, PolygonalMesh* poly) {
    double sz = r.coin(0.3) ? 1.0 : r.logUni(0.05, 20);
    Vec3 dims = Vec3(r.uni(0.4, 1), r.uni(0.4, 1), r.uni(0.4, 1)) * sz;
    MeshData m;
    switch (cls) {
    case 0: m = genSphereMesh(r, 1 + sizeClass % 3, dims, 0); break;
    case 1: m = genSphereMesh(r, 1 + sizeClass % 3, dims, 0.08); m.cls = "sphere-perturbed"; break;
    case 2: m = genBoxMesh(r, r.integer(1, 3 + 2 * sizeClass), r.integer(1, 3 + 2 * sizeClass), r.integer(1, 3 + 2 * sizeClass), dims, 0); break;
    case 3: m = genTorusMesh(r, r.integer(5, 8 + 6 * sizeClass), r.integer(4, 6 + 4 * sizeClass), sz, sz * r.uni(0.15, 0.6), r.coin() ? 0 : 0.05); break;
    case 4: {   // slivers: extreme aspect ratio
        double thin = r.logUni(1e-5, 1e-2);
        if (r.coin()) m = genBoxMesh(r, r.integer(1, 4), r.integer(1, 4), 1, Vec3(sz, sz * r.uni(0.3, 1), sz * thin), 0);
        else m = genSphereMesh(r, 1 + sizeClass % 2, Vec3(sz, sz * r.uni(0.3, 1), sz * thin), 0);
        m.cls = "sliver";
    } break;
    case 5: *poly = PolygonalMesh::createSphereMesh(sz, r.integer(0, 2)); m.cls = "lib-sphere"; break;
    case 6: *poly = PolygonalMesh::createBrickMesh(dims, r.integer(0, 3)); m.cls = "lib-brick"; break;
    case 7: *poly = PolygonalMesh::createCylinderMesh(UnitVec3(randUnit(r)), sz * r.uni(0.2, 1), sz * r.uni(0.2, 2), r.integer(0, 2)); m.cls = "lib-cylinder"; break;
    default: m = r.coin() ? genSphereMesh(r, 4, dims, 0.03) : genTorusMesh(r, 36, 24, sz, 0.3 * sz, 0.03); m.cls = "big"; break;
    }
    return m;
}

inline BuiltMesh buildMesh(vh::Ctx& c, int cls, vh::Rng& r, int sizeClass) {
    BuiltMesh b;
    PolygonalMesh poly;
    MeshData m = genByClass(cls, r, sizeClass, &poly);
    b.cls = m.cls;
    bool transformed = r.coin(0.6);
    Transform X(randRotation(r), randBox(r, r.coin(0.2) ? 1e3 : 3.0));
    c.setPhase("TriangleMesh construction " + b.cls);
    if (poly.getNumVertices() > 0) {
        b.viaPolygonal = true;
        if (transformed) poly.transformMesh(X);
        bool flip = r.coin(0.3);     // the PolygonalMesh constructor documents that it re-orients inward-facing meshes
        if (flip) {
            PolygonalMesh inv;
            for (int i = 0; i < poly.getNumVertices(); ++i) inv.addVertex(poly.getVertexPosition(i));
            for (int f = 0; f < poly.getNumFaces(); ++f) {
                Array_<int> vs; int n = poly.getNumVerticesForFace(f);
                for (int k = n - 1; k >= 0; --k) vs.push_back(poly.getFaceVertex(f, k));
                inv.addFace(vs);
            }
            poly = inv; c.obs("polygonal-mesh-given-inside-out");
        }
        b.tm = std::make_shared<ContactGeometry::TriangleMesh>(poly, r.coin(0.3));
    } else {
        if (transformed) meshTransform(m, X);
        Array_<Vec3> vv(m.v.begin(), m.v.end());
        Array_<int> ff(m.f.begin(), m.f.end());
        b.tm = std::make_shared<ContactGeometry::TriangleMesh>(vv, ff, r.coin(0.3));
    }
    b.m = readBack(*b.tm);
    b.m.cls = b.cls; b.m.genus = m.genus;
    return b;
}

// ------------------------------------------------------------------ topology
inline void topologyChecks(vh::Ctx& c, const BuiltMesh& b) {
    const ContactGeometry::TriangleMesh& tm = *b.tm;
    const MeshData& m = b.m;
    const int nv = tm.getNumVertices(), nf = tm.getNumFaces(), ne = tm.getNumEdges();
    c.setPhase("topology " + b.cls);
    c.cover("topology:" + b.cls);
    auto W = [&](const std::string& note, int a = -1, int bb = -1) { return [=, &b]() { return Json::obj().set("mesh", b.cls).set("faces", b.m.nf()).set("note", note).set("i", a).set("j", bb); }; };
    c.require("topology:euler-characteristic", nv - ne + nf == 2 - 2 * m.genus, W("V-E+F != 2-2g", nv - ne + nf, m.genus));
    c.require("topology:edges=3F/2", 2 * ne == 3 * nf, W("closed triangle mesh needs 2E=3F", ne, nf));
    bool idxOK = true;
    for (int f = 0; f < nf && idxOK; ++f) for (int k = 0; k < 3; ++k) { int v = tm.getFaceVertex(f, k), e = tm.getFaceEdge(f, k); if (v < 0 || v >= nv || e < 0 || e >= ne) idxOK = false; }
    for (int e = 0; e < ne && idxOK; ++e) for (int k = 0; k < 2; ++k) { int v = tm.getEdgeVertex(e, k), f = tm.getEdgeFace(e, k); if (v < 0 || v >= nv || f < 0 || f >= nf) idxOK = false; }
    if (!c.require("topology:indices-in-range", idxOK, W("accessor returned an out-of-range index"))) return;
    std::vector<int> deg(nv, 0);
    int bad1 = -1, bad2 = -1, bad3 = -1, bad4 = -1;
    for (int e = 0; e < ne; ++e) {
        int a = tm.getEdgeVertex(e, 0), d = tm.getEdgeVertex(e, 1);
        if (a == d) bad1 = e;
        ++deg[a]; ++deg[d];
        if (tm.getEdgeFace(e, 0) == tm.getEdgeFace(e, 1)) bad1 = e;
        for (int k = 0; k < 2; ++k) {
            int f = tm.getEdgeFace(e, k); bool ha = false, hd = false, he = false;
            for (int q = 0; q < 3; ++q) { int v = tm.getFaceVertex(f, q); ha |= v == a; hd |= v == d; he |= tm.getFaceEdge(f, q) == e; }
            if (!ha || !hd) bad2 = e;
            if (!he) bad3 = e;
        }
    }
    c.require("topology:edge-distinct-ends-and-faces", bad1 < 0, W("edge with equal vertices or equal faces", bad1));
    c.require("topology:edge-faces-contain-edge-vertices", bad2 < 0, W("a face of the edge lacks one of its vertices", bad2));
    c.require("topology:edge-faces-list-the-edge", bad3 < 0, W("getFaceEdge of the edge's face does not list the edge", bad3));
    // documented face-edge numbering: edge0 = (v0,v1), edge1 = (v1,v2), edge2 = (v0,v2)
    static const int EV[3][2] = {{0, 1}, {1, 2}, {0, 2}};
    for (int f = 0; f < nf; ++f) for (int k = 0; k < 3; ++k) {
        int e = tm.getFaceEdge(f, k), a = tm.getFaceVertex(f, EV[k][0]), d = tm.getFaceVertex(f, EV[k][1]);
        int ea = tm.getEdgeVertex(e, 0), ed = tm.getEdgeVertex(e, 1);
        if (!((ea == a && ed == d) || (ea == d && ed == a))) bad4 = f;
        if (tm.getEdgeFace(e, 0) != f && tm.getEdgeFace(e, 1) != f) bad4 = f;
    }
    c.require("topology:face-edge-numbering", bad4 < 0, W("getFaceEdge(f,k) does not connect the documented vertices / point back to f", bad4));
    int bad5 = -1, bad6 = -1;
    for (int v = 0; v < nv; ++v) {
        Array_<int> es; tm.findVertexEdges(v, es);
        std::set<int> uniq(es.begin(), es.end());
        if ((int)uniq.size() != (int)es.size() || (int)es.size() != deg[v]) bad5 = v;
        for (int e : es) if (tm.getEdgeVertex(e, 0) != v && tm.getEdgeVertex(e, 1) != v) bad6 = v;
    }
    c.require("topology:vertex-edges-complete", bad5 < 0, W("findVertexEdges count != vertex degree or has duplicates", bad5));
    c.require("topology:vertex-edges-contain-vertex", bad6 < 0, W("findVertexEdges returned an edge not touching the vertex", bad6));
    // geometry attached to faces
    double worstN = 0, worstA = 0, worstC = 0; LD vol = 0;
    for (int f = 0; f < nf; ++f) {
        V3 A = m.vert(f, 0), B = m.vert(f, 1), C = m.vert(f, 2);
        V3 cr = cross(B - A, C - A); LD cn = norm(cr);
        LD cond = cn / (norm(B - A) * norm(C - A) + 1e-300L);     // sin of the angle at A: normal accuracy degrades as 1/cond
        worstN = std::max(worstN, (double)(norm(V3(Vec3(tm.getFaceNormal(f))) - (1 / cn) * cr) * cond));
        worstA = std::max(worstA, std::fabs(tm.getFaceArea(f) - (double)(cn / 2)) / ((double)(norm(B - A) * norm(C - A)) + 1e-300));
        worstC = std::max(worstC, (tm.findCentroid(f) - toVec3((1.0L / 3) * (A + B + C))).norm());
        worstC = std::max(worstC, (tm.findPoint(f, Vec2(1.0 / 3, 1.0 / 3)) - tm.findCentroid(f)).norm());
        worstC = std::max(worstC, (tm.findPoint(f, Vec2(1, 0)) - toVec3(A)).norm() + (tm.findPoint(f, Vec2(0, 1)) - toVec3(B)).norm() + (tm.findPoint(f, Vec2(0, 0)) - toVec3(C)).norm());
        vol += dot(A - V3(m.center), cross(B - V3(m.center), C - V3(m.center)));
    }
    c.check("facegeom:normal", worstN, 1e-12, W("face normal != normalised cross product"));
    c.check("facegeom:area", worstA, 1e-13, W("face area != |cross|/2"));
    c.check("facegeom:centroid-and-findPoint", worstC, 1e-13 * (m.scale + m.center.norm()), W("findCentroid/findPoint wrong"));
    c.require("facegeom:normals-outward", vol > 0, [&]() {
        Json j = W("signed volume with the reported vertex order is not positive (mesh is inside-out)")().set("via_polygonal_mesh", b.viaPolygonal);
        if (nv <= 24) { Json vs = Json::arr(), fs = Json::arr(); for (auto& p : m.v) vs.push(jv(p)); for (int x : m.f) fs.push(Json(x)); j.set("vertices", vs).set("face_indices", fs); }
        return j; });
    // bounding sphere contains all vertices
    Vec3 ctr; Real rad; tm.getBoundingSphere(ctr, rad);
    double worst = -Infinity, far = 0;
    for (auto& p : m.v) { worst = std::max(worst, (p - ctr).norm() - rad); far = std::max(far, (p - m.center).norm()); }
    c.check("contains:mesh-bounding-sphere", worst, 1e-12 * (m.scale + ctr.norm()), W("a vertex is outside getBoundingSphere"));
    // only "not absurdly large" is judged (the statement claims containment, not minimality); the ratio is reported as a margin
    c.check("tight:mesh-bounding-sphere", rad / (far + 1e-300) - 1, 1.0, [&]() { return W("bounding sphere larger than the sphere about the vertex centroid")().set("radius", rad).set("centroid_sphere_radius", far).set("center", jv(ctr)).set("centroid", jv(m.center)); });
    // createPolygonalMesh round trip
    PolygonalMesh pm = tm.createPolygonalMesh();
    bool same = pm.getNumVertices() == nv && pm.getNumFaces() == nf;
    for (int f = 0; f < nf && same; ++f) { same = pm.getNumVerticesForFace(f) == 3; for (int k = 0; k < 3 && same; ++k) same = pm.getFaceVertex(f, k) == tm.getFaceVertex(f, k); }
    for (int v = 0; v < nv && same; ++v) same = (pm.getVertexPosition(v) - tm.getVertexPosition(v)).norm() == 0;
    c.require("roundtrip:createPolygonalMesh", same, W("createPolygonalMesh differs from the mesh"));
}

// ------------------------------------------------------------------ OBB tree
struct ObbStats { int nodes = 0, leaves = 0, maxDepth = 0; double worst = -Infinity; int badCount = 0; std::vector<int> seen; };
inline void walkObb(const ContactGeometry::TriangleMesh& tm, const ContactGeometry::TriangleMesh::OBBTreeNode& node, int depth, ObbStats& st, std::vector<int>& tris) {
    ++st.nodes; st.maxDepth = std::max(st.maxDepth, depth);
    std::vector<int> mine;
    if (node.isLeafNode()) {
        ++st.leaves;
        const Array_<int>& t = node.getTriangles();
        mine.assign(t.begin(), t.end());
        for (int f : mine) if (f >= 0 && f < (int)st.seen.size()) ++st.seen[f];
    } else {
        walkObb(tm, node.getFirstChildNode(), depth + 1, st, mine);
        walkObb(tm, node.getSecondChildNode(), depth + 1, st, mine);
    }
    if (node.getNumTriangles() != (int)mine.size()) ++st.badCount;
    const OrientedBoundingBox& bx = node.getBounds();
    const Transform& X = bx.getTransform(); const Vec3& sz = bx.getSize();
    for (int f : mine) for (int k = 0; k < 3; ++k) {
        const Vec3& p = tm.getVertexPosition(tm.getFaceVertex(f, k));
        Vec3 q = ~X * p;
        double out = 0;
        for (int i = 0; i < 3; ++i) out = std::max(out, std::max(-q[i], q[i] - sz[i]));
        st.worst = std::max(st.worst, out);
        if (!bx.containsPoint(p)) st.worst = std::max(st.worst, std::max(out, 1e-300));
    }
    tris.insert(tris.end(), mine.begin(), mine.end());
}
inline void obbChecks(vh::Ctx& c, const BuiltMesh& b) {
    c.setPhase("OBB tree walk " + b.cls);
    ObbStats st; st.seen.assign(b.m.nf(), 0);
    std::vector<int> all;
    walkObb(*b.tm, b.tm->getOBBTreeNode(), 0, st, all);
    auto W = [&]() { return Json::obj().set("mesh", b.cls).set("faces", b.m.nf()).set("nodes", st.nodes).set("leaves", st.leaves).set("depth", st.maxDepth).set("worst_outside", st.worst); };
    c.cover("obbtree:" + b.cls + (st.maxDepth > 6 ? ":deep" : ":shallow"));
    c.obs("obb-nodes", st.nodes);
    c.check("contains:obbtree-node-box", st.worst, 0.0, W);     // containsPoint must be literally true: boxes are padded by construction
    bool once = true; for (int n : st.seen) once = once && n == 1;
    c.require("obbtree:every-face-in-exactly-one-leaf", once && (int)all.size() == b.m.nf(), W);
    c.require("obbtree:numTriangles-consistent", st.badCount == 0, W);
}

// ------------------------------------------------------------------ queries vs brute force
inline void meshQueryChecks(vh::Ctx& c, const BuiltMesh& b, vh::Rng& r, int nNear, int nRay) {
    const ContactGeometry::TriangleMesh& tm = *b.tm;
    const MeshData& m = b.m;
    const double msin = minSinAngle(m);
    // error model of the shipped double-precision closest-point-on-triangle code: cancellation in a*c-b*b grows as 1/sin^2
    const double cond = 1 / std::max(msin * msin, 1e-12);
    static const char* QC[7] = {"near-outside", "near-inside", "far", "on-face", "vertex", "edge", "center"};
    for (int q = 0; q < nNear; ++q) {
        int qc = q % 7;
        int f = r.integer(0, m.nf() - 1);
        V3 A = m.vert(f, 0), B = m.vert(f, 1), C = m.vert(f, 2);
        double u = r.uni(), v = r.uni(); if (u + v > 1) { u = 1 - u; v = 1 - v; }
        V3 sp = A + (LD)u * (B - A) + (LD)v * (C - A);
        V3 fn = cross(B - A, C - A); fn = (1 / norm(fn)) * fn;
        Vec3 x;
        switch (qc) {
        case 0: x = toVec3(sp + (LD)(m.scale * r.logUni(1e-4, 1)) * fn); break;
        case 1: x = toVec3(sp - (LD)(m.scale * r.logUni(1e-4, 0.3)) * fn); break;
        case 2: x = m.center + randUnit(r) * (m.scale * r.logUni(3, 100)); break;
        case 3: x = toVec3(sp); break;
        case 4: x = toVec3(A) + (r.coin() ? Vec3(0) : toVec3(fn) * (m.scale * r.sym(0.1))); break;
        case 5: x = toVec3(0.5L * (A + B)) + (r.coin() ? Vec3(0) : toVec3(fn) * (m.scale * r.sym(0.1))); break;
        default: x = m.center + randBox(r, 0.2 * m.scale); break;
        }
        const std::string cell = b.cls + ":" + QC[qc];
        c.setPhase("mesh findNearestPoint " + cell);
        bool inA = false, inB = true; int face = -1; Vec2 uv(NaN); UnitVec3 nn(1, 0, 0);
        Vec3 p = tm.findNearestPoint(x, inA, face, uv);
        Vec3 p2 = tm.findNearestPoint(x, inB, nn);
        c.cover("mesh-nearest:" + cell);
        const double sc = m.scale + (x - m.center).norm();
        const double pos = m.center.norm() + m.scale;       // absolute coordinate magnitude (rounding of the inputs themselves)
        auto W = [&, x, p, face, uv]() { return Json::obj().set("mesh", b.cls).set("faces", m.nf()).set("min_sin_angle", msin).set("query", jv(x)).set("class", QC[qc]).set("returned", jv(p)).set("face", face).set("uv", jv(uv)); };
        if (!c.require("nan:mesh-nearest", finite3(p) && finite3(Vec3(uv[0], uv[1], 0)), W)) continue;
        c.require("deterministic:mesh-nearest-two-signatures", (p - p2).norm() == 0 && inA == inB, W);
        if (!c.require("faceuv:range", face >= 0 && face < m.nf() && uv[0] >= -1e-12 && uv[1] >= -1e-12 && uv[0] + uv[1] <= 1 + 1e-12, W)) continue;
        c.check("faceuv:reproduces-point", (tm.findPoint(face, uv) - p).norm(), 2e-12 * (pos + sc), W);
        BfNearest bf = bfNearest(m, V3(x));
        const std::string tier = b.cls == "sliver" ? "sliver" : "regular";
        double tol = (1e-12 * sc + 1e-14 * pos) * std::min(cond, 1e8);
        c.check("nearest-distance:" + tier, std::fabs((p - x).norm() - (double)bf.dist), tol, [&]() { return W().set("brute_force_distance", (double)bf.dist).set("brute_force_face", bf.face); });
        LD onS = distToTriangle(V3(p), m.vert(face, 0), m.vert(face, 1), m.vert(face, 2));
        c.check("onsurface:mesh-nearest-on-reported-face", (double)onS, 2e-12 * (pos + sc) * std::max(1.0, std::min(cond, 1e8) / 1e3), W);
        if (meshSignedVolume(m) < 0) c.obs("inside-flag-not-judged-mesh-is-inside-out");    // consequence of facegeom:normals-outward
        else if ((double)bf.dist > 1e-7 * sc) {
            BfInside bi = bfInside(m, V3(x), r);
            LD wn = windingNumber(m, V3(x));
            bool wnIn = wn > 0.5L, wnClear = std::fabs(wn - (wnIn ? 1 : 0)) < 1e-6L;
            if (bi.ok && wnClear && wnIn == bi.inside) c.require(std::string("inside:mesh-nearest:") + triFeature(bf.p, m.vert(bf.face, 0), m.vert(bf.face, 1), m.vert(bf.face, 2)), inA == bi.inside, [&]() { return W().set("parity_inside", bi.inside).set("winding_number", (double)wn).set("flag", inA); });
            else c.skip("inside-oracles-not-clean");
        }
        // findNearestPointToFace: the per-face service used by the tree; on the nearest face and on two random faces
        // (a random face sees the query in any of the seven Voronoi regions of its plane)
        for (int rep = 0; rep < 3; ++rep) {
        const int tf = rep == 0 ? bf.face : r.integer(0, m.nf() - 1);
        Vec2 uvf; Vec3 pf = tm.findNearestPointToFace(x, tf, uvf);
        LD dface = distToTriangle(V3(x), m.vert(tf, 0), m.vert(tf, 1), m.vert(tf, 2));
        c.check("nearest-to-face:" + tier, std::fabs((pf - x).norm() - (double)dface), tol, [&]() {
            return W().set("tested_face", tf).set("v0", jv(m.vert(tf, 0))).set("v1", jv(m.vert(tf, 1))).set("v2", jv(m.vert(tf, 2)))
                      .set("returned_by_findNearestPointToFace", jv(pf)).set("its_uv", jv(uvf)).set("its_distance", (pf - x).norm()).set("exact_distance", (double)dface); });
        }
    }
    static const char* RC[5] = {"outside-toward", "inside", "outside-random", "far", "on-face"};
    for (int q = 0; q < nRay; ++q) {
        int rc = q % 5;
        int f = r.integer(0, m.nf() - 1);
        V3 A = m.vert(f, 0), B = m.vert(f, 1), C = m.vert(f, 2);
        double u = r.uni(0.05, 0.9), v = r.uni(0.05, 0.9); if (u + v > 0.95) { u = 0.95 - u * 0.5; v = 0.45 - v * 0.5; if (u < 0.05) u = 0.05; if (v < 0.05) v = 0.05; }
        V3 sp = A + (LD)u * (B - A) + (LD)v * (C - A);
        Vec3 target = toVec3(sp), o, d;
        switch (rc) {
        case 0: o = m.center + randUnit(r) * (m.scale * r.uni(1.5, 4)); d = target - o; break;
        case 1: o = target + (m.center - target) * r.uni(0.05, 0.5); d = randUnit(r); break;
        case 2: o = m.center + randUnit(r) * (m.scale * r.uni(1.2, 3)); d = randUnit(r); break;
        case 3: o = m.center + randUnit(r) * (m.scale * r.logUni(10, 1000)); d = target - o; break;
        default: o = target; d = randUnit(r); break;
        }
        d /= d.norm();
        const std::string cell = b.cls + ":" + RC[rc];
        c.setPhase("mesh intersectsRay " + cell);
        Real dist = -7.25, dist2 = -3.5; int face = -1; Vec2 uv(NaN); UnitVec3 nn(1, 0, 0);
        bool hit = tm.intersectsRay(o, UnitVec3(d), dist, face, uv);
        bool hit2 = tm.intersectsRay(o, UnitVec3(d), dist2, nn);
        c.cover("mesh-ray:" + cell);
        UnitVec3 ud(d);     // the direction the library actually used
        BfRay br = bfRay(m, V3(o), V3(Vec3(ud)), 1e-7L, rc == 4 ? f : -1);
        auto W = [&, o, d, hit, dist, face, uv]() { return Json::obj().set("mesh", b.cls).set("faces", m.nf()).set("origin", jv(o)).set("direction", jv(d)).set("class", RC[rc]).set("hit", hit).set("distance", dist).set("face", face).set("uv", jv(uv)).set("bf_hit", br.hit).set("bf_distance", (double)br.t).set("bf_face", br.face); };
        c.require("deterministic:mesh-ray-two-signatures", hit == hit2 && (!hit || dist == dist2), W);
        if (br.grazing) { c.skip("ray-grazing-edge"); continue; }
        if (rc == 4) {
            // origin on a face (well inside it): the hit at distance 0 and the next crossing are both right answers
            const double sc0 = m.scale + (o - m.center).norm();
            bool ok0 = hit && std::fabs(dist) <= 1e-9 * sc0, okNext = hit == br.hit && (!hit || std::fabs(dist - (double)br.t) <= 1e-10 * (sc0 + std::fabs(dist)));
            c.require("ray-from-surface:zero-or-next-crossing", ok0 || okNext, W);
            continue;
        }
        if (!c.require(std::string("ray-hit-or-miss:") + RC[rc], hit == br.hit, W)) continue;
        if (!hit) { c.require("ray-miss-leaves-outputs", dist == -7.25 && face == -1, W); continue; }
        const double sc = m.scale + (o - m.center).norm() + std::fabs(dist), pos = m.center.norm() + m.scale;
        c.check("ray-first-hit-distance", std::fabs(dist - (double)br.t), 1e-11 * sc + 1e-13 * pos, W);
        if (c.require("ray-faceuv:range", face >= 0 && face < m.nf() && uv[0] >= -1e-12 && uv[1] >= -1e-12 && uv[0] + uv[1] <= 1 + 1e-12, W))
            c.check("ray-faceuv:reproduces-hit-point", (tm.findPoint(face, uv) - (o + dist * Vec3(ud))).norm(), 1e-11 * sc + 1e-13 * pos, W);
    }
}

// ------------------------------------------------------------------ open / invalid meshes must be rejected by the constructor
inline void invalidMeshChecks(vh::Ctx& c, vh::Rng& r, long idx) {
    MeshData m = genSphereMesh(r, r.integer(0, 2), Vec3(1), 0);
    int kind = (int)(idx % 5);
    static const char* KN[5] = {"face-removed", "face-duplicated", "face-flipped", "index-out-of-range", "index-count-not-multiple-of-3"};
    int f = r.integer(0, m.nf() - 1);
    switch (kind) {
    case 0: m.f.erase(m.f.begin() + 3 * f, m.f.begin() + 3 * f + 3); break;
    case 1: for (int k = 0; k < 3; ++k) m.f.push_back(m.f[3 * f + k]); break;
    case 2: std::swap(m.f[3 * f], m.f[3 * f + 1]); break;
    case 3: m.f[3 * f + r.integer(0, 2)] = r.coin() ? -1 : m.nv() + r.integer(0, 5); break;
    default: m.f.pop_back(); break;
    }
    c.setPhase(std::string("invalid mesh ") + KN[kind]);
    c.cover(std::string("invalid-mesh:") + KN[kind]);
    Array_<Vec3> vv(m.v.begin(), m.v.end()); Array_<int> ff(m.f.begin(), m.f.end());
    bool threw = false;
    try { ContactGeometry::TriangleMesh tm(vv, ff); } catch (const std::exception&) { threw = true; }
    c.require(std::string("invalid-mesh-rejected:") + KN[kind], threw, [&]() { return Json::obj().set("kind", KN[kind]).set("faces", m.nf()); });
}

}  // namespace c36
