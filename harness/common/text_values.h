// text_values.h — C32 parts (a) value round trips and (b) acceptance of exactly the valid strings. Included by mon_text.cpp only.
#pragma once
#include "SimTKcommon.h"
#include "vh.h"
#include <complex>
#include <climits>
#include <sstream>

namespace tv {
using namespace SimTK;
using vh::Json;

// ------------------------------------------------------------------------------------------------ equality (bitwise, NaN == NaN)
inline bool same(double a, double b) { return (std::isnan(a) && std::isnan(b)) || std::memcmp(&a, &b, sizeof a) == 0; }
inline bool same(float a, float b) { return (std::isnan(a) && std::isnan(b)) || std::memcmp(&a, &b, sizeof a) == 0; }
inline bool same(bool a, bool b) { return a == b; }
inline bool same(int a, int b) { return a == b; }
inline bool same(long a, long b) { return a == b; }
inline bool same(long long a, long long b) { return a == b; }
inline bool same(unsigned a, unsigned b) { return a == b; }
inline bool same(unsigned long a, unsigned long b) { return a == b; }
inline bool same(unsigned long long a, unsigned long long b) { return a == b; }
inline bool same(const String& a, const String& b) { return a == b; }
template <class T> inline bool same(const std::complex<T>& a, const std::complex<T>& b) { return same(a.real(), b.real()) && same(a.imag(), b.imag()); }
template <int M, class E, int S> inline bool same(const Vec<M, E, S>& a, const Vec<M, E, S>& b) { for (int i = 0; i < M; ++i) if (!same(a[i], b[i])) return false; return true; }
template <int M, class E, int S> inline bool same(const Row<M, E, S>& a, const Row<M, E, S>& b) { for (int i = 0; i < M; ++i) if (!same(a[i], b[i])) return false; return true; }
template <int M, int N, class E, int CS, int RS> inline bool same(const Mat<M, N, E, CS, RS>& a, const Mat<M, N, E, CS, RS>& b) { for (int i = 0; i < M; ++i) for (int j = 0; j < N; ++j) if (!same(a(i, j), b(i, j))) return false; return true; }
template <int M, class E, int RS> inline bool same(const SymMat<M, E, RS>& a, const SymMat<M, E, RS>& b) { for (int i = 0; i < M; ++i) for (int j = 0; j <= i; ++j) if (!same(a(i, j), b(i, j))) return false; return true; }
template <class E> inline bool same(const Vector_<E>& a, const Vector_<E>& b) { if (a.size() != b.size()) return false; for (int i = 0; i < a.size(); ++i) if (!same(a[i], b[i])) return false; return true; }
template <class E> inline bool same(const RowVector_<E>& a, const RowVector_<E>& b) { if (a.size() != b.size()) return false; for (int i = 0; i < a.size(); ++i) if (!same(a[i], b[i])) return false; return true; }
template <class E> inline bool same(const Matrix_<E>& a, const Matrix_<E>& b) { if (a.nrow() != b.nrow() || a.ncol() != b.ncol()) return false; for (int i = 0; i < a.nrow(); ++i) for (int j = 0; j < a.ncol(); ++j) if (!same(a(i, j), b(i, j))) return false; return true; }
template <class E, class X> inline bool same(const Array_<E, X>& a, const Array_<E, X>& b) { if (a.size() != b.size()) return false; for (X i(0); i < a.size(); ++i) if (!same(a[i], b[i])) return false; return true; }

// ------------------------------------------------------------------------------------------------ value generators
template <class F> struct FBits;
template <> struct FBits<double> { typedef uint64_t U; static const int MANT = 52; };
template <> struct FBits<float> { typedef uint32_t U; static const int MANT = 23; };
template <class F> inline F fromBits(typename FBits<F>::U u) { F f; std::memcpy(&f, &u, sizeof f); return f; }

// returns a value and the name of its class
template <class F> inline F randFloat(vh::Rng& r, std::string& cls, bool finiteOnly = false) {
    typedef typename FBits<F>::U U;
    const int M = FBits<F>::MANT;
    const U mantMask = ((U)1 << M) - 1;
    int k = r.integer(0, finiteOnly ? 5 : 7);
    switch (k) {
    case 0: { // random bit pattern (finite)
        for (;;) { F f = fromBits<F>((U)r.next()); if (std::isfinite(f)) { cls = (std::fpclassify(f) == FP_SUBNORMAL) ? "denormal" : (f == 0 ? "zero" : "random-bits"); return f; } }
    }
    case 1: { U m = (U)r.next() & mantMask; if (m == 0) m = 1; if (r.coin(0.2)) m = r.coin() ? 1 : mantMask; U s = r.coin() ? ((U)1 << (sizeof(U) * 8 - 1)) : 0; cls = "denormal"; return fromBits<F>(s | m); }
    case 2: { // short decimals
        int d = r.integer(0, 6); long long n = (long long)(r.next() % 2000001ULL) - 1000000; cls = "short-decimal"; return (F)((long double)n / std::pow(10.0L, d));
    }
    case 3: { // neighbours of powers of ten and two
        int e = r.integer(sizeof(F) == 4 ? -37 : -300, sizeof(F) == 4 ? 37 : 300);
        F b = r.coin() ? (F)std::pow(10.0L, e) : (F)std::ldexp(1.0, r.integer(sizeof(F) == 4 ? -120 : -1000, sizeof(F) == 4 ? 120 : 1000));
        int steps = r.integer(-2, 2);
        for (int i = 0; i < std::abs(steps); ++i) b = std::nextafter(b, steps > 0 ? std::numeric_limits<F>::infinity() : -std::numeric_limits<F>::infinity());
        cls = "power-neighbour"; return r.coin() ? b : -b;
    }
    case 4: { // boundaries
        static const int NB = 8; cls = "boundary";
        F v[NB] = {std::numeric_limits<F>::max(), std::numeric_limits<F>::min(), std::numeric_limits<F>::denorm_min(), std::numeric_limits<F>::epsilon(), (F)1, (F)0.1,
                   std::nextafter(std::numeric_limits<F>::max(), (F)0), std::nextafter(std::numeric_limits<F>::min(), (F)0)};
        F f = v[r.integer(0, NB - 1)]; return r.coin() ? f : -f;
    }
    case 5: { cls = "zero"; return r.coin() ? (F)0.0 : -(F)0.0; }
    case 6: { cls = "inf"; return r.coin() ? std::numeric_limits<F>::infinity() : -std::numeric_limits<F>::infinity(); }
    default: { cls = "nan"; U u = (U)r.next() | (((U)0x7ff << (M - 3)) << 0); F f = fromBits<F>(u | ((U)(sizeof(F) == 4 ? 0x7fc00000u : 0x7ff8000000000000ULL))); return std::isnan(f) ? f : std::numeric_limits<F>::quiet_NaN(); }
    }
}
template <class I> inline I randInt(vh::Rng& r) {
    switch (r.integer(0, 5)) {
    case 0: return std::numeric_limits<I>::max();
    case 1: return std::numeric_limits<I>::min();
    case 2: return (I)0;
    case 3: return (I)(std::numeric_limits<I>::is_signed ? -1 : 1);
    case 4: return (I)(r.next() % 1000);
    default: return (I)r.next();
    }
}
inline std::string pad(vh::Rng& r) { static const char* ws[] = {"", " ", "  ", "\t", "\n", " \t\n", "\r\n", "\f", "\v "}; return ws[r.integer(0, 8)]; }

template <class T> struct TName;
#define TV_NAME(T, s) template <> struct TName<T> { static const char* n() { return s; } };
TV_NAME(float, "float") TV_NAME(double, "double") TV_NAME(bool, "bool") TV_NAME(int, "int") TV_NAME(long, "long") TV_NAME(long long, "long long")
TV_NAME(unsigned, "unsigned") TV_NAME(unsigned long, "unsigned long") TV_NAME(unsigned long long, "unsigned long long")
TV_NAME(std::complex<float>, "complex<float>") TV_NAME(std::complex<double>, "complex<double>")
#undef TV_NAME

inline Json jv(double x) { return Json(x); }
inline Json jv(float x) { return Json((double)x); }
inline Json jv(bool x) { return Json(x); }
inline Json jv(int x) { return Json(x); } inline Json jv(long x) { return Json(x); } inline Json jv(long long x) { return Json(x); }
inline Json jv(unsigned x) { return Json(x); } inline Json jv(unsigned long x) { return Json(x); } inline Json jv(unsigned long long x) { return Json(std::to_string(x)); }
template <class T> inline Json jv(const std::complex<T>& z) { return Json::arr().push(jv(z.real())).push(jv(z.imag())); }
inline std::string hexOf(const void* p, size_t n) { std::string s; char b[4]; for (size_t i = n; i-- > 0;) { snprintf(b, sizeof b, "%02x", ((const unsigned char*)p)[i]); s += b; } return s; }

// ------------------------------------------------------------------------------------------------ (a1) String(x) -> convertTo<T>
template <class T> inline void scalarRoundTrip(vh::Ctx& c, vh::Rng& r, const T& x, const std::string& cls) {
    const std::string tn = TName<T>::n();
    c.setPhase("String round trip " + tn + " " + cls);
    const String s(x);
    T y = T(), y2 = T(); bool ok = false, threw = false, ok2 = false; std::string what;
    const String padded = String(pad(r) + s + pad(r));
    try { ok = s.tryConvertTo<T>(y); ok2 = padded.tryConvertTo<T>(y2); (void)s.convertTo<T>(); }
    catch (const std::exception& e) { threw = true; what = e.what(); }
    c.cover("roundtrip:String:" + tn + ":" + cls);
    auto W = [&](const char* w) { return [&, w]() { return Json::obj().set("what", w).set("type", tn).set("class", cls).set("value", jv(x)).set("value_bits", hexOf(&x, sizeof x)).set("text", std::string(s)).set("got", jv(y)).set("got_bits", hexOf(&y, sizeof y)).set("threw", vh::firstLine(what)); }; };
    c.require("roundtrip:String:" + tn + ":" + cls, ok && !threw && same(x, y), W("String(x).convertTo<T>() is not the identity (bitwise / NaN-ness)"));
    c.require("roundtrip:String:" + tn + ":surrounding-whitespace", threw || !ok || (ok2 && same(x, y2)), W("text with surrounding white space converts differently"));
}

// ------------------------------------------------------------------------------------------------ (a2) write/readUnformatted, write/readFormatted
template <class C> inline bool rtUnformatted(const C& in, C& out, std::string& text, bool& leftover) {
    std::ostringstream o; writeUnformatted(o, in); text = o.str();
    std::istringstream i(text);
    bool ok = readUnformatted(i, out);
    leftover = false;
    if (ok && !i.eof()) { i >> std::ws; leftover = !i.eof(); }
    return ok;
}
template <class C> inline bool rtFormatted(const C& in, C& out, std::string& text) {
    std::ostringstream o; writeFormatted(o, in); text = o.str();
    std::istringstream i(text);
    return readFormatted(i, out);
}
template <class C> inline void checkUnformatted(vh::Ctx& c, const C& in, C out, const std::string& tn, const std::string& cls) {
    c.setPhase("unformatted round trip " + tn);
    std::string text; bool leftover = false, ok = false, threw = false; std::string what;
    try { ok = rtUnformatted(in, out, text, leftover); } catch (const std::exception& e) { threw = true; what = e.what(); }
    c.cover("roundtrip:unformatted:" + tn + ":" + cls);
    c.require("roundtrip:unformatted:" + tn + ":" + cls, ok && !threw && !leftover && same(in, out), [&] {
        return Json::obj().set("what", "writeUnformatted -> readUnformatted is not the identity").set("type", tn).set("class", cls).set("text", text.substr(0, 600)).set("read_ok", ok).set("leftover", leftover).set("threw", vh::firstLine(what)); });
}
// decisive = in the statement's / the implementation's supported set; otherwise the outcome is only counted
template <class C> inline void checkFormatted(vh::Ctx& c, const C& in, C out, const std::string& tn, const std::string& cls, bool decisive) {
    c.setPhase("formatted round trip " + tn);
    std::string text; bool ok = false, threw = false; std::string what;
    try { ok = rtFormatted(in, out, text); } catch (const std::exception& e) { threw = true; what = e.what(); }
    const bool good = ok && !threw && same(in, out);
    if (decisive) {
        c.cover("roundtrip:formatted:" + tn + ":" + cls);
        c.require("roundtrip:formatted:" + tn + ":" + cls, good, [&] {
            return Json::obj().set("what", "writeFormatted -> readFormatted is not the identity").set("type", tn).set("class", cls).set("text", text.substr(0, 600)).set("read_ok", ok).set("threw", vh::firstLine(what)); });
    } else c.obs(std::string(good ? "formatted-roundtrip-ok:" : "formatted-roundtrip-FAILS(not-in-statement):") + tn + ":" + cls);
}

template <class F> inline F elem(vh::Rng& r, bool finiteOnly, bool& sawNonFinite) { std::string cl; F f = randFloat<F>(r, cl, finiteOnly); if (!std::isfinite(f)) sawNonFinite = true; return f; }
template <class F, int M> inline Vec<M, F> randVec(vh::Rng& r, bool fin, bool& nf) { Vec<M, F> v; for (int i = 0; i < M; ++i) v[i] = elem<F>(r, fin, nf); return v; }
template <class F, int M, int N> inline Mat<M, N, F> randMat(vh::Rng& r, bool fin, bool& nf) { Mat<M, N, F> m; for (int i = 0; i < M; ++i) for (int j = 0; j < N; ++j) m(i, j) = elem<F>(r, fin, nf); return m; }

inline void containerRoundTrips(vh::Ctx& c, vh::Rng& r) {
    const bool fin = r.coin(0.5);            // half of the containers hold finite values only
    bool nf = false;
    auto cls = [&]() { return std::string(nf ? "with-nonfinite" : "finite"); };
    switch (r.integer(0, 15)) {
    case 0: { auto v = randVec<double, 3>(r, fin, nf); checkUnformatted(c, v, Vec3(0), "Vec3", cls()); checkFormatted(c, v, Vec3(0), "Vec3", cls(), false); } break;
    case 1: { auto v = randVec<double, 1>(r, fin, nf); checkUnformatted(c, v, Vec1(0), "Vec1", cls()); auto w = randVec<double, 6>(r, fin, nf); checkUnformatted(c, w, Vec6(0), "Vec6", cls()); } break;
    case 2: { auto v = randVec<float, 4>(r, fin, nf); checkUnformatted(c, v, Vec<4, float>(0), "Vec4f", cls()); Row<3> rw = ~randVec<double, 3>(r, fin, nf); checkUnformatted(c, rw, Row<3>(0), "Row3", cls()); } break;
    case 3: { Vec<2, std::complex<double>> v; for (int i = 0; i < 2; ++i) v[i] = std::complex<double>(elem<double>(r, fin, nf), elem<double>(r, fin, nf)); checkUnformatted(c, v, Vec<2, std::complex<double>>(), "Vec2<complex>", cls()); } break;
    case 4: { auto m = randMat<double, 3, 3>(r, fin, nf); checkUnformatted(c, m, Mat33(0), "Mat33", cls()); checkFormatted(c, m, Mat33(0), "Mat33", cls(), false); } break;
    case 5: { auto m = randMat<double, 2, 3>(r, fin, nf); checkUnformatted(c, m, Mat<2, 3>(0), "Mat23", cls()); auto f = randMat<float, 3, 4>(r, fin, nf); checkUnformatted(c, f, Mat<3, 4, float>(0), "Mat34f", cls()); } break;
    case 6: { // symmetric matrix: the reader insists on numerical symmetry, so finite moderate values only
        SymMat33 s; for (int i = 0; i < 3; ++i) for (int j = 0; j <= i; ++j) s(i, j) = r.sym(100);
        checkUnformatted(c, s, SymMat33(0), "SymMat33", "finite"); } break;
    case 7: { int n = r.integer(0, 20); Vector_<double> v(n); for (int i = 0; i < n; ++i) v[i] = elem<double>(r, fin, nf);
              checkUnformatted(c, v, Vector_<double>(), "Vector", n == 0 ? "empty" : cls()); checkFormatted(c, v, Vector_<double>(), "Vector", cls(), false);
              Vector_<double> pre(n, -7.0); VectorView_<double> view = pre.updAsVectorView(); (void)view;
              // fixed-size target (a view): must read exactly n elements
              std::ostringstream o; writeUnformatted(o, v); std::istringstream is(o.str()); Vector_<double> tgt(n, -7.0); bool ok = n == 0 ? true : readUnformatted(is, tgt.updAsVectorView());
              c.require("roundtrip:unformatted:VectorView:" + cls(), ok && same(v, tgt), [&] { return Json::obj().set("what", "readUnformatted into a VectorView differs").set("text", o.str().substr(0, 400)); }); } break;
    case 8: { int n = r.integer(0, 12); Vector_<float> v(n); for (int i = 0; i < n; ++i) v[i] = elem<float>(r, fin, nf); checkUnformatted(c, v, Vector_<float>(), "Vector<float>", n == 0 ? "empty" : cls());
              RowVector_<double> rv(n); for (int i = 0; i < n; ++i) rv[i] = elem<double>(r, fin, nf);
              std::ostringstream o; writeUnformatted(o, rv); std::istringstream is(o.str()); RowVector_<double> tgt(n, -7.0); bool ok = n == 0 ? true : readUnformatted(is, tgt.updAsRowVectorView());
              c.require("roundtrip:unformatted:RowVectorView:" + cls(), ok && same(rv, tgt), [&] { return Json::obj().set("what", "readUnformatted into a RowVectorView differs").set("text", o.str().substr(0, 400)); }); } break;
    case 9: { int n = r.integer(0, 8); Vector_<std::complex<double>> v(n); for (int i = 0; i < n; ++i) v[i] = std::complex<double>(elem<double>(r, fin, nf), elem<double>(r, fin, nf)); checkUnformatted(c, v, Vector_<std::complex<double>>(), "Vector<complex>", n == 0 ? "empty" : cls()); } break;
    case 10: { int nr = r.integer(1, 5), nc = r.integer(1, 5); Matrix_<double> m(nr, nc); for (int i = 0; i < nr; ++i) for (int j = 0; j < nc; ++j) m(i, j) = elem<double>(r, fin, nf);
               std::ostringstream o; writeUnformatted(o, m); std::istringstream is(o.str()); Matrix_<double> tgt(nr, nc, -7.0); bool ok = fillUnformatted(is, tgt);
               c.cover("roundtrip:unformatted:Matrix:" + cls());
               c.require("roundtrip:unformatted:Matrix:" + cls(), ok && same(m, tgt), [&] { return Json::obj().set("what", "writeUnformatted(Matrix) -> fillUnformatted differs").set("text", o.str().substr(0, 600)); }); } break;
    case 11: { int n = r.integer(0, 20); Array_<double> a; for (int i = 0; i < n; ++i) a.push_back(elem<double>(r, fin, nf));
               checkUnformatted(c, a, Array_<double>(), "Array<double>", n == 0 ? "empty" : cls()); checkFormatted(c, a, Array_<double>(), "Array<double>", n == 0 ? "empty" : cls(), !nf); } break;
    case 12: { int n = r.integer(0, 20); Array_<float> a; for (int i = 0; i < n; ++i) a.push_back(elem<float>(r, true, nf)); checkUnformatted(c, a, Array_<float>(), "Array<float>", n == 0 ? "empty" : "finite"); checkFormatted(c, a, Array_<float>(), "Array<float>", n == 0 ? "empty" : "finite", true);
               Array_<int> b; for (int i = 0; i < n; ++i) b.push_back(randInt<int>(r)); checkUnformatted(c, b, Array_<int>(), "Array<int>", n == 0 ? "empty" : "any"); checkFormatted(c, b, Array_<int>(), "Array<int>", n == 0 ? "empty" : "any", true); } break;
    case 13: { int n = r.integer(0, 10); Array_<bool> a; for (int i = 0; i < n; ++i) a.push_back(r.coin()); checkUnformatted(c, a, Array_<bool>(), "Array<bool>", n == 0 ? "empty" : "any"); checkFormatted(c, a, Array_<bool>(), "Array<bool>", "any", false);
               Array_<Vec3> v; for (int i = 0; i < n; ++i) v.push_back(randVec<double, 3>(r, fin, nf)); checkUnformatted(c, v, Array_<Vec3>(), "Array<Vec3>", n == 0 ? "empty" : cls());
               Array_<std::complex<double>> z; for (int i = 0; i < n; ++i) z.push_back(std::complex<double>(elem<double>(r, fin, nf), elem<double>(r, fin, nf))); checkUnformatted(c, z, Array_<std::complex<double>>(), "Array<complex>", n == 0 ? "empty" : cls()); } break;
    case 14: { // nested arrays (formatted keeps the structure)
               int n = r.integer(0, 6); Array_<Array_<int>> a; Array_<Array_<double>> d;
               for (int i = 0; i < n; ++i) { Array_<int> in; Array_<double> di; int m = r.integer(0, 5); for (int j = 0; j < m; ++j) { in.push_back(randInt<int>(r)); di.push_back(elem<double>(r, true, nf)); } a.push_back(in); d.push_back(di); }
               checkFormatted(c, a, Array_<Array_<int>>(), "Array<Array<int>>", n == 0 ? "empty" : "any", true); checkFormatted(c, d, Array_<Array_<double>>(), "Array<Array<double>>", n == 0 ? "empty" : "finite", true); } break;
    default: { // scalars through the stream functions
               double x = elem<double>(r, fin, nf); checkUnformatted(c, x, 0.0, "double", cls()); float f = elem<float>(r, fin, nf); checkUnformatted(c, f, 0.0f, "float", std::isfinite(f) ? "finite" : "with-nonfinite");
               int i = randInt<int>(r); checkUnformatted(c, i, 0, "int", "any"); bool b = r.coin(); checkUnformatted(c, b, !b, "bool", "any");
               std::complex<double> z(elem<double>(r, fin, nf), elem<double>(r, fin, nf)); checkUnformatted(c, z, std::complex<double>(), "complex<double>", (std::isfinite(z.real()) && std::isfinite(z.imag())) ? "finite" : "with-nonfinite");
               checkFormatted(c, z, std::complex<double>(), "complex<double>", "any", false); checkFormatted(c, x, 0.0, "double", std::isfinite(x) ? "finite" : "with-nonfinite", true); } break;
    }
}

inline void scalarRoundTrips(vh::Ctx& c, vh::Rng& r) {
    for (int rep = 0; rep < 12; ++rep) {
        std::string cl;
        { double x = randFloat<double>(r, cl); scalarRoundTrip(c, r, x, cl); }
        { float x = randFloat<float>(r, cl); scalarRoundTrip(c, r, x, cl); }
        scalarRoundTrip(c, r, r.coin(), "any");
        scalarRoundTrip(c, r, randInt<int>(r), "any");
        scalarRoundTrip(c, r, randInt<long>(r), "any");
        scalarRoundTrip(c, r, randInt<long long>(r), "any");
        scalarRoundTrip(c, r, randInt<unsigned>(r), "any");
        scalarRoundTrip(c, r, randInt<unsigned long>(r), "any");
        scalarRoundTrip(c, r, randInt<unsigned long long>(r), "any");
        { std::string c1, c2; std::complex<double> z(randFloat<double>(r, c1, true), randFloat<double>(r, c2, true)); scalarRoundTrip(c, r, z, "finite"); }
        { std::string c1, c2; std::complex<float> z(randFloat<float>(r, c1, true), randFloat<float>(r, c2, true)); scalarRoundTrip(c, r, z, "finite"); }
        if (rep % 4 == 0) { std::string c1, c2; std::complex<double> z(randFloat<double>(r, c1), randFloat<double>(r, c2));
            if (!std::isfinite(z.real()) || !std::isfinite(z.imag())) scalarRoundTrip(c, r, z, "non-finite-part"); }
    }
}

// ------------------------------------------------------------------------------------------------ (b) acceptance grammar
enum Label { Valid, Invalid, Unjudged };
struct Sample { std::string text; Label label; std::string cls; };

inline std::string digits(vh::Rng& r, int lo, int hi) { int n = r.integer(lo, hi); std::string s; for (int i = 0; i < n; ++i) s += (char)('0' + r.integer(0, 9)); return s; }
inline std::string mixCase(vh::Rng& r, std::string s) { for (auto& ch : s) if (r.coin()) ch = (char)std::toupper((unsigned char)ch); return s; }

inline std::string validFloatLiteral(vh::Rng& r, std::string& cls) {
    std::string s;
    if (r.coin(0.5)) s += r.coin() ? "-" : "+";
    switch (r.integer(0, 3)) {
    case 0: s += digits(r, 1, 6); cls = "integer-form"; break;
    case 1: s += digits(r, 1, 6) + "." + digits(r, 1, 8); cls = "fixed"; break;
    case 2: s += digits(r, 1, 4) + "."; cls = "trailing-point"; break;
    default: s += "." + digits(r, 1, 6); cls = "leading-point"; break;
    }
    if (r.coin(0.5)) { s += r.coin() ? "e" : "E"; if (r.coin(0.6)) s += r.coin() ? "-" : "+"; s += std::to_string(r.integer(0, 25)); cls += "+exponent"; }
    return s;
}
inline Sample floatSample(vh::Rng& r) {
    Sample s; std::string cls;
    int k = r.integer(0, 26);
    const std::string v = validFloatLiteral(r, cls);
    switch (k) {
    case 0: case 1: case 2: case 3: case 4: case 5: s = {pad(r) + v + pad(r), Valid, "literal:" + cls}; break;
    case 6: { static const char* sp[] = {"nan", "inf", "-inf", "infinity", "-infinity", "+inf", "+infinity"}; s = {pad(r) + mixCase(r, sp[r.integer(0, 6)]) + pad(r), Valid, "special-name"}; } break;
    case 7: { static const char* g[] = {"abc", "x", "f", "d5", ",", ";", ")", "e", "..", "-", "%", "\xc3\xa9"}; s = {v + g[r.integer(0, 11)], Invalid, "trailing-garbage"}; if (s.text.size() >= 2 && (s.text.back() == 'e') && cls.find("exponent") != std::string::npos) s.label = Invalid; } break;
    case 8: s = {v + " " + validFloatLiteral(r, cls), Invalid, "second-number"}; break;
    case 9: s = {v + pad(r) + " x", Invalid, "space-then-garbage"}; break;
    case 10: { std::string t = digits(r, 1, 3) + " ." + digits(r, 1, 3); s = {t, Invalid, "embedded-space"}; } break;
    case 11: s = {(r.coin() ? "- " : "+ ") + digits(r, 1, 4), Invalid, "sign-space-digits"}; break;
    case 12: s = {r.coin() ? "" : pad(r) + pad(r), Invalid, "empty-or-blank"}; break;
    case 13: { static const char* g[] = {"+", "-", ".", "e5", "E", "+.", "-.e3", "--1", "+-1", "-+2"}; s = {std::string(g[r.integer(0, 9)]), Invalid, "lone-sign-or-point"}; } break;
    case 14: s = {digits(r, 1, 4) + (r.coin() ? "e" : "e+"), Invalid, "dangling-exponent"}; break;
    case 15: s = {"0x" + digits(r, 1, 3), Invalid, "hex-prefix"}; break;
    case 16: s = {digits(r, 1, 3) + "." + digits(r, 1, 3) + "." + digits(r, 1, 3), Invalid, "two-points"}; break;
    case 17: s = {digits(r, 1, 3) + "," + digits(r, 3, 3), Invalid, "comma"}; break;
    case 18: { std::string t = v; t.push_back('\0'); t += r.coin() ? "abc" : "1"; s = {t, Invalid, "embedded-NUL"}; } break;
    case 19: { static const char* g[] = {"nanx", "infin", "in", "na", "infinit", "inf inity", "n an", "nan0", "1nan", "infinityy"}; s = {mixCase(r, g[r.integer(0, 9)]), Invalid, "misspelled-special"}; } break;
    case 20: { static const char* g[] = {"true", "abc", "one", "#1", "$5", "(1)", "[1]", "1/2"}; s = {std::string(g[r.integer(0, 7)]), Invalid, "not-a-number"}; } break;
    case 21: s = {(r.coin() ? "1e999" : "-1e9999"), Unjudged, "overflow"}; break;
    case 22: s = {"1e-9999", Unjudged, "underflow"}; break;
    case 23: { static const char* g[] = {"-nan", "+nan", "nan(1)", "NaNQ"}; s = {std::string(g[r.integer(0, 3)]), Unjudged, "nan-variants"}; } break;
    case 24: s = {v + "\n" + "garbage", Invalid, "newline-then-garbage"}; break;
    case 25: s = {"\xef\xbb\xbf" + v, Invalid, "utf8-bom-prefix"}; break;
    default: s = {v + std::string(1, (char)r.integer(1, 8)), Invalid, "trailing-control-char"}; break;
    }
    return s;
}
template <class I> inline Sample intSample(vh::Rng& r) {
    Sample s; const bool sgn = std::numeric_limits<I>::is_signed;
    std::string v; if (r.coin(0.4)) v += (sgn && r.coin()) ? "-" : "+";
    if (v == "-" && !sgn) v = "+";
    std::string d = digits(r, 1, sizeof(I) == 4 ? 9 : 18);
    v += d;
    switch (r.integer(0, 16)) {
    case 0: case 1: case 2: case 3: s = {pad(r) + v + pad(r), Valid, "literal"}; break;
    case 4: s = {pad(r) + "00" + d + pad(r), Valid, "leading-zeros"}; break;
    case 5: { I x = r.coin() ? std::numeric_limits<I>::max() : std::numeric_limits<I>::min(); s = {std::to_string(x), Valid, "extreme"}; } break;
    case 6: s = {v + "." + digits(r, 1, 3), Invalid, "decimal-point"}; break;
    case 7: s = {digits(r, 1, 3) + "e" + digits(r, 1, 1), Invalid, "exponent"}; break;
    case 8: { static const char* g[] = {"abc", "x", "L", "u", ",", "-", "+"}; s = {v + g[r.integer(0, 6)], Invalid, "trailing-garbage"}; } break;
    case 9: s = {v + " " + digits(r, 1, 3), Invalid, "second-number"}; break;
    case 10: s = {r.coin() ? "" : "  \t", Invalid, "empty-or-blank"}; break;
    case 11: { static const char* g[] = {"+", "-", "--1", "+-1", "- 1", "+ 1"}; s = {std::string(g[r.integer(0, 5)]), Invalid, "lone-sign"}; } break;
    case 12: s = {"0x" + digits(r, 1, 3), Invalid, "hex-prefix"}; break;
    case 13: s = {digits(r, 1, 3) + "," + digits(r, 3, 3), Invalid, "comma"}; break;
    case 14: s = {std::string(sgn && r.coin() ? "-" : "") + "9" + digits(r, sizeof(I) == 4 ? 10 : 20, sizeof(I) == 4 ? 12 : 22), Invalid, "out-of-range"}; break;
    case 15: { std::string t = v; t.push_back('\0'); t += "1"; s = {t, Invalid, "embedded-NUL"}; } break;
    default: if (!sgn) s = {"-" + d, Unjudged, "negative-for-unsigned"}; else s = {"true", Invalid, "not-a-number"}; break;
    }
    return s;
}
inline Sample boolSample(vh::Rng& r) {
    Sample s;
    switch (r.integer(0, 11)) {
    case 0: case 1: s = {pad(r) + mixCase(r, r.coin() ? "true" : "false") + pad(r), Valid, "name"}; break;
    case 2: case 3: s = {pad(r) + (r.coin() ? "0" : "1") + pad(r), Valid, "digit"}; break;
    case 4: { static const char* g[] = {"2", "10", "-1", "7", "11"}; s = {std::string(g[r.integer(0, 4)]), Invalid, "other-number"}; } break;
    case 5: { static const char* g[] = {"yes", "no", "t", "f", "on", "off", "tru", "fals", "truee", "falsee", "true1", "T RUE"}; s = {mixCase(r, g[r.integer(0, 11)]), Invalid, "not-a-bool-name"}; } break;
    case 6: s = {std::string(r.coin() ? "1" : "0") + (r.coin() ? "abc" : "x"), Invalid, "trailing-garbage"}; break;
    case 7: s = {std::string(r.coin() ? "true" : "1") + " " + (r.coin() ? "false" : "0"), Invalid, "second-value"}; break;
    case 8: s = {r.coin() ? "" : " \n", Invalid, "empty-or-blank"}; break;
    case 9: s = {std::string(r.coin() ? "0.0" : "1.0"), Invalid, "decimal"}; break;
    case 10: { static const char* g[] = {"+1", "+0", "01", "00", "-0"}; s = {std::string(g[r.integer(0, 4)]), Unjudged, "signed-or-padded-digit"}; } break;
    default: s = {std::string(r.coin() ? "true" : "false") + (r.coin() ? "," : "."), Invalid, "trailing-punctuation"}; break;
    }
    return s;
}
inline Sample complexSample(vh::Rng& r) {
    Sample s; std::string c1, c2; const std::string a = validFloatLiteral(r, c1), b = validFloatLiteral(r, c2);
    switch (r.integer(0, 10)) {
    case 0: case 1: case 2: s = {pad(r) + "(" + a + "," + b + ")" + pad(r), Valid, "pair"}; break;
    case 3: s = {"(" + a + ")", Valid, "parenthesised-real"}; break;
    case 4: s = {pad(r) + a + pad(r), Valid, "bare-real"}; break;
    case 5: s = {"(" + a + "," + b, Invalid, "missing-close"}; break;
    case 6: s = {a + "," + b + ")", Invalid, "missing-open"}; break;
    case 7: s = {"(" + a + "," + b + ")" + (r.coin() ? "x" : " 1"), Invalid, "trailing-garbage"}; break;
    case 8: s = {"(" + a + ";" + b + ")", Invalid, "wrong-separator"}; break;
    case 9: { static const char* g[] = {"()", "(,)", "", "(", ")", "(,1)", "(1,)"}; s = {std::string(g[r.integer(0, 6)]), Invalid, "empty-parts"}; } break;
    default: s = {"(" + a + "," + b + "," + a + ")", Invalid, "three-parts"}; break;
    }
    return s;
}

template <class T> inline void judgeAcceptance(vh::Ctx& c, const Sample& s) {
    const std::string tn = TName<T>::n();
    c.setPhase("acceptance " + tn + " " + s.cls);
    const String str(s.text);
    T out = T(); bool got = false, tryThrew = false, convThrew = false; std::string what;
    try { got = str.tryConvertTo<T>(out); } catch (const std::exception& e) { tryThrew = true; what = e.what(); }
    try { T tmp; str.convertTo<T>(tmp); } catch (const std::exception& e) { convThrew = true; }
    if (s.label == Unjudged) { c.obs("acceptance-unjudged:" + tn + ":" + s.cls + (got ? ":accepted" : ":rejected")); return; }
    c.cover("acceptance:" + tn + ":" + (s.label == Valid ? "valid:" : "invalid:") + s.cls);
    auto W = [&](const char* w) { return [&, w]() { std::string shown; Json::esc(s.text, shown); return Json::obj().set("what", w).set("type", tn).set("class", s.cls).set("text_json", shown).set("expected", s.label == Valid ? "accept" : "reject").set("tryConvertTo", got).set("convertTo_threw", convThrew).set("value", jv(out)); }; };
    c.require("acceptance:tryConvertTo-threw:" + tn, !tryThrew, W("tryConvertTo threw instead of returning a status"));
    if (s.label == Valid) c.require("acceptance:rejects-valid:" + tn + ":" + s.cls, got, W("tryConvertTo<T> rejected a valid literal"));
    else                  c.require("acceptance:accepts-invalid:" + tn + ":" + s.cls, !got, W("tryConvertTo<T> accepted a string that is not a T literal"));
    c.require("acceptance:convertTo-throws-iff-tryConvertTo-fails:" + tn, convThrew == !got, W("convertTo<T> and tryConvertTo<T> disagree"));
}

inline void acceptance(vh::Ctx& c, vh::Rng& r) {
    for (int rep = 0; rep < 8; ++rep) {
        judgeAcceptance<double>(c, floatSample(r));
        judgeAcceptance<float>(c, floatSample(r));
        judgeAcceptance<bool>(c, boolSample(r));
        judgeAcceptance<int>(c, intSample<int>(r));
        judgeAcceptance<long>(c, intSample<long>(r));
        judgeAcceptance<unsigned>(c, intSample<unsigned>(r));
        judgeAcceptance<std::complex<double>>(c, complexSample(r));
    }
}

} // namespace tv
