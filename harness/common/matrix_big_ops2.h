// matrix_big_ops2.h — included inside class mx::Engine<B>: mutations, resizing, element access.

// source object usable on the right-hand side of an in-place operation on d: either the very
// same object, or one that shares no element with d (overlapping source/destination is an
// aliasing hazard the documentation does not define)
bool okSource(const Obj& d, const Obj& s) const { return &d == &s || !sharesMemory(d, s); }
static bool sameShapeClassOrMatrix(const Obj& d, const Obj& s) { return shapeOf(d.kind) == 0 || shapeOf(d.kind) == shapeOf(s.kind); }

// d = s  (copy assignment; owner: reallocating, view: write-through with equal dimensions)
bool op_assign() {
    Obj* d = pick([](const Obj& o) { return o.writable; }); if (!d) return false;
    Obj* s = pick([&](const Obj& o) {
        if (o.t != d->t || !okSource(*d, o) || !sameShapeClassOrMatrix(*d, o)) return false;
        if (d->isOwner) {
            if ((o.nr != d->nr || o.nc != d->nc) && o.own == d->own) return false;   // source would die with the reallocation
            return (d->fixR < 0 || d->fixR == o.nr) && (d->fixC < 0 || d->fixC == o.nc);
        }
        return o.nr == d->nr && o.nc == d->nc;
    });
    if (!s) return false;
    bool resized = (s->nr != d->nr || s->nc != d->nc);
    // input class: Matrix_ handle whose storage is 1-d (deep copy of a row/column shaped source)
    // reshaped to a genuinely 2-d size; generated rarely and keyed separately
    bool reshape1d = resized && d->kind == MO && s->nr != 1 && s->nc != 1 && lib1d(*d);
    if (reshape1d && !(allowReshape1d && r.coin(0.3))) return false;
    std::vector<C> L = logicalC(*s);
    std::string st = tag(*s);
    if (resized) destroyDependents(*d);
    log("assign " + tag(*d) + " = " + st + (resized ? " (reallocating)" : ""));
    withT(d->t, [&](auto tt) {
        constexpr int T = decltype(tt)::value;
        withObj<T>(*d, [&](auto& dst) {
            typedef std::decay_t<decltype(dst)> DT; typedef EltT<T> E;
            if constexpr (std::is_base_of<VectorBase<E>, DT>::value) dst = asVec<T>(*s);
            else if constexpr (std::is_base_of<RowVectorBase<E>, DT>::value) dst = asRow<T>(*s);
            else dst = asBase<T>(*s);
        });
    });
    if (resized) { d->own = newOwnerModel(s->nr, s->nc, d->t); d->nr = s->nr; d->nc = s->nc; d->map = identityMap(d->nr * d->nc); }
    for (int e = 0; e < d->nr * d->nc; ++e) for (int k = 0; k < K; ++k) lset(*d, e, k, L[(size_t)e * K + k]);
    cover(reshape1d ? "assign-realloc-1d-storage-to-2d" : resized ? "assign-realloc" : (d->isOwner ? "assign-owner" : "assign-view"), *d);
    if (reshape1d) compareAll("reshape-1d-storage-to-2d:assign-realloc", d);
    else compareAll(okey(resized ? "assign-realloc" : (d->isOwner ? "assign-owner" : "assign-view"), *d), d);
    return true;
}

// fills and scalar assignment
bool op_fill() {
    Obj* d = pick([](const Obj& o) { return o.writable; }); if (!d) return false;
    int v = r.integer(0, 4);
    static const char* nm[] = {"setTo", "setToZero", "setToNaN", "assign-element", "elementwiseAssign"};
    C val[K]; randEltVals(val);
    if (v == 2 && !r.coin(0.3)) v = 0;           // keep NaNs rare
    log(std::string(nm[v]) + " on " + tag(*d));
    withT(d->t, [&](auto tt) {
        constexpr int T = decltype(tt)::value; typedef EltT<T> E; E e = mkElt<E>(val);
        if (v == 0) asBase<T>(*d).setTo(e);
        else if (v == 1) asBase<T>(*d).setToZero();
        else if (v == 2) asBase<T>(*d).setToNaN();
        else if (v == 3) withObj<T>(*d, [&](auto& dst) { dst = e; });
        else asBase<T>(*d).elementwiseAssign(e);
    });
    const P nan = std::numeric_limits<P>::quiet_NaN();
    bool diagOnly = (v == 3 && shapeOf(d->kind) == 0);     // Matrix = element: scalar-matrix semantics
    for (int j = 0; j < d->nc; ++j) for (int i = 0; i < d->nr; ++i) for (int k = 0; k < K; ++k) {
        C x = val[k];
        if (v == 1) x = C(0, 0); else if (v == 2) x = C(nan, Cplx ? nan : P(0));
        else if (diagOnly && i != j) x = C(0, 0);
        lset(*d, i + j * d->nr, k, x);
    }
    cover(nm[v], *d);
    compareAll(okey(nm[v], *d), d);
    return true;
}

// element-wise write access through every documented path, and read access cross-check
bool op_elementAccess() {
    Obj* d = pick([](const Obj& o) { return o.nr * o.nc > 0; }); if (!d) return false;
    int i = r.integer(0, d->nr - 1), j = r.integer(0, d->nc - 1), e = i + j * d->nr;
    bool write = d->writable && r.coin(0.6);
    C val[K]; randEltVals(val);
    int path = r.integer(0, 3);
    log(std::string(write ? "write" : "read") + " element (" + std::to_string(i) + "," + std::to_string(j) + ") of " + tag(*d) + " path " + std::to_string(path));
    std::vector<C> got(K);
    withT(d->t, [&](auto tt) {
        constexpr int T = decltype(tt)::value; typedef EltT<T> E; E ev = mkElt<E>(val);
        withObj<T>(*d, [&](auto& m) {
            typedef std::decay_t<decltype(m)> DT; const DT& cm = m;
            constexpr bool is1d = std::is_base_of<VectorBase<E>, DT>::value || std::is_base_of<RowVectorBase<E>, DT>::value;
            const int q = i + j;
            if (write) {
                if constexpr (is1d) { if (path == 0) m[q] = ev; else if (path == 1) m(q) = ev; else if (path == 2) m.updElt(i, j) = ev; else m.MatrixBase<E>::operator()(i, j) = ev; }
                else { if (path == 0) m(i, j) = ev; else if (path == 1) m.updElt(i, j) = ev; else if (path == 2) m[i][j] = ev; else m(j)[i] = ev; }
            }
            E out;
            if constexpr (is1d) { if (path == 0) out = cm[q]; else if (path == 1) out = cm(q); else if (path == 2) out = cm.getElt(i, j); else out = cm.getAnyElt(i, j); }
            else { if (path == 0) out = cm(i, j); else if (path == 1) out = cm.getAnyElt(i, j); else if (path == 2) out = cm[i][j]; else out = cm(j)[i]; }
            ET<E>::get(out, got.data());
        });
    });
    if (write) for (int k = 0; k < K; ++k) lset(*d, e, k, val[k]);
    for (int k = 0; k < K; ++k) if (!sameC(got[k], lget(*d, e, k)))
        fail("value:" + okey("element-read", *d), vh::Json::obj().set("object", tag(*d)).set("i", i).set("j", j).set("path", path).set("expected", jC(lget(*d, e, k))).set("got", jC(got[k])));
    cover(write ? "element-write" : "element-read", *d);
    compareAll(okey(write ? "element-write" : "element-read", *d), d);
    return true;
}

// resize / resizeKeep / clear on data owners (their views are destroyed first: using them afterwards is illegal)
bool op_resize() {
    Obj* d = pick([](const Obj& o) { return o.isOwner; }); if (!d) return false;
    int v = r.integer(0, 3);      // 0 resize, 1,2 resizeKeep, 3 clear
    int m = d->fixR >= 0 ? d->fixR : randDim(), n = d->fixC >= 0 ? d->fixC : randDim();
    if (m * n > 100) n = std::max(1, 100 / m);
    if (d->fixC >= 0) n = d->fixC;
    if (v == 3) { if (d->fixR > 1 || d->fixC > 1 || (d->fixR == 1 && d->fixC == 1)) v = 0; }
    if (v == 3) { m = d->fixR == 1 ? 1 : 0; n = d->fixC == 1 ? 1 : 0; if (shapeOf(d->kind) == 0 && d->fixR < 0 && d->fixC < 0) { m = 0; n = 0; } }
    if (v == 3 && (!d->canClear || (shapeOf(d->kind) == 0 && (d->fixR >= 0 || d->fixC >= 0)))) v = 0;   // Matrix_ handles with an inherited 1-d commitment: clear() result not modelled
    bool reshape1d = v != 3 && d->kind == MO && m != 1 && n != 1 && lib1d(*d);
    if (reshape1d && !(allowReshape1d && r.coin(0.3))) { if (d->fixR < 0 && (d->fixC >= 0 || r.coin())) m = 1; else if (d->fixC < 0) n = 1; reshape1d = (m != 1 && n != 1); if (reshape1d) return false; }
    bool same = (m == d->nr && n == d->nc);
    if (!same) destroyDependents(*d);
    static const char* nm[] = {"resize", "resizeKeep", "resizeKeep", "clear"};
    std::vector<C> old = logicalC(*d); int onr = d->nr, onc = d->nc;
    log(std::string(nm[v]) + " " + tag(*d) + " -> " + std::to_string(m) + "x" + std::to_string(n));
    withT(d->t, [&](auto tt) {
        constexpr int T = decltype(tt)::value;
        withObj<T>(*d, [&](auto& o) {
            typedef std::decay_t<decltype(o)> DT; typedef EltT<T> E;
            constexpr bool isV = std::is_base_of<VectorBase<E>, DT>::value, isR = std::is_base_of<RowVectorBase<E>, DT>::value;
            bool use2 = r.coin(0.3);
            if (v == 3) o.clear();
            else if (v == 0) { if constexpr (isV) { if (use2) o.MatrixBase<E>::resize(m, n); else o.resize(m); } else if constexpr (isR) { if (use2) o.MatrixBase<E>::resize(m, n); else o.resize(n); } else o.resize(m, n); }
            else { if constexpr (isV) { if (use2) o.MatrixBase<E>::resizeKeep(m, n); else o.resizeKeep(m); } else if constexpr (isR) { if (use2) o.MatrixBase<E>::resizeKeep(m, n); else o.resizeKeep(n); } else o.resizeKeep(m, n); }
        });
    });
    if (!same) {
        d->own = newOwnerModel(m, n, d->t); d->nr = m; d->nc = n; d->map = identityMap(m * n);
        // contents: kept part (resizeKeep) must be unchanged; everything else is unspecified and is
        // defined now by the client through element writes
        std::vector<char> known((size_t)m * n, 0);
        if (v == 1 || v == 2) for (int j = 0; j < std::min(n, onc); ++j) for (int i = 0; i < std::min(m, onr); ++i) {
            known[i + j * m] = 1; for (int k = 0; k < K; ++k) lset(*d, i + j * m, k, old[(size_t)(i + j * onr) * K + k]); }
        withT(d->t, [&](auto tt) {
            constexpr int T = decltype(tt)::value; typedef EltT<T> E;
            for (int j = 0; j < n; ++j) for (int i = 0; i < m; ++i) if (!known[i + j * m]) {
                C val[K]; randEltVals(val); asBase<T>(*d).updElt(i, j) = mkElt<E>(val);
                for (int k = 0; k < K; ++k) lset(*d, i + j * m, k, val[k]);
            }
        });
    }
    std::string cls = std::string(nm[v]) + (same ? "-same-size" : (m * n == 0 ? "-to-empty" : (m <= onr && n <= onc ? "-shrink" : (m >= onr && n >= onc ? "-grow" : "-mixed"))));
    cover(reshape1d ? cls + "-1d-storage-to-2d" : cls, *d);
    if (reshape1d && !same) compareAll(std::string("reshape-1d-storage-to-2d:") + nm[v], d);
    else compareAll(okey(cls, *d), d);
    return true;
}
#include "matrix_big_ops3.h"
